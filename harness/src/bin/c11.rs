//! C11 — a device that did not answer is never mistaken for one that did.
//!
//! Every public data-returning entry point of the real stack (builder methods, register_read/write,
//! status, EEPROM provider, SDO read/write, group transitions, MainDevice::wait_for_state) runs
//! against the simulated segment while a script alters working counters on the wire, loses frames
//! or makes a device drop out mid-sequence. The datagrams as delivered are logged and become the
//! case line (`c11 <recipe> <path> <args> <trace>`); the Lean model of the same path must predict the
//! same result from that trace. The EEPROM is exercised at provider level (one read_chunk / write_word /
//! clear_errors) AND through the multi-datagram paths above it: eeprom_read_raw / one `EepromRange::read`
//! (`eeraw`), eeprom_read::<T> / read_exact (`eetyped`), SubDeviceEeprom::fmmus (category walk + one
//! `read`, `eefmmus`), eeprom_write_dangerously / write_all (`eewrite`), set_station_alias (`eealias`),
//! with lengths 0..40 bytes, odd/even starts, 4- and 8-byte SII reads and a fault at every datagram
//! position. Independently of the model, a monitor knows which datagrams the
//! property requires to be checked (by command/register/phase) and reports any `Ok` that rests on a
//! datagram whose delivered counter differs from the expected one.
use ecverif::exec::{Net, Stuck, run};
use ecverif::rng::Rng;
use ecverif::sim::{AlRule, DeviceDesc, Segment, SiiFault};
use ecverif::util::{Report, hex};
use ecverif::wkcnet::{self, Act, RecDg, RecEv, Recorder};
use ethercrab::error::Error;
use ethercrab::subdevice_group::{NoDc, PreOp, SubDeviceGroup};
use ethercrab::verif::eeprom::{DeviceEeprom, Eeprom, EepromDataProvider, range_read, range_skip, range_write_all};
use ethercrab::{Command, MainDevice, MainDeviceConfig, SubDeviceState, Timeouts};
use std::cell::RefCell;
use std::panic::{AssertUnwindSafe, catch_unwind};
use std::rc::Rc;
use std::time::Duration;

const FPRD: u8 = 4;
const FPWR: u8 = 5;
const BRD: u8 = 7;

type Group = SubDeviceGroup<8, 64, ethercrab::DefaultLock, PreOp, NoDc>;

fn timeouts() -> Timeouts {
    Timeouts {
        state_transition: Duration::from_millis(20),
        pdu: Duration::from_millis(2),
        eeprom: Duration::from_millis(10),
        wait_loop_delay: Duration::from_micros(500),
        mailbox_echo: Duration::from_millis(10),
        mailbox_response: Duration::from_millis(20),
    }
}

fn mode() -> &'static str {
    if cfg!(debug_assertions) { "debug" } else { "release" }
}

/// What a finished call looks like to the comparison: canonical result token + did a wrapper deadline end it.
struct Outcome {
    token: String,
    deadline: bool,
    ok: bool,
    wkc_err: Option<(u16, u16)>,
}

fn outcome<T>(r: Result<Result<Result<T, Error>, Stuck>, ()>, show: impl FnOnce(T) -> String) -> Outcome {
    match r {
        Err(()) => Outcome { token: "panic".into(), deadline: false, ok: false, wkc_err: None },
        Ok(Err(st)) => Outcome { token: format!("stuck:{st:?}"), deadline: false, ok: false, wkc_err: None },
        Ok(Ok(Ok(v))) => Outcome { token: show(v), deadline: false, ok: true, wkc_err: None },
        Ok(Ok(Err(e))) => Outcome {
            token: wkcnet::err_token(&e),
            deadline: wkcnet::is_deadline(&e),
            ok: false,
            wkc_err: if let Error::WorkingCounter { expected, received } = e { Some((expected, received)) } else { None },
        },
    }
}

fn hex_ok(b: &[u8]) -> String {
    format!("ok:{}", hex(b))
}

/// Random wire faults for a call expected to send about `span` datagrams.
fn faults(r: &mut Rng, span: usize, ndev: usize) -> Vec<(usize, Act)> {
    let mut s = Vec::new();
    let k = match r.below(10) {
        0..=2 => 0,
        3..=7 => 1,
        _ => 2,
    };
    for _ in 0..k {
        let at = r.below(span.max(1) as u64 + 1) as usize;
        let act = match r.below(8) {
            0 | 1 => Act::SetWkc(0),
            2 => Act::SetWkc(2),
            3 => Act::SetWkc(r.below(4) as u16),
            4 => Act::AddWkc(1),
            5 => Act::Lose(r.chance(1, 2)),
            _ => Act::DropAfter(r.below(ndev.max(1) as u64) as usize),
        };
        s.push((at, act));
    }
    s
}

fn script_token(s: &[(usize, Act)]) -> String {
    if s.is_empty() {
        return "none".into();
    }
    let mut kinds: Vec<&str> = s
        .iter()
        .map(|(_, a)| match a {
            Act::SetWkc(_) => "setwkc",
            Act::AddWkc(_) => "addwkc",
            Act::Lose(_) => "lose",
            Act::DropAfter(_) => "dropout",
            Act::SetData(_) => "setdata",
        })
        .collect();
    kinds.sort();
    kinds.dedup();
    kinds.join("+")
}

// ------------------------------------------------------------------------------------------------
// independent monitor

/// Expected working counter the PROPERTY demands for a datagram of a composite path (None: exempt).
fn required(path: &str, d: &RecDg, before_mbx_write: bool, num: u16) -> Option<u16> {
    match path {
        "regr" | "regw" | "status" | "eeclr" => Some(1),
        "eerd" | "eewr" => if d.cmd == FPWR { None } else { Some(1) },
        // the multi-datagram EEPROM paths: every SII status poll (FPRD 0x0502) and data read (FPRD
        // 0x0508) and the error-reset write-and-read-back of clear_errors (FPWR 0x0502 carrying the
        // 2-byte SiiControl) must be answered by exactly one device; the 6-byte read/write command and
        // the data-register write are the documented fire-and-forget writes
        "eeraw" | "eetyped" | "eefmmus" | "eewrite" | "eealias" => {
            if d.cmd == FPWR {
                if d.ado == 0x0502 && d.len == 2 { Some(1) } else { None }
            } else {
                Some(1)
            }
        }
        "mbx" => {
            if d.cmd == FPWR {
                None // fire-and-forget mailbox write (documented exempt)
            } else if d.ado >= 0x1000 && before_mbx_write {
                None // ignore_wkc read that empties a stale mailbox (explicit opt-out)
            } else {
                Some(1)
            }
        }
        "grp" | "reqop" => Some(1),
        "mdw" => if d.cmd == BRD { Some(num) } else { None },
        _ => None,
    }
}

fn monitor_composite(path: &str, rec: &Recorder, out: &Outcome, num: u16, rep: &mut Report, line: &str) {
    let mut before_write = true;
    let mut checked: Vec<(u16, u16)> = Vec::new(); // (required, delivered) of every non-exempt datagram
    // group status frames: is_state stops reading a frame at the first poll that reports another
    // state, so the polls behind it in the same frame are never looked at (nothing of them is used)
    let mut unread: Vec<usize> = Vec::new();
    if path == "grp" {
        let mut cur_frame = usize::MAX;
        let mut stopped = false;
        for (i, e) in rec.evs.iter().enumerate() {
            if let RecEv::Dg(d) = e {
                if d.cmd == FPRD && d.ado == 0x0130 {
                    if d.frame != cur_frame {
                        cur_frame = d.frame;
                        stopped = false;
                    }
                    if stopped {
                        unread.push(i);
                    } else if d.wkc == 1 && d.data[0] & 0x0f != num as u8 {
                        stopped = true;
                    }
                }
            }
        }
    }
    for (i, e) in rec.evs.iter().enumerate() {
        if let RecEv::Dg(d) = e {
            if path == "mbx" && d.cmd == FPWR {
                before_write = false;
            }
            if unread.contains(&i) {
                continue;
            }
            if let Some(exp) = required(path, d, before_write, num) {
                if d.wkc != exp && out.ok {
                    rep.fail(
                        &format!("c11/ok-despite-mismatch/{path}/{}:{:04x}", ecverif::sim::cmd_name(d.cmd), if path == "regr" || path == "regw" { 0 } else { d.ado }),
                        &format!("{path} returned Ok although a {} of register {:#06x} came back with working counter {} (expected {})", ecverif::sim::cmd_name(d.cmd), d.ado, d.wkc, exp),
                        line,
                    );
                }
                checked.push((exp, d.wkc));
            }
        }
    }
    if let Some((e, r)) = out.wkc_err {
        // the error must carry the expected count of, and the count delivered for, a datagram of
        // this call whose counter differs (the last one, except for the concurrent reads of `status`)
        let good = if path == "status" || path == "grp" { checked.iter().any(|&(x, w)| x == e && w == r && x != w) } else { checked.last() == Some(&(e, r)) && e != r };
        if !good {
            rep.fail(&format!("c11/wkc-error-wrong-counts/{path}"), &format!("{path}: WorkingCounter{{expected:{e}, received:{r}}} does not match the datagrams delivered"), line);
        }
    }
}

// ------------------------------------------------------------------------------------------------
// family 1: the builder methods against bare devices

fn prim_case(r: &mut Rng, recipe: &str, rep: &mut Report) {
    let ndev = r.below(5) as usize;
    let mut devs = Vec::new();
    for i in 0..ndev {
        let mut e = DeviceDesc::coupler("X").build();
        e.set_station_address(0x1000 + i as u16);
        for b in &mut e.mem[0x0f80..0x1000] {
            *b = r.byte();
        }
        devs.push(e);
    }
    if ndev >= 2 && r.chance(1, 4) {
        // two devices with the same station address: a configured-address command gets counter 2
        devs[1].set_station_address(0x1000);
    }
    let seg = Segment::line(devs);
    let (mut net, md) = Net::new(seg, 4, 128, timeouts(), MainDeviceConfig::default());
    let exp = match r.below(8) {
        0..=2 => "d".to_string(),
        3 => "i".to_string(),
        _ => r.below(4).to_string(),
    };
    let expected: Option<u16> = match exp.as_str() {
        "d" => Some(1),
        "i" => None,
        k => Some(k.parse().unwrap()),
    };
    let method = *r.pick(&["rx", "rs", "ws", "wr", "wrs"]);
    let reg = 0x0f80 + r.below(0x60) as u16;
    let addr = if r.chance(1, 5) { 0x2000 } else { 0x1000 + r.below(ndev.max(1) as u64) as u16 };
    let n = *r.pick(&[1usize, 2, 4, 8]);
    let fault: Vec<(usize, Act)> = match r.below(6) {
        0 => vec![(0, Act::SetWkc(r.below(4) as u16))],
        1 => vec![(0, Act::AddWkc(1))],
        2 => vec![(0, Act::Lose(r.chance(1, 2)))],
        _ => vec![],
    };
    rep.hit(&format!("prim:fault:{}", script_token(&fault)));
    rep.hit(&format!("prim:exp:{}", if exp == "d" || exp == "i" { exp.as_str() } else { "k" }));
    let rec = wkcnet::install(&mut net, fault);
    let is_read = method == "rx" || method == "rs";
    let kind = if is_read { r.below(4) } else { r.below(5) };
    let data = r.bytes(n);
    rep.hit(&format!("prim:{method}:{}", if is_read { ["fprd", "aprd", "brd", "frmw"][kind as usize] } else { ["fpwr", "apwr", "bwr", "lwr", "lrw"][kind as usize] }));
    let res = catch_unwind(AssertUnwindSafe(|| {
        run(&mut net, async {
            if is_read {
                let c = match kind {
                    0 => Command::fprd(addr, reg),
                    1 => Command::aprd(r.below(5) as u16, reg),
                    2 => Command::brd(reg),
                    _ => Command::frmw(addr, reg),
                };
                let c = match exp.as_str() {
                    "d" => c,
                    "i" => c.ignore_wkc(),
                    k => c.with_wkc(k.parse().unwrap()),
                };
                if method == "rx" {
                    match n {
                        1 => c.receive::<[u8; 1]>(md).await.map(|v| v.to_vec()),
                        2 => c.receive::<[u8; 2]>(md).await.map(|v| v.to_vec()),
                        4 => c.receive::<[u8; 4]>(md).await.map(|v| v.to_vec()),
                        _ => c.receive::<[u8; 8]>(md).await.map(|v| v.to_vec()),
                    }
                    .map(Some)
                } else {
                    c.receive_slice(md, n as u16).await.map(|p| Some(p.to_vec()))
                }
            } else {
                let c = match kind {
                    0 => Command::fpwr(addr, reg),
                    1 => Command::apwr(r.below(5) as u16, reg),
                    2 => Command::bwr(reg),
                    3 => Command::lwr(0x10000 + reg as u32),
                    _ => Command::lrw(0x10000 + reg as u32),
                };
                let c = match exp.as_str() {
                    "d" => c,
                    "i" => c.ignore_wkc(),
                    k => c.with_wkc(k.parse().unwrap()),
                };
                match method {
                    "ws" => c.send(md, &data[..]).await.map(|_| None),
                    "wr" => match n {
                        1 => c.send_receive::<[u8; 1]>(md, &data[..]).await.map(|v| v.to_vec()),
                        2 => c.send_receive::<[u8; 2]>(md, &data[..]).await.map(|v| v.to_vec()),
                        4 => c.send_receive::<[u8; 4]>(md, &data[..]).await.map(|v| v.to_vec()),
                        _ => c.send_receive::<[u8; 8]>(md, &data[..]).await.map(|v| v.to_vec()),
                    }
                    .map(Some),
                    _ => c.send_receive_slice(md, &data[..]).await.map(|p| Some(p.to_vec())),
                }
            }
        })
    }))
    .map_err(|_| ());
    let returned: Option<Vec<u8>> = match &res {
        Ok(Ok(Ok(v))) => v.clone(),
        _ => None,
    };
    let out = outcome(res, |v| match v {
        Some(b) => hex_ok(&b),
        None => "ok".to_string(),
    });
    wkcnet::uninstall(&mut net);
    let rec = rec.borrow();
    let tr = wkcnet::trace(&rec, out.deadline);
    let line = match method {
        "rx" | "wr" => format!("c11 {recipe} {method} {exp} {n} {tr}"),
        _ => format!("c11 {recipe} {method} {exp} {tr}"),
    };
    // monitor
    match rec.evs.first() {
        Some(RecEv::Lost(_)) => {
            if out.token != "timeout:pdu" {
                rep.fail("c11/prim-loss-not-timeout", &format!("{method}: frame lost but the call returned {}", out.token), &line);
            }
            rep.hit("prim:res:lost");
        }
        Some(RecEv::Dg(d)) => {
            let checked = method != "ws";
            match expected {
                Some(k) if checked && d.wkc != k => {
                    if out.ok {
                        rep.fail(&format!("c11/ok-on-wkc-mismatch/{method}"), &format!("{method} returned Ok with working counter {} while {} was expected", d.wkc, k), &line);
                    } else if out.wkc_err != Some((k, d.wkc)) {
                        rep.fail(&format!("c11/wrong-error-on-mismatch/{method}"), &format!("{method}: counter {} vs expected {} gave {}", d.wkc, k, out.token), &line);
                    }
                    rep.hit("prim:res:mismatch");
                    rep.nontrivial.insert(line.clone());
                }
                _ => {
                    if !out.ok {
                        rep.fail(&format!("c11/spurious-error/{method}"), &format!("{method}: counter {} acceptable but the call returned {}", d.wkc, out.token), &line);
                    } else if let Some(b) = &returned {
                        if b != &d.data {
                            rep.fail(&format!("c11/data-mismatch/{method}"), &format!("{method} returned {} but {} was delivered", hex(b), hex(&d.data)), &line);
                        }
                    }
                    rep.hit("prim:res:accepted");
                    if d.wkc != 1 {
                        rep.nontrivial.insert(line.clone());
                    }
                }
            }
        }
        None => rep.fail("c11/prim-nothing-sent", "no datagram was sent", &line),
    }
    rep.case(line, out.token);
    unsafe { net.recycle() };
}

// ------------------------------------------------------------------------------------------------
// family 2: composite paths on an initialised network

struct World {
    net: Net,
    md: &'static MainDevice<'static>,
    group: Option<Group>,
    ndev: usize,
}

fn build_world(r: &mut Rng, simple_only: bool) -> Option<World> {
    let mut ds = if simple_only {
        let n = r.range(1, 4) as usize;
        (0..n)
            .map(|i| match r.below(3) {
                0 => DeviceDesc::coupler(&format!("EK{i}")),
                1 => DeviceDesc::digital_in(&format!("DI{i}"), 8),
                _ => DeviceDesc::digital_out(&format!("DO{i}"), 8),
            })
            .collect::<Vec<_>>()
    } else {
        vec![DeviceDesc::coupler("EK1100"), DeviceDesc::coe_io("COE", 4, 2, 64).with_chunk(*r.pick(&[4usize, 8])), DeviceDesc::digital_in("EL1008", 8)]
    };
    if !simple_only {
        ds[1].od.insert((0x2001, 0), vec![1, 2, 3, 4, 5, 6]);
        ds[1].od.insert((0x2002, 0), vec![0xaa, 0xbb, 0xcc, 0xdd]);
        ds[1].od.insert((0x2003, 0), vec![0x11, 0x22]);
    }
    let ndev = ds.len();
    let seg = Segment::from_descs(&ds);
    let (mut net, md) = Net::new(seg, 16, 1128, timeouts(), MainDeviceConfig { dc_static_sync_iterations: 0, ..Default::default() });
    let g = run(&mut net, async { md.init_single_group::<8, 64>(|| ecverif::clock::now() * 1000).await });
    match g {
        Ok(Ok(group)) => Some(World { net, md, group: Some(group), ndev }),
        _ => None,
    }
}

fn finish(path: &str, args: &str, recipe: &str, rec: &Rc<RefCell<Recorder>>, out: Outcome, num: u16, script: &[(usize, Act)], rep: &mut Report) -> String {
    let rec = rec.borrow();
    let tr = wkcnet::trace(&rec, out.deadline);
    let line = if args.is_empty() { format!("c11 {recipe} {path} {tr}") } else { format!("c11 {recipe} {path} {args} {tr}") };
    monitor_composite(path, &rec, &out, num, rep, &line);
    rep.hit(&format!("{path}:fault:{}", script_token(script)));
    rep.hit(&format!("{path}:res:{}", out.token.split(':').next().unwrap_or("")));
    let faulty = rec.evs.iter().any(|e| match e {
        RecEv::Dg(d) => d.wkc != 1,
        RecEv::Lost(_) => true,
    });
    if faulty {
        rep.nontrivial.insert(line.clone());
    }
    rep.case(line.clone(), out.token);
    line
}

fn composite_case(r: &mut Rng, recipe: &str, rep: &mut Report, force: Option<(&str, Vec<(usize, Act)>, Params)>) {
    let drawn = *r.pick(&[
        "regr", "regw", "status", "eerd", "eerd", "eewr", "eeclr", "mbx", "mbx", "grp", "grp", "reqop", "mdw", "eeraw", "eeraw", "eeraw", "eetyped", "eetyped", "eefmmus", "eefmmus", "eewrite",
        "eealias",
    ]);
    let path = force.as_ref().map(|f| f.0).unwrap_or(drawn);
    let params = force.as_ref().map(|f| f.2.clone()).unwrap_or_default();
    let forced = force.map(|f| f.1);
    let faults = |r: &mut Rng, span: usize, ndev: usize| -> Vec<(usize, Act)> {
        let drawn = faults(r, span, ndev);
        forced.clone().unwrap_or(drawn)
    };
    let simple = matches!(path, "grp" | "reqop" | "mdw");
    let Some(mut w) = build_world(r, simple) else {
        rep.notes.push("init failed for a composite case".into());
        return;
    };
    let md = w.md;
    let group = w.group.take().unwrap();
    let ndev = w.ndev;
    match path {
        "regr" | "regw" => {
            let dev = r.below(ndev as u64) as usize;
            let n = *r.pick(&[1usize, 2, 4, 8]);
            let reg = 0x0f80 + r.below(0x60) as u16;
            for b in &mut w.net.seg.devices[dev].mem[0x0f80..0x1000] {
                *b = r.byte();
            }
            let script = faults(r, 0, ndev);
            if r.chance(1, 6) {
                w.net.seg.devices[dev].set_station_address(0); // absent from the start
            }
            let val = r.next();
            let rec = wkcnet::install(&mut w.net, script.clone());
            let res = catch_unwind(AssertUnwindSafe(|| {
                run(&mut w.net, async {
                    let sd = group.subdevice(md, dev)?;
                    if path == "regr" {
                        match n {
                            1 => sd.register_read::<[u8; 1]>(reg).await.map(|v| v.to_vec()),
                            2 => sd.register_read::<[u8; 2]>(reg).await.map(|v| v.to_vec()),
                            4 => sd.register_read::<[u8; 4]>(reg).await.map(|v| v.to_vec()),
                            _ => sd.register_read::<[u8; 8]>(reg).await.map(|v| v.to_vec()),
                        }
                    } else {
                        match n {
                            1 => sd.register_write::<u8>(reg, val as u8).await.map(|v| v.to_le_bytes().to_vec()),
                            2 => sd.register_write::<u16>(reg, val as u16).await.map(|v| v.to_le_bytes().to_vec()),
                            4 => sd.register_write::<u32>(reg, val as u32).await.map(|v| v.to_le_bytes().to_vec()),
                            _ => sd.register_write::<u64>(reg, val).await.map(|v| v.to_le_bytes().to_vec()),
                        }
                    }
                })
            }))
            .map_err(|_| ());
            let out = outcome(res, |v| hex_ok(&v));
            finish(path, &n.to_string(), recipe, &rec, out, 0, &script, rep);
        }
        "status" => {
            let dev = r.below(ndev as u64) as usize;
            if r.chance(1, 2) {
                let d = &mut w.net.seg.devices[dev];
                d.al.error = true;
                d.al.code = *r.pick(&[0x0011u16, 0x001b, 0x0000, 0x8001]);
            }
            let script = faults(r, 2, ndev);
            let rec = wkcnet::install(&mut w.net, script.clone());
            let res = catch_unwind(AssertUnwindSafe(|| {
                run(&mut w.net, async {
                    let sd = group.subdevice(md, dev)?;
                    sd.status().await
                })
            }))
            .map_err(|_| ());
            let out = outcome(res, |(s, c)| format!("ok:{}:{}", u8::from(s), wkcnet::code_num(c)));
            finish(path, "", recipe, &rec, out, 0, &script, rep);
        }
        "eerd" | "eewr" | "eeclr" => {
            let dev = r.below(ndev as u64) as usize;
            let addr = 0x1000 + dev as u16;
            let mut nak = false;
            {
                let d = &mut w.net.seg.devices[dev];
                d.sii.busy_polls = r.below(3) as u32;
                match r.below(8) {
                    0 => d.sii.faults.push_back(SiiFault::BusyForever),
                    1 => d.sii.faults.push_back(SiiFault::Busy(r.range(1, 6) as u32)),
                    2 => {
                        nak = true;
                        d.sii.faults.push_back(SiiFault::CommandError)
                    }
                    3 => {
                        nak = true;
                        d.sii.faults.push_back(SiiFault::CommandError);
                        d.sii.faults.push_back(SiiFault::CommandError);
                    }
                    _ => {}
                }
                if path == "eeclr" && r.chance(2, 3) {
                    d.sii.checksum_error = true;
                }
                if path == "eeclr" && r.chance(1, 4) {
                    d.sii.write_error = true;
                }
            }
            let script = faults(r, 4, ndev);
            let word = r.below(0x60) as u16;
            let rec = wkcnet::install(&mut w.net, script.clone());
            let res = catch_unwind(AssertUnwindSafe(|| {
                run(&mut w.net, async {
                    let mut p = DeviceEeprom::new(md, addr);
                    match path {
                        "eerd" => p.read_chunk(word).await.map(|d| Some(d.to_vec())),
                        "eewr" => p.write_word(0x70 + word, [0x5a, 0xa5]).await.map(|_| None),
                        _ => p.clear_errors().await.map(|_| None),
                    }
                })
            }))
            .map_err(|_| ());
            let returned = match &res {
                Ok(Ok(Ok(Some(v)))) => Some(v.clone()),
                _ => None,
            };
            let out = outcome(res, |v| match v {
                Some(b) => hex_ok(&b),
                None => "ok".to_string(),
            });
            if let Some(b) = returned {
                // independent data oracle: the bytes are the EEPROM image at that word
                let img = &w.net.seg.devices[dev].eeprom;
                let a = 2 * word as usize;
                let want: Vec<u8> = (0..b.len()).map(|k| img.get(a + k).copied().unwrap_or(w.net.seg.devices[dev].sii.oob_fill)).collect();
                let untouched = rec.borrow().evs.iter().all(|e| matches!(e, RecEv::Dg(d) if d.wkc == d.wkc_sim));
                // (a refused read command leaves stale data behind, which read_chunk returns: C12's subject)
                if untouched && !nak && b != want {
                    rep.fail("c11/eeprom-data-not-from-device", &format!("read_chunk({word}) returned {} but the image holds {}", hex(&b), hex(&want)), "eerd");
                }
            }
            finish(path, "", recipe, &rec, out, 0, &script, rep);
        }
        "eeraw" | "eetyped" | "eefmmus" | "eewrite" | "eealias" => {
            eeprom_case(r, recipe, rep, path, &mut w, &group, forced.clone(), &params);
        }
        "mbx" => {
            let dev = 1usize;
            w.net.seg.devices[dev].mbx_response_delay = r.below(4) as u32;
            if r.chance(1, 5) {
                // a stale message sits in the out mailbox: the clearing path (ignore_wkc) runs
                w.net.seg.devices[dev].push_mailbox_message(vec![0x0a, 0x00, 0x00, 0x00, 0x00, 0x33, 0x00, 0x20, 0x4f, 0x02, 0x20, 0x00, 1, 2, 0, 0]);
            }
            let script = faults(r, 7, ndev);
            let write = r.chance(1, 3);
            let (idx, want): (u16, Vec<u8>) = if r.chance(1, 2) { (0x2002, vec![0xaa, 0xbb, 0xcc, 0xdd]) } else { (0x2001, vec![1, 2, 3, 4, 5, 6]) };
            let rec = wkcnet::install(&mut w.net, script.clone());
            let res = catch_unwind(AssertUnwindSafe(|| {
                run(&mut w.net, async {
                    let sd = group.subdevice(md, dev)?;
                    if write {
                        sd.sdo_write(0x2003, 0, 0x1234u16).await.map(|_| None)
                    } else if idx == 0x2002 {
                        sd.sdo_read::<[u8; 4]>(idx, 0).await.map(|v| Some(v.to_vec()))
                    } else {
                        sd.sdo_read::<[u8; 6]>(idx, 0).await.map(|v| Some(v.to_vec()))
                    }
                })
            }))
            .map_err(|_| ());
            // exchange-level canonicalisation: a CoE-level refusal/parse error means the mailbox
            // exchange itself completed (what the model predicts); the CoE layer is C15/C16
            let res = match res {
                Ok(Ok(Err(Error::Mailbox(m)))) => {
                    rep.hit(&format!("mbx:coe-error:{}", format!("{m:?}").split(['{', '(', ' ']).next().unwrap_or("")));
                    Ok(Ok(Ok(None)))
                }
                // the 1-byte SM status polls always decode: a Wire error can only come from the CoE
                // layer parsing the response it was handed (e.g. a refused, all-zero mailbox read
                // that the faulty wire re-labelled with counter 1)
                Ok(Ok(Err(Error::Wire(_)))) => {
                    rep.hit("mbx:coe-error:Wire");
                    Ok(Ok(Ok(None)))
                }
                other => other,
            };
            if let Ok(Ok(Ok(Some(v)))) = &res {
                let untouched = rec.borrow().evs.iter().all(|e| matches!(e, RecEv::Dg(d) if d.wkc == d.wkc_sim));
                if untouched && v != &want {
                    rep.fail("c11/sdo-data-not-from-device", &format!("sdo_read({idx:#x}) returned {} but the object holds {}", hex(v), hex(&want)), "mbx");
                }
            }
            let out = outcome(res, |_| "ok".to_string());
            finish(path, "1", recipe, &rec, out, 0, &script, rep);
        }
        "grp" | "reqop" | "mdw" => {
            let members: Vec<String> = (0..ndev).map(|i| (0x1000 + i).to_string()).collect();
            let members = members.join(",");
            // healthy set-up up to SAFE-OP, unrecorded
            let g = run(&mut w.net, async { group.into_safe_op(md).await });
            let Ok(Ok(g)) = g else {
                rep.notes.push("set-up to SAFE-OP failed".into());
                return;
            };
            // device behaviour for the OP request
            for d in w.net.seg.devices.iter_mut() {
                match r.below(10) {
                    0 => d.al.script.push_back((Some(8), AlRule::Stall)),
                    1 => d.al.script.push_back((Some(8), AlRule::Refuse(0x001b))),
                    2 | 3 => d.al.script.push_back((Some(8), AlRule::AcceptAfterPolls(r.range(1, 4) as u32))),
                    _ => {}
                }
            }
            let pdu_len = 1128 - 16;
            match path {
                "grp" => {
                    let script = faults(r, 2 * ndev + 2, ndev);
                    let rec = wkcnet::install(&mut w.net, script.clone());
                    let res = catch_unwind(AssertUnwindSafe(|| run(&mut w.net, async { g.into_op(md).await.map(|_| ()) }))).map_err(|_| ());
                    let out = outcome(res, |_| "ok".to_string());
                    finish(path, &format!("{} {pdu_len} 8 {members}", mode()), recipe, &rec, out, 8, &script, rep);
                }
                "reqop" => {
                    let script = faults(r, ndev, ndev);
                    let rec = wkcnet::install(&mut w.net, script.clone());
                    let res = catch_unwind(AssertUnwindSafe(|| run(&mut w.net, async { g.request_into_op(md).await.map(|_| ()) }))).map_err(|_| ());
                    let out = outcome(res, |_| "ok".to_string());
                    finish(path, &members, recipe, &rec, out, 0, &script, rep);
                }
                _ => {
                    let desired = if r.chance(3, 4) { SubDeviceState::SafeOp } else { SubDeviceState::Op };
                    if r.chance(1, 4) {
                        let k = r.below(ndev as u64) as usize;
                        w.net.seg.devices[k].al.error = true;
                        w.net.seg.devices[k].al.code = 0x001b;
                    }
                    let script = faults(r, 2, ndev);
                    let rec = wkcnet::install(&mut w.net, script.clone());
                    let res = catch_unwind(AssertUnwindSafe(|| run(&mut w.net, async { md.wait_for_state(desired).await }))).map_err(|_| ());
                    let out = outcome(res, |_| "ok".to_string());
                    finish(path, &format!("{ndev} {}", u8::from(desired)), recipe, &rec, out, ndev as u16, &script, rep);
                    let _ = g;
                }
            }
        }
        _ => unreachable!(),
    }
    wkcnet::uninstall(&mut w.net);
    unsafe { w.net.recycle() };
}

// ------------------------------------------------------------------------------------------------
// family 3: multi-datagram EEPROM paths (above the provider)

/// Overrides of the random parameters of an EEPROM case (corpus recipes): `n` bytes requested /
/// written, `w` start word, `c` SII chunk (4|8), `b` busy polls after each command, `s` bytes skipped
/// before the read, `v` bytes covered by the range, `f` words of the FMMU category, `p` categories
/// in front of it. E.g. `n12w5c4b0`.
#[derive(Clone, Default)]
struct Params {
    n: Option<usize>,
    word: Option<u16>,
    chunk: Option<usize>,
    busy: Option<u32>,
    skip: Option<usize>,
    cover: Option<usize>,
    fmmu_words: Option<usize>,
    pre: Option<usize>,
}

impl Params {
    fn parse(s: &str) -> Params {
        let mut p = Params::default();
        let b = s.as_bytes();
        let mut i = 0;
        while i < b.len() {
            let key = b[i] as char;
            i += 1;
            let st = i;
            while i < b.len() && b[i].is_ascii_digit() {
                i += 1;
            }
            let Ok(v) = s[st..i].parse::<usize>() else { continue };
            match key {
                'n' => p.n = Some(v),
                'w' => p.word = Some(v as u16),
                'c' => p.chunk = Some(if v == 8 { 8 } else { 4 }),
                'b' => p.busy = Some(v as u32),
                's' => p.skip = Some(v),
                'v' => p.cover = Some(v),
                'f' => p.fmmu_words = Some(v),
                'p' => p.pre = Some(v),
                _ => {}
            }
        }
        p
    }
}

/// Wire faults for a call expected to send about `span` datagrams to device `dev`: mostly ONE fault at
/// a uniformly drawn datagram position (so every position of a multi-chunk sequence is hit).
fn ee_faults(r: &mut Rng, span: usize, dev: usize) -> Vec<(usize, Act)> {
    let mut s = Vec::new();
    let k = match r.below(10) {
        0 | 1 => 0,
        2..=8 => 1,
        _ => 2,
    };
    for _ in 0..k {
        let at = r.below(span.max(1) as u64 + 1) as usize;
        let act = match r.below(9) {
            0 | 1 => Act::SetWkc(0),
            2 => Act::SetWkc(2),
            3 => Act::SetWkc(r.below(4) as u16),
            4 => Act::AddWkc(1),
            5 => Act::Lose(r.chance(1, 2)),
            _ => Act::DropAfter(dev),
        };
        s.push((at, act));
    }
    s
}

macro_rules! typed_read {
    ($sd:expr, $md:expr, $word:expr, $n:expr, [$($k:literal)*]) => {
        match $n {
            $($k => $sd.eeprom_read::<[u8; $k]>($md, $word).await.map(|v| v.to_vec()),)*
            _ => unreachable!(),
        }
    };
}

/// The bytes a chunked read starting at byte `pos` for `n` bytes takes from the SII data reads
/// (FPRD 0x0508) that were delivered, in order: an odd position drops the first byte of a chunk.
fn delivered_bytes(rec: &Recorder, mut pos: usize, n: usize) -> Vec<u8> {
    let mut out = Vec::new();
    for e in &rec.evs {
        if let RecEv::Dg(d) = e {
            if d.cmd == FPRD && d.ado == 0x0508 && out.len() < n {
                let c = &d.data[(pos % 2).min(d.data.len())..];
                let k = c.len().min(n - out.len());
                out.extend_from_slice(&c[..k]);
                pos += k;
            }
        }
    }
    out
}

fn all_required_serviced(path: &str, rec: &Recorder) -> bool {
    rec.evs.iter().all(|e| match e {
        RecEv::Dg(d) => required(path, d, false, 0).map(|x| x == d.wkc).unwrap_or(true),
        RecEv::Lost(_) => false,
    })
}

fn eeprom_case(r: &mut Rng, recipe: &str, rep: &mut Report, path: &str, w: &mut World, group: &Group, forced: Option<Vec<(usize, Act)>>, p: &Params) {
    let md = w.md;
    let ndev = w.ndev;
    let dev = r.below(ndev as u64) as usize;
    let addr = 0x1000 + dev as u16;
    let chunk = p.chunk.unwrap_or(*r.pick(&[4usize, 8]));
    let busy = p.busy.unwrap_or(*r.pick(&[0u32, 0, 0, 1, 2]));
    let mut nak = false;
    let quirk = r.below(16);
    {
        let d = &mut w.net.seg.devices[dev];
        d.sii.chunk = chunk;
        d.sii.busy_polls = busy;
        if forced.is_none() {
            match quirk {
                0 => d.sii.faults.push_back(SiiFault::BusyForever),
                1 => d.sii.faults.push_back(SiiFault::Busy(1 + quirk as u32 + busy)),
                2 => {
                    nak = true;
                    d.sii.faults.push_back(SiiFault::CommandError)
                }
                3 => d.sii.write_error = true,
                4 => d.sii.checksum_error = true,
                _ => {}
            }
        }
    }
    let image_len = w.net.seg.devices[dev].eeprom.len();
    let fix = |s: Vec<(usize, Act)>| -> Vec<(usize, Act)> {
        // a drop-out of a device index that does not exist means "the addressed device"
        s.into_iter().map(|(k, a)| (k, match a { Act::DropAfter(x) if x >= ndev => Act::DropAfter(dev), a => a })).collect()
    };
    let polls = 1 + busy as usize;
    match path {
        "eeraw" | "eetyped" => {
            let n_raw = match r.below(12) {
                0 => 0usize,
                1 => 1,
                _ => r.range(1, 40) as usize,
            };
            let n = p.n.unwrap_or(if path == "eetyped" { n_raw.max(1) } else { n_raw }).min(40);
            let n = if path == "eetyped" { n.max(1) } else { n };
            let word_raw = match r.below(10) {
                0 => 0xffff - r.below(4) as u16,
                1 => (image_len / 2).saturating_sub(r.below(6) as usize) as u16,
                _ => r.below(0x60) as u16,
            };
            let word = p.word.unwrap_or(word_raw);
            let public_draw = r.chance(2, 3);
            let public = path == "eetyped" || (p.skip.is_none() && p.cover.is_none() && public_draw);
            let cover_raw = match r.below(4) {
                0 => n.saturating_sub(r.below(5) as usize),
                1 => n + r.below(6) as usize,
                _ => n,
            };
            let skip_raw = r.below(4) as usize;
            let cover = if public { n } else { p.cover.unwrap_or(cover_raw) };
            let skip = if public { 0 } else { p.skip.unwrap_or(skip_raw) };
            // independent arithmetic of the window
            let start = 2 * word as usize;
            let end = (start + 2 * cover.div_ceil(2)).min(0x20000);
            let pos = start + skip;
            let skip_fails = skip > 0 && pos >= end;
            let expect_len = if skip_fails { 0 } else { n.min(end.saturating_sub(pos)) };
            let chunks = if expect_len == 0 { 0 } else { (expect_len + pos % 2).div_ceil(chunk) };
            let span = if chunks == 0 { 0 } else { 1 + chunks * (1 + polls + 1) };
            let drawn = ee_faults(r, span, dev);
            let script = fix(forced.unwrap_or(drawn));
            let rec = wkcnet::install(&mut w.net, script.clone());
            let res = catch_unwind(AssertUnwindSafe(|| {
                run(&mut w.net, async {
                    let sd = group.subdevice(md, dev)?;
                    if path == "eetyped" {
                        let v: Result<Vec<u8>, Error> = typed_read!(sd, md, word, n, [1 2 3 4 5 6 7 8 9 10 11 12 13 14 15 16 17 18 19 20 21 22 23 24 25 26 27 28 29 30 31 32 33 34 35 36 37 38 39 40]);
                        v.map(|b| (b.len(), b))
                    } else if public {
                        let mut buf = vec![0u8; n];
                        let k = sd.eeprom_read_raw(md, word, &mut buf).await?;
                        Ok((k, buf))
                    } else {
                        let ee = Eeprom::new(DeviceEeprom::new(md, addr));
                        let mut range = ee.start_at(word, cover as u16);
                        if skip > 0 {
                            range_skip(&mut range, skip as u16).map_err(Error::Eeprom)?;
                        }
                        let mut buf = vec![0u8; n];
                        let k = range_read(&mut range, &mut buf).await?;
                        Ok((k, buf))
                    }
                })
            }))
            .map_err(|_| ());
            let returned: Option<(usize, Vec<u8>)> = match &res {
                Ok(Ok(Ok((k, b)))) => Some((*k, b.clone())),
                _ => None,
            };
            let typed = path == "eetyped";
            let out = outcome(res, |(k, b)| if typed { hex_ok(&b) } else { format!("ok:{}:{}", k, hex(&b[..k.min(b.len())])) });
            let args = if typed { format!("{word} {n}") } else { format!("{word} {cover} {skip} {n}") };
            rep.hit(&format!("{path}:chunk:{chunk}"));
            rep.hit(&format!("{path}:chunks:{}", chunks.min(6)));
            rep.hit(&format!("{path}:start:{}", if pos % 2 == 1 { "odd-byte" } else if word % 2 == 1 { "odd-word" } else { "even-word" }));
            let line = finish(path, &args, recipe, &rec, out, 0, &script, rep);
            if let Some((k, b)) = returned {
                let rec = rec.borrow();
                let got = &b[..k.min(b.len())];
                // (1) a completed read is a FULL read: everything that was asked for and lies inside the window
                let full = if typed { n } else { expect_len };
                if k < full {
                    rep.fail("c11/short-read-reported-complete", &format!("{path}: Ok with {k} byte(s) although {full} were requested and lie inside the window (word {word}, {chunk}-byte SII reads)"), &line);
                } else if k > full {
                    rep.fail("c11/read-longer-than-window", &format!("{path}: Ok with {k} bytes, window holds {full}"), &line);
                }
                // (2) the bytes are the concatenation of what the serviced data reads delivered
                if all_required_serviced(path, &rec) {
                    let want = delivered_bytes(&rec, pos, k);
                    if got != &want[..] {
                        rep.fail("c11/eeprom-bytes-not-delivered", &format!("{path} returned {} but the data reads delivered {}", hex(got), hex(&want)), &line);
                    }
                }
                // (3) and, on an unaltered wire, the device's image
                let untouched = rec.evs.iter().all(|e| matches!(e, RecEv::Dg(d) if d.wkc == d.wkc_sim));
                if untouched && !nak {
                    let d = &w.net.seg.devices[dev];
                    let want: Vec<u8> = (0..k).map(|i| d.eeprom.get(pos + i).copied().unwrap_or(d.sii.oob_fill)).collect();
                    if got != &want[..] {
                        rep.fail("c11/eeprom-data-not-from-device", &format!("{path}({word}) returned {} but the image holds {}", hex(got), hex(&want)), &line);
                    }
                }
            }
        }
        "eefmmus" => {
            // the category area is rewritten: `pre` foreign categories, then (usually) an FMMU
            // category of `fw` words, then the end marker
            let pre = p.pre.unwrap_or(r.below(3) as usize);
            let fw_raw = match r.below(8) {
                0 => 0usize,
                1 => 1,
                2 => 9 + r.below(3) as usize,
                _ => 2 + r.below(7) as usize,
            };
            let fw = p.fmmu_words.unwrap_or(fw_raw);
            let present = p.fmmu_words.is_some() || !r.chance(1, 10);
            let bad_entry = p.fmmu_words.is_none() && r.chance(1, 12);
            let mut area: Vec<u8> = Vec::new();
            for _ in 0..pre {
                let ty = *r.pick(&[10u16, 30, 41, 42, 50, 51, 60, 3, 0x0800]);
                let lw = r.below(5) as usize;
                area.extend_from_slice(&ty.to_le_bytes());
                area.extend_from_slice(&(lw as u16).to_le_bytes());
                area.extend(r.bytes(2 * lw));
            }
            let mut entries: Vec<u8> = Vec::new();
            if present {
                area.extend_from_slice(&40u16.to_le_bytes());
                area.extend_from_slice(&(fw as u16).to_le_bytes());
                entries = (0..2 * fw).map(|_| *r.pick(&[0u8, 1, 2, 3, 0xff, 1, 2])).collect();
                if bad_entry && !entries.is_empty() {
                    let k = r.below(entries.len() as u64) as usize;
                    entries[k] = 7;
                }
                area.extend_from_slice(&entries);
            }
            area.extend_from_slice(&[0xff, 0xff, 0, 0, 0xff, 0xff, 0, 0]);
            {
                let d = &mut w.net.seg.devices[dev];
                if d.eeprom.len() < 0x80 + area.len() + 16 {
                    d.eeprom.resize(0x80 + area.len() + 16, 0xff);
                }
                d.eeprom[0x80..0x80 + area.len()].copy_from_slice(&area);
            }
            let held = entries.len().min(16);
            let span = (pre + 1) * (1 + polls + 1) + if held > 0 { 1 + held.div_ceil(chunk) * (1 + polls + 1) } else { 0 };
            let drawn = ee_faults(r, span, dev);
            let script = fix(forced.unwrap_or(drawn));
            let rec = wkcnet::install(&mut w.net, script.clone());
            let res = catch_unwind(AssertUnwindSafe(|| run(&mut w.net, async { Eeprom::new(DeviceEeprom::new(md, addr)).fmmus().await.map(|v| v.to_vec()) }))).map_err(|_| ());
            let returned: Option<Vec<u8>> = match &res {
                Ok(Ok(Ok(v))) => Some(v.clone()),
                _ => None,
            };
            let out = outcome(res, |v| hex_ok(&v));
            rep.hit(&format!("eefmmus:chunk:{chunk}"));
            rep.hit(&format!("eefmmus:entries:{}", if !present { "none".to_string() } else { format!("{}", (held + 3) / 4 * 4) }));
            let line = finish(path, "", recipe, &rec, out, 0, &script, rep);
            if let Some(v) = returned {
                let rec = rec.borrow();
                let untouched = rec.evs.iter().all(|e| matches!(e, RecEv::Dg(d) if d.wkc == d.wkc_sim));
                // a completed FMMU query lists the whole category (up to the 16 entries of the buffer)
                if v.len() < held && !nak {
                    rep.fail("c11/short-read-reported-complete", &format!("fmmus(): Ok with {} entries although the category holds {held}", v.len()), &line);
                }
                if untouched && !nak {
                    let want: Vec<u8> = entries[..held].iter().map(|&b| if b == 0xff { 0 } else { b }).collect();
                    if v != want {
                        rep.fail("c11/eeprom-data-not-from-device", &format!("fmmus() returned {} but the category holds {}", hex(&v), hex(&want)), &line);
                    }
                }
            }
        }
        "eewrite" | "eealias" => {
            let n_raw = *r.pick(&[1usize, 2, 4, 8, 2, 4, 8, 3, 5, 6, 7, 10, 12]);
            let n = p.n.unwrap_or(n_raw).clamp(1, 16);
            let word = p.word.unwrap_or(r.below(0x38) as u16);
            let public = matches!(n, 1 | 2 | 4 | 8) && r.chance(2, 3);
            let value = r.bytes(n);
            let alias = r.next() as u16;
            let words = n.div_ceil(2);
            let span = if path == "eewrite" { words * (polls + 2 + polls) } else { 1 + 14usize.div_ceil(chunk) * (2 + polls) + 2 * (2 * polls + 2) };
            let drawn = ee_faults(r, span, dev);
            let script = fix(forced.unwrap_or(drawn));
            let rec = wkcnet::install(&mut w.net, script.clone());
            let res = catch_unwind(AssertUnwindSafe(|| {
                run(&mut w.net, async {
                    if path == "eealias" {
                        Eeprom::new(DeviceEeprom::new(md, addr)).set_station_alias(alias).await
                    } else if public {
                        let sd = group.subdevice(md, dev)?;
                        match n {
                            1 => sd.eeprom_write_dangerously::<u8>(md, word, value[0]).await,
                            2 => sd.eeprom_write_dangerously::<u16>(md, word, u16::from_le_bytes([value[0], value[1]])).await,
                            4 => sd.eeprom_write_dangerously::<u32>(md, word, u32::from_le_bytes([value[0], value[1], value[2], value[3]])).await,
                            _ => sd.eeprom_write_dangerously::<u64>(md, word, u64::from_le_bytes([value[0], value[1], value[2], value[3], value[4], value[5], value[6], value[7]])).await,
                        }
                    } else {
                        let mut range = Eeprom::new(DeviceEeprom::new(md, addr)).start_at(word, n as u16);
                        range_write_all(&mut range, &value).await
                    }
                })
            }))
            .map_err(|_| ());
            let out = outcome(res, |_| "ok".to_string());
            rep.hit(&format!("{path}:words:{}", if path == "eewrite" { words } else { 2 }));
            let args = if path == "eewrite" { format!("{word} {n}") } else { String::new() };
            let _ = finish(path, &args, recipe, &rec, out, 0, &script, rep);
        }
        _ => unreachable!(),
    }
}

fn one(case_seed: u64, rep: &mut Report) {
    let mut r = Rng::new(case_seed);
    let recipe = format!("s{case_seed}");
    if r.chance(1, 2) { prim_case(&mut r, &recipe, rep) } else { composite_case(&mut r, &recipe, rep, None) }
}

/// Corpus recipe `k<path>.<seed>.<script>[.<params>]`; script = `n` or `_`-joined `<ordinal><s|a|l|d><value>`;
/// params (EEPROM paths only) = letters followed by numbers, see `Params`.
fn corpus_case(recipe: &str, rep: &mut Report) {
    let parts: Vec<&str> = recipe[1..].split('.').collect();
    if parts.len() != 3 && parts.len() != 4 {
        return;
    }
    let Some(path) = ["regr", "regw", "status", "eerd", "eewr", "eeclr", "mbx", "grp", "reqop", "mdw", "eeraw", "eetyped", "eefmmus", "eewrite", "eealias"].into_iter().find(|p| *p == parts[0]) else {
        return;
    };
    let params = if parts.len() == 4 { Params::parse(parts[3]) } else { Params::default() };
    let seed: u64 = parts[1].parse().unwrap_or(0);
    let mut script = Vec::new();
    if parts[2] != "n" {
        for item in parts[2].split('_') {
            let Some(pos) = item.find(|c: char| !c.is_ascii_digit()) else { continue };
            let ord: usize = item[..pos].parse().unwrap_or(0);
            let v: u16 = item[pos + 1..].parse().unwrap_or(0);
            script.push((
                ord,
                match &item[pos..pos + 1] {
                    "s" => Act::SetWkc(v),
                    "a" => Act::AddWkc(v),
                    "l" => Act::Lose(v != 0),
                    _ => Act::DropAfter(v as usize),
                },
            ));
        }
    }
    let mut r = Rng::new(seed);
    composite_case(&mut r, recipe, rep, Some((path, script, params)));
}

fn run_recipe(recipe: &str, rep: &mut Report) {
    if let Some(seed) = recipe.strip_prefix('s').and_then(|s| s.parse::<u64>().ok()) {
        one(seed, rep);
    } else if recipe.starts_with('k') {
        corpus_case(recipe, rep);
    }
}

/// Boundary cases that run first: every path healthy, with its first checked datagram unanswered,
/// with an exempt datagram unanswered, and the witnesses of the known gap (status polls of a group
/// transition coming back with a foreign working counter).
fn corpus() -> Vec<String> {
    let mut v = Vec::new();
    // the witnesses the multi-chunk EEPROM paths exist for: the device drops out right after the
    // first chunk of a 12-byte raw read / of the FMMU category read (must be a working-counter error)
    v.push("keeraw.1.3d9.n12w5c4b0".to_string());
    v.push("keefmmus.1.6d9.f3p0c4b0".to_string());
    // a fault at EVERY datagram position of multi-chunk sequences
    for (p, params, span) in [
        ("eeraw", "n12w5c4b0", 10usize),
        ("eeraw", "n13w6c4b1s1v16", 17),
        ("eeraw", "n40w0c8b0", 16),
        ("eeraw", "n9w7c8b0", 7),
        ("eetyped", "n12w8c4b0", 10),
        ("eetyped", "n16w8c8b0", 7),
        ("eefmmus", "f3p0c4b0", 10),
        ("eefmmus", "f8p1c8b1", 17),
        ("eewrite", "n6w16c4b0", 10),
        ("eealias", "c4b0", 21),
    ] {
        v.push(format!("k{p}.1.n.{params}"));
        for ord in 0..span {
            for act in ["s0", "s2", "d9", "l1", "l0"] {
                v.push(format!("k{p}.1.{ord}{act}.{params}"));
            }
        }
    }
    for seed in 1..=3u64 {
        for p in ["regr", "regw", "status", "eerd", "eewr", "eeclr", "mbx", "grp", "reqop", "mdw", "eeraw", "eetyped", "eefmmus", "eewrite", "eealias"] {
            v.push(format!("k{p}.{seed}.n"));
            v.push(format!("k{p}.{seed}.0s0"));
            v.push(format!("k{p}.{seed}.1s0"));
            v.push(format!("k{p}.{seed}.1s2"));
            v.push(format!("k{p}.{seed}.0d0"));
            v.push(format!("k{p}.{seed}.1l1"));
        }
        for ord in 1..=8 {
            v.push(format!("kgrp.{seed}.{ord}s2"));
            v.push(format!("kgrp.{seed}.{ord}s0"));
            v.push(format!("kmbx.{seed}.{ord}s0"));
            v.push(format!("keerd.{seed}.{ord}s0"));
        }
    }
    v
}

fn main() {
    let args = ecverif::parse_args();
    let mut rep = Report::default();
    if let Some(cases) = ecverif::replay_cases(&args) {
        // the former witness of the repaired status-poll gap runs in every mode: it must pass
        run_recipe("kgrp.1.2s2", &mut rep);
        for c in cases.iter().filter(|c| c.starts_with("c11 ")) {
            if let Some(recipe) = c.split(' ').nth(1) {
                run_recipe(recipe, &mut rep);
            }
        }
    } else {
        for k in corpus() {
            run_recipe(&k, &mut rep);
        }
        let mut rng = Rng::new(args.seed ^ 0xc11);
        let cases = if args.tier == "thorough" { 400000 } else { 12000 };
        for _ in 0..cases {
            let s = rng.next() >> 1;
            one(s, &mut rep);
        }
    }
    rep.write(&args.out, "c11");
}
