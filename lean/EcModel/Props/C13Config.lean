/-
  C13 (appendix, builder-c08) — "the initialisation steps built on [EEPROM data] never panic, in builds with and
  without overflow checks": the configuration arithmetic that consumes the PDO bit lengths an ARBITRARY EEPROM
  image supplies (`configure_pdos_eeprom`: `u64::from(bit_len) * u64::from(oversampling)`, `.sum::<u64>()`,
  `u16::try_from(bits.div_ceil(8))?`; `PdiOffset::increment_byte_aligned`: `bits.div_ceil(8)`).

  This closes the gap "not covered: configure_pdos_* / increment_byte_aligned arithmetic on PDO bit sums" that
  C13 recorded while the arithmetic was `u16` (c08/pdo-bit-length-u16-overflow, repaired by fix-c08-pdo-bit-length).
  Models: `EcModel/Eeprom.lean` (the parser: what `SubDeviceEeprom::pdos` returns for an arbitrary memory) and
  `EcModel/Config.lean` (the configuration code). Property theorems only; the helper lemmas (`Lemmas/ConfigEeprom.lean`)
  strengthen the postcondition of `pdoLoop_tri` (EepromSafe) from "at most 64 PDOs" to "… each with `bit_len` ≤ 255 × 255".
-/
import EcModel.Lemmas.ConfigEeprom

namespace Ec.C13
open Ec Ec.Eeprom

/-- A PDO as the parser returns it, seen by the configuration code. -/
def toConfigPdo (x : Pdo) : Config.Pdo := { index := x.index, sm := x.sm, bitLen := x.bitLen }

/-- **Whatever the EEPROM says, the PDOs it yields are within the types**: at most 64 per direction, `bit_len`
    at most 65025 — in both build modes of the parser, for every memory and chunk size. -/
theorem eeprom_pdos_within_types (m : Mode) (p : Prov) (hcs : 4 ≤ p.cs) (hb : ∀ a, p.rd a < 256) (cat : Nat)
    (l : List Pdo) (h : (pdos m p cat).1 = .ok l) : l.length ≤ 64 ∧ ∀ x ∈ l, x.bitLen ≤ 65025 :=
  (pdos_bits m p hcs (catOK_all m p hcs) hb cat).post l h

/-- **No panic in the configuration arithmetic for arbitrary EEPROM-supplied PDO bit lengths.** For every
    memory, chunk size and build mode of the parser, every list of PDOs `SubDeviceEeprom::pdos` returns, every
    oversampling configuration (`&[(u16, u16)]`) and every sync manager index: the bit-length sum of
    `configure_pdos_eeprom` never panics and has the same value in the overflow-checking and the wrapping
    build; the byte length derived from it is a value or `Err(IntegerTypeConversion)`, never a panic; and
    rounding ANY `u16` bit count in `PdiOffset::increment_byte_aligned` stays below 8192 bytes (no `+ 7`
    overflow). Before fix-c08-pdo-bit-length all three could panic in checked builds and wrapped in release builds. -/
theorem pdo_configuration_arithmetic_total (m : Mode) (p : Prov) (hcs : 4 ≤ p.cs) (hb : ∀ a, p.rd a < 256)
    (cat : Nat) (l : List Pdo) (h : (pdos m p cat).1 = .ok l)
    (os : List (Nat × Nat)) (hos : ∀ q ∈ os, q.2 < 65536) (smIdx : Nat) :
    (∀ m' w, Config.eepromSmBitLen m' os smIdx 0 (l.map toConfigPdo) ≠ .panic w) ∧
    (∀ m', Config.eepromSmBitLen m' os smIdx 0 (l.map toConfigPdo) =
      Config.eepromSmBitLen .checked os smIdx 0 (l.map toConfigPdo)) ∧
    (∀ bits, Config.eepromSmBitLen .checked os smIdx 0 (l.map toConfigPdo) = .ok bits →
      bits = Config.eepromBitsSpec os smIdx (l.map toConfigPdo)) ∧
    (∀ bits w, Config.lenBytes bits ≠ .panic w) ∧
    (∀ bits, bits < 65536 → Config.divCeil8 bits ≤ 8192) := by
  obtain ⟨hlen, hbits⟩ := eeprom_pdos_within_types m p hcs hb cat l h
  have hlen' : (l.map toConfigPdo).length ≤ 64 := by simpa using hlen
  have hb' : ∀ x ∈ l.map toConfigPdo, x.bitLen < 65536 := by
    intro x hx
    obtain ⟨y, hy, rfl⟩ := List.mem_map.1 hx
    have := hbits y hy
    simp only [toConfigPdo]
    omega
  have h64 : 0 + 4294836225 * (l.map toConfigPdo).length < 18446744073709551616 :=
    Config.mul_len_lt hlen' (by decide)
  obtain ⟨s1, s2⟩ := Config.eepromSmBitLen_safe hos smIdx 4294836225 (Nat.le_refl _) (l.map toConfigPdo) 0 h64 hb'
  have s2' : ∀ m', Config.eepromSmBitLen m' os smIdx 0 (l.map toConfigPdo) =
      Config.eepromSmBitLen .checked os smIdx 0 (l.map toConfigPdo) := s2
  refine ⟨fun m' w => by rw [s2' m']; exact s1 w, s2', ?_, fun bits w => Config.lenBytes_no_panic bits w, ?_⟩
  · intro bits hbits
    have := Config.eepromSmBitLen_ok hbits
    omega
  · intro bits hlt
    rw [Config.divCeil8_eq]
    omega

/-- Non-vacuity / the witness named in the property's quantifier ("255x255-bit PDO sums"): 64 PDOs of 65025 bits
    with oversampling 65535 — the largest sum the types allow, 272 730 456 000 bits — is computed exactly in both build
    modes and is then refused by the byte-length conversion. -/
theorem pdo_sum_255x255_fixed :
    (∀ m : Mode, Config.eepromSmBitLen m [(0x1a00, 65535)] 0 0
        ((List.range 64).map fun _ => ({ index := 0x1a00, sm := 0, bitLen := 65025 } : Config.Pdo))
      = .ok 272730456000) ∧
    Config.lenBytes 272730456000 = .err .intConv ∧
    (∀ m : Mode, Config.eepromSmBitLen m [] 0 0
        ((List.range 5).map fun _ => ({ index := 0x1a00, sm := 0, bitLen := 65025 } : Config.Pdo)) = .ok 325125) ∧
    Config.lenBytes 325125 = .ok 40641 := by
  refine ⟨fun m => by cases m <;> decide, by decide, fun m => by cases m <;> decide, by decide⟩

end Ec.C13
