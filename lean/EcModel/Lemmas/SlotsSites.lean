/-
  The slot-state transition primitives the storage model (`Slots.lean`) implements, in the source
  order of /repo, each with the model function that carries it. `Props/C03.lean` proves that the list
  regenerated from the code on every run (`Gen.transitionSites`) is exactly this list: a transition
  site that appears, disappears, or changes its primitive (compare-exchange ↔ plain store), source or
  target state breaks that theorem.
-/
import EcModel.Slots
import EcModel.Generated.Transitions

namespace Ec

/-- (file, enclosing fn, primitive, from (`*` = unconditional store), to). -/
def modelTransitionSites : List (String × String × String × String × String) := [
  ("mod.rs", "claim_created", "cas", "None", "Created"),                         -- allocLoop
  ("mod.rs", "claim_sending", "cas", "Sendable", "Sending"),                     -- opTxNext
  ("mod.rs", "claim_receiving", "cas", "Sent", "RxBusy"),                        -- rxDeliver
  ("created_frame.rs", "mark_sendable", "store", "*", "Sendable"),               -- opMark
  ("created_frame.rs", "drop", "cas", "Created", "None"),                        -- opDropCreated
  ("sendable_frame.rs", "mark_sent", "cas", "Sending", "Sent"),                  -- opTxSend, outcome 0
  ("sendable_frame.rs", "release_sending_claim", "cas", "Sending", "Sendable"),  -- opTxSend, outcome ≠ 0
  ("receiving_frame.rs", "mark_received", "cas", "RxBusy", "RxDone"),            -- rxDeliver
  ("receiving_frame.rs", "release_receiving_claim", "cas", "RxBusy", "Sent"),    -- rxDeliver: marker re-check after the claim
                                                                                  --   (never taken when the call runs without interleaving)
  ("receiving_frame.rs", "release", "store", "*", "None"),                       -- opPoll (last timeout), opDropFut
  ("receiving_frame.rs", "poll", "cas", "RxDone", "RxProcessing"),               -- opPoll
  ("receiving_frame.rs", "poll", "cas", "Sent", "Sendable"),                     -- opPoll (retry)
  ("received_frame.rs", "drop", "cas", "RxProcessing", "None"),                  -- dropReceived
  ("storage.rs", "reset", "store", "*", "None")                                  -- opReset
]

end Ec
