/-
  C12 — EEPROM reads return exactly the stored bytes and parse to what they encode.
  Property theorems only; helper lemmas live in EcModel/Lemmas.
-/
import EcModel.Lemmas.EepromPdo

namespace Ec.C12
open Ec Ec.Eeprom Ec.EepromSpec

/-! ## Range reads -/

/-- Any sequence of `read` calls on one `EepromRange`, with buffer sizes `ns`; stops at the first failure. -/
def readSeq (m : Mode) (p : Prov) : Range → List Nat → M (List (List Nat) × Range)
  | r, [] => ret ([], r)
  | r, n :: ns =>
    bind (Range.read m p r n) fun res =>
    bind (readSeq m p res.2 ns) fun rest => ret (res.1 :: rest.1, rest.2)

/-- What the property demands of such a sequence: each call returns the stored bytes at the cursor, as many as
    requested but not beyond `endp`, and the cursor advances by that number. -/
def specSeq (rd : Nat → Nat) (endp : Nat) : Nat → List Nat → List (List Nat) × Nat
  | pos, [] => ([], pos)
  | pos, n :: ns =>
    let k := min n (endp - pos)
    let rest := specSeq rd endp (pos + k) ns
    (slice rd pos k :: rest.1, rest.2)

/-- **Range reads are exact.** For every memory, chunk size ≥ 2 (devices serve 4 or 8), build mode, window
    (any cursor, odd or even; any end inside the 2^17-byte SII address space) and any sequence of partial reads of any sizes: every call
    returns exactly the stored bytes `[pos, pos + k)` with `k = min(requested, end − pos)`, never a byte from
    `end` on, never an error, never a panic. -/
theorem range_read_exact (m : Mode) (p : Prov) (hcs : 2 ≤ p.cs) (endp : Nat) (he : endp ≤ 131072) :
    ∀ (ns : List Nat) (pos : Nat),
      (readSeq m p ⟨pos, endp⟩ ns).1
        = .ok ((specSeq p.rd endp pos ns).1, ⟨(specSeq p.rd endp pos ns).2, endp⟩) := by
  intro ns
  induction ns with
  | nil => intro pos; rfl
  | cons n ns ih =>
    intro pos
    unfold readSeq
    have hr := read_ok m p hcs ⟨pos, endp⟩ n he
    rw [bind_fst_ok _ hr.1, bind_fst_ok _ (ih _)]
    rfl

/-- Taken together the calls return one contiguous piece of the window, starting at the cursor: never
    anything from beyond the end, and all of the window once enough bytes were requested. -/
theorem range_read_contiguous (rd : Nat → Nat) (endp : Nat) :
    ∀ (ns : List Nat) (pos : Nat),
      (specSeq rd endp pos ns).1.flatten = slice rd pos (min ns.sum (endp - pos)) ∧
      (specSeq rd endp pos ns).2 = pos + min ns.sum (endp - pos) := by
  intro ns
  induction ns with
  | nil => intro pos; simp [specSeq]
  | cons n ns ih =>
    intro pos
    simp only [specSeq, List.flatten_cons, List.sum_cons]
    have := ih (pos + min n (endp - pos))
    rw [this.1, this.2, slice_append]
    constructor
    · congr 1; omega
    · omega

/-- **`EepromRange::new(start_word, len_words)`, any start word, any length** (was `range_window_partial`): the
    window is exactly the bytes of the words asked for, clipped to the end of the 2^16-word address space; with
    `range_read_exact` every window of every EEPROM the word addresses can reach (up to 1 Mbit) is read exactly. -/
theorem range_window (m : Mode) (w n : Nat) :
    Range.new m w n = ret ⟨2 * w, min (2 * w + 2 * n) 131072⟩ := by
  unfold Range.new ADDRESS_SPACE_BYTES
  congr 2 <;> omega

theorem range_window_small (m : Mode) (w n : Nat) (h : 2 * w + 2 * n ≤ 131072) :
    Range.new m w n = ret ⟨2 * w, 2 * w + 2 * n⟩ := by
  rw [range_window]; congr 2; omega

/-- FIXED (was `range_window_counterexample`: words from 0x8000 up panicked in checked builds and were read from
    the wrong place — word 0x8000 read word 0 — in wrapping builds). -/
theorem range_window_fixed :
    (Range.new .checked 0x8000 4).1 = .ok ⟨65536, 65544⟩ ∧
    (Range.new .wrapping 0x8000 4).1 = .ok ⟨65536, 65544⟩ ∧
    (Range.new .checked 0x7ffe 2).1 = .ok ⟨65532, 65536⟩ ∧
    (Range.new .checked 0xffff 9).1 = .ok ⟨131070, 131072⟩ := by
  decide

/-- **`SubDevice::eeprom_read_raw(start_word, buf)`** = `start_at(start_word, buf.len()).read(buf)`, any length,
    odd or even (was `read_raw_exact_partial`, even lengths only): exactly the `n` stored bytes from the start
    word are returned — `start_at` rounds the window up to whole words and `read` stops at the buffer's end. -/
theorem read_raw_exact (m : Mode) (p : Prov) (hcs : 2 ≤ p.cs) (w n : Nat)
    (h : 2 * w + 2 * ((n + 1) / 2) ≤ 131072) :
    (bind (startAt m w n) fun r => Range.read m p r n).1
      = .ok (slice p.rd (2 * w) n, ⟨2 * w + n, 2 * w + 2 * ((n + 1) / 2)⟩) := by
  unfold startAt
  rw [range_window_small m w ((n + 1) / 2) h]
  simp only [bind_ret]
  have hr := read_ok m p hcs ⟨2 * w, 2 * w + 2 * ((n + 1) / 2)⟩ n (by simp only; omega)
  rw [hr.1]
  have : min n (2 * w + 2 * ((n + 1) / 2) - 2 * w) = n := by omega
  simp only [this]

/-- **`SubDevice::eeprom_read::<T>(start_word)`** = `start_at(start_word, PACKED_LEN).read_exact(buf)`: every
    packed length, odd ones included, reads exactly its bytes. -/
theorem read_typed_exact (m : Mode) (p : Prov) (hcs : 2 ≤ p.cs) (w n : Nat)
    (h : 2 * w + 2 * ((n + 1) / 2) ≤ 131072) :
    (bind (startAt m w n) fun r => eofToOverrun (Range.readExact m p r n)).1
      = .ok (slice p.rd (2 * w) n, ⟨2 * w + n, 2 * w + 2 * ((n + 1) / 2)⟩) := by
  unfold startAt
  rw [range_window_small m w ((n + 1) / 2) h]
  simp only [bind_ret]
  have hr := readExact_ok m p hcs ⟨2 * w, 2 * w + 2 * ((n + 1) / 2)⟩ n (by simp only; omega) (by simp only; omega)
  exact (eofToOverrun_ok hr.1).1

/-- FIXED (was `read_raw_odd_counterexample`: `start_at` turned the byte length into `len_bytes / 2` words, so a
    3-byte read returned 2 bytes, a 1-byte read 0 bytes, and `eeprom_read::<u8>` failed with `SectionOverrun`). -/
theorem read_raw_odd_fixed :
    let p : Prov := ⟨fun a => a + 1, 4⟩
    (bind (startAt .checked 4 3) fun r => Range.read .checked p r 3).1 = .ok ([9, 10, 11], ⟨11, 12⟩) ∧
    (bind (startAt .checked 4 1) fun r => Range.read .checked p r 1).1 = .ok ([9], ⟨9, 10⟩) ∧
    (bind (startAt .wrapping 4 1) fun r => eofToOverrun (Range.readExact .wrapping p r 1)).1
      = .ok ([9], ⟨9, 10⟩) := by
  decide

/-! ## Categories of a well-formed image -/

/-- The memory `p.rd` holds the image from byte 0 (whatever lies behind it). -/
def HoldsImage (p : Prov) (img : List Nat) : Prop := Holds p.rd 0 img

theorem holdsImage_imgRd (img : List Nat) (fill cs : Nat) : HoldsImage ⟨imgRd img fill, cs⟩ img := by
  have := holds_imgRd [] img [] fill
  simpa [HoldsImage] using this

theorem holds_cats {p : Prov} {hdr : List Nat} {cats : List Cat} (h : HoldsImage p (encodeSii hdr cats))
    (hhdr : hdr.length = 128) : Holds p.rd 128 (encCats cats ++ [0xff, 0xff]) := by
  unfold HoldsImage encodeSii at h
  rw [List.append_assoc] at h
  have := h.append.2
  rw [hhdr] at this
  simpa using this

/-- **Every present category is found with its exact extent.** For any image
    `header ++ pre ++ [c] ++ post ++ End` in memory (any chunk size ≥ 4, any build mode), where no category
    in `pre` has the type searched for (unknown vendor types are fine: they all map to `Nop`), fewer than 32
    empty categories come first, and the category lies inside the 128 KiB the word addresses can reach: the search returns the byte window
    of `c`'s body, exactly. -/
theorem category_found (m : Mode) (p : Prov) (hcs : 4 ≤ p.cs) (hdr : List Nat) (pre : List Cat) (c : Cat)
    (post : List Cat) (himg : HoldsImage p (encodeSii hdr (pre ++ c :: post))) (hhdr : hdr.length = 128)
    (hpre : ∀ x ∈ pre, x.WF ∧ catOf x.type ≠ catOf c.type ∧ catOf x.type ≠ Gen.Eeprom.CAT_END)
    (hc : c.WF) (hne : empties pre + (if c.body.length / 2 = 0 then 1 else 0) < 32)
    (hsize : 128 + (encCats pre).length + 4 + c.body.length ≤ 131072)
    (hstart : 128 + (encCats pre).length + 4 < 131072) :
    (category m p (catOf c.type)).1
      = .ok (some ⟨128 + (encCats pre).length + 4, 128 + (encCats pre).length + 4 + c.body.length⟩) := by
  have hh := holds_cats himg hhdr
  rw [encCats_append] at hh
  simp only [encCats, List.append_assoc] at hh
  exact category_found_at m p hcs pre c _ hh hpre hc hne hsize hstart

/-- **An absent category is reported absent**: no category of that type before the End marker ⇒ `None`. -/
theorem category_absent (m : Mode) (p : Prov) (hcs : 4 ≤ p.cs) (hdr : List Nat) (cats : List Cat) (cat : Nat)
    (himg : HoldsImage p (encodeSii hdr cats)) (hhdr : hdr.length = 128)
    (hall : ∀ x ∈ cats, x.WF ∧ catOf x.type ≠ cat ∧ catOf x.type ≠ Gen.Eeprom.CAT_END)
    (hcat : cat ≠ Gen.Eeprom.CAT_END) (hne : empties cats < 32)
    (hsize : 128 + (encCats cats).length + 4 < 131072) :
    (category m p cat).1 = .ok none := by
  have hh := holds_cats himg hhdr
  exact category_absent_at m p hcs cats cat [] (by simpa using hh) hall hcat hne hsize

/-- The full statement (any well-formed image) is FALSE of the code: 32 empty categories in front make the
    search give up (the blank-EEPROM heuristic; a deliberate choice of the code, kept). Here: 32 empty vendor
    categories, then FMMU. -/
theorem category_found_counterexample :
    let cats := (List.replicate 32 (⟨0x2000, []⟩ : Cat)) ++ [⟨40, [1, 2]⟩]
    (category .checked ⟨imgRd (encodeSii (List.replicate 128 0) cats) 255, 4⟩ 40).1 = .ok none := by
  decide

/-! ## Parsers return what the image encodes -/

/-- What the sync manager parser stores for a description (control re-packed from its parsed fields). -/
def smOf (d : SmDesc) : Sm := ⟨d.start, d.len, controlOf d.control, d.enable, d.usage⟩

theorem parseSm_enc (d : SmDesc) (hd : d.WF) : parseSm (encSm d) = ret (smOf d) := by
  obtain ⟨h1, h2, _, _, h5, h6⟩ := hd
  have he : fromBits Gen.Eeprom.SM_ENABLE_MASK d.enable = some d.enable := by
    have : ∀ e, e ≤ 15 → fromBits Gen.Eeprom.SM_ENABLE_MASK e = some e := by decide
    exact this _ h5
  have hu : enumOf Gen.Eeprom.syncManagerTypeTable Gen.Eeprom.syncManagerTypeDefault d.usage = some d.usage := by
    have : ∀ u, u ≤ 4 → enumOf Gen.Eeprom.syncManagerTypeTable Gen.Eeprom.syncManagerTypeDefault u = some u := by
      decide
    exact this _ h6
  unfold parseSm
  have g6 : (encSm d).getD 6 0 = d.enable := by simp [encSm, le16]
  have g7 : (encSm d).getD 7 0 = d.usage := by simp [encSm, le16]
  have g4 : (encSm d).getD 4 0 = d.control := by simp [encSm, le16]
  have r0 : rd16 (encSm d) = d.start := by simp [encSm, le16, rd16]; omega
  have r2 : rd16 ((encSm d).drop 2) = d.len := by simp [encSm, le16, rd16]; omega
  rw [g6, g7, he, hu, g4, r0, r2]
  rfl

theorem flatMap_length_const {β : Type} (enc : β → List Nat) (sz : Nat) :
    ∀ (l : List β), (∀ b ∈ l, (enc b).length = sz) → (l.flatMap enc).length = sz * l.length := by
  intro l
  induction l with
  | nil => intro _; simp
  | cons b l ih =>
    intro h
    simp only [List.flatMap_cons, List.length_append, List.length_cons]
    rw [h b (by simp), ih (fun b' hb' => h b' (by simp [hb']))]
    rw [Nat.mul_succ]; omega

/-- **Sync managers.** An image whose SyncManager category (type 41) holds the 8-byte encodings of up to 8
    well-formed sync managers parses to exactly those sync managers, in order. -/
theorem sync_managers_roundtrip (m : Mode) (p : Prov) (hcs : 4 ≤ p.cs) (hdr : List Nat) (pre post : List Cat)
    (sms : List SmDesc)
    (himg : HoldsImage p (encodeSii hdr (pre ++ ⟨41, sms.flatMap encSm⟩ :: post))) (hhdr : hdr.length = 128)
    (hpre : ∀ x ∈ pre, x.WF ∧ catOf x.type ≠ 41 ∧ catOf x.type ≠ Gen.Eeprom.CAT_END)
    (hsms : ∀ s ∈ sms, s.WF) (hn : sms.length ≤ 8)
    (hne : empties pre + (if sms.length = 0 then 1 else 0) < 32)
    (hsize : 128 + (encCats pre).length + 4 + 8 * sms.length < 131072) :
    (syncManagers m p).1 = .ok (sms.map smOf) := by
  have hlen : (sms.flatMap encSm).length = 8 * sms.length :=
    flatMap_length_const encSm 8 sms (fun s _ => by simp [encSm, le16])
  have hc41 : catOf 41 = 41 := by decide
  have hcat := category_found m p hcs hdr pre ⟨41, sms.flatMap encSm⟩ post himg hhdr
    (by simp only [hc41]; exact hpre) ⟨by simp, by simp only [hlen]; omega, by simp only [hlen]; omega⟩
    (by simp only [hlen]; have : 8 * sms.length / 2 = 0 ↔ sms.length = 0 := by omega
        simp only [this]; exact hne)
    (by simp only [hlen]; omega) (by omega)
  simp only [hc41, hlen] at hcat
  unfold syncManagers items
  simp only [Gen.Eeprom.CAT_SYNC_MANAGER]
  rw [bind_fst_ok _ (bind_fst_ok _ hcat |>.trans rfl)]
  have hh := holds_cats himg hhdr
  rw [encCats_append] at hh
  simp only [encCats, List.append_assoc] at hh
  have hbody : Holds p.rd (128 + (encCats pre).length + 4) (sms.flatMap encSm) := by
    have h1 := hh.append.2
    unfold encCat at h1
    simp only [List.append_assoc] at h1
    have h2 := h1.append.2.append.2.append.1
    simp only [le16_length] at h2
    rw [show 128 + (encCats pre).length + 4 = 128 + (encCats pre).length + 2 + 2 by omega]
    exact h2
  have := collectLoop_items m p (by omega) 8 Gen.Eeprom.CAP_SYNC_MANAGERS 0 parseSm encSm smOf 0 (by omega)
    sms ⟨128 + (encCats pre).length + 4, 128 + (encCats pre).length + 4 + 8 * sms.length⟩ []
    (Gen.Eeprom.CAP_SYNC_MANAGERS + 2)
    (fun s hs => ⟨by simp [encSm, le16], parseSm_enc s (hsms s hs)⟩) hbody (by simp only [hlen, Nat.add_zero])
    (by simp only; omega) (by simpa [Gen.Eeprom.CAP_SYNC_MANAGERS] using hn)
    (by simp only [Gen.Eeprom.CAP_SYNC_MANAGERS]; omega)
  simpa using this

/-- Holds-at-128 form of an image split around one category. -/
theorem holds_split {p : Prov} {hdr : List Nat} {pre post : List Cat} {c : Cat}
    (himg : HoldsImage p (encodeSii hdr (pre ++ c :: post))) (hhdr : hdr.length = 128) :
    Holds p.rd 128 (encCats pre ++ (encCat c ++ (encCats post ++ [0xff, 0xff]))) := by
  have hh := holds_cats himg hhdr
  rw [encCats_append] at hh
  simpa only [encCats, List.append_assoc] using hh

/-- **FMMU-to-sync-manager mapping** (FMMU_EX, type 42): 3-byte entries `(x, sync manager, y)`, up to 16 of
    them, followed by at most one pad byte to make the category even: parses to the sync manager indices. -/
theorem fmmu_mappings_roundtrip (m : Mode) (p : Prov) (hcs : 4 ≤ p.cs) (hdr : List Nat) (pre post : List Cat)
    (ex : List (Nat × Nat × Nat)) (pad : List Nat)
    (himg : HoldsImage p
      (encodeSii hdr (pre ++ ⟨42, (ex.flatMap fun e => [e.1, e.2.1, e.2.2]) ++ pad⟩ :: post)))
    (hhdr : hdr.length = 128)
    (hpre : ∀ x ∈ pre, x.WF ∧ catOf x.type ≠ 42 ∧ catOf x.type ≠ Gen.Eeprom.CAT_END)
    (hn : ex.length ≤ 16) (hpad : pad.length < 3) (heven : (3 * ex.length + pad.length) % 2 = 0)
    (hne : empties pre + (if (3 * ex.length + pad.length) / 2 = 0 then 1 else 0) < 32)
    (hsize : 128 + (encCats pre).length + 4 + 3 * ex.length + pad.length < 131072) :
    (fmmuMappings m p).1 = .ok (ex.map fun e => e.2.1) := by
  have hlen : (ex.flatMap fun e => [e.1, e.2.1, e.2.2]).length = 3 * ex.length :=
    flatMap_length_const _ 3 ex (fun _ _ => rfl)
  have hc42 : catOf 42 = 42 := by decide
  have hbl : ((ex.flatMap fun e => [e.1, e.2.1, e.2.2]) ++ pad).length = 3 * ex.length + pad.length := by
    rw [List.length_append, hlen]
  obtain ⟨hcat, hbody⟩ := category_found_body m p hcs pre
    ⟨42, (ex.flatMap fun e => [e.1, e.2.1, e.2.2]) ++ pad⟩ _ (holds_split himg hhdr)
    (by simp only [hc42]; exact hpre) ⟨by simp, by simp only [hbl]; exact heven, by simp only [hbl]; omega⟩
    (by simp only [hbl]; exact hne) (by simp only [hbl]; omega) (by omega)
  simp only [hc42, hbl] at hcat
  unfold fmmuMappings items
  simp only [Gen.Eeprom.CAT_FMMU_EX]
  rw [bind_fst_ok _ (bind_fst_ok _ hcat |>.trans rfl)]
  have := collectLoop_items m p (by omega) 3 Gen.Eeprom.CAP_FMMU_EX 1 parseFmmuEx
    (fun e : Nat × Nat × Nat => [e.1, e.2.1, e.2.2]) (fun e => e.2.1) pad.length hpad
    ex ⟨128 + (encCats pre).length + 4, 128 + (encCats pre).length + 4 + (3 * ex.length + pad.length)⟩ []
    (Gen.Eeprom.CAP_FMMU_EX + 2)
    (fun e _ => ⟨rfl, rfl⟩) hbody.append.1 (by simp only [hlen]; omega)
    (by simp only; omega) (by simpa [Gen.Eeprom.CAP_FMMU_EX] using hn)
    (by simp only [Gen.Eeprom.CAP_FMMU_EX]; omega)
  simpa using this

/-- Canonical FMMU usage: 0xFF is an alternative spelling of "unused". -/
def fmmuOf (u : Nat) : Nat := if u = 255 then 0 else u

theorem parseFmmus_valid : ∀ (us : List Nat), (∀ u ∈ us, u ≤ 3 ∨ u = 255) →
    parseFmmus us = ret (us.map fmmuOf) := by
  intro us
  induction us with
  | nil => intro _; rfl
  | cons u us ih =>
    intro h
    have hu : enumOf Gen.Eeprom.fmmuUsageTable Gen.Eeprom.fmmuUsageDefault u = some (fmmuOf u) := by
      rcases h u (by simp) with h3 | h255
      · have : ∀ v, v ≤ 3 → enumOf Gen.Eeprom.fmmuUsageTable Gen.Eeprom.fmmuUsageDefault v = some (fmmuOf v) := by
          decide
        exact this u h3
      · subst h255; decide
    unfold parseFmmus
    rw [hu, ih (fun v hv => h v (by simp [hv]))]
    simp

/-- **FMMU usage** (type 40): up to 16 usage bytes (an odd count is padded with a byte that itself reads as
    "unused") parse to their canonical values. -/
theorem fmmus_roundtrip (m : Mode) (p : Prov) (hcs : 4 ≤ p.cs) (hdr : List Nat) (pre post : List Cat)
    (us : List Nat) (himg : HoldsImage p (encodeSii hdr (pre ++ ⟨40, us⟩ :: post))) (hhdr : hdr.length = 128)
    (hpre : ∀ x ∈ pre, x.WF ∧ catOf x.type ≠ 40 ∧ catOf x.type ≠ Gen.Eeprom.CAT_END)
    (hus : ∀ u ∈ us, u ≤ 3 ∨ u = 255) (hn : us.length ≤ 16) (heven : us.length % 2 = 0)
    (hne : empties pre + (if us.length / 2 = 0 then 1 else 0) < 32)
    (hsize : 128 + (encCats pre).length + 4 + us.length < 131072) :
    (fmmus m p).1 = .ok (us.map fmmuOf) := by
  have hc40 : catOf 40 = 40 := by decide
  obtain ⟨hcat, hbody⟩ := category_found_body m p hcs pre ⟨40, us⟩ _ (holds_split himg hhdr)
    (by simp only [hc40]; exact hpre) ⟨by simp, heven, by simp only; omega⟩ hne (by simp only; omega) (by omega)
  simp only [hc40] at hcat
  unfold fmmus
  simp only [Gen.Eeprom.CAT_FMMU, Gen.Eeprom.FMMU_READ_BUF]
  rw [bind_fst_ok _ hcat]
  simp only
  have hr := read_ok m p (by omega) ⟨128 + (encCats pre).length + 4, 128 + (encCats pre).length + 4 + us.length⟩
    16 (by simp only; omega)
  rw [bind_fst_ok _ hr.1]
  simp only
  have hmin : min 16 (128 + (encCats pre).length + 4 + us.length - (128 + (encCats pre).length + 4)) = us.length := by
    omega
  rw [hmin]
  unfold Holds at hbody
  rw [hbody, parseFmmus_valid us hus]
  rfl

/-- **Identity** (words 8..15): vendor, product, revision, serial as stored. -/
theorem identity_roundtrip (m : Mode) (p : Prov) (hcs : 2 ≤ p.cs) (v pc rev ser : Nat)
    (hv : v < 4294967296) (hp : pc < 4294967296) (hr : rev < 4294967296) (hs : ser < 4294967296)
    (hh : Holds p.rd 16 (le32 v ++ le32 pc ++ le32 rev ++ le32 ser)) :
    (identity m p).1 = .ok (v, pc, rev, ser) := by
  unfold identity
  simp only [Gen.Eeprom.IDENTITY_WORD_ADDR]
  rw [show startAt m 8 16 = ret ⟨16, 32⟩ from by
    unfold startAt; rw [range_window_small m 8 8 (by decide)]]
  simp only [bind_ret]
  have hre := readExact_ok m p hcs ⟨16, 32⟩ 16 (by decide) (by decide)
  rw [bind_fst_ok _ (eofToOverrun_ok hre.1).1]
  unfold Holds at hh
  simp only [List.length_append, le32_length] at hh
  simp only [ret_fst]
  rw [hh]
  simp only [parseIdentity, le32, rd32, List.cons_append, List.nil_append, List.drop_succ_cons, List.drop_zero,
    List.getD_cons_zero, List.getD_cons_succ]
  congr 2
  · omega
  · congr 1
    · omega
    · congr 1 <;> omega

/-- **EEPROM size**: the size in bytes is `(word + 1) * 128` for every value of the size word (1 Kbit up to the
    register maximum; the property's 4 Mbit is word 4095). -/
theorem size_roundtrip (m : Mode) (p : Prov) (hcs : 2 ≤ p.cs) (w : Nat) (hw : w < 65536)
    (hh : Holds p.rd 124 (le16 w)) :
    (size m p).1 = .ok ((w + 1) * 128) := by
  unfold size
  simp only [Gen.Eeprom.SIZE_WORD_ADDR]
  rw [show startAt m 62 2 = ret ⟨124, 126⟩ from by
    unfold startAt; rw [range_window_small m 62 1 (by decide)]]
  simp only [bind_ret]
  have hre := readExact_ok m p hcs ⟨124, 126⟩ 2 (by decide) (by decide)
  rw [bind_fst_ok _ (eofToOverrun_ok hre.1).1]
  unfold Holds at hh
  simp only [le16_length] at hh
  simp only
  rw [hh, rd16_le16 w hw]
  rfl

/-- 4 Mbit (size word 4095) is 524288 bytes in both build modes (was reported as 0 / panicked before the fix). -/
example : let p : Prov := ⟨imgRd (List.replicate 124 0 ++ le16 4095) 255, 8⟩
    (size .wrapping p).1 = .ok 524288 ∧ (size .checked p).1 = .ok 524288 := by decide

/-- **Mailbox settings** (words 0x18..0x1C): offsets, sizes and the supported-protocol bits as stored. -/
theorem mailbox_roundtrip (m : Mode) (p : Prov) (hcs : 2 ≤ p.cs) (ro rs so ss pr hi : Nat)
    (h1 : ro < 65536) (h2 : rs < 65536) (h3 : so < 65536) (h4 : ss < 65536) (h5 : pr ≤ 63)
    (hh : Holds p.rd 48 (le16 ro ++ le16 rs ++ le16 so ++ le16 ss ++ [pr, hi])) :
    (mailboxConfig m p).1 = .ok ⟨ro, rs, so, ss, pr⟩ := by
  unfold mailboxConfig
  simp only [Gen.Eeprom.MAILBOX_WORD_ADDR]
  rw [show startAt m 24 10 = ret ⟨48, 58⟩ from by
    unfold startAt; rw [range_window_small m 24 5 (by decide)]]
  simp only [bind_ret]
  have hre := readExact_ok m p hcs ⟨48, 58⟩ 10 (by decide) (by decide)
  rw [bind_fst_ok _ (eofToOverrun_ok hre.1).1]
  unfold Holds at hh
  simp only [List.length_append, le16_length, List.length_cons, List.length_nil] at hh
  simp only
  rw [hh]
  have hb : fromBits Gen.Eeprom.MAILBOX_PROTOCOLS_MASK pr = some pr := by
    have : ∀ e, e ≤ 63 → fromBits Gen.Eeprom.MAILBOX_PROTOCOLS_MASK e = some e := by decide
    exact this _ h5
  unfold parseMailbox
  have g8 : (le16 ro ++ le16 rs ++ le16 so ++ le16 ss ++ [pr, hi]).getD 8 0 = pr := by simp [le16]
  rw [g8, hb]
  simp only [ret_fst]
  congr 2
  · simp [le16, rd16]; omega
  · simp [le16, rd16]; omega
  · simp [le16, rd16]; omega
  · simp [le16, rd16]; omega

/-- **Strings** (`find_string`, which `name()` / `description()` use): for a Strings category (type 10) holding
    `count, (len, bytes)*` and padding, index `i` (1-based, within the table) whose string fits `N` returns
    that string with NUL bytes removed and non-ASCII bytes replaced by `?`. -/
theorem find_string_roundtrip (m : Mode) (p : Prov) (hcs : 4 ≤ p.cs) (hdr : List Nat) (pre post : List Cat)
    (before : List (List Nat)) (t : List Nat) (after : List (List Nat)) (pad : List Nat) (N : Nat)
    (himg : HoldsImage p (encodeSii hdr (pre ++
      ⟨10, (before ++ t :: after).length :: ((before ++ t :: after).flatMap encStr) ++ pad⟩ :: post)))
    (hhdr : hdr.length = 128)
    (hpre : ∀ x ∈ pre, x.WF ∧ catOf x.type ≠ 10 ∧ catOf x.type ≠ Gen.Eeprom.CAT_END)
    (hwf : (⟨10, (before ++ t :: after).length :: ((before ++ t :: after).flatMap encStr) ++ pad⟩ : Cat).WF)
    (hne : empties pre < 32) (hN : t.length ≤ N)
    (hsize : 128 + (encCats pre).length + 4 +
      ((before ++ t :: after).length :: ((before ++ t :: after).flatMap encStr) ++ pad).length < 131072) :
    (findString m p N (before.length + 1)).1 = .ok (some (cleanString t)) := by
  have hc10 : catOf 10 = 10 := by decide
  generalize hbody : (before ++ t :: after).length :: ((before ++ t :: after).flatMap encStr) ++ pad = body
    at himg hwf hsize
  have hbl : 1 ≤ body.length := by rw [← hbody]; simp
  obtain ⟨hcat, hb⟩ := category_found_body m p hcs pre ⟨10, body⟩ _ (holds_split himg hhdr)
    (by simp only [hc10]; exact hpre) hwf
    (by have : ¬ body.length / 2 = 0 := by have := hwf.2.1; simp only at this; omega
        simp only [this, if_false]; omega) (by simp only; omega) (by omega)
  simp only [hc10] at hcat
  unfold findString
  rw [if_neg (by omega)]
  simp only [Gen.Eeprom.CAT_STRINGS]
  rw [bind_fst_ok _ hcat]
  simp only
  -- the count byte
  generalize hs : 128 + (encCats pre).length + 4 = s at hcat hb hsize
  rw [bind_fst_ok _ (readByte_ok m p (by omega) ⟨s, s + body.length⟩ (by simp only; omega) (by simp only; omega))]
  have hflat : (before ++ t :: after).flatMap encStr
      = before.flatMap encStr ++ (encStr t ++ after.flatMap encStr) := by simp
  have hb2 : Holds p.rd s ((before ++ t :: after).length ::
      (before.flatMap encStr ++ (encStr t ++ (after.flatMap encStr ++ pad)))) := by
    rw [← hbody, hflat] at hb; simpa using hb
  have hcount : p.rd s = (before ++ t :: after).length := by
    have := hb2.get 0 (by simp); simpa using this
  simp only [hcount, Nat.add_sub_cancel]
  rw [if_neg (by simp)]
  have hb3 : Holds p.rd (s + 1) (before.flatMap encStr ++ (encStr t ++ (after.flatMap encStr ++ pad))) := by
    have h' : Holds p.rd s ([(before ++ t :: after).length] ++
        (before.flatMap encStr ++ (encStr t ++ (after.flatMap encStr ++ pad)))) := hb2
    simpa using h'.append.2
  have hlen : body.length = 1 + (before.flatMap encStr).length + (t.length + 1)
      + ((after.flatMap encStr).length + pad.length) := by
    rw [← hbody, hflat]; simp [encStr]; omega
  rw [bind_fst_ok _ (skipStrings_enc m p (by omega) before ⟨s + 1, s + body.length⟩ _ hb3 (by simp [encStr])
    (by simp only [List.length_append, encStr, List.length_cons]; omega) (by simp only; omega))]
  -- the length byte of the wanted string
  have hb4 := hb3.append.2
  rw [bind_fst_ok _ (readByte_ok m p (by omega) _ (by simp only; omega) (by simp only; omega))]
  have hlb : p.rd (s + 1 + (before.flatMap encStr).length) = t.length := by
    have := hb4.get 0 (by simp [encStr]); simpa [encStr] using this
  simp only [hlb]
  rw [if_neg (by omega)]
  have hre := readExact_ok m p (by omega) ⟨s + 1 + (before.flatMap encStr).length + 1, s + body.length⟩ t.length
    (by simp only; omega) (by simp only; omega)
  rw [bind_fst_ok _ (eofToOverrun_ok hre.1).1]
  have hb5 : Holds p.rd (s + 1 + (before.flatMap encStr).length + 1) t := by
    have h' : Holds p.rd (s + 1 + (before.flatMap encStr).length)
        ([t.length] ++ (t ++ (after.flatMap encStr ++ pad))) := hb4
    simpa using h'.append.2.append.1
  unfold Holds at hb5
  simp only [ret_fst]
  rw [hb5]

/-- FIXED (was `find_string_one_past_counterexample`: the code tested `search_index > num_strings` after making
    the index 0-based, so index = count + 1 decoded the pad byte as a length and returned `Some("")`): with the
    two strings "A", "B", index 3 and every larger index are absent. -/
theorem find_string_one_past_fixed :
    let cats : List Cat := [⟨10, [2, 1, 0x41, 1, 0x42, 0]⟩]
    let p : Prov := ⟨imgRd (encodeSii (List.replicate 128 0) cats) 255, 4⟩
    (findString .checked p 16 2).1 = .ok (some [0x42]) ∧
    (findString .checked p 16 3).1 = .ok none ∧
    (findString .wrapping p 16 3).1 = .ok none ∧
    (findString .checked p 16 4).1 = .ok none := by
  decide

/-! ## PDO lists with bit lengths -/

/-- **PDO lists** (`maindevice_read_pdos` = TxPDO, category 50; `maindevice_write_pdos` = RxPDO, category 51).
    For EVERY list of at most 64 well-formed PDO descriptions (each: index, sync manager, DC sync byte, name
    string index, flags and up to 255 entries of index, sub-index, name string index, data type, bit length,
    flags — 8 bytes per PDO header and 8 per entry, ETG2010 Table 14) stored as a TxPDO or RxPDO category
    anywhere in the category list (`pre` and `post` arbitrary, unknown vendor categories included), any chunk
    size ≥ 4 and both build modes: the parser returns exactly one `Pdo` per description, in order, carrying its
    index, its number of entries, its sync manager and the SUM of its entries' bit lengths (everything the real
    `Pdo` keeps); no error, no panic — the `u16` sum cannot overflow (≤ 255 · 255). -/
theorem pdos_roundtrip (m : Mode) (p : Prov) (hcs : 4 ≤ p.cs) (hdr : List Nat) (pre post : List Cat)
    (cat : Nat) (hdir : cat = 50 ∨ cat = 51) (ds : List PdoDesc)
    (himg : HoldsImage p (encodeSii hdr (pre ++ ⟨cat, ds.flatMap encPdo⟩ :: post))) (hhdr : hdr.length = 128)
    (hpre : ∀ x ∈ pre, x.WF ∧ catOf x.type ≠ cat ∧ catOf x.type ≠ Gen.Eeprom.CAT_END)
    (hds : ∀ d ∈ ds, d.WF) (hn : ds.length ≤ 64)
    (hne : empties pre + (if ds.length = 0 then 1 else 0) < 32)
    (hsize : 128 + (encCats pre).length + 4 + (ds.flatMap encPdo).length < 131072) :
    (pdos m p cat).1
      = .ok (ds.map fun d => ⟨d.index, d.entries.length, d.sm, (d.entries.map fun e => e.bitLen).sum⟩) := by
  have hc : catOf cat = cat ∧ cat < 65536 := by rcases hdir with rfl | rfl <;> decide
  exact pdos_enc_at m p hcs cat hc.1 hc.2 pre ds _ (holds_split himg hhdr) hpre hds
    (by simpa [Gen.Eeprom.CAP_PDOS] using hn) hne hsize

/-- **Above the capacity**: a category with more than 64 (well-formed) PDOs is refused with `Capacity(Pdo)` —
    in both build modes, never a panic, never a truncated list. (The 65th PDO's entries are read first; the
    `push` that follows fails.) -/
theorem pdos_over_capacity (m : Mode) (p : Prov) (hcs : 4 ≤ p.cs) (hdr : List Nat) (pre post : List Cat)
    (cat : Nat) (hdir : cat = 50 ∨ cat = 51) (ds : List PdoDesc)
    (himg : HoldsImage p (encodeSii hdr (pre ++ ⟨cat, ds.flatMap encPdo⟩ :: post))) (hhdr : hdr.length = 128)
    (hpre : ∀ x ∈ pre, x.WF ∧ catOf x.type ≠ cat ∧ catOf x.type ≠ Gen.Eeprom.CAT_END)
    (hds : ∀ d ∈ ds, d.WF) (hn : 64 < ds.length) (hne : empties pre < 32)
    (hsize : 128 + (encCats pre).length + 4 + (ds.flatMap encPdo).length < 131072) :
    (pdos m p cat).1 = .err (.capacity 2) := by
  have hc : catOf cat = cat ∧ cat < 65536 := by rcases hdir with rfl | rfl <;> decide
  exact pdos_over_at m p hcs cat hc.1 hc.2 pre ds _ (holds_split himg hhdr) hpre hds
    (by simpa [Gen.Eeprom.CAP_PDOS] using hn) hne hsize

/-- **No PDO category of that direction**: the empty list (EK1100-style devices). -/
theorem pdos_absent (m : Mode) (p : Prov) (hcs : 4 ≤ p.cs) (hdr : List Nat) (cats : List Cat)
    (cat : Nat) (hdir : cat = 50 ∨ cat = 51)
    (himg : HoldsImage p (encodeSii hdr cats)) (hhdr : hdr.length = 128)
    (hall : ∀ x ∈ cats, x.WF ∧ catOf x.type ≠ cat ∧ catOf x.type ≠ Gen.Eeprom.CAT_END)
    (hne : empties cats < 32) (hsize : 128 + (encCats cats).length + 4 < 131072) :
    (pdos m p cat).1 = .ok [] := by
  have hcat := category_absent m p hcs hdr cats cat himg hhdr hall
    (by rcases hdir with rfl | rfl <;> decide) hne hsize
  unfold pdos items
  rw [bind_fst_ok _ ((bind_fst_ok _ hcat).trans (rfl : _ = Outcome.ok (⟨0, 0⟩ : Range)))]
  have := pdoLoop_enc m p (by omega) 0 (by omega) [] ⟨0, 0⟩ [] (Gen.Eeprom.CAP_PDOS + 2)
    (fun _ h => by simp at h) (by simp [Holds]) (by simp) (by simp) (by simp) (by simp)
  simpa using this

/-! ## The General category, name and description -/

/-- **General category** (type 30). For every well-formed description stored anywhere in the category list, the
    parser recovers every field `SiiGeneral` has: the four string indices, the CoE detail bits, the FoE and EoE
    enables (any non-zero byte is "enabled"), the flags, the EBus current (as the `u16` pattern of the `i16`),
    the four port kinds (values 5..15 read as unused) and the physical memory address. The reserved bytes and
    the tail behind byte 18 are ignored. -/
theorem general_roundtrip (m : Mode) (p : Prov) (hcs : 4 ≤ p.cs) (hdr : List Nat) (pre post : List Cat)
    (g : GeneralDesc)
    (himg : HoldsImage p (encodeSii hdr (pre ++ ⟨30, encGeneral g⟩ :: post))) (hhdr : hdr.length = 128)
    (hpre : ∀ x ∈ pre, x.WF ∧ catOf x.type ≠ 30 ∧ catOf x.type ≠ Gen.Eeprom.CAT_END)
    (hg : g.WF) (hne : empties pre < 32)
    (hsize : 128 + (encCats pre).length + 4 + (encGeneral g).length < 131072) :
    (general m p).1
      = .ok { groupIdx := g.groupIdx, imageIdx := g.imageIdx, orderIdx := g.orderIdx, nameIdx := g.nameIdx,
              coeDetails := g.coeDetails, foe := decide (g.foe ≠ 0), eoe := decide (g.eoe ≠ 0), flags := g.flags,
              ebusCurrent := g.ebusCurrent,
              ports := [portKind g.port0, portKind g.port1, portKind g.port2, portKind g.port3],
              physAddr := g.physAddr } :=
  general_enc_at m p hcs pre g _ (holds_split himg hhdr) hpre hg hne hsize

/-- **No General category**: `general` answers `NoCategory`. -/
theorem general_absent (m : Mode) (p : Prov) (hcs : 4 ≤ p.cs) (hdr : List Nat) (cats : List Cat)
    (himg : HoldsImage p (encodeSii hdr cats)) (hhdr : hdr.length = 128)
    (hall : ∀ x ∈ cats, x.WF ∧ catOf x.type ≠ 30 ∧ catOf x.type ≠ Gen.Eeprom.CAT_END)
    (hne : empties cats < 32) (hsize : 128 + (encCats cats).length + 4 < 131072) :
    (general m p).1 = .err .noCategory := by
  have hcat := category_absent m p hcs hdr cats 30 himg hhdr hall (by decide) hne hsize
  unfold general
  simp only [Gen.Eeprom.CAT_GENERAL]
  rw [bind_fst_ok _ hcat]
  rfl

/-- **Name** (`SubDevice::name`, `device_name`): the cleaned string that the General category's ORDER index
    (ETG2010 Table 7 `OrderIdx`, which is what the code documents as the device name) designates in the Strings
    category. The two categories may come in either order, anywhere in the category list: the same list is split
    once around General (`pre`, `post`) and once around Strings (`preS`, `postS`). -/
theorem name_roundtrip (m : Mode) (p : Prov) (hcs : 4 ≤ p.cs) (hdr : List Nat) (cats : List Cat)
    (himg : HoldsImage p (encodeSii hdr cats)) (hhdr : hdr.length = 128)
    (pre post : List Cat) (g : GeneralDesc) (hG : cats = pre ++ ⟨30, encGeneral g⟩ :: post)
    (hpre : ∀ x ∈ pre, x.WF ∧ catOf x.type ≠ 30 ∧ catOf x.type ≠ Gen.Eeprom.CAT_END)
    (hg : g.WF) (hne : empties pre < 32)
    (hsize : 128 + (encCats pre).length + 4 + (encGeneral g).length < 131072)
    (preS postS : List Cat) (before : List (List Nat)) (t : List Nat) (after : List (List Nat)) (pad : List Nat)
    (N : Nat)
    (hS : cats = preS ++
      ⟨10, (before ++ t :: after).length :: ((before ++ t :: after).flatMap encStr) ++ pad⟩ :: postS)
    (hpreS : ∀ x ∈ preS, x.WF ∧ catOf x.type ≠ 10 ∧ catOf x.type ≠ Gen.Eeprom.CAT_END)
    (hwf : (⟨10, (before ++ t :: after).length :: ((before ++ t :: after).flatMap encStr) ++ pad⟩ : Cat).WF)
    (hneS : empties preS < 32) (hN : t.length ≤ N)
    (hsizeS : 128 + (encCats preS).length + 4 +
      ((before ++ t :: after).length :: ((before ++ t :: after).flatMap encStr) ++ pad).length < 131072)
    (hidx : g.orderIdx = before.length + 1) :
    (deviceName m p N).1 = .ok (some (cleanString t)) := by
  have hgen := general_enc_at m p hcs pre g _ (holds_split (hG ▸ himg) hhdr) hpre hg hne hsize
  have hstr := find_string_roundtrip m p hcs hdr preS postS before t after pad N (hS ▸ himg) hhdr hpreS hwf hneS hN
    hsizeS
  refine deviceName_of_general m p N _ _ hgen ?_
  show (findString m p N g.orderIdx).1 = _
  rw [hidx]; exact hstr

/-- **Description** (`SubDevice::description`, `device_description`): the cleaned string that the General
    category's NAME index designates in the Strings category; categories in either order, as above. -/
theorem description_roundtrip (m : Mode) (p : Prov) (hcs : 4 ≤ p.cs) (hdr : List Nat) (cats : List Cat)
    (himg : HoldsImage p (encodeSii hdr cats)) (hhdr : hdr.length = 128)
    (pre post : List Cat) (g : GeneralDesc) (hG : cats = pre ++ ⟨30, encGeneral g⟩ :: post)
    (hpre : ∀ x ∈ pre, x.WF ∧ catOf x.type ≠ 30 ∧ catOf x.type ≠ Gen.Eeprom.CAT_END)
    (hg : g.WF) (hne : empties pre < 32)
    (hsize : 128 + (encCats pre).length + 4 + (encGeneral g).length < 131072)
    (preS postS : List Cat) (before : List (List Nat)) (t : List Nat) (after : List (List Nat)) (pad : List Nat)
    (N : Nat)
    (hS : cats = preS ++
      ⟨10, (before ++ t :: after).length :: ((before ++ t :: after).flatMap encStr) ++ pad⟩ :: postS)
    (hpreS : ∀ x ∈ preS, x.WF ∧ catOf x.type ≠ 10 ∧ catOf x.type ≠ Gen.Eeprom.CAT_END)
    (hwf : (⟨10, (before ++ t :: after).length :: ((before ++ t :: after).flatMap encStr) ++ pad⟩ : Cat).WF)
    (hneS : empties preS < 32) (hN : t.length ≤ N)
    (hsizeS : 128 + (encCats preS).length + 4 +
      ((before ++ t :: after).length :: ((before ++ t :: after).flatMap encStr) ++ pad).length < 131072)
    (hidx : g.nameIdx = before.length + 1) :
    (deviceDescription m p N).1 = .ok (some (cleanString t)) := by
  have hgen := general_enc_at m p hcs pre g _ (holds_split (hG ▸ himg) hhdr) hpre hg hne hsize
  have hstr := find_string_roundtrip m p hcs hdr preS postS before t after pad N (hS ▸ himg) hhdr hpreS hwf hneS hN
    hsizeS
  refine deviceDescription_of_general m p N _ _ hgen ?_
  show (findString m p N g.nameIdx).1 = _
  rw [hidx]; exact hstr

/-- **Absent, index 0**: a General category whose order (resp. name) index is 0 — "no string" in EtherCAT —
    gives no name (resp. no description), whatever the Strings category holds. -/
theorem name_description_index_zero (m : Mode) (p : Prov) (hcs : 4 ≤ p.cs) (hdr : List Nat) (pre post : List Cat)
    (g : GeneralDesc) (N : Nat)
    (himg : HoldsImage p (encodeSii hdr (pre ++ ⟨30, encGeneral g⟩ :: post))) (hhdr : hdr.length = 128)
    (hpre : ∀ x ∈ pre, x.WF ∧ catOf x.type ≠ 30 ∧ catOf x.type ≠ Gen.Eeprom.CAT_END)
    (hg : g.WF) (hne : empties pre < 32)
    (hsize : 128 + (encCats pre).length + 4 + (encGeneral g).length < 131072) :
    (g.orderIdx = 0 → (deviceName m p N).1 = .ok none) ∧
    (g.nameIdx = 0 → (deviceDescription m p N).1 = .ok none) := by
  have hgen := general_enc_at m p hcs pre g _ (holds_split himg hhdr) hpre hg hne hsize
  constructor
  · intro h0
    refine deviceName_of_general m p N _ _ hgen ?_
    show (findString m p N g.orderIdx).1 = _
    rw [h0, findString_zero]; rfl
  · intro h0
    refine deviceDescription_of_general m p N _ _ hgen ?_
    show (findString m p N g.nameIdx).1 = _
    rw [h0, findString_zero]; rfl

/-- **Absent, no General category**: the name is absent; the description is the ERROR `NoCategory` (the code
    uses `ignore_no_category` for the name only; `SubDevice::description` maps this error to an empty string
    one level up). -/
theorem name_description_no_general (m : Mode) (p : Prov) (hcs : 4 ≤ p.cs) (hdr : List Nat) (cats : List Cat)
    (N : Nat) (himg : HoldsImage p (encodeSii hdr cats)) (hhdr : hdr.length = 128)
    (hall : ∀ x ∈ cats, x.WF ∧ catOf x.type ≠ 30 ∧ catOf x.type ≠ Gen.Eeprom.CAT_END)
    (hne : empties cats < 32) (hsize : 128 + (encCats cats).length + 4 < 131072) :
    (deviceName m p N).1 = .ok none ∧ (deviceDescription m p N).1 = .err .noCategory := by
  have hgen := general_absent m p hcs hdr cats himg hhdr hall hne hsize
  constructor
  · unfold deviceName
    rw [bind_fst_ok _ (ignoreNoCategory_nocat hgen)]
    rfl
  · unfold deviceDescription
    rw [bind_eq_err _ hgen]

/-- **Absent, no Strings category**: with a General category but no Strings category anywhere, name and
    description are absent whatever the indices say. -/
theorem name_description_no_strings (m : Mode) (p : Prov) (hcs : 4 ≤ p.cs) (hdr : List Nat) (pre post : List Cat)
    (g : GeneralDesc) (N : Nat)
    (himg : HoldsImage p (encodeSii hdr (pre ++ ⟨30, encGeneral g⟩ :: post))) (hhdr : hdr.length = 128)
    (hpre : ∀ x ∈ pre, x.WF ∧ catOf x.type ≠ 30 ∧ catOf x.type ≠ Gen.Eeprom.CAT_END)
    (hg : g.WF) (hne : empties pre < 32)
    (hsize : 128 + (encCats pre).length + 4 + (encGeneral g).length < 131072)
    (hall : ∀ x ∈ pre ++ ⟨30, encGeneral g⟩ :: post,
      x.WF ∧ catOf x.type ≠ 10 ∧ catOf x.type ≠ Gen.Eeprom.CAT_END)
    (hneS : empties (pre ++ ⟨30, encGeneral g⟩ :: post) < 32)
    (hsizeS : 128 + (encCats (pre ++ ⟨30, encGeneral g⟩ :: post)).length + 4 < 131072) :
    (deviceName m p N).1 = .ok none ∧ (deviceDescription m p N).1 = .ok none := by
  have hgen := general_enc_at m p hcs pre g _ (holds_split himg hhdr) hpre hg hne hsize
  have hcat := category_absent m p hcs hdr _ 10 himg hhdr hall (by decide) hneS hsizeS
  exact ⟨deviceName_of_general m p N _ _ hgen (findString_no_strings m p N _ hcat),
    deviceDescription_of_general m p N _ _ hgen (findString_no_strings m p N _ hcat)⟩

/-! ### non-vacuity -/

example : (readSeq .checked ⟨fun a => a, 4⟩ ⟨3, 10⟩ [2, 0, 4, 9, 1]).1
    = .ok ([[3, 4], [], [5, 6, 7, 8], [9], []], ⟨10, 10⟩) := by decide

example : (readSeq .wrapping ⟨fun a => 2 * a, 8⟩ ⟨65530, 65535⟩ [3, 3]).1
    = .ok ([[131060, 131062, 131064], [131066, 131068]], ⟨65535, 65535⟩) := by decide

/-! ## T1 obligations: the literal offsets / numbers used by the model and the statements above are the ones
   regenerated from /repo on this run (a changed layout or constant breaks these) -/

theorem t1_layouts :
    Gen.Eeprom.layout_SyncManager
      = (8, [("start_addr", 0, 2), ("length", 2, 2), ("control", 4, 1), ("enable", 6, 1), ("usage_type", 7, 1)]) ∧
    Gen.Eeprom.layout_Pdo = (8, [("index", 0, 2), ("num_entries", 2, 1), ("sync_manager", 3, 1)]) ∧
    Gen.Eeprom.layout_PdoEntry = (8, [("data_length_bits", 5, 1)]) ∧
    Gen.Eeprom.layout_FmmuEx = (3, [("sync_manager", 1, 1)]) ∧
    Gen.Eeprom.layout_DefaultMailbox
      = (10, [("subdevice_receive_offset", 0, 2), ("subdevice_receive_size", 2, 2), ("subdevice_send_offset", 4, 2),
              ("subdevice_send_size", 6, 2), ("supported_protocols", 8, 2)]) ∧
    Gen.Eeprom.layout_SiiGeneral
      = (18, [("group_string_idx", 0, 1), ("image_string_idx", 1, 1), ("order_string_idx", 2, 1),
              ("name_string_idx", 3, 1), ("coe_details", 5, 1), ("foe_enabled", 6, 1), ("eoe_enabled", 7, 1),
              ("flags", 11, 1), ("ebus_current", 12, 2), ("ports", 14, 2), ("physical_memory_addr", 16, 2)]) ∧
    Gen.Eeprom.layout_SubDeviceIdentity
      = (16, [("vendor_id", 0, 4), ("product_id", 4, 4), ("revision", 8, 4), ("serial", 12, 4)]) ∧
    Gen.Eeprom.bits_Control
      = [("operation_mode", 0, 2), ("direction", 2, 2), ("ecat_event_enable", 4, 1),
         ("dls_user_event_enable", 5, 1), ("watchdog_enable", 6, 1)] :=
  ⟨rfl, rfl, rfl, rfl, rfl, rfl, rfl, rfl⟩

theorem t1_constants :
    Gen.Eeprom.SII_FIRST_CATEGORY_START = 64 ∧ Gen.Eeprom.CAT_STRINGS = 10 ∧ Gen.Eeprom.CAT_GENERAL = 30 ∧
    Gen.Eeprom.CAT_FMMU = 40 ∧ Gen.Eeprom.CAT_SYNC_MANAGER = 41 ∧ Gen.Eeprom.CAT_FMMU_EX = 42 ∧
    Gen.Eeprom.CAT_TX_PDO = 50 ∧ Gen.Eeprom.CAT_RX_PDO = 51 ∧ Gen.Eeprom.CAT_END = 65535 ∧
    Gen.Eeprom.IDENTITY_WORD_ADDR = 8 ∧ Gen.Eeprom.MAILBOX_WORD_ADDR = 24 ∧ Gen.Eeprom.SIZE_WORD_ADDR = 62 ∧
    Gen.Eeprom.EMPTY_CATEGORY_LIMIT = 32 ∧ Gen.Eeprom.FMMU_READ_BUF = 16 ∧
    Gen.Eeprom.ADDRESS_SPACE_BYTES = Eeprom.ADDRESS_SPACE_BYTES := by
  decide

/-- A complete small image: Strings, a vendor category, SyncManager, FMMU, End; every hypothesis of the round
    trips is satisfied by it and the parsers return the described values. -/
def demoCats : List Cat :=
  [⟨10, [2, 2, 0x45, 0x4c, 1, 0xb5]⟩, ⟨0x1234, [9, 9]⟩,
   ⟨41, encSm ⟨0x1000, 128, 0x26, 0, 1, 1⟩ ++ encSm ⟨0x1080, 128, 0x22, 0, 1, 2⟩⟩, ⟨40, [1, 2, 3, 255]⟩]

def demoProv : Prov := ⟨imgRd (encodeSii (List.replicate 128 7) demoCats) 255, 8⟩

example : (category .checked demoProv 41).1 = .ok (some ⟨148, 164⟩) := by decide
example : (category .wrapping demoProv 50).1 = .ok none := by decide
example : (syncManagers .checked demoProv).1
    = .ok [⟨0x1000, 128, 0x26, 1, 1⟩, ⟨0x1080, 128, 0x22, 1, 2⟩] := by decide
example : (fmmus .checked demoProv).1 = .ok [1, 2, 3, 0] := by decide
example : (findString .checked demoProv 64 1).1 = .ok (some [0x45, 0x4c]) := by decide
example : (findString .checked demoProv 64 2).1 = .ok (some [63]) := by decide
example : (identity .checked demoProv).1 = .ok (117901063, 117901063, 117901063, 117901063) := by decide

/-! ### non-vacuity of the PDO / General / name / description round trips -/

/-- Two TxPDOs of 2 and 3 entries (bit lengths 1+7 and 16+32+255), with name indices, a DC sync byte, flags. -/
def demoTxPdos : List PdoDesc :=
  [⟨0x1a00, 3, 0, 5, 0x0011, [⟨0x6000, 1, 6, 1, 1, 0⟩, ⟨0x6000, 2, 7, 1, 7, 0⟩]⟩,
   ⟨0x1a01, 3, 1, 8, 0x8000, [⟨0x6010, 1, 0, 6, 16, 0⟩, ⟨0x6010, 2, 0, 7, 32, 0xffff⟩, ⟨0, 0, 0, 0, 255, 0⟩]⟩]

/-- One RxPDO without entries and one with a single 8-bit entry. -/
def demoRxPdos : List PdoDesc := [⟨0x1600, 2, 0, 0, 0, []⟩, ⟨0x1601, 2, 0, 0, 0, [⟨0x7000, 1, 0, 5, 8, 0⟩]⟩]

/-- Order index 1 ("EL"), name index 2 (one non-ASCII byte), EBus current -2000, ports EBUS / unused / MII / 9. -/
def demoGeneral : GeneralDesc :=
  { groupIdx := 2, imageIdx := 0, orderIdx := 1, nameIdx := 2, reserved4 := 0xaa, coeDetails := 0x23, foe := 0,
    eoe := 0xff, soeChannels := 1, ds402Channels := 2, sysmanClass := 3, flags := 0x11, ebusCurrent := 63536,
    port0 := 3, port1 := 0, port2 := 1, port3 := 9, physAddr := 0x1234, tail := List.replicate 14 0 }

/-- Strings first, TxPDO, a vendor category, General BEHIND the PDOs, RxPDO. -/
def demoCats2 : List Cat :=
  [⟨10, [2, 2, 0x45, 0x4c, 1, 0xb5]⟩, ⟨50, demoTxPdos.flatMap encPdo⟩, ⟨0x1234, [9, 9]⟩,
   ⟨30, encGeneral demoGeneral⟩, ⟨51, demoRxPdos.flatMap encPdo⟩]

def demoProv2 : Prov := ⟨imgRd (encodeSii (List.replicate 128 7) demoCats2) 255, 4⟩

example : (∀ d ∈ demoTxPdos, d.WF) ∧ (∀ d ∈ demoRxPdos, d.WF) ∧ demoGeneral.WF := by decide
example : (pdos .checked demoProv2 50).1 = .ok [⟨0x1a00, 2, 3, 8⟩, ⟨0x1a01, 3, 3, 303⟩] := by decide
example : (pdos .wrapping demoProv2 51).1 = .ok [⟨0x1600, 0, 2, 0⟩, ⟨0x1601, 1, 2, 8⟩] := by decide
example : (pdos .checked demoProv 50).1 = .ok [] := by decide
example : (general .checked demoProv2).1
    = .ok ⟨2, 0, 1, 2, 0x23, false, true, 0x11, 63536, [3, 0, 1, 0], 0x1234⟩ := by decide
example : (general .checked demoProv).1 = .err .noCategory := by decide
example : (deviceName .checked demoProv2 64).1 = .ok (some [0x45, 0x4c]) := by decide
example : (deviceDescription .wrapping demoProv2 64).1 = .ok (some [63]) := by decide
example : (deviceName .checked demoProv 64).1 = .ok none := by decide
example : (deviceDescription .checked demoProv 64).1 = .err .noCategory := by decide

/-- The hypotheses of `pdos_roundtrip` are satisfiable: the theorem itself, instantiated on the image above. -/
example : (pdos .checked demoProv2 50).1 = .ok [⟨0x1a00, 2, 3, 8⟩, ⟨0x1a01, 3, 3, 303⟩] :=
  pdos_roundtrip .checked demoProv2 (by decide) (List.replicate 128 7) [⟨10, [2, 2, 0x45, 0x4c, 1, 0xb5]⟩]
    [⟨0x1234, [9, 9]⟩, ⟨30, encGeneral demoGeneral⟩, ⟨51, demoRxPdos.flatMap encPdo⟩] 50 (Or.inl rfl) demoTxPdos
    (holdsImage_imgRd _ _ _) (by simp) (by decide) (by decide) (by decide) (by decide) (by decide)

/-- ... and those of `name_roundtrip` (General behind Strings; the same list split twice). -/
example : (deviceName .checked demoProv2 64).1 = .ok (some (cleanString [0x45, 0x4c])) :=
  name_roundtrip .checked demoProv2 (by decide) (List.replicate 128 7) demoCats2 (holdsImage_imgRd _ _ _) (by simp)
    [⟨10, [2, 2, 0x45, 0x4c, 1, 0xb5]⟩, ⟨50, demoTxPdos.flatMap encPdo⟩, ⟨0x1234, [9, 9]⟩]
    [⟨51, demoRxPdos.flatMap encPdo⟩] demoGeneral rfl (by decide) (by decide) (by decide) (by decide)
    [] [⟨50, demoTxPdos.flatMap encPdo⟩, ⟨0x1234, [9, 9]⟩, ⟨30, encGeneral demoGeneral⟩,
      ⟨51, demoRxPdos.flatMap encPdo⟩] [] [0x45, 0x4c] [[0xb5]] [] 64 rfl (by decide) (by decide) (by decide)
    (by decide) (by decide) rfl

-- 65 PDOs (without entries): one more than the `heapless::Vec` holds.
set_option maxRecDepth 100000 in
example : (pdos .checked
    ⟨imgRd (encodeSii (List.replicate 128 0) [⟨50, (List.replicate 65 (⟨0x1a00, 0, 0, 0, 0, []⟩ : PdoDesc)).flatMap encPdo⟩]) 255, 8⟩
    50).1 = .err (.capacity 2) := by decide

end Ec.C12
