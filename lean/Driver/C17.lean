import EcModel.Drv.C17
def main : IO Unit := Ec.Drv.runDriver Ec.Drv.C17.handle
