//! C10 — a group's typestate never claims a state its SubDevices are not in.
//!
//! Three families, all on the REAL stack against the simulated segment:
//!  * `tr` / `reqop`: networks of 1..16 devices in 1..3 groups are brought up by `MainDevice::init`,
//!    then every group walks a chain of into_* transitions through a second MainDevice whose frames
//!    are so small that a status round needs 1..3 frames, while every member independently accepts
//!    at once / after k polls / refuses with a status code / stalls / accepts and falls back later.
//!    The datagrams as delivered become the case line; the Lean model must predict the result AND the
//!    exact frames sent (who got an AL control write, how the status checks were chunked).
//!  * `sum`: the per-cycle state list and its four summaries from real `tx_rx` calls against devices
//!    scripted to report given values: ALL lists up to length 4 over the 16 nibble values (thorough;
//!    up to length 3 + a sample in quick) and random longer ones.
//!  * `md`: `MainDevice::wait_for_state` (broadcast read).
//! Independent monitors: typestate returned vs what every member reported in the last status round,
//! error indication, refusal/stall => error within the timeout, AL control writes vs group
//! membership (wire and device side), chunk coverage, summaries vs their element-wise meaning.
use ecverif::exec::{Net, Stuck, run};
use ecverif::rng::Rng;
use ecverif::sim::{AlRule, DeviceDesc, Segment};
use ecverif::util::Report;
use ecverif::wkcnet::{self, Act, RecEv, Recorder};
use ethercrab::error::Error;
use ethercrab::subdevice_group::{Init, NoDc, Op, PreOp, PreOpPdi, SafeOp, SubDeviceGroup};
use ethercrab::{MainDevice, MainDeviceConfig, SubDeviceState, Timeouts};
use std::cell::RefCell;
use std::panic::{AssertUnwindSafe, catch_unwind};
use std::rc::Rc;
use std::time::Duration;

const FPRD: u8 = 4;
const FPWR: u8 = 5;
const STATE_TRANSITION_US: u64 = 20_000;
const TICK_US: u64 = 500;
const PDU_US: u64 = 2_000;

type Grp<S> = SubDeviceGroup<16, 64, ethercrab::DefaultLock, S, NoDc>;

#[derive(Default)]
struct Groups {
    a: Grp<PreOp>,
    b: Grp<PreOp>,
    c: Grp<PreOp>,
}

fn timeouts() -> Timeouts {
    Timeouts {
        state_transition: Duration::from_micros(STATE_TRANSITION_US),
        pdu: Duration::from_micros(PDU_US),
        eeprom: Duration::from_millis(10),
        wait_loop_delay: Duration::from_micros(TICK_US),
        mailbox_echo: Duration::from_millis(10),
        mailbox_response: Duration::from_millis(20),
    }
}

fn mode() -> &'static str {
    if cfg!(debug_assertions) { "debug" } else { "release" }
}

fn token<T>(r: &Result<Result<Result<T, Error>, Stuck>, ()>) -> (String, bool, bool) {
    match r {
        Err(()) => ("panic".into(), false, false),
        Ok(Err(st)) => (format!("stuck:{st:?}"), false, false),
        Ok(Ok(Ok(_))) => ("ok".into(), false, true),
        Ok(Ok(Err(e))) => (wkcnet::err_token(e), wkcnet::is_deadline(e), false),
    }
}

fn simple_desc(r: &mut Rng, i: usize) -> DeviceDesc {
    match r.below(3) {
        0 => DeviceDesc::coupler(&format!("EK{i}")),
        1 => DeviceDesc::digital_in(&format!("DI{i}"), 8),
        _ => DeviceDesc::digital_out(&format!("DO{i}"), 8),
    }
}

// ------------------------------------------------------------------------------------------------
// transitions

enum G {
    PreOpPdi(Grp<PreOpPdi>),
    SafeOp(Grp<SafeOp>),
    Op(Grp<Op>),
    PreOp(Grp<PreOp>),
    Init(Grp<Init>),
    Gone,
}

#[derive(Clone, Copy, PartialEq, Eq, Debug)]
enum Step {
    ToSafeOp,
    ToOp,
    ReqOp,
    ToPreOp,
    ToInit,
}

impl Step {
    fn desired(self) -> u8 {
        match self {
            Step::ToSafeOp => 4,
            Step::ToOp | Step::ReqOp => 8,
            Step::ToPreOp => 2,
            Step::ToInit => 1,
        }
    }
}

fn options(g: &G) -> Vec<Step> {
    match g {
        G::PreOpPdi(_) => vec![Step::ToSafeOp, Step::ToSafeOp, Step::ToSafeOp, Step::ToInit],
        G::SafeOp(_) => vec![Step::ToOp, Step::ToOp, Step::ReqOp, Step::ToPreOp],
        G::Op(_) => vec![Step::ToSafeOp],
        G::PreOp(_) => vec![Step::ToInit],
        G::Init(_) | G::Gone => vec![],
    }
}

#[derive(Clone, Debug, PartialEq, Eq)]
enum Beh {
    Accept,
    After(u32),
    Refuse(u16),
    Stall,
    FallBack(u32, u8, u16),
}

fn behaviour(r: &mut Rng, desired: u8) -> Beh {
    match r.below(16) {
        0 => Beh::Refuse(*r.pick(&[0x0011u16, 0x001b, 0x001d, 0x0024])),
        1 => Beh::Stall,
        2..=5 => Beh::After(r.range(1, 6) as u32),
        6 => Beh::After(r.range(60, 90) as u32), // slower than the timeout allows (40 rounds)
        7 => {
            let lower: Vec<u8> = [1u8, 2, 4].into_iter().filter(|s| *s < desired).collect();
            let to = if lower.is_empty() { 1 } else { *r.pick(&lower) };
            Beh::FallBack(r.range(1, 4) as u32, to, 0x001b)
        }
        _ => Beh::Accept,
    }
}

struct TrCtx<'a> {
    rep: &'a mut Report,
    recipe: String,
}

/// One recorded transition of `g` through `md` (small frames). Returns the new group state.
#[allow(clippy::too_many_arguments)]
fn do_step(
    cx: &mut TrCtx,
    net: &mut Net,
    md: &'static MainDevice<'static>,
    g: G,
    step: Step,
    members: &[u16],
    member_pos: &[usize],
    pdu_len: usize,
    behs: &[Beh],
    lose: Option<usize>,
) -> G {
    let desired = step.desired();
    // arm the devices
    for (k, &pos) in member_pos.iter().enumerate() {
        let d = &mut net.seg.devices[pos];
        d.al.script.clear();
        let rule = match &behs[k] {
            Beh::Accept => AlRule::Accept,
            Beh::After(n) => AlRule::AcceptAfterPolls(*n),
            Beh::Refuse(c) => AlRule::Refuse(*c),
            Beh::Stall => AlRule::Stall,
            Beh::FallBack(p, to, c) => AlRule::AcceptThenFallBack { polls: *p, to: *to, code: *c },
        };
        d.al.script.push_back((Some(desired), rule));
    }
    let req_before: Vec<usize> = net.seg.devices.iter().map(|d| d.al.requests.len()).collect();
    let err_before: Vec<bool> = member_pos.iter().map(|&p| net.seg.devices[p].al.error).collect();
    let state_before: Vec<u8> = member_pos.iter().map(|&p| net.seg.devices[p].al.state).collect();
    let script: Vec<(usize, Act)> = lose.map(|k| vec![(k, Act::Lose(k % 2 == 0))]).unwrap_or_default();
    let rec: Rc<RefCell<Recorder>> = wkcnet::install(net, script);
    let t0 = ecverif::clock::now();
    let mut next = G::Gone;
    let res = catch_unwind(AssertUnwindSafe(|| {
        run(net, async {
            match (g, step) {
                (G::PreOpPdi(x), Step::ToSafeOp) => x.into_safe_op(md).await.map(|y| next = G::SafeOp(y)),
                (G::PreOpPdi(x), Step::ToInit) => x.into_init(md).await.map(|y| next = G::Init(y)),
                (G::SafeOp(x), Step::ToOp) => x.into_op(md).await.map(|y| next = G::Op(y)),
                (G::SafeOp(x), Step::ReqOp) => x.request_into_op(md).await.map(|y| next = G::Op(y)),
                (G::SafeOp(x), Step::ToPreOp) => x.into_pre_op(md).await.map(|y| next = G::PreOp(y)),
                (G::Op(x), Step::ToSafeOp) => x.into_safe_op(md).await.map(|y| next = G::SafeOp(y)),
                (G::PreOp(x), Step::ToInit) => x.into_init(md).await.map(|y| next = G::Init(y)),
                _ => Err(Error::Internal),
            }
        })
    }))
    .map_err(|_| ());
    let elapsed = ecverif::clock::now() - t0;
    wkcnet::uninstall(net);
    let (tok, deadline, ok) = token(&res);
    let rec = rec.borrow();
    let tr = wkcnet::trace(&rec, deadline);
    let mem_s = if members.is_empty() { "-".to_string() } else { members.iter().map(|a| a.to_string()).collect::<Vec<_>>().join(",") };
    let line = if step == Step::ReqOp {
        format!("c10 {} reqop {mem_s} {tr}", cx.recipe)
    } else {
        format!("c10 {} tr {} {pdu_len} {desired} {mem_s} {tr}", cx.recipe, mode())
    };
    let out = format!("{tok}|{}", wkcnet::sent_log(&rec).replace(":??", &format!(":{desired:02x}")));
    let rep = &mut *cx.rep;

    // ------------------------------------------------------------------ monitors (independent of the model)
    let m = members.len();
    let per = (pdu_len / 14).min(129).max(1);
    let status: Vec<&wkcnet::RecDg> = rec.evs.iter().filter_map(|e| match e {
        RecEv::Dg(d) if d.cmd == FPRD && d.ado == 0x0130 => Some(d),
        _ => None,
    }).collect();
    let lost_any = rec.evs.iter().any(|e| matches!(e, RecEv::Lost(_)));
    if ok && step != Step::ReqOp {
        // (1) the last status round: one poll per member, in order, each reporting the requested state
        if status.len() < m {
            rep.fail("c10/ok-without-all-reported", &format!("Ok after only {} status polls for {m} members", status.len()), &line);
        } else {
            let last = &status[status.len() - m..];
            for (k, d) in last.iter().enumerate() {
                if d.adp != members[k] || d.wkc_sim != 1 {
                    rep.fail("c10/ok-without-all-reported", &format!("last round: poll {k} went to {:#06x} (answered by {}), member is {:#06x}", d.adp, d.wkc_sim, members[k]), &line);
                } else if d.data[0] & 0x0f != desired {
                    rep.fail("c10/ok-while-member-elsewhere", &format!("Ok for state {desired} but member {:#06x} reported {:#04x} in the last round", d.adp, d.data[0]), &line);
                } else if d.data[0] & 0x10 != 0 {
                    // (2)
                    rep.fail("c10/ok-despite-error-indication", &format!("Ok for state {desired} while member {:#06x} reported {:#04x} (error indication set) in the last round", d.adp, d.data[0]), &line);
                }
            }
            // (6) chunking of the last round
            let mut sizes = Vec::new();
            let mut cur = usize::MAX;
            for d in last {
                if d.frame != cur {
                    sizes.push(0usize);
                    cur = d.frame;
                }
                *sizes.last_mut().unwrap() += 1;
            }
            let want: Vec<usize> = (0..m.div_ceil(per)).map(|i| per.min(m - i * per)).collect();
            if sizes != want {
                rep.fail("c10/chunking", &format!("status round used frames of {sizes:?} checks, expected {want:?}"), &line);
            }
            rep.hit(&format!("tr:frames-per-round:{}", want.len()));
        }
    }
    // (3)/(4) behaviour vs result
    // a member that is not yet in the requested state and will not get there in time
    let hard_fail = behs.iter().zip(&state_before).any(|(b, st)| *st != desired && (matches!(b, Beh::Refuse(_) | Beh::Stall) || matches!(b, Beh::After(n) if *n >= 60)));
    let fall = behs.iter().any(|b| matches!(b, Beh::FallBack(..)));
    let stale_error = err_before.iter().any(|e| *e);
    if step != Step::ReqOp && m > 0 {
        if hard_fail && ok {
            rep.fail("c10/refusal-or-stall-not-error", &format!("a member refused/stalled ({behs:?}) but the transition returned Ok"), &line);
        }
        // a refusal shows up as error indication => Err(StateTransition) at the first poll that
        // reads it; a stall as the transition timeout
        let error_cause = stale_error || behs.iter().any(|b| matches!(b, Beh::Refuse(_) | Beh::FallBack(..)));
        if hard_fail && !ok && !lost_any && tok != "timeout:statetransition" && !(tok == "statetransition" && error_cause) {
            rep.fail("c10/refusal-or-stall-wrong-error", &format!("a member refused/stalled but the result is {tok}"), &line);
        }
        if tok == "statetransition" && !error_cause {
            rep.fail("c10/spurious-error", &format!("StateTransition error although no member signals an error ({behs:?})"), &line);
        }
        if stale_error && ok {
            rep.fail("c10/ok-despite-error-indication", "a member had its error indication set before the (non-acknowledging) request, yet the transition returned Ok", &line);
        }
        if !ok && elapsed > STATE_TRANSITION_US + TICK_US + PDU_US {
            rep.fail("c10/error-after-deadline", &format!("error returned after {elapsed} us, timeout is {STATE_TRANSITION_US} us"), &line);
        }
        // (a member scripted to refuse sets its error indication on ANY request, also one for the state it is
        // already in: the error it then reports justifies Err(StateTransition) — false alarm met with more cases)
        let refuses = behs.iter().any(|b| matches!(b, Beh::Refuse(_)));
        if !hard_fail && !fall && !lost_any && !stale_error && !ok && !(refuses && tok == "statetransition") {
            rep.fail("c10/spurious-error", &format!("every member accepts ({behs:?}) but the result is {tok}"), &line);
        }
    }
    // (5) AL control writes: wire side
    let writes: Vec<&wkcnet::RecDg> = rec.evs.iter().filter_map(|e| match e {
        RecEv::Dg(d) if d.cmd == FPWR => Some(d),
        _ => None,
    }).collect();
    for d in rec.evs.iter().filter_map(|e| if let RecEv::Dg(d) = e { Some(d) } else { None }) {
        if !members.contains(&d.adp) {
            rep.fail("c10/datagram-outside-group", &format!("{} {:#06x}:{:#06x} is not addressed to a member", ecverif::sim::cmd_name(d.cmd), d.adp, d.ado), &line);
        }
    }
    for (k, d) in writes.iter().enumerate() {
        if d.ado != 0x0120 || k >= m || d.adp != members[k] || d.sent.first().copied() != Some(desired) {
            rep.fail("c10/request-not-to-members-in-order", &format!("write {k}: FPWR {:#06x}:{:#06x} = {:02x?}", d.adp, d.ado, d.sent), &line);
        }
    }
    if ok && writes.len() != m {
        rep.fail("c10/member-not-requested", &format!("{} AL control writes for {m} members", writes.len()), &line);
    }
    // device side: nobody outside the group saw a request; every member saw at most one
    for (pos, d) in net.seg.devices.iter().enumerate() {
        let new = d.al.requests.len() - req_before[pos];
        if !member_pos.contains(&pos) && new != 0 {
            rep.fail("c10/request-reached-non-member", &format!("device {pos} ({:#06x}) is not a member but received {new} AL control writes", d.station_address()), &line);
        }
        if member_pos.contains(&pos) {
            if new > 1 || (ok && new != 1) {
                rep.fail("c10/member-request-count", &format!("member at ring position {pos} received {new} AL control writes"), &line);
            }
            if new == 1 && d.al.requests.last().map(|x| x.0) != Some(desired) {
                rep.fail("c10/wrong-state-requested", &format!("member at ring position {pos} was asked for {:?}, expected {desired}", d.al.requests.last()), &line);
            }
        }
    }
    rep.hit(&format!("tr:step:{step:?}"));
    rep.hit(&format!("tr:members:{}", if m == 0 { "0".to_string() } else if m <= 4 { "1-4".to_string() } else if m <= 9 { "5-9".to_string() } else { "10-16".to_string() }));
    rep.hit(&format!("tr:res:{tok}"));
    for b in behs {
        rep.hit(&format!("tr:beh:{}", match b { Beh::Accept => "accept", Beh::After(n) if *n >= 60 => "too-slow", Beh::After(_) => "after-k", Beh::Refuse(_) => "refuse", Beh::Stall => "stall", Beh::FallBack(..) => "fallback" }));
    }
    if lost_any {
        rep.hit("tr:frame-lost");
    }
    if behs.iter().any(|b| *b != Beh::Accept) || lost_any {
        rep.nontrivial.insert(line.clone());
    }
    rep.case(line, out);
    next
}

/// One network: init, groups, chains of transitions. `forced`: corpus scenario.
fn tr_world(seed: u64, rep: &mut Report, forced: Option<&str>) {
    let mut r = Rng::new(seed);
    let recipe = match forced {
        Some(f) => format!("k{f}.{seed}"),
        None => format!("w{seed}"),
    };
    let n = if forced.is_some() { r.range(2, 5) as usize } else { r.range(1, 16) as usize };
    let ng = if forced.is_some() { 1 } else { r.range(1, 3) as usize };
    let ds: Vec<DeviceDesc> = (0..n).map(|i| simple_desc(&mut r, i)).collect();
    let assign: Vec<usize> = (0..n).map(|_| r.below(ng as u64) as usize).collect();
    let seg = Segment::from_descs(&ds);
    let (mut net, md) = Net::new(seg, 16, 1128, timeouts(), MainDeviceConfig { dc_static_sync_iterations: 0, ..Default::default() });
    let asg = assign.clone();
    let init = run(&mut net, async {
        let gs = md
            .init::<16, _>(|| ecverif::clock::now() * 1000, Groups::default(), |g: &Groups, sd| {
                let idx = (sd.configured_address() - 0x1000) as usize;
                Ok(match asg.get(idx).copied().unwrap_or(0) {
                    0 => &g.a,
                    1 => &g.b,
                    _ => &g.c,
                })
            })
            .await?;
        let a = gs.a.into_pre_op_pdi(md).await?;
        let b = gs.b.into_pre_op_pdi(md).await?;
        let c = gs.c.into_pre_op_pdi(md).await?;
        Ok::<_, Error>([a, b, c])
    });
    let Ok(Ok(groups)) = init else {
        rep.notes.push(format!("world {seed}: init failed"));
        return;
    };
    let mut seg = unsafe { net.recycle() };
    for (gi, group) in groups.into_iter().enumerate() {
        let members: Vec<u16> = group.iter(md).map(|sd| sd.configured_address()).collect();
        let member_pos: Vec<usize> = members.iter().map(|a| (*a - 0x1000) as usize).collect();
        // independent membership oracle: the assignment handed to init
        let want: Vec<u16> = (0..n).filter(|i| assign[*i] == gi).map(|i| 0x1000 + i as u16).collect();
        if members != want {
            rep.fail("c10/group-membership", &format!("group {gi} holds {members:04x?}, assigned {want:04x?}"), &recipe);
        }
        let m = members.len();
        if m == 0 && gi >= ng {
            continue;
        }
        // frame size: a status round of this group needs `frames` frames
        let frames = if m == 0 { 1 } else { r.range(1, 3.min(m as u64)) as usize };
        let per = if m == 0 { 1 } else { m.div_ceil(frames) };
        let pdu_len = if frames == 1 && r.chance(1, 3) { 1112 } else { 14 * per + r.below(14) as usize };
        let (mut small, md2) = Net::new(seg, 8, pdu_len + 16, timeouts(), MainDeviceConfig::default());
        let mut cx = TrCtx { rep, recipe: format!("{recipe}.{gi}") };
        let mut g = G::PreOpPdi(group);
        for stepno in 0..6 {
            let opts = options(&g);
            if opts.is_empty() {
                break;
            }
            let step = match forced {
                Some("errind") => [Step::ToSafeOp, Step::ToOp, Step::ToSafeOp][stepno.min(2)],
                Some(_) => [Step::ToSafeOp, Step::ToOp, Step::ToSafeOp, Step::ToPreOp, Step::ToInit][stepno.min(4)],
                None => *r.pick(&opts),
            };
            if !opts.contains(&step) {
                break;
            }
            let desired = step.desired();
            let mut behs: Vec<Beh> = (0..m).map(|_| behaviour(&mut r, desired)).collect();
            let mut lose = if r.chance(1, 12) { Some(r.below(3 * m.max(1) as u64) as usize) } else { None };
            match forced {
                Some("healthy") => {
                    behs = vec![Beh::Accept; m];
                    lose = None;
                }
                Some("errind") => {
                    // OP with one member falling back to SAFE-OP + error after its first poll, then OP -> SAFE-OP
                    behs = vec![Beh::Accept; m];
                    lose = None;
                    if stepno == 1 {
                        behs[m - 1] = Beh::FallBack(1, 4, 0x001b);
                    }
                }
                Some("stall") => {
                    behs = vec![Beh::Accept; m];
                    lose = None;
                    if stepno == 1 {
                        behs[0] = Beh::Stall;
                    }
                }
                Some("refuse") => {
                    behs = vec![Beh::Accept; m];
                    lose = None;
                    if stepno == 0 {
                        behs[m - 1] = Beh::Refuse(0x001d);
                    }
                }
                Some("slow") => {
                    behs = (0..m).map(|k| Beh::After(1 + k as u32)).collect();
                    lose = None;
                }
                _ => {}
            }
            g = do_step(&mut cx, &mut small, md2, g, step, &members, &member_pos, pdu_len, &behs, lose);
            if matches!(g, G::Gone) {
                break;
            }
            if forced == Some("errind") && stepno == 2 {
                break;
            }
        }
        seg = unsafe { small.recycle() };
    }
}

// ------------------------------------------------------------------------------------------------
// summaries from real tx_rx calls

struct SumWorld {
    net: Net,
    md: &'static MainDevice<'static>,
    group: SubDeviceGroup<16, 64, ethercrab::DefaultLock, Op, NoDc>,
    rec: Rc<RefCell<Recorder>>,
    n: usize,
}

fn sum_world(n: usize) -> Option<SumWorld> {
    let ds: Vec<DeviceDesc> = (0..n).map(|i| DeviceDesc::digital_in(&format!("DI{i}"), 8)).collect();
    let seg = Segment::from_descs(&ds);
    let (mut net, md) = Net::new(seg, 16, 1128, timeouts(), MainDeviceConfig { dc_static_sync_iterations: 0, ..Default::default() });
    let g = run(&mut net, async {
        let g = md.init_single_group::<16, 64>(|| ecverif::clock::now() * 1000).await?;
        g.into_op(md).await
    });
    let Ok(Ok(group)) = g else { return None };
    let rec = wkcnet::install(&mut net, vec![]);
    Some(SumWorld { net, md, group, rec, n })
}

/// u8 value of a reported status nibble as the summaries see it.
fn one_sum(w: &mut SumWorld, bytes: &[u8], recipe: &str, rep: &mut Report) {
    assert_eq!(bytes.len(), w.n);
    for (k, b) in bytes.iter().enumerate() {
        let d = &mut w.net.seg.devices[k];
        d.al.state = b & 0x0f;
        d.al.error = b & 0x10 != 0;
    }
    {
        let mut r = w.rec.borrow_mut();
        r.evs.clear();
        r.n = 0;
        r.frames = 0;
    }
    let md = w.md;
    let group = &w.group;
    let res = catch_unwind(AssertUnwindSafe(|| run(&mut w.net, async { group.tx_rx(md).await }))).map_err(|_| ());
    let rec = w.rec.borrow();
    let polls: Vec<String> = rec
        .evs
        .iter()
        .filter_map(|e| match e {
            RecEv::Dg(d) if d.cmd == FPRD && d.ado == 0x0130 => Some(format!("r{}.{}", d.wkc, ecverif::util::hex(&d.data))),
            _ => None,
        })
        .collect();
    let line = format!("c10 {recipe} sum {}", if polls.is_empty() { "-".to_string() } else { polls.join(",") });
    let out = match &res {
        Ok(Ok(Ok(resp))) => {
            let states: Vec<u8> = resp.subdevice_states.iter().map(|s| u8::from(*s)).collect();
            let mut desired = vec![SubDeviceState::None, SubDeviceState::Init, SubDeviceState::PreOp, SubDeviceState::Bootstrap, SubDeviceState::SafeOp, SubDeviceState::Op];
            desired.extend((0..16u8).map(SubDeviceState::Other));
            let ins: String = desired.iter().map(|d| if resp.is_in_state(*d) { '1' } else { '0' }).collect();
            let single = match resp.group_in_single_state() {
                Some(s) => format!("some:{}", u8::from(s)),
                None => "none".to_string(),
            };
            let gs = resp.group_state().bits();
            let all_op = resp.all_op();
            // ---------------- monitor: the list is what the devices reported; the summaries mean what they say
            let reported: Vec<u8> = bytes.iter().map(|b| b & 0x0f).collect();
            if states != reported {
                rep.fail("c10/state-list-not-as-reported", &format!("devices reported {reported:?}, tx_rx lists {states:?}"), &line);
            }
            // element-wise oracle on the raw nibbles: a state named by the enum only equals itself,
            // `Other(n)` equals a reported n that the 4-bit field does not decode to a named state
            let named = |v: u8| matches!(v, 0 | 1 | 2 | 3 | 4 | 8);
            let has_none = reported.iter().any(|s| *s == 0) && reported.iter().any(|s| *s != 0);
            let key = |has_none: bool| if has_none { "c10/summary-or-fold-loses-none" } else { "c10/summary-or-fold-merges-states" };
            // keep the evidence file small: the first 40 instances of a class are recorded, all are counted
            let mut capped = |rep: &mut Report, k: &str, what: &str, line: &str| {
                rep.hit(&format!("monitor:{k}"));
                if rep.dist[&format!("monitor:{k}")] <= 40 {
                    rep.fail(k, what, line);
                }
            };
            let all_same = !reported.is_empty() && reported.iter().all(|s| *s == reported[0]);
            let elem_all = |d: &SubDeviceState| {
                all_same
                    && match d {
                        SubDeviceState::Other(n) => !named(*n) && reported[0] == *n,
                        other => reported[0] == u8::from(*other),
                    }
            };
            if all_op != (all_same && reported[0] == 8) {
                capped(rep, key(has_none), &format!("all_op() = {all_op} for reported states {reported:?}"), &line);
            }
            for (d, c) in desired.iter().zip(ins.chars()) {
                if (c == '1') != elem_all(d) {
                    capped(rep, key(has_none), &format!("is_in_state({d:?}) = {} for reported states {reported:?}", c == '1'), &line);
                }
            }
            let want_single = if all_same { Some(reported[0]) } else { None };
            let got_single = resp.group_in_single_state().map(u8::from);
            if got_single != want_single {
                capped(rep, key(has_none), &format!("group_in_single_state() = {got_single:?} for reported states {reported:?}"), &line);
            }
            let want_bits = reported.iter().fold(0u8, |a, s| a | s);
            if gs != want_bits {
                rep.fail("c10/group-state-not-or", &format!("group_state() = {gs:#x}, OR of reported = {want_bits:#x}"), &line);
            }
            format!(
                "st={} gs={gs} single={single} allop={} in={ins}",
                if states.is_empty() { "-".to_string() } else { states.iter().map(|s| s.to_string()).collect::<Vec<_>>().join(",") },
                if all_op { 1 } else { 0 }
            )
        }
        Ok(Ok(Err(e))) => wkcnet::err_token(e),
        Ok(Err(st)) => format!("stuck:{st:?}"),
        Err(()) => "panic".to_string(),
    };
    rep.hit(&format!("sum:len:{}", if w.n <= 4 { w.n.to_string() } else { "5-16".to_string() }));
    let mut dist = bytes.iter().map(|b| b & 0x0f).collect::<Vec<_>>();
    dist.sort();
    dist.dedup();
    if dist.len() > 1 {
        rep.nontrivial.insert(line.clone());
    }
    rep.case(line, out);
}

fn sum_family(tier: &str, rng: &mut Rng, rep: &mut Report) {
    let exhaustive_to = if tier == "thorough" { 4 } else { 3 };
    for n in 1..=4usize {
        let Some(mut w) = sum_world(n) else {
            rep.notes.push(format!("sum world {n}: init failed"));
            continue;
        };
        if n <= exhaustive_to {
            let total = 16usize.pow(n as u32);
            for v in 0..total {
                let bytes: Vec<u8> = (0..n).map(|k| ((v >> (4 * k)) & 0xf) as u8).collect();
                one_sum(&mut w, &bytes, &format!("u{n}"), rep);
            }
            rep.notes.push(format!("exhaustive: all {total} lists of reported states of length {n} over the 16 nibble values"));
        } else {
            for _ in 0..6000 {
                let bytes: Vec<u8> = (0..n).map(|_| (rng.below(16) as u8) | if rng.chance(1, 8) { 0x10 } else { 0 }).collect();
                one_sum(&mut w, &bytes, &format!("u{n}"), rep);
            }
        }
        wkcnet::uninstall(&mut w.net);
        unsafe { w.net.recycle() };
    }
    // longer lists: random, biased towards the interesting values
    let longer = if tier == "thorough" { 40000 } else { 10000 };
    let mut done = 0;
    while done < longer {
        let n = rng.range(5, 16) as usize;
        let Some(mut w) = sum_world(n) else { continue };
        for _ in 0..500 {
            let style = rng.below(4);
            let bytes: Vec<u8> = (0..n)
                .map(|_| {
                    let s = match style {
                        0 => *rng.pick(&[8u8, 8, 8, 8, 8, 0]),
                        1 => *rng.pick(&[8u8, 8, 8, 4, 2, 1, 0]),
                        2 => *rng.pick(&[4u8, 4, 4, 0, 1]),
                        _ => rng.below(16) as u8,
                    };
                    s | if rng.chance(1, 10) { 0x10 } else { 0 }
                })
                .collect();
            one_sum(&mut w, &bytes, &format!("u{n}"), rep);
            done += 1;
        }
        wkcnet::uninstall(&mut w.net);
        unsafe { w.net.recycle() };
    }
}

// ------------------------------------------------------------------------------------------------
// MainDevice::wait_for_state

fn md_world(seed: u64, rep: &mut Report) {
    let mut r = Rng::new(seed);
    let n = r.range(1, 8) as usize;
    let ds: Vec<DeviceDesc> = (0..n).map(|i| simple_desc(&mut r, i)).collect();
    let seg = Segment::from_descs(&ds);
    let (mut net, md) = Net::new(seg, 16, 1128, timeouts(), MainDeviceConfig { dc_static_sync_iterations: 0, ..Default::default() });
    let g = run(&mut net, async { md.init_single_group::<16, 64>(|| ecverif::clock::now() * 1000).await });
    let Ok(Ok(_group)) = g else { return };
    // all devices are in PRE-OP now; script what they report
    let desired = *r.pick(&[SubDeviceState::PreOp, SubDeviceState::PreOp, SubDeviceState::Init, SubDeviceState::Bootstrap, SubDeviceState::Op]);
    let style = r.below(5);
    for d in net.seg.devices.iter_mut() {
        match style {
            0 => {}
            1 => d.al.state = u8::from(desired) & 0x0f,
            2 => d.al.state = *r.pick(&[1u8, 2, 2, 2]),
            3 => {
                if r.chance(1, 3) {
                    d.al.error = true;
                    d.al.code = 0x0011;
                }
            }
            _ => d.al.state = *r.pick(&[1u8, 2]),
        }
    }
    let script = if r.chance(1, 5) { vec![(r.below(2) as usize, if r.chance(1, 2) { Act::Lose(false) } else { Act::SetWkc(n as u16 - 1) })] } else { vec![] };
    let rec = wkcnet::install(&mut net, script);
    let t0 = ecverif::clock::now();
    let res = catch_unwind(AssertUnwindSafe(|| run(&mut net, async { md.wait_for_state(desired).await }))).map_err(|_| ());
    let elapsed = ecverif::clock::now() - t0;
    wkcnet::uninstall(&mut net);
    let (tok, deadline, ok) = token(&res);
    let rec = rec.borrow();
    let line = format!("c10 m{seed} md {n} {} {}", u8::from(desired), wkcnet::trace(&rec, deadline));
    // monitor: Ok only if the last broadcast read was answered by all devices, reported no error and the state
    if ok {
        let last = rec.evs.iter().rev().find_map(|e| if let RecEv::Dg(d) = e { Some(d) } else { None });
        match last {
            Some(d) if d.wkc == n as u16 && d.data[0] & 0x1f == u8::from(desired) => {}
            other => rep.fail("c10/md-wait-ok-unfounded", &format!("wait_for_state Ok but the last datagram was {other:?}"), &line),
        }
    } else if elapsed > STATE_TRANSITION_US + TICK_US + PDU_US {
        rep.fail("c10/error-after-deadline", &format!("wait_for_state error after {elapsed} us"), &line);
    }
    rep.hit(&format!("md:res:{tok}"));
    rep.case(line, tok);
    unsafe { net.recycle() };
}

// ------------------------------------------------------------------------------------------------

fn run_recipe(recipe: &str, line: &str, rep: &mut Report) {
    let head = recipe.split('.').next().unwrap_or("");
    if let Some(seed) = head.strip_prefix('w').and_then(|s| s.parse::<u64>().ok()) {
        tr_world(seed, rep, None);
    } else if let Some(seed) = head.strip_prefix('m').and_then(|s| s.parse::<u64>().ok()) {
        md_world(seed, rep);
    } else if head.starts_with('k') {
        let parts: Vec<&str> = recipe[1..].split('.').collect();
        if parts.len() >= 2 {
            if let (Some(name), Ok(seed)) = (["healthy", "errind", "stall", "refuse", "slow"].into_iter().find(|n| *n == parts[0]), parts[1].parse::<u64>()) {
                tr_world(seed, rep, Some(name));
            }
        }
    } else if head.starts_with('u') {
        // a summary case carries its own input: the status bytes in the trace
        let bytes: Vec<u8> = line
            .split(' ')
            .nth(3)
            .unwrap_or("-")
            .split(',')
            .filter_map(|e| e.split('.').nth(1).and_then(|h| u8::from_str_radix(&h[..2.min(h.len())], 16).ok()))
            .collect();
        if !bytes.is_empty() && bytes.len() <= 16 {
            if let Some(mut w) = sum_world(bytes.len()) {
                one_sum(&mut w, &bytes, head, rep);
            }
        }
    }
}

fn main() {
    let args = ecverif::parse_args();
    let mut rep = Report::default();
    if let Some(cases) = ecverif::replay_cases(&args) {
        let mut seen = std::collections::BTreeSet::new();
        // the former witnesses of the repaired findings run in every mode: they must pass
        tr_world(1, &mut rep, Some("errind"));
        if let Some(mut w) = sum_world(2) {
            one_sum(&mut w, &[8, 0], "u2", &mut rep);
            one_sum(&mut w, &[1, 2], "u2", &mut rep);
        }
        for c in cases.iter().filter(|c| c.starts_with("c10 ")) {
            if let Some(recipe) = c.split(' ').nth(1) {
                let world = recipe.rsplitn(2, '.').last().unwrap_or(recipe).to_string();
                let key = if recipe.starts_with('u') { c.clone() } else { world };
                if seen.insert(key) {
                    run_recipe(recipe, c, &mut rep);
                }
            }
        }
    } else {
        // corpus first
        for name in ["healthy", "errind", "stall", "refuse", "slow"] {
            for seed in 1..=4u64 {
                tr_world(seed, &mut rep, Some(name));
            }
        }
        let mut rng = Rng::new(args.seed ^ 0xc10);
        sum_family(&args.tier, &mut rng, &mut rep);
        let worlds = if args.tier == "thorough" { 6000 } else { 800 };
        for _ in 0..worlds {
            tr_world(rng.next() >> 1, &mut rep, None);
        }
        for _ in 0..worlds {
            md_world(rng.next() >> 1, &mut rep);
        }
    }
    rep.write(&args.out, "c10");
}
