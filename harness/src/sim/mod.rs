//! Simulated EtherCAT segment: a tree of ESC models processing EtherCAT frames per ETG1000.4.
//! See README.md in this directory for the API overview.
pub mod coe;
pub mod desc;
pub mod esc;
pub mod sii;

pub use coe::{CoeEvent, CoeServer, UploadMode};
pub use desc::DeviceDesc;
pub use esc::{AlRule, Ctx, DcCaps, Esc, SiiFault, SiiOp};
pub use sii::{MailboxDesc, PdoDesc, PdoEntryDesc, SmDesc};

pub const CMD_NOP: u8 = 0;
pub const CMD_APRD: u8 = 1;
pub const CMD_APWR: u8 = 2;
pub const CMD_APRW: u8 = 3;
pub const CMD_FPRD: u8 = 4;
pub const CMD_FPWR: u8 = 5;
pub const CMD_FPRW: u8 = 6;
pub const CMD_BRD: u8 = 7;
pub const CMD_BWR: u8 = 8;
pub const CMD_BRW: u8 = 9;
pub const CMD_LRD: u8 = 10;
pub const CMD_LWR: u8 = 11;
pub const CMD_LRW: u8 = 12;
pub const CMD_ARMW: u8 = 13;
pub const CMD_FRMW: u8 = 14;

pub fn cmd_name(c: u8) -> &'static str {
    match c {
        0 => "NOP",
        1 => "APRD",
        2 => "APWR",
        3 => "APRW",
        4 => "FPRD",
        5 => "FPWR",
        6 => "FPRW",
        7 => "BRD",
        8 => "BWR",
        9 => "BRW",
        10 => "LRD",
        11 => "LWR",
        12 => "LRW",
        13 => "ARMW",
        14 => "FRMW",
        _ => "UNKNOWN",
    }
}

/// Where a device hangs in the physical tree.
#[derive(Clone, Copy, Debug, PartialEq, Eq)]
pub struct Link {
    /// Ring position of the parent device.
    pub parent: usize,
    /// Port of the parent (3, 1 or 2) the device's port 0 is cabled to.
    pub port: u8,
    /// One-way cable delay in ns.
    pub delay_ns: u32,
}

/// One datagram as seen on the wire, with what the segment did to it.
#[derive(Clone, Debug, PartialEq, Eq)]
pub struct DatagramLog {
    pub cmd: u8,
    pub idx: u8,
    /// Address fields as SENT by the MainDevice (position/station address and register), or the
    /// 32-bit logical address split into its two halves for Lxx.
    pub adp: u16,
    pub ado: u16,
    pub len: u16,
    pub wkc_in: u16,
    pub wkc_out: u16,
    /// Ring positions of the devices that executed (read and/or wrote) the datagram.
    pub executed_by: Vec<u16>,
    /// Payload as sent / as returned (only if `Segment::log_data`).
    pub data_in: Vec<u8>,
    pub data_out: Vec<u8>,
}

impl DatagramLog {
    pub fn logical(&self) -> u32 {
        self.adp as u32 | ((self.ado as u32) << 16)
    }
    /// Ring position targeted by an auto-increment command.
    pub fn ap_position(&self) -> u16 {
        0u16.wrapping_sub(self.adp)
    }
    /// `KIND:target:register` projection used by command-trace comparisons.
    pub fn project(&self) -> String {
        match self.cmd {
            CMD_APRD | CMD_APWR | CMD_APRW | CMD_ARMW => format!("{}:{}:{:04x}", cmd_name(self.cmd), self.ap_position(), self.ado),
            CMD_FPRD | CMD_FPWR | CMD_FPRW | CMD_FRMW => format!("{}:{:04x}:{:04x}", cmd_name(self.cmd), self.adp, self.ado),
            CMD_BRD | CMD_BWR | CMD_BRW => format!("{}:*:{:04x}", cmd_name(self.cmd), self.ado),
            CMD_LRD | CMD_LWR | CMD_LRW => format!("{}:{:08x}:{}", cmd_name(self.cmd), self.logical(), self.len),
            _ => cmd_name(self.cmd).to_string(),
        }
    }
}

#[derive(Clone, Debug, Default, PartialEq, Eq)]
pub struct FrameLog {
    pub time_ns: u64,
    pub datagrams: Vec<DatagramLog>,
}

pub struct Segment {
    /// Devices in ring (frame processing) order.
    pub devices: Vec<Esc>,
    /// `links[i]`: where device `i` hangs; `None` for device 0 (cabled to the MainDevice).
    pub links: Vec<Option<Link>>,
    /// Cable delay MainDevice -> first device.
    pub master_delay_ns: u32,
    /// Global time (ns) at which the frame being processed leaves the MainDevice. Set by the
    /// executor before every `process_frame`.
    pub now_ns: u64,
    pub log: Vec<FrameLog>,
    pub log_enabled: bool,
    pub log_data: bool,
    /// With no devices: echo the frame (as a loop-back plug would) instead of swallowing it.
    pub echo_when_empty: bool,
    pub frames: u64,
}

fn rd16(b: &[u8], a: usize) -> u16 {
    u16::from_le_bytes([b[a], b[a + 1]])
}

impl Segment {
    /// A line: device i+1 on port 1 of device i.
    pub fn line(devices: Vec<Esc>) -> Segment {
        let links = (0..devices.len()).map(|i| if i == 0 { None } else { Some(Link { parent: i - 1, port: 1, delay_ns: 100 }) }).collect();
        Segment::tree(devices, links)
    }

    pub fn from_descs(descs: &[DeviceDesc]) -> Segment {
        Segment::line(descs.iter().map(|d| d.build()).collect())
    }

    /// A tree. `links[i]` must refer to an earlier device; the ring order implied by the tree
    /// (depth first, ports in the order 3, 1, 2) must be the order of `devices` — checked.
    pub fn tree(devices: Vec<Esc>, links: Vec<Option<Link>>) -> Segment {
        assert_eq!(devices.len(), links.len());
        let mut s = Segment {
            devices,
            links,
            master_delay_ns: 100,
            now_ns: 0,
            log: Vec::new(),
            log_enabled: true,
            log_data: false,
            echo_when_empty: true,
            frames: 0,
        };
        s.apply_topology();
        let order = s.dfs_order();
        assert_eq!(order, (0..s.devices.len()).collect::<Vec<_>>(), "devices are not in ring order of the tree");
        s
    }

    pub fn len(&self) -> usize {
        self.devices.len()
    }
    pub fn is_empty(&self) -> bool {
        self.devices.is_empty()
    }

    fn children(&self, d: usize, port: u8) -> Option<usize> {
        self.links.iter().position(|l| l.is_some_and(|l| l.parent == d && l.port == port))
    }

    fn dfs_order(&self) -> Vec<usize> {
        fn go(s: &Segment, d: usize, out: &mut Vec<usize>) {
            out.push(d);
            for p in [3u8, 1, 2] {
                if let Some(c) = s.children(d, p) {
                    go(s, c, out);
                }
            }
        }
        let mut out = Vec::new();
        if !self.devices.is_empty() {
            go(self, 0, &mut out);
        }
        out
    }

    /// Derive each device's open ports (DL status) from the tree.
    pub fn apply_topology(&mut self) {
        for d in 0..self.devices.len() {
            if self.devices[d].ports_fixed {
                continue;
            }
            let mut open = [true, false, false, false];
            for p in [1u8, 2, 3] {
                open[p as usize] = self.children(d, p).is_some();
            }
            self.devices[d].ports_open = open;
            self.devices[d].sync_status_regs();
        }
    }

    /// Global arrival time of a frame leaving the MainDevice at `t0` at every port of every device.
    pub fn frame_times(&self, t0: u64) -> Vec<[Option<u64>; 4]> {
        fn walk(s: &Segment, d: usize, arrive: u64, out: &mut Vec<[Option<u64>; 4]>) -> u64 {
            out[d][0] = Some(arrive);
            let mut t = arrive + s.devices[d].dc.proc_delay_ns as u64;
            for p in [3u8, 1, 2] {
                if let Some(c) = s.children(d, p) {
                    let dl = s.links[c].unwrap().delay_ns as u64;
                    let back = walk(s, c, t + dl, out) + dl;
                    out[d][p as usize] = Some(back);
                    t = back + s.devices[d].dc.fwd_delay_ns as u64;
                }
            }
            t
        }
        let mut out = vec![[None; 4]; self.devices.len()];
        if !self.devices.is_empty() {
            walk(self, 0, t0 + self.master_delay_ns as u64, &mut out);
        }
        out
    }

    /// Process one Ethernet frame sent by the MainDevice; returns the frame as it comes back
    /// (empty: nothing comes back).
    pub fn process_frame(&mut self, frame: &[u8]) -> Vec<u8> {
        self.frames += 1;
        let mut out = frame.to_vec();
        if self.devices.is_empty() && !self.echo_when_empty {
            return Vec::new();
        }
        if out.len() >= 12 {
            // the first device marks the frame as processed
            out[6] |= 0x02;
        }
        if out.len() < 16 || rd16(&[out[13], out[12]], 0) != 0x88a4 {
            return out;
        }
        let hdr = rd16(&out, 14);
        if hdr >> 12 != 1 {
            return out;
        }
        let total = (hdr & 0x07ff) as usize;
        let end = (16 + total).min(out.len());
        let times = self.frame_times(self.now_ns);
        let mut flog = FrameLog { time_ns: self.now_ns, datagrams: Vec::new() };
        let mut pos = 16;
        loop {
            if pos + 10 > end {
                break;
            }
            let cmd = out[pos];
            let idx = out[pos + 1];
            let adp0 = rd16(&out, pos + 2);
            let ado0 = rd16(&out, pos + 4);
            let lf = rd16(&out, pos + 6);
            let len = (lf & 0x07ff) as usize;
            let more = lf & 0x8000 != 0;
            let dstart = pos + 10;
            if dstart + len + 2 > end {
                break;
            }
            let wkc_in = rd16(&out, dstart + len);
            let mut dlog = DatagramLog {
                cmd,
                idx,
                adp: adp0,
                ado: ado0,
                len: len as u16,
                wkc_in,
                wkc_out: wkc_in,
                executed_by: Vec::new(),
                data_in: if self.log_data { out[dstart..dstart + len].to_vec() } else { Vec::new() },
                data_out: Vec::new(),
            };
            let mut adp = adp0;
            let mut wkc = wkc_in;
            let mut data = out[dstart..dstart + len].to_vec();
            // FRMW/ARMW: has the addressed device been passed (its data is in the frame)?
            for d in 0..self.devices.len() {
                let ctx = Ctx { cmd, arrival_ns: times[d][0].unwrap_or(self.now_ns), port_ns: times[d] };
                let dev = &mut self.devices[d];
                let mut executed = false;
                match cmd {
                    CMD_APRD | CMD_APWR | CMD_APRW | CMD_ARMW => {
                        let hit = adp == 0;
                        adp = adp.wrapping_add(1);
                        match cmd {
                            CMD_APRD if hit => {
                                if dev.read(ado0, &mut data, &ctx) {
                                    wkc = wkc.wrapping_add(1);
                                    executed = true;
                                }
                            }
                            CMD_APWR if hit => {
                                if dev.write(ado0, &data, &ctx) {
                                    wkc = wkc.wrapping_add(1);
                                    executed = true;
                                }
                            }
                            CMD_APRW if hit => {
                                let incoming = data.clone();
                                if dev.read(ado0, &mut data, &ctx) {
                                    wkc = wkc.wrapping_add(1);
                                    executed = true;
                                }
                                if dev.write(ado0, &incoming, &ctx) {
                                    wkc = wkc.wrapping_add(2);
                                    executed = true;
                                }
                            }
                            CMD_ARMW => {
                                if hit {
                                    if dev.read(ado0, &mut data, &ctx) {
                                        wkc = wkc.wrapping_add(1);
                                        executed = true;
                                    }
                                } else if dev.write(ado0, &data, &ctx) {
                                    wkc = wkc.wrapping_add(1);
                                    executed = true;
                                }
                            }
                            _ => {}
                        }
                    }
                    CMD_FPRD | CMD_FPWR | CMD_FPRW | CMD_FRMW => {
                        let hit = dev.station_address() == adp0 || (dev.alias_enabled() && dev.alias() == adp0);
                        match cmd {
                            CMD_FPRD if hit => {
                                if dev.read(ado0, &mut data, &ctx) {
                                    wkc = wkc.wrapping_add(1);
                                    executed = true;
                                }
                            }
                            CMD_FPWR if hit => {
                                if dev.write(ado0, &data, &ctx) {
                                    wkc = wkc.wrapping_add(1);
                                    executed = true;
                                }
                            }
                            CMD_FPRW if hit => {
                                let incoming = data.clone();
                                if dev.read(ado0, &mut data, &ctx) {
                                    wkc = wkc.wrapping_add(1);
                                    executed = true;
                                }
                                if dev.write(ado0, &incoming, &ctx) {
                                    wkc = wkc.wrapping_add(2);
                                    executed = true;
                                }
                            }
                            CMD_FRMW => {
                                if hit {
                                    if dev.read(ado0, &mut data, &ctx) {
                                        wkc = wkc.wrapping_add(1);
                                        executed = true;
                                    }
                                } else if dev.write(ado0, &data, &ctx) {
                                    wkc = wkc.wrapping_add(1);
                                    executed = true;
                                }
                            }
                            _ => {}
                        }
                    }
                    CMD_BRD | CMD_BWR | CMD_BRW => {
                        adp = adp.wrapping_add(1);
                        let incoming = data.clone();
                        if cmd != CMD_BWR {
                            let mut tmp = vec![0u8; len];
                            if dev.read(ado0, &mut tmp, &ctx) {
                                for (o, t) in data.iter_mut().zip(tmp.iter()) {
                                    *o |= *t;
                                }
                                wkc = wkc.wrapping_add(1);
                                executed = true;
                            }
                        }
                        if cmd != CMD_BRD && dev.write(ado0, &incoming, &ctx) {
                            wkc = wkc.wrapping_add(if cmd == CMD_BRW { 2 } else { 1 });
                            executed = true;
                        }
                    }
                    CMD_LRD | CMD_LWR | CMD_LRW => {
                        let logical = adp0 as u32 | ((ado0 as u32) << 16);
                        let (r, w) = dev.logical(logical, &mut data, cmd != CMD_LWR, cmd != CMD_LRD);
                        if r {
                            wkc = wkc.wrapping_add(1);
                        }
                        if w {
                            wkc = wkc.wrapping_add(if cmd == CMD_LRW { 2 } else { 1 });
                        }
                        executed = r || w;
                    }
                    _ => {}
                }
                if executed {
                    dlog.executed_by.push(d as u16);
                }
            }
            out[pos + 2..pos + 4].copy_from_slice(&adp.to_le_bytes());
            out[dstart..dstart + len].copy_from_slice(&data);
            out[dstart + len..dstart + len + 2].copy_from_slice(&wkc.to_le_bytes());
            dlog.wkc_out = wkc;
            if self.log_data {
                dlog.data_out = data;
            }
            flog.datagrams.push(dlog);
            pos = dstart + len + 2;
            if !more {
                break;
            }
        }
        if self.log_enabled {
            self.log.push(flog);
        }
        out
    }

    /// All datagrams seen so far, flattened.
    pub fn datagrams(&self) -> impl Iterator<Item = &DatagramLog> {
        self.log.iter().flat_map(|f| f.datagrams.iter())
    }

    /// Cross-talk check for position/station addressed datagrams: returns a description of every
    /// datagram that was executed by a device other than the single one `expect` names.
    /// `expect(datagram)` returns the ring position that should have executed it, or None if the
    /// datagram is not to be checked.
    pub fn crosstalk(&self, expect: impl Fn(&DatagramLog) -> Option<u16>) -> Vec<String> {
        let mut out = Vec::new();
        for d in self.datagrams() {
            if let Some(p) = expect(d) {
                if d.executed_by != [p] {
                    out.push(format!("{} executed by {:?}, expected [{}]", d.project(), d.executed_by, p));
                }
            }
        }
        out
    }
}
