/- Shared line-protocol pieces of the C10/C11 drivers: event traces and result tokens. -/
import EcModel.Wkc
import EcModel.GroupState
import EcModel.Drv.Util

namespace Ec.Drv.WkcUtil
open Ec Ec.Drv Ec.Wkc

/-- `r<wkc>.<hex>` | `x` | `d` | `xd`. -/
def parseEv (s : String) : Option Ev :=
  if s = "x" then some .lost
  else if s = "d" then some .deadline
  else if s = "xd" then some .lostDeadline
  else if s.startsWith "r" then
    match splitOn ((s.drop 1).toString) "." with
    | [w, h] => some (.resp ⟨hex! h, nat! w⟩)
    | _ => none
  else none

/-- Comma separated events; `-` = none. -/
def parseTrace (s : String) : List Ev :=
  if s = "-" then [] else (splitOn s ",").filterMap parseEv

def parseNats (s : String) : List Nat :=
  if s = "-" then [] else (splitOn s ",").map nat!

def showKind : TimeoutKind → String
  | .stateTransition => "statetransition" | .pdu => "pdu" | .eeprom => "eeprom"
  | .mailboxEcho => "mailboxecho" | .mailboxResponse => "mailboxresponse"

def showErr : Err → String
  | .workingCounter e r => s!"wkc:{e}:{r}"
  | .timeout k => "timeout:" ++ showKind k
  | .wire => "wire"
  | .subDevice c => s!"sub:{c}"
  | .stateTransition => "statetransition"
  | .eepromClearErrors => "eeprom:clearerrors"
  | .panic _ => "panic"
  | .badTrace => "badtrace"

def showRes {α : Type} (f : α → String) : Res α → String
  | .ok a => f a
  | .error e => showErr e

/-- expected counter: `d` default (builder untouched), `i` ignore_wkc, number = with_wkc. -/
def readBuilder (s : String) : WrappedRead :=
  if s = "d" then WrappedRead.new else if s = "i" then WrappedRead.new.ignoreWkc else WrappedRead.new.withWkc (nat! s)

def writeBuilder (s : String) : WrappedWrite :=
  if s = "d" then WrappedWrite.new else if s = "i" then WrappedWrite.new.ignoreWkc else WrappedWrite.new.withWkc (nat! s)

def parseMode (s : String) : Mode := if s = "release" then .wrapping else .checked

def hex4 (n : Nat) : String := hexByte (n / 256 % 256) ++ hexByte (n % 256)

def showDg : Group.Dg → String
  | .fpwr a r v => "FPWR:" ++ hex4 a ++ ":" ++ hex4 r ++ ":" ++ hexByte v
  | .fprd a r => "FPRD:" ++ hex4 a ++ ":" ++ hex4 r

/-- frames separated by `;`, datagrams of one frame by `+`; `-` = nothing sent. -/
def showSent (fs : List (List Group.Dg)) : String :=
  if fs.isEmpty then "-" else joinWith ";" (fs.map fun f => joinWith "+" (f.map showDg))

end Ec.Drv.WkcUtil
