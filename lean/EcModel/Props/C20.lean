/-
  C20 — tasks sharing one MainDevice do not disturb each other.

  Model: EcModel/Tasks.lean (await-point granularity; any number of slots, tasks, any task programs,
  ANY segment `seg : σ → Rq → σ × Rs`, every schedule of issue / arrive / deliver / consume steps,
  i.e. every interleaving of the tasks and every assignment of per-frame latencies).

  Theorems
    routing_table            distinct in-flight requests hold distinct first indices (and one slot per task)
    transparent_transport    the response the segment produced for a request is stored in the requester's own
                             slot and nowhere else  — under the < 256 indices assumption (`Admissible`)
    transparent_transport_counterexample   without that assumption the real routing function hands a
                             response to another task (witness; KNOWN_FINDINGS c20/index-reuse-in-flight)
    alloc_never_spurious     in-flight < n  ⇒  `alloc_frame` succeeds
    alloc_fails_iff_full     `alloc_frame` fails with SwapState  ⇔  all n slots are in flight
    issue_never_spurious     a task's request is not refused while fewer than n frames are in flight
    just_enough_storage      m tasks, n ≥ m slots: no request is ever refused (pigeonhole over the slot table)
    images_separate          a group's image changes only when a task picks up the segment's response to a
                             cycle request OF THAT GROUP, and becomes that response's inputs
    cycles_commute           cycles over disjoint logical windows commute on the segment (C07/C08 hypothesis)
    same_as_sequential       every task's results = its share of ONE sequential execution of all requests in
                             the order the segment processed them (linearisability of the transport)
    same_as_alone            if requests of different tasks commute on the segment, every task's results =
                             the results of running its program alone from the same initial segment state

  Imported facts, stated as hypotheses (wired to the other properties' theorems by the lead):
    C01  the returned frame carries the first index it was sent with, `receive_frame` copies exactly the
         returned bytes into the routed slot (here: `deliver` uses `e.idx` and stores `rs` unchanged);
    C03  slots are returned (here: `consume` frees the slot; no abandonment because PDU timeouts are large);
    C07/C08  `WindowsDisjoint` for the logical windows of different groups.
-/
import EcModel.Lemmas.TasksAlloc

namespace Ec.C20
open Ec.Tasks

variable {Rq Rs σ : Type}

/-- Every reachable state satisfies the routing-table / linearisation invariant. -/
theorem reach_inv (S : Sys Rq Rs σ) (n c tot : Nat) (s0 : σ) (img0 : Nat → List Nat) (st : St Rq Rs σ)
    (hr : Reach S n c tot s0 img0 st) : Inv S s0 st := by
  obtain ⟨sched, hadm, rfl⟩ := hr
  exact inv_run S s0 _ sched (inv_init S n c tot s0 img0) hadm

/-- Routing table: two different slots never hold requests of the same task, and two requests that
    both await a response never carry the same first index. -/
theorem routing_table (S : Sys Rq Rs σ) (n c tot : Nat) (s0 : σ) (img0 : Nat → List Nat) (st : St Rq Rs σ)
    (hr : Reach S n c tot s0 img0 st) (i j : Nat) (ei ej : Entry Rq Rs)
    (hi : slotAt st.slots i = some ei) (hj : slotAt st.slots j = some ej) (hne : i ≠ j) :
    ei.task ≠ ej.task ∧ (ei.stage.awaiting = true → ej.stage.awaiting = true → ei.idx ≠ ej.idx) := by
  have h := reach_inv S n c tot s0 img0 st hr
  exact ⟨fun e => hne (h.uniq i j ei ej hi hj e), fun a b e => hne (h.idx i j ei ej hi hj a b e)⟩

/-- Transparent transport.  When the response `rs` to frame `u` — sent from slot `j` for the request
    `e.req` of task `e.task` — reaches `receive_frame`: `rs` is the response the segment produced for
    exactly that request of that task (it is in the segment's log), the routing function finds slot
    `j` and no other, and the only effect is that slot `j` now holds `rs` for its task to pick up. -/
theorem transparent_transport (S : Sys Rq Rs σ) (n c tot : Nat) (s0 : σ) (img0 : Nat → List Nat) (st : St Rq Rs σ)
    (hr : Reach S n c tot s0 img0 st) (u j : Nat) (e : Entry Rq Rs) (rs : Rs)
    (hfind : findSlot (selBack u) st.slots = some (j, e, rs)) :
    (e.task, e.req, rs) ∈ st.log ∧ route st.slots e.idx = some (j, e, ()) ∧
    deliver st u = { st with slots := st.slots.set j (some { e with stage := .done rs }) } := by
  have h := reach_inv S n c tot s0 img0 st hr
  obtain ⟨hj, hsel⟩ := findSlot_some hfind
  have hes := selBack_some hsel
  exact ⟨(h.backs j e rs hj (by rw [hes]; rfl)).2, route_self S s0 st h j e hj (by rw [hes]; rfl),
    deliver_eq S s0 st u h j e rs hfind⟩

/-- … and what a task picks up is what was stored for it: its result sequence grows by exactly the
    response in its own slot. -/
theorem consume_own (S : Sys Rq Rs σ) (st : St Rq Rs σ) (t j : Nat) (e : Entry Rq Rs) (rs : Rs)
    (hfind : findSlot (selDone t) st.slots = some (j, e, rs)) :
    (consume S st t).got t = st.got t ++ [rs] ∧ (∀ u, u ≠ t → (consume S st t).got u = st.got u) ∧
    slotAt (consume S st t).slots j = none := by
  obtain ⟨hj, _⟩ := findSlot_some hfind
  unfold consume
  rw [hfind]
  refine ⟨by simp [upd], fun u hu => by simp [upd, hu], ?_⟩
  simp [slotAt_set _ _ _ _ (slotAt_lt hj)]

/-! ### allocation -/

/-- Fewer frames in flight than the storage holds ⇒ `alloc_frame` finds a free slot. -/
theorem alloc_never_spurious {α : Type} (l : List (Option α)) (c : Nat) (hn : l.length ≤ 256)
    (hfree : inFlight l < l.length) :
    ∃ k c', alloc l c = (some k, c') ∧ k < l.length ∧ slotAt l k = none :=
  alloc_complete l c hfree hn

/-- `alloc_frame` fails (SwapState) iff all `n` slots are in flight. -/
theorem alloc_fails_iff_full {α : Type} (l : List (Option α)) (c : Nat) (hn : l.length ≤ 256) :
    (alloc l c).1 = none ↔ inFlight l = l.length := by
  constructor
  · intro h
    have hle := inFlight_le l
    by_cases hlt : inFlight l < l.length
    · obtain ⟨k, c', hal, _⟩ := alloc_complete l c hlt hn
      rw [hal] at h; cases h
    · omega
  · intro h
    apply allocLoop_full
    intro i hi hnone
    have : inFlight l < l.length := by
      unfold inFlight
      apply Nat.lt_of_le_of_ne List.countP_le_length
      intro heq
      have hall := List.countP_eq_length.mp heq
      have hmem : (none : Option α) ∈ l := by
        unfold slotAt at hnone
        simp [List.getD, hi] at hnone
        rw [← hnone]; exact List.getElem_mem hi
      have := hall none hmem
      simp at this
    omega

/-- No operation is refused merely because of the others: a poll in which a task wants to issue a
    request while fewer than `n` frames are in flight never ends in SwapState. -/
theorem issue_never_spurious (S : Sys Rq Rs σ) (st : St Rq Rs σ) (t : Nat) (hn : st.slots.length ≤ 256)
    (hfree : inFlight st.slots < st.slots.length) :
    (issue S st t).fails = st.fails := by
  obtain ⟨k, c', hal, _⟩ := alloc_complete st.slots st.cursor hfree hn
  unfold issue
  split
  · rfl
  · split
    · rfl
    · rw [hal]

/-- Just-enough storage: with one slot per task (`m` tasks, `n ≥ m` slots) no request of any task is
    ever refused, whatever the schedule and the latencies. -/
theorem just_enough_storage (S : Sys Rq Rs σ) (n c tot m : Nat) (s0 : σ) (img0 : Nat → List Nat) (sched : List Act)
    (hm : m ≤ n) (hn : n ≤ 256) (hadm : Admissible S (St.init n c tot s0 img0) sched)
    (hbelow : TasksBelow m sched) (t : Nat) :
    (run S (St.init n c tot s0 img0) sched).fails t = 0 := by
  have := run_fails S s0 m (St.init n c tot s0 img0) sched (inv_init S n c tot s0 img0)
    (by intro i e hi; simp [St.init, slotAt_replicate] at hi) (by simp [St.init]; exact hm)
    (by simp [St.init]; exact hn) hadm hbelow
  rw [this]; rfl

/-! ### process images -/

/-- Group `g`'s image is written only by `g`'s own cycle: if a step changes it, the step is a task
    picking up the response to a request that is a cycle of `g`, and the new image is that response's
    inputs laid over the old image. -/
theorem images_separate (S : Sys Rq Rs σ) (st : St Rq Rs σ) (a : Act) (g : Nat)
    (hch : (step S st a).img g ≠ st.img g) :
    ∃ t j e rs, a = .consume t ∧ findSlot (selDone t) st.slots = some (j, e, rs) ∧ e.task = t ∧
      S.grp e.req = some g ∧ (step S st a).img g = S.inputs e.req rs (st.img g) := by
  cases a with
  | issue t => exact absurd (by simp [step, issue_img]) hch
  | arrive t => exact absurd (by simp [step, arrive_img]) hch
  | deliver t => exact absurd (by simp [step, deliver_img]) hch
  | consume t =>
    simp only [step] at hch ⊢
    cases hfind : findSlot (selDone t) st.slots with
    | none => exact absurd (by unfold consume; rw [hfind]) hch
    | some r =>
      obtain ⟨j, e, rs⟩ := r
      obtain ⟨hj, hsel⟩ := findSlot_some hfind
      obtain ⟨het, _⟩ := selDone_some hsel
      have himg : (consume S st t).img = updOpt st.img (imgWrite S st.img e.req rs) := by
        simp only [consume, hfind]
      rw [himg] at hch ⊢
      cases hg : S.grp e.req with
      | none =>
        simp only [imgWrite, hg] at hch
        exact absurd rfl hch
      | some g' =>
        simp only [imgWrite, hg] at hch ⊢
        by_cases hgg : g = g'
        · subst hgg
          exact ⟨t, j, e, rs, rfl, hfind, het, hg, by simp [updOpt]⟩
        · exact absurd (by simp [updOpt, hgg]) hch

/-- … and in a reachable state that response is the one the segment produced for that very cycle
    request of that task (no foreign data can enter an image). -/
theorem images_provenance (S : Sys Rq Rs σ) (n c tot : Nat) (s0 : σ) (img0 : Nat → List Nat) (st : St Rq Rs σ)
    (hr : Reach S n c tot s0 img0 st) (t j : Nat) (e : Entry Rq Rs) (rs : Rs)
    (hfind : findSlot (selDone t) st.slots = some (j, e, rs)) :
    (t, e.req, rs) ∈ st.log := by
  have h := reach_inv S n c tot s0 img0 st hr
  obtain ⟨hj, hsel⟩ := findSlot_some hfind
  obtain ⟨het, hes⟩ := selDone_some hsel
  have := (h.backs j e rs hj (by rw [hes]; rfl)).2
  rwa [het] at this

/-- Segment side: process-data cycles over disjoint logical windows commute. -/
theorem cycles_commute (isIn : Nat → Bool) (a b : Nat × List Nat) (hd : WindowsDisjoint a b) :
    Commute (lrw isIn) a b ∧ Commute (lrw isIn) b a :=
  ⟨lrw_commute isIn a b hd, lrw_commute isIn b a (Or.symm hd)⟩

/-! ### the main theorems -/

/-- Linearisability of the transport.  For every schedule and latency assignment: the segment's log
    IS a sequential execution of all requests from the initial segment state (responses and final
    device state), every task's result sequence is its share of that execution (a prefix while a
    response is still under way, all of it when the task holds no slot), and every task issued its
    requests in its own program order. -/
theorem same_as_sequential (S : Sys Rq Rs σ) (n c tot : Nat) (s0 : σ) (img0 : Nat → List Nat) (sched : List Act)
    (hadm : Admissible S (St.init n c tot s0 img0) sched) :
    let st := run S (St.init n c tot s0 img0) sched
    seqRun S.seg s0 (st.log.map (fun x => x.2.1)) = (st.log.map (fun x => x.2.2), st.seg) ∧
    ∀ t, st.got t <+: respsOf t st.log ∧
         (findSlot (selTask t) st.slots = none → st.got t = respsOf t st.log) ∧
         Follows (S.tasks t) (reqsOf t st.log) (respsOf t st.log) := by
  intro st
  have h : Inv S s0 st := inv_run S s0 _ sched (inv_init S n c tot s0 img0) hadm
  refine ⟨?_, fun t => ⟨(got_prefix S s0 st h t).1, (got_prefix S s0 st h t).2, h.prog t⟩⟩
  rw [valid_seqRun S.seg s0 st.log h.valid, h.ends]

/-- Same as alone.  If the requests of different tasks that the segment processed commute (they
    touch disjoint device state), then for every schedule and latency assignment each task's result
    sequence is exactly what its program gets when it runs ALONE from the same initial segment state. -/
theorem same_as_alone (S : Sys Rq Rs σ) (n c tot : Nat) (s0 : σ) (img0 : Nat → List Nat) (sched : List Act)
    (hadm : Admissible S (St.init n c tot s0 img0) sched)
    (hc : ∀ x ∈ (run S (St.init n c tot s0 img0) sched).log, ∀ y ∈ (run S (St.init n c tot s0 img0) sched).log,
      x.1 ≠ y.1 → Commute S.seg x.2.1 y.2.1) (t : Nat) :
    let st := run S (St.init n c tot s0 img0) sched
    st.got t = alone S.seg (S.tasks t) (st.got t).length s0 [] := by
  intro st
  have h : Inv S s0 st := inv_run S s0 _ sched (inv_init S n c tot s0 img0) hadm
  have ha := alone_of_log S.seg (S.tasks t) t st.log s0 h.valid (h.prog t) hc
  obtain ⟨x, hx⟩ := (got_prefix S s0 st h t).1
  have hlen : (respsOf t st.log).length = (st.got t).length + x.length := by rw [← hx]; simp
  rw [alone_take S.seg (S.tasks t) (st.got t).length x.length s0 [], ← hlen, ha, ← hx]
  simp

/-- The same with the hypothesis on the PROGRAMS: whatever two different tasks may ever ask commutes. -/
theorem same_as_alone_programs (S : Sys Rq Rs σ) (n c tot : Nat) (s0 : σ) (img0 : Nat → List Nat) (sched : List Act)
    (hadm : Admissible S (St.init n c tot s0 img0) sched)
    (hc : ∀ t u h1 h2 a b, t ≠ u → S.tasks t h1 = some a → S.tasks u h2 = some b → Commute S.seg a b) (t : Nat) :
    let st := run S (St.init n c tot s0 img0) sched
    st.got t = alone S.seg (S.tasks t) (st.got t).length s0 [] := by
  intro st
  have h : Inv S s0 st := inv_run S s0 _ sched (inv_init S n c tot s0 img0) hadm
  apply same_as_alone S n c tot s0 img0 sched hadm
  intro x hx y hy hne
  -- every logged request of a task is what its program asked for after some history
  have asked : ∀ z ∈ st.log, ∃ hist, S.tasks z.1 hist = some z.2.1 := by
    intro z hz
    have hm : z ∈ st.log.filter (fun w => w.1 == z.1) := List.mem_filter.mpr ⟨hz, by simp⟩
    obtain ⟨k, hk, hget⟩ := List.getElem_of_mem hm
    refine ⟨(respsOf z.1 st.log).take k, h.prog z.1 k z.2.1 ?_⟩
    simp only [reqsOf, List.getElem?_map]
    rw [List.getElem?_eq_getElem hk, hget]; rfl
  obtain ⟨h1, e1⟩ := asked x hx
  obtain ⟨h2, e2⟩ := asked y hy
  exact hc x.1 y.1 h1 h2 _ _ hne e1 e2

/-! ### non-vacuity and the witness of the index-reuse gap -/

section Examples

/-- Toy segment: one counter per "device"; request `(d, v)` adds `v` to device `d` and returns the
    old value.  Requests on different devices commute. -/
def toySeg (s : Nat → Nat) (rq : Nat × Nat) : (Nat → Nat) × Nat :=
  (fun d => if d = rq.1 then s d + rq.2 else s d, s rq.1)

/-- Task 0 works on device 0 (three requests), task 1 on device 1 (two requests). -/
def toy : Sys (Nat × Nat) Nat (Nat → Nat) :=
  { seg := toySeg,
    tasks := fun t h => if t = 0 then [(0, 5), (0, 7), (0, 1)][h.length]? else if t = 1 then [(1, 2), (1, 3)][h.length]? else none,
    extra := fun _ => 0, grp := fun rq => if rq.1 = 0 then some 0 else none,
    inputs := fun _ rs _ => [rs] }

/-- Interleaved, responses delivered out of order, two slots (one per task). -/
def toySched : List Act :=
  [.issue 0, .issue 1, .arrive 1, .arrive 0, .deliver 0, .consume 0, .issue 0, .arrive 2, .deliver 1,
   .deliver 2, .consume 0, .consume 1, .issue 1, .issue 0, .arrive 4, .arrive 3, .deliver 3, .deliver 4,
   .consume 1, .consume 0]

example : admissibleB toy (St.init 2 254 250 (fun _ => 0) (fun _ => [])) toySched = true := by decide

example : Admissible toy (St.init 2 254 250 (fun _ => 0) (fun _ => [])) toySched :=
  admissibleB_sound _ _ _ (by decide)

example : TasksBelow 2 toySched := by simp [TasksBelow, toySched]

/-- The hypotheses of `same_as_alone` hold in a non-trivial run and its conclusion is what one expects. -/
example : (run toy (St.init 2 254 250 (fun _ => 0) (fun _ => [])) toySched).got 0 = [0, 5, 12] ∧
    (run toy (St.init 2 254 250 (fun _ => 0) (fun _ => [])) toySched).got 1 = [0, 2] ∧
    (run toy (St.init 2 254 250 (fun _ => 0) (fun _ => [])) toySched).fails 0 = 0 ∧
    (run toy (St.init 2 254 250 (fun _ => 0) (fun _ => [])) toySched).img 0 = [12] ∧
    (run toy (St.init 2 254 250 (fun _ => 0) (fun _ => [])) toySched).log.map (fun x => x.1) = [1, 0, 0, 0, 1] := by
  decide

example : alone toySeg (toy.tasks 0) 3 (fun _ => 0) [] = [0, 5, 12] := by decide

example (a b : Nat × Nat) (h : a.1 ≠ b.1) : Commute toySeg a b := by
  intro s
  constructor
  · simp [toySeg, Ne.symm h]
  · funext d
    simp only [toySeg]
    by_cases h1 : d = a.1 <;> by_cases h2 : d = b.1 <;> simp_all

/-- One slot for two tasks: the second request is refused exactly because the storage is full. -/
example : (run toy (St.init 1 0 0 (fun _ => 0) (fun _ => [])) [.issue 0, .issue 1]).fails 1 = 1 := by decide

/-- Frames with 85 datagrams each: three of them use up 255 indices. -/
def wrapSys : Sys Nat Nat Unit :=
  { seg := fun s rq => (s, rq + 100),
    tasks := fun t h => if t = 0 then [0][h.length]? else if t = 1 then [1, 2, 3, 4][h.length]? else none,
    extra := fun rq => if rq = 0 ∨ rq = 4 then 0 else 84, grp := fun _ => none, inputs := fun _ _ i => i }

def wrapSched : List Act :=
  [.issue 0, .arrive 0,
   .issue 1, .arrive 1, .deliver 1, .consume 1,
   .issue 1, .arrive 2, .deliver 2, .consume 1,
   .issue 1, .arrive 3, .deliver 3, .consume 1,
   .issue 1, .arrive 4, .deliver 4, .consume 0, .deliver 0, .consume 1]

end Examples

/-- The gap `transparent_transport` leaves open, as the code has it: task 0's request (first index 0,
    slot 0) is still under way when task 1 has used up 256 indices; task 1's next request gets first
    index 0 again, and `frame_index_by_first_pdu_index` hands ITS response (104) to task 0, whose own
    response (100) then goes to task 1: the two tasks receive each other's data.  The schedule violates
    `Admissible` only in its last `issue`.  (Replayed on the real code by the harness' witness case.) -/
theorem transparent_transport_counterexample :
    (run wrapSys (St.init 2 0 0 () (fun _ => [])) wrapSched).got 0 = [104] ∧
    alone wrapSys.seg (wrapSys.tasks 0) 1 () [] = [100] ∧
    (run wrapSys (St.init 2 0 0 () (fun _ => [])) wrapSched).got 1 = [101, 102, 103, 100] ∧
    alone wrapSys.seg (wrapSys.tasks 1) 4 () [] = [101, 102, 103, 104] ∧
    admissibleB wrapSys (St.init 2 0 0 () (fun _ => [])) (wrapSched.take 14) = true ∧
    admissibleB wrapSys (St.init 2 0 0 () (fun _ => [])) (wrapSched.take 15) = false := by
  decide

end Ec.C20
