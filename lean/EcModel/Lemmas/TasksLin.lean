/-
  Sequential reference executions for EcModel.Tasks: replay of the segment log, dropping commuting
  requests of other tasks, a task program run alone; allocation completeness; LRW commutation.
-/
import EcModel.Lemmas.TasksInv

namespace Ec.Tasks

variable {Rq Rs σ : Type}

/-! ### the log is a sequential run -/

theorem valid_seqRun (seg : σ → Rq → σ × Rs) (s : σ) (log : List (Nat × Rq × Rs)) (hv : Valid seg s log) :
    seqRun seg s (log.map (fun x => x.2.1)) = (log.map (fun x => x.2.2), endState seg s log) := by
  induction log generalizing s with
  | nil => rfl
  | cons x r ih =>
    obtain ⟨h1, h2⟩ := hv
    simp only [List.map_cons, seqRun, endState, ih _ h2, h1]

/-- A request that commutes with everything in `M` can be dropped in front of `M`. -/
theorem valid_skip (seg : σ → Rq → σ × Rs) (a : Rq) (M : List (Nat × Rq × Rs)) (s : σ)
    (hc : ∀ x ∈ M, Commute seg a x.2.1) (hv : Valid seg (seg s a).1 M) : Valid seg s M := by
  induction M generalizing s with
  | nil => trivial
  | cons x r ih =>
    obtain ⟨h1, h2⟩ := hv
    have c := hc x (List.mem_cons_self ..) s
    refine ⟨by rw [← c.1]; exact h1, ?_⟩
    apply ih (seg s x.2.1).1 (fun y hy => hc y (List.mem_cons_of_mem _ hy))
    rw [← c.2]; exact h2

/-- If requests of different tasks commute, the requests of one task, taken out of the log, are a
    sequential run from the same initial state with the same responses. -/
theorem valid_filter (seg : σ → Rq → σ × Rs) (t : Nat) (L : List (Nat × Rq × Rs)) (s : σ)
    (hc : ∀ x ∈ L, ∀ y ∈ L, x.1 ≠ y.1 → Commute seg x.2.1 y.2.1) (hv : Valid seg s L) :
    Valid seg s (L.filter (fun x => x.1 == t)) := by
  induction L generalizing s with
  | nil => trivial
  | cons x r ih =>
    obtain ⟨h1, h2⟩ := hv
    have ihr := ih (seg s x.2.1).1
      (fun a ha b hb => hc a (List.mem_cons_of_mem _ ha) b (List.mem_cons_of_mem _ hb)) h2
    by_cases hx : x.1 = t
    · rw [List.filter_cons_of_pos (by simpa using hx)]
      exact ⟨h1, ihr⟩
    · rw [List.filter_cons_of_neg (by simpa using hx)]
      apply valid_skip seg x.2.1 _ s _ ihr
      intro y hy
      have hm := List.mem_filter.mp hy
      apply hc x (List.mem_cons_self ..) y (List.mem_cons_of_mem _ hm.1)
      have : y.1 = t := by simpa using hm.2
      rw [this]; exact hx

/-- A program whose requests are the logged ones, run alone, gets the logged responses. -/
theorem alone_of_valid (seg : σ → Rq → σ × Rs) (next : List Rs → Option Rq) (L : List (Nat × Rq × Rs))
    (s : σ) (h : List Rs)
    (hf : ∀ k rq, (L.map (fun x => x.2.1))[k]? = some rq → next (h ++ (L.map (fun x => x.2.2)).take k) = some rq)
    (hv : Valid seg s L) :
    alone seg next L.length s h = h ++ L.map (fun x => x.2.2) := by
  induction L generalizing s h with
  | nil => simp [alone]
  | cons x r ih =>
    obtain ⟨h1, h2⟩ := hv
    have h0 : next h = some x.2.1 := by
      have := hf 0 x.2.1 (by simp)
      simpa using this
    simp only [List.length_cons, alone, h0, h1]
    rw [ih (seg s x.2.1).1 (h ++ [x.2.2]) _ h2]
    · simp
    · intro k rq hk
      have := hf (k + 1) rq (by simpa using hk)
      simpa [List.append_assoc] using this

/-- Task `t`'s responses in a valid log in which other tasks' requests commute with its own are the
    responses it gets when it runs ALONE from the initial segment state. -/
theorem alone_of_log (seg : σ → Rq → σ × Rs) (next : List Rs → Option Rq) (t : Nat) (log : List (Nat × Rq × Rs)) (s0 : σ)
    (hv : Valid seg s0 log) (hp : Follows next (reqsOf t log) (respsOf t log))
    (hc : ∀ x ∈ log, ∀ y ∈ log, x.1 ≠ y.1 → Commute seg x.2.1 y.2.1) :
    alone seg next (respsOf t log).length s0 [] = respsOf t log := by
  have hvf := valid_filter seg t log s0 hc hv
  have := alone_of_valid seg next (log.filter (fun x => x.1 == t)) s0 [] (by
    intro k rq hk
    simpa [respsOf, reqsOf] using hp k rq (by simpa [reqsOf] using hk)) hvf
  simpa [respsOf] using this

/-- Fuel beyond the end of the program changes nothing, less fuel gives a prefix. -/
theorem alone_prefix (seg : σ → Rq → σ × Rs) (next : List Rs → Option Rq) (k : Nat) (s : σ) (h : List Rs) :
    h <+: alone seg next k s h := by
  induction k generalizing s h with
  | zero => exact List.prefix_refl _
  | succ n ih =>
    simp only [alone]
    split
    · exact List.prefix_refl _
    · exact List.IsPrefix.trans (List.prefix_append _ _) (ih _ _)

/-! ### allocation -/

theorem alloc_complete (l : List (Option α)) (c : Nat) (hfree : inFlight l < l.length) (hn : l.length ≤ 256) :
    ∃ k c', alloc l c = (some k, c') ∧ k < l.length ∧ slotAt l k = none := by
  obtain ⟨f, hf, hfn⟩ := exists_free_of_inFlight_lt l hfree
  cases hal : alloc l c with
  | mk r c' =>
    cases r with
    | some k =>
      obtain ⟨h1, h2⟩ := allocLoop_some l c _ k c' hal
      exact ⟨k, c', rfl, h1, h2⟩
    | none =>
      exfalso
      obtain ⟨j, hj, hje⟩ := cursor_covers c l.length f hf hn
      have := allocLoop_none l c _ c' hal j hj
      apply this
      rw [hje]; exact ⟨by simp [hfn], hf⟩

theorem allocLoop_full (l : List (Option α)) (c fuel : Nat) (hfull : ∀ i, i < l.length → slotAt l i ≠ none) :
    (allocLoop l c fuel).1 = none := by
  induction fuel generalizing c with
  | zero => rfl
  | succ n ih =>
    simp only [allocLoop]
    split
    · next hc =>
      exfalso
      have := hfull _ hc.2
      cases hs : slotAt l (c % 256 % l.length) with
      | none => exact this hs
      | some v => simp [hs] at hc
    · exact ih _

theorem inFlight_le (l : List (Option α)) : inFlight l ≤ l.length := List.countP_le_length

/-! ### process-data cycles over disjoint logical windows commute -/

theorem lrw_commute (isIn : Nat → Bool) (a b : Nat × List Nat) (hd : WindowsDisjoint a b) :
    Commute (lrw isIn) a b := by
  intro m
  unfold WindowsDisjoint at hd
  constructor
  · -- b's response does not see a's outputs
    simp only [lrw]
    apply List.map_congr_left
    intro k hk
    have hk' : k < b.2.length := by simpa using hk
    split
    · next hin =>
      have : ¬ (a.1 ≤ b.1 + k ∧ b.1 + k < a.1 + a.2.length ∧ isIn (b.1 + k) = false) := by
        intro h; omega
      simp [this]
    · rfl
  · -- the two writes land in different places
    simp only [lrw]
    funext x
    by_cases ha : a.1 ≤ x ∧ x < a.1 + a.2.length ∧ isIn x = false <;>
      by_cases hb : b.1 ≤ x ∧ x < b.1 + b.2.length ∧ isIn x = false
    · exfalso; omega
    · simp only [if_pos ha, if_neg hb]
    · simp only [if_neg ha, if_pos hb]
    · simp only [if_neg ha, if_neg hb]

/-! ### executable admissibility check -/

theorem windowOkB_sound (st : St Rq Rs σ) (h : windowOkB st = true) : WindowOk st := by
  intro i e hi ha
  unfold windowOkB at h
  rw [List.all_eq_true] at h
  have hl := slotAt_lt hi
  have hmem : some e ∈ st.slots := by
    unfold slotAt at hi
    simp [List.getD, hl] at hi
    rw [← hi]; exact List.getElem_mem hl
  have := h (some e) hmem
  simpa [ha] using this

theorem admissibleB_sound (S : Sys Rq Rs σ) (st : St Rq Rs σ) (sched : List Act)
    (h : admissibleB S st sched = true) : Admissible S st sched := by
  induction sched generalizing st with
  | nil => trivial
  | cons a rest ih =>
    simp only [admissibleB, Bool.and_eq_true] at h
    refine ⟨?_, ih _ h.2⟩
    rintro ⟨t, rfl⟩
    exact windowOkB_sound st h.1

/-! ### what a task has picked up so far -/

/-- A task's result sequence is, at any moment, a prefix of the responses the segment produced for
    its own requests (all of them once it holds no slot). -/
theorem got_prefix (S : Sys Rq Rs σ) (s0 : σ) (st : St Rq Rs σ) (h : Inv S s0 st) (t : Nat) :
    st.got t <+: respsOf t st.log ∧ (findSlot (selTask t) st.slots = none → st.got t = respsOf t st.log) := by
  cases hf : findSlot (selTask t) st.slots with
  | none =>
    have := h.idle t (fun i e hi => selTask_none (findSlot_none hf i e hi))
    exact ⟨by rw [this]; exact List.prefix_refl _, fun _ => this.symm⟩
  | some r =>
    obtain ⟨j, e, u⟩ := r
    obtain ⟨hj, hsel⟩ := findSlot_some hf
    have het : e.task = t := by
      unfold selTask at hsel; split at hsel
      · assumption
      · cases hsel
    refine ⟨?_, fun hn => by cases hn⟩
    subst het
    cases hs : e.stage with
    | out u rq => rw [(h.outs j e rq hj (by rw [hs]; rfl)).1]; exact List.prefix_refl _
    | back u rs => rw [(h.backs j e rs hj (by rw [hs]; rfl)).1]; exact List.prefix_append _ _
    | done rs => rw [(h.backs j e rs hj (by rw [hs]; rfl)).1]; exact List.prefix_append _ _

theorem alone_take (seg : σ → Rq → σ × Rs) (next : List Rs → Option Rq) (k m : Nat) (s : σ) (h : List Rs) :
    alone seg next k s h = (alone seg next (k + m) s h).take (h.length + k) := by
  induction k generalizing s h with
  | zero =>
    obtain ⟨x, hx⟩ := alone_prefix seg next (0 + m) s h
    rw [← hx]; simp [alone]
  | succ n ih =>
    have e : n + 1 + m = (n + m) + 1 := by omega
    rw [e]
    simp only [alone]
    split
    · rw [List.take_of_length_le (by omega)]
    · rw [ih]; simp only [List.length_append, List.length_singleton]
      congr 1; omega

/-! ### process images -/

theorem issue_img (S : Sys Rq Rs σ) (st : St Rq Rs σ) (t : Nat) : (issue S st t).img = st.img := by
  unfold issue; repeat' split
  all_goals rfl

theorem arrive_img (S : Sys Rq Rs σ) (st : St Rq Rs σ) (t : Nat) : (arrive S st t).img = st.img := by
  unfold arrive; split <;> rfl

theorem deliver_img (st : St Rq Rs σ) (t : Nat) : (deliver st t).img = st.img := by
  unfold deliver; repeat' split
  all_goals rfl

end Ec.Tasks
