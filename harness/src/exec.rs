//! Deterministic single-threaded executor that runs the real ethercrab stack against a simulated
//! segment through the public `PduTx`/`PduRx` API, on the harness' virtual clock.
//!
//! One loop: poll a runnable task -> drain `tx.next_sendable_frame()` into the segment -> deliver
//! the responses that are due with `rx.receive_frame()` -> if nothing can run, move the virtual
//! clock to the next deadline (in-flight response or embassy timer). A step limit turns any hang
//! into `Err(Stuck)`.
use crate::clock;
use crate::sim::Segment;
use core::future::Future;
use core::pin::Pin;
use core::task::{Context, Poll};
use ethercrab::verif::VerifDynStorage;
use ethercrab::{MainDevice, MainDeviceConfig, PduRx, PduTx, Timeouts};
use std::sync::Arc;
use std::sync::Mutex;
use std::sync::atomic::{AtomicBool, Ordering};
use std::task::Wake;

/// What happens to one transmitted frame.
#[derive(Clone, Debug, PartialEq, Eq)]
pub enum Fate {
    /// Processed by the segment, response delivered after `Net::latency_us`.
    Deliver,
    /// Processed by the segment, response delivered after the given number of µs.
    Delay(u64),
    /// Lost before it reaches the first device.
    LoseRequest,
    /// Processed by the segment, response lost.
    LoseResponse,
    /// Processed once, response delivered twice (after the two delays).
    Duplicate(u64, u64),
    /// The segment never sees it; these bytes come back after the delay (hostile network).
    Replace(Vec<u8>, u64),
}

#[derive(Clone, Debug, PartialEq, Eq)]
pub enum Stuck {
    /// More than `step_limit` executor steps.
    StepLimit,
    /// No task runnable, nothing in flight, no timer pending.
    Deadlock,
}

struct Flag(AtomicBool);

impl Wake for Flag {
    fn wake(self: Arc<Self>) {
        self.0.store(true, Ordering::SeqCst);
    }
    fn wake_by_ref(self: &Arc<Self>) {
        self.0.store(true, Ordering::SeqCst);
    }
}

#[derive(Default, Clone, Debug)]
pub struct NetStats {
    pub frames_sent: u64,
    pub frames_delivered: u64,
    pub frames_lost: u64,
    pub receive_errors: u64,
    pub polls: u64,
    pub steps: u64,
    pub clock_advances: u64,
}

/// What the executor did, in order (recorded only if `Net::trace_on`; added for C20, which feeds the
/// recorded schedule to the Lean model). `frame` = 1-based number of the transmitted frame
/// (`stats.frames_sent` at the time it was sent).
#[derive(Clone, Debug, PartialEq, Eq)]
pub enum ExecEvent {
    /// Task number polled by `run_many`.
    Poll(usize),
    /// A frame was taken from the MainDevice and given its fate (the segment processed it now, if at all).
    Sent { frame: u64 },
    /// A response was handed to `PduRx::receive_frame`; `ok` = it returned `Ok`.
    Delivered { frame: u64, ok: bool },
}

/// The network side of one MainDevice: TX/RX handles, the segment, in-flight responses.
pub struct Net {
    pub tx: PduTx<'static>,
    pub rx: PduRx<'static>,
    pub seg: Segment,
    /// Default round-trip latency of a frame in µs (0: the response is there at the next step).
    pub latency_us: u64,
    /// Decides the fate of every transmitted frame (None: `Fate::Deliver`).
    pub fate: Option<Box<dyn FnMut(&[u8]) -> Fate>>,
    /// Called right after the segment processed a frame (every fate that lets the segment see it):
    /// `(segment, request bytes, response bytes)`. May rewrite the response (e.g. alter a working
    /// counter, as a faulty wire would) and poke the segment (e.g. make a device drop out from the
    /// next frame on). None: nothing is touched. (Added for C10/C11.)
    pub tap: Option<Box<dyn FnMut(&mut Segment, &[u8], &mut Vec<u8>)>>,
    /// Every frame as transmitted (only if `record_tx`).
    pub record_tx: bool,
    pub sent: Vec<Vec<u8>>,
    /// Results of `receive_frame` that were errors (late duplicates etc.), as debug strings.
    pub rx_errors: Vec<String>,
    /// Record [`ExecEvent`]s into `trace`.
    pub trace_on: bool,
    pub trace: Vec<ExecEvent>,
    in_flight: Vec<(u64, u64, Vec<u8>, u64)>,
    seq: u64,
    /// Waker handed to `PduTx::replace_waker`, as `tx_rx_task` does: the transmit side only looks for
    /// sendable frames after it has been woken (`wake_faithful`; a missing `wake_sender()` then leaves
    /// the frame unsent and the request runs into its deadline instead of being papered over).
    tx_flag: Arc<Flag>,
    tx_waker: std::task::Waker,
    pub wake_faithful: bool,
    pub step_limit: u64,
    pub stats: NetStats,
    mem: Option<(usize, &'static mut [u64])>,
}

static POOL: Mutex<Vec<(usize, usize)>> = Mutex::new(Vec::new());

fn pooled_memory(words: usize) -> &'static mut [u64] {
    let mut pool = POOL.lock().unwrap();
    if let Some(i) = pool.iter().position(|(w, _)| *w == words) {
        let (w, ptr) = pool.swap_remove(i);
        let s = unsafe { core::slice::from_raw_parts_mut(ptr as *mut u64, w) };
        s.fill(0);
        s
    } else {
        Box::leak(vec![0u64; words].into_boxed_slice())
    }
}

impl Net {
    /// Create storage with `slots` frames of `frame_size` bytes (28 bytes of which are frame
    /// overhead), split it, and wrap a MainDevice around it. Both live for the rest of the
    /// process (small leak per call; the frame memory itself is recycled by [`Net::recycle`]).
    pub fn new(seg: Segment, slots: usize, frame_size: usize, timeouts: Timeouts, config: MainDeviceConfig) -> (Net, &'static MainDevice<'static>) {
        let bytes = slots * VerifDynStorage::stride(frame_size) + 64;
        let words = bytes / 8 + 1;
        let mem = pooled_memory(words);
        assert!(VerifDynStorage::align() <= 8);
        let st: &'static VerifDynStorage = Box::leak(Box::new(unsafe { VerifDynStorage::new(mem.as_mut_ptr().cast(), slots, frame_size) }));
        let (tx, rx, pdu_loop) = st.split();
        let md: &'static MainDevice<'static> = Box::leak(Box::new(MainDevice::new(pdu_loop, timeouts, config)));
        clock::clear();
        let tx_flag = Arc::new(Flag(AtomicBool::new(true)));
        let tx_waker: std::task::Waker = tx_flag.clone().into();
        (
            Net {
                tx,
                rx,
                seg,
                latency_us: 0,
                fate: None,
                tap: None,
                record_tx: false,
                sent: Vec::new(),
                rx_errors: Vec::new(),
                trace_on: false,
                trace: Vec::new(),
                in_flight: Vec::new(),
                seq: 0,
                tx_flag,
                tx_waker,
                wake_faithful: true,
                step_limit: 5_000_000,
                stats: NetStats::default(),
                mem: Some((words, mem)),
            },
            md,
        )
    }

    /// Defaults: 16 slots of 1128 bytes (1100 bytes of PDU data), default timeouts, no retries,
    /// 100 static-sync iterations instead of 10 000.
    pub fn simple(seg: Segment) -> (Net, &'static MainDevice<'static>) {
        Net::new(seg, 16, 1128, Timeouts::default(), MainDeviceConfig { dc_static_sync_iterations: 100, ..Default::default() })
    }

    /// Give the frame memory back for reuse by a later `Net::new`.
    ///
    /// # Safety
    /// The MainDevice returned together with this `Net`, and every group / future / response
    /// created from it, must never be used again.
    pub unsafe fn recycle(mut self) -> Segment {
        if let Some((w, m)) = self.mem.take() {
            POOL.lock().unwrap().push((w, m.as_mut_ptr() as usize));
        }
        clock::clear();
        core::mem::replace(&mut self.seg, Segment::line(Vec::new()))
    }

    /// Send everything the MainDevice has queued. Returns the number of frames sent.
    pub fn pump_tx(&mut self) -> usize {
        let mut n = 0;
        if self.wake_faithful {
            // the TX task of a real application: runs only when woken, re-registers its waker, then drains
            if !self.tx_flag.0.swap(false, Ordering::SeqCst) {
                return 0;
            }
            self.tx.replace_waker(&self.tx_waker);
        }
        while let Some(frame) = self.tx.next_sendable_frame() {
            let mut bytes = Vec::new();
            let _ = frame.send_blocking(|b| {
                bytes = b.to_vec();
                Ok(b.len())
            });
            n += 1;
            self.stats.frames_sent += 1;
            if self.trace_on {
                self.trace.push(ExecEvent::Sent { frame: self.stats.frames_sent });
            }
            let fate = match self.fate.as_mut() {
                Some(f) => f(&bytes),
                None => Fate::Deliver,
            };
            if self.record_tx {
                self.sent.push(bytes.clone());
            }
            let now = clock::now();
            self.seg.now_ns = now.wrapping_mul(1000);
            match fate {
                Fate::LoseRequest => self.stats.frames_lost += 1,
                Fate::LoseResponse => {
                    let _ = self.process(&bytes);
                    self.stats.frames_lost += 1;
                }
                Fate::Deliver => {
                    let r = self.process(&bytes);
                    self.queue(now + self.latency_us, r);
                }
                Fate::Delay(d) => {
                    let r = self.process(&bytes);
                    self.queue(now + d, r);
                }
                Fate::Duplicate(d1, d2) => {
                    let r = self.process(&bytes);
                    self.queue(now + d1, r.clone());
                    self.queue(now + d2, r);
                }
                Fate::Replace(r, d) => self.queue(now + d, r),
            }
        }
        n
    }

    fn process(&mut self, bytes: &[u8]) -> Vec<u8> {
        let mut r = self.seg.process_frame(bytes);
        if let Some(tap) = self.tap.as_mut() {
            tap(&mut self.seg, bytes, &mut r);
        }
        r
    }

    fn queue(&mut self, due: u64, bytes: Vec<u8>) {
        if bytes.is_empty() {
            self.stats.frames_lost += 1;
            return;
        }
        self.seq += 1;
        self.in_flight.push((due, self.seq, bytes, self.stats.frames_sent));
    }

    /// Deliver every response whose time has come (in order of due time, then of transmission).
    pub fn deliver_due(&mut self) -> usize {
        let now = clock::now();
        let mut due: Vec<(u64, u64, Vec<u8>, u64)> = Vec::new();
        let mut i = 0;
        while i < self.in_flight.len() {
            if self.in_flight[i].0 <= now {
                due.push(self.in_flight.swap_remove(i));
            } else {
                i += 1;
            }
        }
        due.sort_by_key(|x| (x.0, x.1));
        let n = due.len();
        for (_, _, bytes, frame) in due {
            let ok = match self.rx.receive_frame(&bytes) {
                Ok(_) => {
                    self.stats.frames_delivered += 1;
                    true
                }
                Err(e) => {
                    self.stats.receive_errors += 1;
                    self.rx_errors.push(format!("{e:?}"));
                    false
                }
            };
            if self.trace_on {
                self.trace.push(ExecEvent::Delivered { frame, ok });
            }
        }
        n
    }

    pub fn next_in_flight(&self) -> Option<u64> {
        self.in_flight.iter().map(|x| x.0).min()
    }

    pub fn in_flight_count(&self) -> usize {
        self.in_flight.len()
    }
}

/// Run several cooperative tasks to completion. `choose(runnable)` picks the index (into
/// `runnable`, which lists task numbers that were woken and are not finished) of the task polled
/// next — pass `|r| 0` for round-robin-ish lowest-first, or draw from a PRNG.
pub fn run_many<'a, T>(
    net: &mut Net,
    mut tasks: Vec<Pin<Box<dyn Future<Output = T> + 'a>>>,
    mut choose: impl FnMut(&[usize]) -> usize,
) -> Result<Vec<T>, Stuck> {
    let n = tasks.len();
    let flags: Vec<Arc<Flag>> = (0..n).map(|_| Arc::new(Flag(AtomicBool::new(true)))).collect();
    let wakers: Vec<std::task::Waker> = flags.iter().map(|f| f.clone().into()).collect();
    let mut results: Vec<Option<T>> = (0..n).map(|_| None).collect();
    let mut done = 0;
    let mut steps = 0u64;
    while done < n {
        steps += 1;
        net.stats.steps += 1;
        if steps % 4096 == 0 {
            // a long but progressing case (the step limit ends a livelock) is not a hang
            crate::progress::tick();
        }
        if steps > net.step_limit {
            return Err(Stuck::StepLimit);
        }
        let runnable: Vec<usize> = (0..n).filter(|&i| results[i].is_none() && flags[i].0.load(Ordering::SeqCst)).collect();
        let mut progressed = false;
        if !runnable.is_empty() {
            let k = choose(&runnable) % runnable.len();
            let i = runnable[k];
            flags[i].0.store(false, Ordering::SeqCst);
            let mut cx = Context::from_waker(&wakers[i]);
            net.stats.polls += 1;
            if net.trace_on {
                net.trace.push(ExecEvent::Poll(i));
            }
            if let Poll::Ready(v) = tasks[i].as_mut().poll(&mut cx) {
                results[i] = Some(v);
                done += 1;
            }
            progressed = true;
        }
        if net.pump_tx() > 0 {
            progressed = true;
        }
        if net.deliver_due() > 0 {
            progressed = true;
        }
        // timers that are already due
        clock::advance(0);
        if progressed || (0..n).any(|i| results[i].is_none() && flags[i].0.load(Ordering::SeqCst)) {
            continue;
        }
        // idle: move time to the next event
        let now = clock::now();
        let next = match (net.next_in_flight(), clock::next_deadline()) {
            (Some(a), Some(b)) => a.min(b),
            (Some(a), None) => a,
            (None, Some(b)) => b,
            (None, None) => return Err(Stuck::Deadlock),
        };
        net.stats.clock_advances += 1;
        clock::advance(next.saturating_sub(now));
    }
    Ok(results.into_iter().map(|r| r.unwrap()).collect())
}

/// Run one future to completion.
pub fn run<'a, T>(net: &mut Net, fut: impl Future<Output = T> + 'a) -> Result<T, Stuck> {
    let tasks: Vec<Pin<Box<dyn Future<Output = T> + 'a>>> = vec![Box::pin(fut)];
    run_many(net, tasks, |_| 0).map(|mut v| v.pop().unwrap())
}
