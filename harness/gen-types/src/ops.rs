//! Static support code of the generated crate: value glue (`Val` <-> Rust values) and the protocol operations, each
//! calling the REAL trait methods of `ethercrab-wire` on a generated (or primitive) type.
use crate::common::{hex, parse_val, unhex, Val};
use ethercrab_wire::{EtherCrabWireRead, EtherCrabWireSized, EtherCrabWireWrite, EtherCrabWireWriteSized, WireError};

pub trait Glue: Sized {
    fn from_val(v: &Val) -> Option<Self>;
    fn to_val(&self) -> Val;
}

macro_rules! glue_int {
    ($($t:ty),*) => {$(
        impl Glue for $t {
            fn from_val(v: &Val) -> Option<Self> {
                match v { Val::Int(i) => <$t>::try_from(*i).ok(), _ => None }
            }
            fn to_val(&self) -> Val { Val::Int(*self as i128) }
        }
    )*};
}
glue_int!(u8, u16, u32, u64, i8, i16, i32, i64);

impl Glue for f32 {
    fn from_val(v: &Val) -> Option<Self> {
        match v {
            Val::Int(i) => u32::try_from(*i).ok().map(f32::from_bits),
            _ => None,
        }
    }
    fn to_val(&self) -> Val {
        Val::Int(self.to_bits() as i128)
    }
}

impl Glue for f64 {
    fn from_val(v: &Val) -> Option<Self> {
        match v {
            Val::Int(i) => u64::try_from(*i).ok().map(f64::from_bits),
            _ => None,
        }
    }
    fn to_val(&self) -> Val {
        Val::Int(self.to_bits() as i128)
    }
}

impl Glue for bool {
    fn from_val(v: &Val) -> Option<Self> {
        match v {
            Val::Bool(b) => Some(*b),
            _ => None,
        }
    }
    fn to_val(&self) -> Val {
        Val::Bool(*self)
    }
}

impl Glue for () {
    fn from_val(v: &Val) -> Option<Self> {
        match v {
            Val::Seq(vs) if vs.is_empty() => Some(()),
            _ => None,
        }
    }
    fn to_val(&self) -> Val {
        Val::Seq(vec![])
    }
}

impl<T: Glue, const N: usize> Glue for [T; N] {
    fn from_val(v: &Val) -> Option<Self> {
        let Val::Seq(vs) = v else { return None };
        if vs.len() != N {
            return None;
        }
        let items: Vec<T> = vs.iter().map(T::from_val).collect::<Option<Vec<T>>>()?;
        items.try_into().ok()
    }
    fn to_val(&self) -> Val {
        Val::Seq(self.iter().map(|x| x.to_val()).collect())
    }
}

/// `heapless::Vec<T, N>`: the sequence of its elements.
impl<T: Glue, const N: usize> Glue for heapless::Vec<T, N> {
    fn from_val(v: &Val) -> Option<Self> {
        let Val::Seq(vs) = v else { return None };
        if vs.len() > N {
            return None;
        }
        let mut out = heapless::Vec::new();
        for x in vs {
            out.push(T::from_val(x)?).ok()?;
        }
        Some(out)
    }
    fn to_val(&self) -> Val {
        Val::Seq(self.iter().map(|x| x.to_val()).collect())
    }
}

/// `heapless::String<N>`: the sequence of its bytes.
impl<const N: usize> Glue for heapless::String<N> {
    fn from_val(v: &Val) -> Option<Self> {
        let Val::Seq(vs) = v else { return None };
        let bytes: Vec<u8> = vs.iter().map(u8::from_val).collect::<Option<Vec<u8>>>()?;
        heapless::String::try_from(std::str::from_utf8(&bytes).ok()?).ok()
    }
    fn to_val(&self) -> Val {
        Val::Seq(self.as_bytes().iter().map(|b| Val::Int(*b as i128)).collect())
    }
}

macro_rules! glue_tuple {
    ($($len:tt => ($($n:tt $name:ident)+))+) => {$(
        impl<$($name: Glue),+> Glue for ($($name,)+) {
            fn from_val(v: &Val) -> Option<Self> {
                let Val::Seq(vs) = v else { return None };
                if vs.len() != $len { return None; }
                Some(($($name::from_val(&vs[$n])?,)+))
            }
            fn to_val(&self) -> Val { Val::Seq(vec![$(self.$n.to_val()),+]) }
        }
    )+};
}
glue_tuple! {
    1 => (0 T0)
    2 => (0 T0 1 T1)
    3 => (0 T0 1 T1 2 T2)
    4 => (0 T0 1 T1 2 T2 3 T3)
    5 => (0 T0 1 T1 2 T2 3 T3 4 T4)
    6 => (0 T0 1 T1 2 T2 3 T3 4 T4 5 T5)
    7 => (0 T0 1 T1 2 T2 3 T3 4 T4 5 T5 6 T6)
    8 => (0 T0 1 T1 2 T2 3 T3 4 T4 5 T5 6 T6 7 T7)
    9 => (0 T0 1 T1 2 T2 3 T3 4 T4 5 T5 6 T6 7 T7 8 T8)
    10 => (0 T0 1 T1 2 T2 3 T3 4 T4 5 T5 6 T6 7 T7 8 T8 9 T9)
    11 => (0 T0 1 T1 2 T2 3 T3 4 T4 5 T5 6 T6 7 T7 8 T8 9 T9 10 T10)
    12 => (0 T0 1 T1 2 T2 3 T3 4 T4 5 T5 6 T6 7 T7 8 T8 9 T9 10 T10 11 T11)
    13 => (0 T0 1 T1 2 T2 3 T3 4 T4 5 T5 6 T6 7 T7 8 T8 9 T9 10 T10 11 T11 12 T12)
    14 => (0 T0 1 T1 2 T2 3 T3 4 T4 5 T5 6 T6 7 T7 8 T8 9 T9 10 T10 11 T11 12 T12 13 T13)
    15 => (0 T0 1 T1 2 T2 3 T3 4 T4 5 T5 6 T6 7 T7 8 T8 9 T9 10 T10 11 T11 12 T12 13 T13 14 T14)
    16 => (0 T0 1 T1 2 T2 3 T3 4 T4 5 T5 6 T6 7 T7 8 T8 9 T9 10 T10 11 T11 12 T12 13 T13 14 T14 15 T15)
}

/// `#[wire(skip)]` field: `d` = `Default::default()`, anything else the value itself (pack must ignore it).
pub fn skip_from<T: Glue + Default>(v: &Val) -> Option<T> {
    match v {
        Val::Dflt => Some(T::default()),
        v => T::from_val(v),
    }
}

pub fn skip_to<T: Glue + Default + PartialEq>(x: &T) -> Val {
    if *x == T::default() { Val::Dflt } else { x.to_val() }
}

pub fn err_tok(e: WireError) -> &'static str {
    match e {
        WireError::ReadBufferTooShort => "ReadBufferTooShort",
        WireError::WriteBufferTooShort => "WriteBufferTooShort",
        WireError::InvalidValue => "InvalidValue",
        WireError::ArrayLength => "ArrayLength",
        WireError::InvalidUtf8 => "InvalidUtf8",
    }
}

fn value<T: Glue>(s: &str) -> Result<T, String> {
    let v = parse_val(s).ok_or("bad-value")?;
    T::from_val(&v).ok_or_else(|| "ill-typed-value".to_string())
}

fn show_unpack<T: Glue>(r: Result<T, WireError>) -> String {
    match r {
        Ok(v) => format!("ok:{}", v.to_val().show()),
        Err(e) => format!("err:{}", err_tok(e)),
    }
}

/// `pack <V>`: `EtherCrabWireWriteSized::pack`.
pub fn pack<T: Glue + EtherCrabWireWriteSized>(a: &[&str]) -> String {
    let v: T = match value(a[0]) {
        Ok(v) => v,
        Err(e) => return e,
    };
    format!("ok:{}", hex(v.pack().as_ref()))
}

/// `packto <V> <dst>`: `EtherCrabWireWrite::pack_to_slice`.
pub fn packto<T: Glue + EtherCrabWireWrite>(a: &[&str]) -> String {
    let v: T = match value(a[0]) {
        Ok(v) => v,
        Err(e) => return e,
    };
    let Some(mut dst) = unhex(a[1]) else { return "bad-hex".into() };
    let r = v.pack_to_slice(&mut dst).map(|s| s.len());
    match r {
        Ok(n) => format!("ok:{}:{}", hex(&dst), n),
        Err(e) => format!("err:{}", err_tok(e)),
    }
}

/// `packun <V> <dst>`: `EtherCrabWireWrite::pack_to_slice_unchecked`.
pub fn packun<T: Glue + EtherCrabWireWrite>(a: &[&str]) -> String {
    let v: T = match value(a[0]) {
        Ok(v) => v,
        Err(e) => return e,
    };
    let Some(mut dst) = unhex(a[1]) else { return "bad-hex".into() };
    let n = v.pack_to_slice_unchecked(&mut dst).len();
    format!("ok:{}:{}", hex(&dst), n)
}

/// `buflen`: `EtherCrabWireSized::buffer().len()` and `PACKED_LEN`.
pub fn buflen<T: EtherCrabWireSized>() -> String {
    format!("ok:{}:{}", T::buffer().as_ref().len(), T::PACKED_LEN)
}

/// `unpack <hex>`: `EtherCrabWireRead::unpack_from_slice`.
pub fn unpack<T: Glue + EtherCrabWireRead>(a: &[&str]) -> String {
    let Some(buf) = unhex(a[0]) else { return "bad-hex".into() };
    show_unpack(T::unpack_from_slice(&buf))
}

/// `status <hex>`.
pub fn status<T: EtherCrabWireRead>(a: &[&str]) -> String {
    let Some(buf) = unhex(a[0]) else { return "bad-hex".into() };
    match T::unpack_from_slice(&buf) {
        Ok(_) => "ok".into(),
        Err(e) => format!("err:{}", err_tok(e)),
    }
}

/// `rt <V>`: `W::pack()`, then `R::unpack_from_slice` of the packed bytes (W = R unless the subject is a
/// Write-only/Read-only pair of derives of the same layout).
pub fn rt<W: Glue + EtherCrabWireWriteSized, R: Glue + EtherCrabWireRead>(a: &[&str]) -> String {
    let v: W = match value(a[0]) {
        Ok(v) => v,
        Err(e) => return e,
    };
    let packed = v.pack();
    let bytes: &[u8] = packed.as_ref();
    let second = std::panic::catch_unwind(|| show_unpack(R::unpack_from_slice(bytes))).unwrap_or_else(|_| "panic".into());
    format!("ok:{}|{}", hex(bytes), second)
}

/// `repack <hex>`: `R::unpack_from_slice(buf).map(|v| v.pack())`.
pub fn repack<R: Glue + EtherCrabWireRead, W: Glue + EtherCrabWireWriteSized>(a: &[&str]) -> String {
    let Some(buf) = unhex(a[0]) else { return "bad-hex".into() };
    match R::unpack_from_slice(&buf) {
        Ok(v) => {
            let Some(w) = W::from_val(&v.to_val()) else { return "glue-failed".into() };
            format!("ok:{}", hex(w.pack().as_ref()))
        }
        Err(e) => format!("err:{}", err_tok(e)),
    }
}
