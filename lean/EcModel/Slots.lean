/-
  EcModel.Slots — API-level (sequential) model of the PDU loop's frame storage:
    src/pdu_loop/storage.rs                       alloc_frame, claim_receiving, frame_index_by_first_pdu_index, reset
    src/pdu_loop/frame_element/mod.rs             FrameState, claim_*, swap_state/set_state, first_pdu marker
    src/pdu_loop/frame_element/created_frame.rs   push_*, mark_sendable, Drop
    src/pdu_loop/frame_element/sendable_frame.rs  claim_sending, send_blocking (mark_sent / release_sending_claim)
    src/pdu_loop/frame_element/receiving_frame.rs ReceiveFrameFut::{poll, drop}, mark_received
    src/pdu_loop/frame_element/received_frame.rs  first_pdu, into_pdu_iter, Drop, ReceivedPdu
    src/pdu_loop/pdu_rx.rs                        receive_frame
    src/pdu_loop/pdu_tx.rs                        next_sendable_frame
  Each operation is one call of the real API executed without interleaving; handles are linear
  tokens kept in numbered registers (as the harness keeps the real handles).
-/
import EcModel.Frame
import EcModel.Generated.Tables

namespace Ec

/-- `FrameState`. -/
inductive St where
  | none | created | sendable | sending | sent | rxBusy | rxDone | rxProcessing
  deriving DecidableEq, Repr

def St.toNat : St → Nat
  | .none => 0 | .created => 1 | .sendable => 2 | .sending => 3
  | .sent => 4 | .rxBusy => 5 | .rxDone => 6 | .rxProcessing => 7

def St.name : St → String
  | .none => "None" | .created => "Created" | .sendable => "Sendable" | .sending => "Sending"
  | .sent => "Sent" | .rxBusy => "RxBusy" | .rxDone => "RxDone" | .rxProcessing => "RxProcessing"

def St.all : List St :=
  [.none, .created, .sendable, .sending, .sent, .rxBusy, .rxDone, .rxProcessing]

/-- One `FrameElement`. `buf` is the whole Ethernet frame buffer (`DATA` bytes). -/
structure Slot where
  st : St
  first : Nat        -- first_pdu marker: wire index of the first datagram or FIRST_PDU_EMPTY
  used : Nat         -- pdu_payload_len
  buf : List Nat
  deriving DecidableEq, Repr

/-- `PduStorage` plus virtual time. -/
structure Sys where
  data : Nat
  slots : List Slot
  frameIdx : Nat
  pduIdx : Nat
  now : Nat
  exit : Bool
  deriving DecidableEq, Repr

/-- `PduStorage::new`: zeroed memory (note the marker of a never-used slot is 0, not EMPTY). -/
def Sys.init (n data : Nat) : Sys :=
  { data := data, slots := List.replicate n ⟨.none, 0, 0, zeros data⟩,
    frameIdx := 0, pduIdx := 0, now := 0, exit := false }

def Sys.n (s : Sys) : Nat := s.slots.length

def dummySlot : Slot := ⟨.none, 0, 0, []⟩

def Sys.slot (s : Sys) (i : Nat) : Slot := s.slots.getD i dummySlot

def Sys.setSlot (s : Sys) (i : Nat) (x : Slot) : Sys := { s with slots := s.slots.set i x }

/-- Handle kinds held by callers / the TX side. -/
inductive HK where
  | created (count : Nat) (last : Option Nat)
  | fut (retries deadline timeout : Nat) (armed : Bool)   -- armed = the timer's `yielded_once`
  | sendable
  | received
  | view (off len wkc : Nat)    -- `ReceivedPdu` made by `first_pdu`: owns its frame
  deriving DecidableEq, Repr

structure Hd where
  reg : Nat
  slot : Nat
  kind : HK
  deriving DecidableEq, Repr

abbrev World := Sys × List Hd

def getH (hs : List Hd) (r : Nat) : Option Hd := hs.find? (·.reg == r)
def delH (hs : List Hd) (r : Nat) : List Hd := hs.filter (fun h => h.reg != r)
def putH (hs : List Hd) (h : Hd) : List Hd := h :: delH hs h.reg

/-! ### alloc_frame -/

/-- `alloc_frame`: up to `2n` rounds of `fetch_add` on the cursor and a `None → Created` claim. -/
def allocLoop (s : Sys) : Nat → Sys × Option Nat
  | 0 => (s, none)
  | fuel + 1 =>
    let idx := s.frameIdx % 256 % s.n
    let s1 := { s with frameIdx := (s.frameIdx + 1) % 256 }
    if (s1.slot idx).st = .none then
      -- claim_created + FrameBox::init
      let buf := ethHeader ++ zeros (s.data - 14)
      (s1.setSlot idx ⟨.created, Gen.FIRST_PDU_EMPTY, 0, buf⟩, some idx)
    else allocLoop s1 fuel

def opAlloc (w : World) (r : Nat) : World × String :=
  match allocLoop w.1 (2 * w.1.n) with
  | (s', some i) => ((s', putH w.2 ⟨r, i, .created 0 none⟩), s!"ok.{i}")
  | (s', none) => ((s', w.2), "err.swapstate")

/-! ### pushes on a created frame -/

def slotFrame (s : Sys) (x : Slot) (count : Nat) (last : Option Nat) : CFrame :=
  { cap := s.data, eth := x.buf.take 14, ecat := (x.buf.drop 14).take 2, pdu := x.buf.drop 16,
    used := x.used, count := count, last := last }

def frameSlot (x : Slot) (f : CFrame) (pushedIdx : Option Nat) : Slot :=
  { x with buf := f.eth ++ f.ecat ++ f.pdu, used := f.used,
           first := match pushedIdx with
             | some i => if x.first = Gen.FIRST_PDU_EMPTY then i else x.first
             | none => x.first }

def showHandle (h : Handle) : String := s!"{h.indexInFrame}.{h.pduIdx}.{h.code}.{h.allocSize}"

def opPush (w : World) (r : Nat) (c : Cmd) (data : List Nat) (lenOv : Option Nat) : World × String :=
  match getH w.2 r with
  | some ⟨_, k, .created count last⟩ =>
    let s := w.1
    let x := s.slot k
    let idx := s.pduIdx
    let s1 := { s with pduIdx := (s.pduIdx + 1) % 256 }
    let res := (slotFrame s x count last).pushPdu c data lenOv idx
    match res.2 with
    | some h =>
      ((s1.setSlot k (frameSlot x res.1 (some idx)), putH w.2 ⟨r, k, .created res.1.count res.1.last⟩),
        "ok." ++ showHandle h)
    | none => ((s1, w.2), "toolong")
  | _ => (w, "bad-op")

def opRest (w : World) (r : Nat) (c : Cmd) (bytes : List Nat) : World × String :=
  match getH w.2 r with
  | some ⟨_, k, .created count last⟩ =>
    let s := w.1
    let x := s.slot k
    let idx := s.pduIdx
    let res := (slotFrame s x count last).pushRest c bytes idx
    let s1 := if res.2.2 then { s with pduIdx := (s.pduIdx + 1) % 256 } else s
    match res.2.1 with
    | .some n h =>
      ((s1.setSlot k (frameSlot x res.1 (some idx)), putH w.2 ⟨r, k, .created res.1.count res.1.last⟩),
        s!"some.{n}." ++ showHandle h)
    | .none => ((s1, w.2), "none")
    | .tooLong => ((s1, w.2), "toolong")
  | _ => (w, "bad-op")

/-- `mark_sendable(pdu_loop, timeout, retries)`: EtherCAT header, state `Sendable` (plain store),
    a future armed with `now + timeout`. The consumed `CreatedFrame`'s Drop then fails its CAS. -/
def opMark (w : World) (r retries timeout : Nat) : World × String :=
  match getH w.2 r with
  | some ⟨_, k, .created _ _⟩ =>
    let s := w.1
    let x := s.slot k
    let buf := setRange x.buf 14 (ecatHeader x.used)
    ((s.setSlot k { x with buf := buf, st := .sendable },
      putH w.2 ⟨r, k, .fut retries (s.now + timeout) timeout false⟩), "ok")
  | _ => (w, "bad-op")

/-- `Drop for CreatedFrame`: `Created → None` compare-exchange. -/
def opDropCreated (w : World) (r : Nat) : World × String :=
  match getH w.2 r with
  | some ⟨_, k, .created _ _⟩ =>
    let x := w.1.slot k
    let s' := if x.st = .created then w.1.setSlot k { x with st := .none } else w.1
    ((s', delH w.2 r), "ok")
  | _ => (w, "bad-op")

/-! ### transmit side -/

def findIdx (p : Slot → Bool) : List Slot → Nat → Option Nat
  | [], _ => none
  | x :: xs, i => if p x then some i else findIdx p xs (i + 1)

/-- `PduTx::next_sendable_frame`: first slot that can be claimed `Sendable → Sending`. -/
def opTxNext (w : World) (r : Nat) : World × String :=
  if w.1.exit then (w, "none") else
  match findIdx (fun x => x.st == .sendable) w.1.slots 0 with
  | some i =>
    let x := w.1.slot i
    ((w.1.setSlot i { x with st := .sending }, putH w.2 ⟨r, i, .sendable⟩), s!"some.{i}")
  | none => (w, "none")

/-- `SendableFrame::send_blocking`: the closure sees `as_bytes`; then `Sending → Sent` (full send) or
    `Sending → Sendable` (partial / error), both compare-exchanges. `outcome`: 0 ok, 1 partial, 2 err. -/
def opTxSend (w : World) (r outcome : Nat) : World × String :=
  match getH w.2 r with
  | some ⟨_, k, .sendable⟩ =>
    let x := w.1.slot k
    let bytes := x.buf.take (16 + x.used)
    let target := if outcome = 0 then St.sent else St.sendable
    let s' := if x.st = .sending then w.1.setSlot k { x with st := target } else w.1
    ((s', delH w.2 r), (if outcome = 0 then "ok." else if outcome = 1 then "partial." else "err.") ++ hexBytes bytes)
  | _ => (w, "bad-op")

/-! ### receive side -/

inductive RxResult where
  | ignored | processed
  | errEthernet | errWireShort | errWireInvalid | errReceiveFrame | errInternal | errDecode
  | errInvalidIndex (k : Nat)
  | errInvalidFrameState
  | panic (why : String)
  deriving DecidableEq, Repr

def RxResult.show : RxResult → String
  | .ignored => "ignored" | .processed => "processed"
  | .errEthernet => "err.ethernet" | .errWireShort => "err.wire.short"
  | .errWireInvalid => "err.wire.invalid" | .errReceiveFrame => "err.receiveframe"
  | .errInternal => "err.internal" | .errDecode => "err.decode"
  | .errInvalidIndex k => s!"err.invalidindex.{k}"
  | .errInvalidFrameState => "err.invalidframestate"
  | .panic _ => "panic"

/-- First half of `PduRx::receive_frame`: everything up to the slot lookup, which depends on the
    bytes only. `ok (payload, pduIdx)` = the EtherCAT payload and the index of its first datagram.
    Unchecked indexing in the Rust code (`&data[6..12]`, `&data[14..]`) is modelled with an explicit
    `panic` branch. -/
def rxParse (exit : Bool) (bytes : List Nat) : Except RxResult (List Nat × Nat) :=
  if exit then .error .ignored else
  -- EthernetFrame::new_checked
  if bytes.length < 14 then .error .errEthernet else
  -- src_addr(): `&data[6..12]`
  if bytes.length < 12 then .error (.panic "src_addr slice") else
  -- ethertype(): checked get (defaults to 0), big endian
  if 256 * bytes.getD 12 0 + bytes.getD 13 0 ≠ Gen.ETHERCAT_ETHERTYPE ∨
     (bytes.drop 6).take 6 = Gen.MAINDEVICE_ADDR then .error .ignored else
  -- payload(): `&data[14..]`
  if bytes.length < 14 then .error (.panic "payload slice") else
  -- EthercatFrameHeader::unpack_from_slice
  if (bytes.drop 14).length < 2 then .error .errWireShort else
  if rd16 (bytes.drop 14) / 4096 ≠ 1 then .error .errWireInvalid else
  if rd16 (bytes.drop 14) % (Gen.LEN_MASK + 1) = 0 then .error .ignored else
  if (bytes.drop 14).length < 2 + rd16 (bytes.drop 14) % (Gen.LEN_MASK + 1) then .error .errReceiveFrame else
  match (((bytes.drop 14).drop 2).take (rd16 (bytes.drop 14) % (Gen.LEN_MASK + 1)))[1]? with
  | none => .error .errInternal
  | some pduIdx => .ok (((bytes.drop 14).drop 2).take (rd16 (bytes.drop 14) % (Gen.LEN_MASK + 1)), pduIdx)

/-- Second half: `frame_index_by_first_pdu_index` (first slot with this marker that is awaiting a
    response), `claim_receiving` (index bound, `Sent → RxBusy`), bounded copy, `mark_received`. -/
def rxDeliver (s : Sys) (p : List Nat) (pduIdx : Nat) : Sys × RxResult :=
  match findIdx (fun x => x.first == pduIdx && x.st == .sent) s.slots 0 with
  | none => (s, .errDecode)
  | some k =>
    if k ≥ s.n then (s, .errInvalidIndex k) else
    if (s.slot k).st ≠ .sent then (s, .errInvalidIndex k) else
    -- (the marker is re-checked once the frame is held and the claim handed back on a mismatch: within one
    --  uninterrupted call the lookup's answer still stands; the interleaved case is in Micro.lean: rxVerify/rxUnclaim)
    -- copy into pdu_buf_mut().get_mut(0..len); the claim is not rolled back on failure
    if s.data - 16 < p.length then (s.setSlot k { s.slot k with st := .rxBusy }, .errInternal) else
    -- mark_received: RxBusy → RxDone, wake
    (s.setSlot k { s.slot k with st := .rxDone, buf := setRange (s.slot k).buf 16 p }, .processed)

/-- `PduRx::receive_frame`. -/
def receiveFrame (s : Sys) (bytes : List Nat) : Sys × RxResult :=
  match rxParse s.exit bytes with
  | .error r => (s, r)
  | .ok (p, pduIdx) => rxDeliver s p pduIdx

def opRx (w : World) (bytes : List Nat) : World × String :=
  let r := receiveFrame w.1 bytes
  ((r.1, w.2), r.2.show)

/-! ### the awaiting future -/

/-- `ReceiveFrameFut::poll`. The timer is `embassy_time::Timer` (the `no_std` build the checks run):
    it reports expiry only from its second poll on (`yielded_once`), and it is polled only when the
    response is not there yet. -/
def opPoll (w : World) (r : Nat) : World × String :=
  match getH w.2 r with
  | some ⟨_, k, .fut retries deadline timeout armed⟩ =>
    let s := w.1
    let x := s.slot k
    if x.st = .rxDone then
      ((s.setSlot k { x with st := .rxProcessing }, putH w.2 ⟨r, k, .received⟩), "ready.ok")
    else
      let was := x.st
      let okWas := was = .sendable ∨ was = .sending ∨ was = .sent ∨ was = .rxBusy
      if armed ∧ s.now ≥ deadline then
        if retries = 0 then
          -- release: plain store of None
          ((s.setSlot k { x with st := .none }, delH w.2 r), "ready.err.timeout")
        else
          -- re-arm (the new timer is polled once straight away), `Sent → Sendable` compare-exchange
          -- (a frame that is not waiting for its response is left alone), wake sender
          let s' := if x.st = .sent then s.setSlot k { x with st := .sendable } else s
          if okWas then
            ((s', putH w.2 ⟨r, k, .fut (retries - 1) (s.now + timeout) timeout true⟩), "pending")
          else ((s', delH w.2 r), "ready.err.invalidframestate")
      else
        if okWas then ((s, putH w.2 ⟨r, k, .fut retries deadline timeout true⟩), "pending")
        else ((s, delH w.2 r), "ready.err.invalidframestate")
  | _ => (w, "bad-op")

/-- `Drop for ReceiveFrameFut` with the frame still inside: plain store of `None`. -/
def opDropFut (w : World) (r : Nat) : World × String :=
  match getH w.2 r with
  | some ⟨_, k, .fut _ _ _ _⟩ =>
    let x := w.1.slot k
    ((w.1.setSlot k { x with st := .none }, delH w.2 r), "ok")
  | _ => (w, "bad-op")

/-! ### reading the response -/

/-- `Drop for ReceivedFrame`: clear the marker, then `RxProcessing → None` (panics otherwise). -/
def dropReceived (s : Sys) (k : Nat) : Sys × Bool :=
  let x := s.slot k
  let x1 := { x with first := Gen.FIRST_PDU_EMPTY }
  if x.st = .rxProcessing then (s.setSlot k { x1 with st := .none }, true)
  else (s.setSlot k x1, false)

/-- Parse the datagram at offset `off` of the PDU area: (code, idx, len, more, wkc?) following
    `first_pdu` / `ReceivedPduIter::next`. -/
inductive PduView where
  | ok (off len wkc : Nat) (code idx : Nat) (more : Bool)
  | errWireShort | errTooLong | errInternal
  deriving DecidableEq, Repr

def parsePduAt (pdu : List Nat) (pos : Nat) : PduView :=
  let b := pdu.drop pos
  if b.length < 10 then .errWireShort else
  let fl := flagsUnpack (b.drop 6)
  let len := fl.1
  if b.length < len + 2 then .errTooLong else
  if b.length < 10 + len then .errInternal else
  let w := b.drop (10 + len)
  if w.length < 2 then .errWireShort else
  .ok (pos + 10) len (rd16 w) (b.getD 0 0) (b.getD 1 0) fl.2.2

/-- `ReceivedFrame::first_pdu(self, handle)` with the handle's command code and index. -/
def opFirst (w : World) (r code idx : Nat) : World × String :=
  match getH w.2 r with
  | some ⟨_, k, .received⟩ =>
    let s := w.1
    let x := s.slot k
    let fail (tok : String) : World × String :=
      let d := dropReceived s k
      ((d.1, delH w.2 r), if d.2 then tok else "panic.drop")
    match parsePduAt (x.buf.drop 16) 0 with
    | .errWireShort => fail "err.wire.short"
    | .errTooLong => fail "err.toolong"
    | .errInternal => fail "err.internal"
    | .ok off len wkc c i _ =>
      if c ≠ code then fail "err.decode"
      else if i ≠ idx then fail s!"err.invalidindex.{i}"
      else ((s, putH w.2 ⟨r, k, .view (16 + off) len wkc⟩), s!"ok.{len}.{wkc}")
  | _ => (w, "bad-op")

/-- `into_pdu_iter()` advanced at most `fuel` times, then dropped. Output: the items it yields (an
    error item repeats: the Rust iterator does not advance past a datagram it cannot parse). -/
def iterLoop (pdu : List Nat) (used : Nat) : Nat → Option Nat → List String → List String
  | 0, _, acc => acc
  | fuel + 1, pos, acc =>
    if used = 0 then acc else
    match pos with
    | none => acc
    | some p =>
      if pdu.length < p then acc else
      match parsePduAt pdu p with
      | .errWireShort => iterLoop pdu used fuel (some p) ("err.wire.short" :: acc)
      | .errTooLong => iterLoop pdu used fuel (some p) ("err.toolong" :: acc)
      | .errInternal => iterLoop pdu used fuel (some p) ("err.internal" :: acc)
      | .ok off len wkc _ _ more =>
        let item := s!"{hexBytes ((pdu.drop off).take len)}.{wkc}"
        iterLoop pdu used fuel (if more then some (p + 10 + len + 2) else none) (item :: acc)

def opIter (w : World) (r maxItems : Nat) : World × String :=
  match getH w.2 r with
  | some ⟨_, k, .received⟩ =>
    let s := w.1
    let x := s.slot k
    let items := (iterLoop (x.buf.drop 16) x.used maxItems (some 0) []).reverse
    let d := dropReceived s k
    ((d.1, delH w.2 r), (if d.2 then "" else "panic.drop,") ++ String.intercalate "," items)
  | _ => (w, "bad-op")

/-- `Drop for ReceivedFrame` held directly. -/
def opDropReceived (w : World) (r : Nat) : World × String :=
  match getH w.2 r with
  | some ⟨_, k, .received⟩ =>
    let d := dropReceived w.1 k
    ((d.1, delH w.2 r), if d.2 then "ok" else "panic.drop")
  | _ => (w, "bad-op")

/-- Bytes a `ReceivedPdu` currently denotes (`Deref`). -/
def viewBytes (s : Sys) (k off len : Nat) : List Nat := ((s.slot k).buf.drop off).take len

def opViewRead (w : World) (r : Nat) : World × String :=
  match getH w.2 r with
  | some ⟨_, k, .view off len wkc⟩ => (w, s!"{hexBytes (viewBytes w.1 k off len)}.{len}.{wkc}")
  | _ => (w, "bad-op")

/-- `ReceivedPdu::trim_front`. -/
def opViewTrim (w : World) (r ct : Nat) : World × String :=
  match getH w.2 r with
  | some ⟨_, k, .view off len wkc⟩ =>
    let c := min ct len
    ((w.1, putH w.2 ⟨r, k, .view (off + c) (len - c) wkc⟩), "ok")
  | _ => (w, "bad-op")

/-- Dropping a `ReceivedPdu` made by `first_pdu` drops the frame it owns. -/
def opDropView (w : World) (r : Nat) : World × String :=
  match getH w.2 r with
  | some ⟨_, k, .view _ _ _⟩ =>
    let d := dropReceived w.1 k
    ((d.1, delH w.2 r), if d.2 then "ok" else "panic.drop")
  | _ => (w, "bad-op")

/-! ### misc -/

def opAdvance (w : World) (us : Nat) : World × String := (({ w.1 with now := w.1.now + us }, w.2), "ok")

/-- `PduStorageRef::reset`: counters to 0, every slot's state to `None` (markers, buffers untouched). -/
def opReset (w : World) : World × String :=
  (({ w.1 with frameIdx := 0, pduIdx := 0, slots := w.1.slots.map (fun x => { x with st := .none }) }, w.2), "ok")

def snapSlot (x : Slot) : String := s!"{x.st.toNat}:{x.first}:{x.used}:{hexBytes x.buf}"

def opSnap (w : World) : World × String :=
  (w, s!"{w.1.frameIdx}.{w.1.pduIdx}/" ++ String.intercalate "/" (w.1.slots.map snapSlot))

end Ec
