/-
  C07 — one process-data cycle moves the whole image, each byte once, to the right place.
  Property theorems only; the model is EcModel/TxRx.lean, helper lemmas live in EcModel/Lemmas/TxRx*.lean.

  All theorems are about `cycle c image resps idx0`, the common loop of the three Rust entry points; `variants`
  (below) states which `Cfg.dc` each entry point runs it with. They hold for every image (length and content),
  every `readLen` split, every list of SubDevice addresses, every frame size allowed by `CfgOk` (30 resp. 50 up to
  2063 bytes), every starting value of the PDU index counter, both overflow modes, and every list of answers
  (`resps`: any number of frames, any datagrams, any data, any working counters). Theorems that speak about what
  came back from the network assume `Shaped` (every frame answered datagram for datagram with data of the
  requested length) — what devices that obey the frame structure do; the model also covers the other answers.

  Vocabulary (EcModel/Lemmas/TxRxSpec.lean): `lrws` = (address, length) of the LRW datagrams in order, `Tiles a l b`
  = `l` tiles `[a, b)` contiguously with non-empty pieces, `lrwData` = their data concatenated, `allDescs` = every
  datagram as (command, length, data), `frmwDesc r` = FRMW to `r`, register 0x0910, eight zero bytes, `returned` =
  the data of the LRW answers concatenated (the logical window as the network returned it), `lrwWkcSum`,
  `stateAnswers` = low nibble of byte 0 of each state-check answer, `fprds` = addressees of the state checks.
-/
import EcModel.Lemmas.TxRxResp

namespace Ec.C07
open Ec Ec.TxRx

/-! ### T1: the facts regenerated from /repo are the ones the proofs were written against -/

theorem constants_as_modelled :
    Gen.TxRx.REG_AlStatus = 0x0130 ∧ Gen.TxRx.REG_DcSystemTime = 0x0910 ∧ Gen.TxRx.AL_CONTROL_PACKED_LEN = 2 ∧
    Gen.TxRx.AL_STATE_BITS = 4 ∧ Gen.TxRx.U64_PACKED_LEN = 8 ∧ Gen.TxRx.STATE_CHECKS_BREAK_AFTER = 128 ∧
    Gen.CMD_LRW = 12 ∧ Gen.CMD_FPRD = 4 ∧ Gen.CMD_FRMW = 14 := by decide

theorem source_shapes_present :
    Gen.TxRx.sourceShapes =
      ["exit_condition", "chunk_len", "chunk_start", "chunk_slice", "start_addr", "lrw_rest", "state_checks_call",
       "empty_frame_exit", "wkc_add", "sent_add", "state_push", "frmw_push", "time_unpack", "state_fprd",
       "state_can_push", "rx_range", "rx_copy", "sync_lock_in_clock_branch", "sync_fallback", "dc_pdu_size",
       "dc_ref_nonzero"] := by decide

/-! ### The three entry points are the one loop -/

theorem variants (c : Cfg) (image : List Nat) (resps : List (List RPdu)) (idx0 ref : Nat) :
    txRx c image resps idx0 = cycle { c with dc := none } image resps idx0 ∧
    txRxDc c ref image resps idx0 = cycle { c with dc := some ref } image resps idx0 ∧
    (0 < ref → txRxSyncSystemTime c ref image resps idx0 = cycle { c with dc := some ref } image resps idx0) ∧
    txRxSyncSystemTime c 0 image resps idx0 = cycle { c with dc := none } image resps idx0 := by
  refine ⟨rfl, rfl, fun h => by simp [txRxSyncSystemTime, h], by simp [txRxSyncSystemTime, txRx]⟩

/-! ### Reading the result of `cycle` -/

theorem res_ok {c : Cfg} {image : List Nat} {resps : List (List RPdu)} {idx0 : Nat} {r : Resp}
    (h : (cycle c image resps idx0).res = .ok r) :
    (loop c (fuelFor c image) (initSt c image resps idx0)).2 = .ok () ∧
    r = ⟨(loop c (fuelFor c image) (initSt c image resps idx0)).1.wkc,
         (loop c (fuelFor c image) (initSt c image resps idx0)).1.states,
         if c.dc.isSome then some (loop c (fuelFor c image) (initSt c image resps idx0)).1.time else none⟩ := by
  unfold cycle finish at h
  generalize loop c (fuelFor c image) (initSt c image resps idx0) = L at h ⊢
  obtain ⟨s, o⟩ := L
  cases o with
  | ok u => cases u; simp at h; exact ⟨rfl, h.symm⟩
  | err e => simp at h
  | panic w => simp at h

/-! ### What goes out -/

/-- **lrw_tiles.** After a successful cycle the LRW datagrams, in transmission order, tile the group's logical
    window `[pdiStart, pdiStart + pdiLen)`: each starts where the previous one ended, each is non-empty, the
    first starts at `pdiStart`, the last ends at `pdiStart + pdiLen` — no gap, no overlap, nothing outside. -/
theorem lrw_tiles (c : Cfg) (image : List Nat) (resps : List (List RPdu)) (idx0 : Nat)
    (hc : CfgOk c image.length) (r : Resp) (hok : (cycle c image resps idx0).res = .ok r) :
    Tiles c.pdiStart (lrws (cycle c image resps idx0).frames) (c.pdiStart + image.length) := by
  obtain ⟨hl, _⟩ := res_ok hok
  obtain ⟨hi, hsent, _⟩ := loop_ok hc _ _ (FrInv.init c image resps idx0) hl
  have := hi.tiles; rw [hsent] at this; exact this

/-- **image_sent_once.** After a successful cycle the data of the LRW datagrams, concatenated, is the image as the
    application left it: every byte exactly once, at the address `pdiStart + offset` (with `lrw_tiles`). In
    particular the output part is transmitted exactly as written. -/
theorem image_sent_once (c : Cfg) (image : List Nat) (resps : List (List RPdu)) (idx0 : Nat)
    (hc : CfgOk c image.length) (r : Resp) (hok : (cycle c image resps idx0).res = .ok r) :
    lrwData (cycle c image resps idx0).frames = image := by
  obtain ⟨hl, _⟩ := res_ok hok
  obtain ⟨hi, hsent, _⟩ := loop_ok hc _ _ (FrInv.init c image resps idx0) hl
  have := hi.sentData; rw [hsent, List.take_length] at this; exact this

/-- **each_frame_fits.** Whatever the outcome, every transmitted frame is the well-formed encoding (C04) of its
    datagram list, carries at least one datagram, and fits the configured frame size. -/
theorem each_frame_fits (c : Cfg) (image : List Nat) (resps : List (List RPdu)) (idx0 : Nat)
    (hc : CfgOk c image.length) :
    ∀ fr ∈ (cycle c image resps idx0).frames,
      fr.bytes = encodeFrame fr.dgrams ∧ fr.dgrams ≠ [] ∧ dgramsSize fr.dgrams ≤ c.cap - 16 ∧
      fr.bytes.length ≤ c.cap := by
  intro fr hfr
  have hw := loop_weak hc (fuelFor c image) _ (FrInv.init c image resps idx0)
  have := hw.frames fr hfr
  exact ⟨this.bytes, this.nonempty, this.size, this.len⟩

/-- **terminates.** The fuel `pdiLen + #SubDevices + 2` is never the reason a cycle stops. -/
theorem terminates (c : Cfg) (image : List Nat) (resps : List (List RPdu)) (idx0 : Nat)
    (hc : CfgOk c image.length) : (cycle c image resps idx0).res ≠ .err .fuel := by
  have h := loop_terminates hc (fuelFor c image) _ (FrInv.init c image resps idx0) (phi_init_le hc resps idx0)
  unfold cycle finish
  generalize loop c (fuelFor c image) (initSt c image resps idx0) = L at h ⊢
  obtain ⟨s, o⟩ := L
  cases o with
  | ok u => cases u; simp
  | err e => simp only at h ⊢; intro he; apply h; cases he; rfl
  | panic w => simp

/-- **frame_count_bound.** Whatever the outcome, a cycle sends at most
    `⌈pdiLen / (cap − 28)⌉ + ⌈n / min(⌊(cap − 16) / 14⌋, 129)⌉` frames — what sending the image and the state checks
    in separate frames would need — plus one in the clock variants (whose first frame gives 20 bytes to the clock
    datagram). -/
theorem frame_count_bound (c : Cfg) (image : List Nat) (resps : List (List RPdu)) (idx0 : Nat)
    (hc : CfgOk c image.length) :
    (cycle c image resps idx0).frames.length
      ≤ ceilDiv image.length (c.cap - 28) + ceilDiv c.addrs.length (min ((c.cap - 16) / 14) 129)
        + (if c.dc.isSome then 1 else 0) := by
  have hw := loop_weak hc (fuelFor c image) _ (FrInv.init c image resps idx0)
  have := hw.count
  have e : Phi c (initSt c image resps idx0)
      = ceilDiv image.length (c.cap - 28) + ceilDiv c.addrs.length (min ((c.cap - 16) / 14) 129)
        + (if c.dc.isSome then 1 else 0) := by
    simp [Phi, remOf, initSt, perFrame, needDc]
  rw [e] at this; exact this

/-- **dc_first_once (frames).** In the clock variants the first datagram of the first frame is the FRMW to the
    reference clock (register 0x0910, eight zero bytes) and no other datagram of the cycle is an FRMW — whatever the
    outcome. Without a reference no FRMW is sent at all. -/
theorem dc_first_once (c : Cfg) (image : List Nat) (resps : List (List RPdu)) (idx0 : Nat)
    (hc : CfgOk c image.length) :
    (∀ ref, c.dc = some ref → ∃ rest, allDescs (cycle c image resps idx0).frames = frmwDesc ref :: rest ∧
        ∀ d ∈ rest, isFrmw d = false) ∧
    (c.dc = none → ∀ d ∈ allDescs (cycle c image resps idx0).frames, isFrmw d = false) := by
  have hw := loop_weak hc (fuelFor c image) _ (FrInv.init c image resps idx0)
  have hd := hw.dc
  unfold DcFrames at hd
  constructor
  · intro ref href
    rw [href] at hd
    rcases hd with hnil | h
    · exfalso
      have hnf := loop_terminates hc (fuelFor c image) _ (FrInv.init c image resps idx0) (phi_init_le hc resps idx0)
      exact dc_nonempty hc (by simp [href]) _ _ (FrInv.init c image resps idx0) hnf hnil
    · exact h
  · intro hnone; rw [hnone] at hd; exact hd

/-- **dc_first_once (time).** After a successful cycle of a clock variant the reported time is the value the
    first datagram of the first answer carried (little endian, first eight bytes); the plain variant reports none. -/
theorem dc_time (c : Cfg) (image : List Nat) (resps : List (List RPdu)) (idx0 : Nat)
    (hc : CfgOk c image.length) (hn : c.addrs.length ≤ c.maxSd) (r : Resp)
    (hok : (cycle c image resps idx0).res = .ok r) :
    (c.dc = none → r.time = none) ∧
    (∀ ref, c.dc = some ref → ∃ p0 rest0 restR, resps = (p0 :: rest0) :: restR ∧ r.time = some (rd64 p0.data)) := by
  obtain ⟨hl, hr⟩ := res_ok hok
  constructor
  · intro hnone; rw [hr, hnone]; rfl
  · intro ref href
    obtain ⟨hi, _, _⟩ := loop_ok hc _ _ (FrInv.init c image resps idx0) hl
    obtain ⟨used, hu, _, htime, _⟩ :=
      loop_ok_rinv hc hn _ _ (FrInv.init c image resps idx0) (RInv.init c image resps idx0) hl
    -- the clock was read: a frame was sent, so `timeRead`
    have hne := dc_nonempty hc (by simp [href]) _ _ (FrInv.init c image resps idx0) (by rw [hl]; simp)
    have hd := hi.dc
    generalize (loop c (fuelFor c image) (initSt c image resps idx0)).1 = sf at *
    have htr : sf.timeRead = true := by
      unfold DcOk at hd; rw [href] at hd
      cases ht : sf.timeRead with
      | true => rfl
      | false => rw [ht] at hd; simp at hd; exact absurd hd hne
    obtain ⟨p0, rest0, restU, hused, ht⟩ := htime htr
    refine ⟨p0, rest0, restU ++ sf.resps, ?_, ?_⟩
    · rw [hu, hused]; rfl
    · rw [hr, href, ht]; rfl

/-! ### What comes back -/

/-- **outputs_untouched.** Whatever the outcome and whatever came back, the image keeps its length and its output
    part `image[readLen..)` is byte for byte what the application wrote. (That it is also what was transmitted is
    `image_sent_once`.) -/
theorem outputs_untouched (c : Cfg) (image : List Nat) (resps : List (List RPdu)) (idx0 : Nat)
    (hc : CfgOk c image.length) :
    (cycle c image resps idx0).image.length = image.length ∧
    (cycle c image resps idx0).image.drop c.readLen = image.drop c.readLen := by
  have hw := loop_weak hc (fuelFor c image) _ (FrInv.init c image resps idx0)
  exact ⟨hw.len, hw.outs⟩

/-- The final state of a successful cycle with well-shaped answers. -/
theorem final_facts {c : Cfg} {image : List Nat} {resps : List (List RPdu)} {idx0 : Nat}
    (hc : CfgOk c image.length) (hn : c.addrs.length ≤ c.maxSd) {r : Resp}
    (hok : (cycle c image resps idx0).res = .ok r) (hsh : Shaped (cycle c image resps idx0).frames resps) :
    RFacts c image (loop c (fuelFor c image) (initSt c image resps idx0)).1
      (resps.take (cycle c image resps idx0).frames.length) ∧
    (loop c (fuelFor c image) (initSt c image resps idx0)).1.sent = image.length ∧
    (loop c (fuelFor c image) (initSt c image resps idx0)).1.checks = c.addrs.length ∧
    FrInv c image (Phi c (initSt c image resps idx0)) (loop c (fuelFor c image) (initSt c image resps idx0)).1 := by
  obtain ⟨hl, _⟩ := res_ok hok
  obtain ⟨hi, hsent, hchk⟩ := loop_ok hc _ _ (FrInv.init c image resps idx0) hl
  obtain ⟨used, hu, hul, _, hfacts⟩ :=
    loop_ok_rinv hc hn _ _ (FrInv.init c image resps idx0) (RInv.init c image resps idx0) hl
  have hfr : (cycle c image resps idx0).frames = (loop c (fuelFor c image) (initSt c image resps idx0)).1.frames := rfl
  rw [hfr] at hsh ⊢
  generalize (loop c (fuelFor c image) (initSt c image resps idx0)).1 = sf at *
  have htake : resps.take sf.frames.length = used := by
    rw [hu, ← hul, List.take_left]
  have hzip : sf.frames.zip resps = sf.frames.zip used := by
    rw [hu]; exact zip_append_extra _ _ _ hul.symm
  rw [htake]
  refine ⟨hfacts ?_, hsent, hchk, hi⟩
  intro x hx
  exact hsh.2 x (by rw [hzip]; exact hx)

/-- Pairing with the answers actually consumed is pairing with the list of answers. -/
theorem pairs_take (frames : List Frame) (resps : List (List RPdu)) (h : frames.length ≤ resps.length) :
    pairs frames (resps.take frames.length) = pairs frames resps := by
  unfold pairs
  congr 1
  conv => rhs; rw [← List.take_append_drop frames.length resps]
  exact (zip_append_extra _ _ _ (by simp [List.length_take]; omega)).symm

/-- **inputs_land.** After a successful cycle with well-shaped answers, the input part of the image is what the
    network returned for those addresses: `image'[i] = returned[i]` for every `i < readLen`, where `returned` is the
    data of the LRW answers laid out from `pdiStart` on — for every split `readLen ≤ pdiLen`. -/
theorem inputs_land (c : Cfg) (image : List Nat) (resps : List (List RPdu)) (idx0 : Nat)
    (hc : CfgOk c image.length) (hn : c.addrs.length ≤ c.maxSd) (hrl : c.readLen ≤ image.length) (r : Resp)
    (hok : (cycle c image resps idx0).res = .ok r) (hsh : Shaped (cycle c image resps idx0).frames resps) :
    (cycle c image resps idx0).image.take c.readLen
      = (returned (cycle c image resps idx0).frames resps).take c.readLen ∧
    (returned (cycle c image resps idx0).frames resps).length = image.length := by
  obtain ⟨F, hsent, _, _⟩ := final_facts hc hn hok hsh
  have hp := pairs_take (cycle c image resps idx0).frames resps hsh.1
  have hret : returned (cycle c image resps idx0).frames (resps.take (cycle c image resps idx0).frames.length)
      = returned (cycle c image resps idx0).frames resps := by
    unfold returned lrwAnswers; rw [hp]
  have himg := F.image
  have hlen := F.retLen
  rw [hsent] at himg hlen
  have hfr : (cycle c image resps idx0).frames = (loop c (fuelFor c image) (initSt c image resps idx0)).1.frames := rfl
  rw [← hfr, hret] at himg hlen
  refine ⟨?_, hlen⟩
  show (loop c (fuelFor c image) (initSt c image resps idx0)).1.image.take c.readLen = _
  rw [himg, Nat.min_eq_right hrl]
  rw [List.take_append_of_le_length (by simp [List.length_take]; omega), List.take_take, Nat.min_self]

/-- **wkc_sum (partial).** After a successful cycle with well-shaped answers the reported working counter is the
    sum of the working counters of the LRW answers modulo 2^16; in a build with overflow checks the sum is below
    2^16 (otherwise the cycle panicked, see `wkc_sum_counterexample`). Hence, **if the sum is representable in the
    `u16` the result has**, the reported value is the sum. -/
theorem wkc_sum_partial (c : Cfg) (image : List Nat) (resps : List (List RPdu)) (idx0 : Nat)
    (hc : CfgOk c image.length) (hn : c.addrs.length ≤ c.maxSd) (r : Resp)
    (hok : (cycle c image resps idx0).res = .ok r) (hsh : Shaped (cycle c image resps idx0).frames resps) :
    r.wkc = lrwWkcSum (cycle c image resps idx0).frames resps % 65536 ∧
    (c.mode = .checked → lrwWkcSum (cycle c image resps idx0).frames resps < 65536) ∧
    (lrwWkcSum (cycle c image resps idx0).frames resps < 65536 →
      r.wkc = lrwWkcSum (cycle c image resps idx0).frames resps) := by
  obtain ⟨F, _, _, _⟩ := final_facts hc hn hok hsh
  obtain ⟨_, hr⟩ := res_ok hok
  have hp := pairs_take (cycle c image resps idx0).frames resps hsh.1
  have hs : lrwWkcSum (cycle c image resps idx0).frames (resps.take (cycle c image resps idx0).frames.length)
      = lrwWkcSum (cycle c image resps idx0).frames resps := by
    unfold lrwWkcSum lrwAnswers; rw [hp]
  have h1 := F.wkc
  have h2 := F.wkcChk
  have hfr : (cycle c image resps idx0).frames = (loop c (fuelFor c image) (initSt c image resps idx0)).1.frames := rfl
  rw [← hfr, hs] at h1 h2
  have hw : r.wkc = (loop c (fuelFor c image) (initSt c image resps idx0)).1.wkc := by rw [hr]
  refine ⟨by rw [hw, h1], h2, fun hlt => by rw [hw, h1, Nat.mod_eq_of_lt hlt]⟩

/-- The clause as the property states it ("the reported working counter is the sum over the process-data
    datagrams", for arbitrary device answers), kept visible. It is false of the code: -/
def WkcSumFull : Prop :=
  ∀ (c : Cfg) (image : List Nat) (resps : List (List RPdu)) (idx0 : Nat), CfgOk c image.length →
    c.addrs.length ≤ c.maxSd → (∀ f ∈ resps, ∀ p ∈ f, p.wkc < 65536) →
    Shaped (cycle c image resps idx0).frames resps →
    ∃ r, (cycle c image resps idx0).res = .ok r ∧ r.wkc = lrwWkcSum (cycle c image resps idx0).frames resps

/-- Witness configuration: 30-byte frames, a 4-byte image (all outputs), no SubDevices; two LRW chunks whose
    answers carry working counter 0x8000 each. -/
def wkcWitness (m : Mode) : Cfg :=
  { cap := 30, pdiStart := 0, readLen := 0, addrs := [], maxSd := 16, mode := m, dc := none }

/-- **wkc_sum counterexample.** On the witness a build with overflow checks panics (`lrw_wkc_sum += wkc`), a
    build without reports 0 although the sum is 65536 — with answers of exactly the requested shape. -/
theorem wkc_sum_counterexample :
    (cycle (wkcWitness .checked) [1, 2, 3, 4] [[⟨[1, 2], 32768⟩], [⟨[3, 4], 32768⟩]] 0).res
        = .panic "attempt to add with overflow" ∧
    (cycle (wkcWitness .wrapping) [1, 2, 3, 4] [[⟨[1, 2], 32768⟩], [⟨[3, 4], 32768⟩]] 0).res
        = .ok ⟨0, [], none⟩ ∧
    lrwWkcSum (cycle (wkcWitness .wrapping) [1, 2, 3, 4] [[⟨[1, 2], 32768⟩], [⟨[3, 4], 32768⟩]] 0).frames
        [[⟨[1, 2], 32768⟩], [⟨[3, 4], 32768⟩]] = 65536 := by
  decide

/-- The clause as stated does not hold of the code (witness above, build with overflow checks): well-shaped answers,
    every working counter a `u16`, yet no result. -/
theorem wkc_sum_full_false : ¬ WkcSumFull := by
  intro h
  have hf : (cycle (wkcWitness .checked) [1, 2, 3, 4] [[⟨[1, 2], 32768⟩], [⟨[3, 4], 32768⟩]] 0).frames
      = [⟨encodeFrame [⟨.lrw 0, 0, 2, [1, 2]⟩], [⟨.lrw 0, 0, 2, [1, 2]⟩]⟩,
         ⟨encodeFrame [⟨.lrw 2, 1, 2, [3, 4]⟩], [⟨.lrw 2, 1, 2, [3, 4]⟩]⟩] := by decide
  obtain ⟨r, hr, _⟩ := h (wkcWitness .checked) [1, 2, 3, 4] [[⟨[1, 2], 32768⟩], [⟨[3, 4], 32768⟩]] 0
    ⟨by decide, by decide, by decide, by decide⟩ (by decide) (by decide)
    (by rw [hf]; refine ⟨by decide, ?_⟩; intro x hx; simp at hx; rcases hx with rfl | rfl <;> simp [ShapedOne])
  rw [wkc_sum_counterexample.1] at hr; cases hr

/-- **states_in_group_order.** After a successful cycle with well-shaped answers there is exactly one state check
    per SubDevice, addressed in group order, and the reported list holds, in that order, the low nibble of the AL
    status each device returned. -/
theorem states_in_group_order (c : Cfg) (image : List Nat) (resps : List (List RPdu)) (idx0 : Nat)
    (hc : CfgOk c image.length) (hn : c.addrs.length ≤ c.maxSd) (r : Resp)
    (hok : (cycle c image resps idx0).res = .ok r) (hsh : Shaped (cycle c image resps idx0).frames resps) :
    fprds (cycle c image resps idx0).frames = c.addrs ∧
    r.states = stateAnswers (cycle c image resps idx0).frames resps ∧
    r.states.length = c.addrs.length := by
  obtain ⟨F, _, hchk, hi⟩ := final_facts hc hn hok hsh
  obtain ⟨_, hr⟩ := res_ok hok
  have hp := pairs_take (cycle c image resps idx0).frames resps hsh.1
  have hs : stateAnswers (cycle c image resps idx0).frames (resps.take (cycle c image resps idx0).frames.length)
      = stateAnswers (cycle c image resps idx0).frames resps := by
    unfold stateAnswers; rw [hp]
  have hfr : (cycle c image resps idx0).frames = (loop c (fuelFor c image) (initSt c image resps idx0)).1.frames := rfl
  have h1 := F.states
  rw [← hfr, hs] at h1
  have hst : r.states = (loop c (fuelFor c image) (initSt c image resps idx0)).1.states := by rw [hr]
  refine ⟨?_, by rw [hst, h1], by rw [hst, F.nstates, hchk]⟩
  have := hi.fprd; rw [hchk, List.take_length] at this; rw [hfr]; exact this

/-- **no_error_when_answered.** A cycle returns `Err` only if some frame stayed unanswered or some answer did not
    have the requested shape: with well-shaped answers to everything that was sent it succeeds (or, with overflow
    checks, panics in the working-counter sum). -/
theorem no_error_when_answered (c : Cfg) (image : List Nat) (resps : List (List RPdu)) (idx0 : Nat)
    (hc : CfgOk c image.length) (hn : c.addrs.length ≤ c.maxSd) (e : TxErr)
    (herr : (cycle c image resps idx0).res = .err e) : ¬ Shaped (cycle c image resps idx0).frames resps := by
  have hne : e ≠ .fuel := fun h => terminates c image resps idx0 hc (by rw [herr, h])
  have hl : (loop c (fuelFor c image) (initSt c image resps idx0)).2 = .err e := by
    unfold cycle finish at herr
    generalize loop c (fuelFor c image) (initSt c image resps idx0) = L at herr ⊢
    obtain ⟨s, o⟩ := L
    cases o with
    | ok u => cases u; simp at herr
    | err e' => simp at herr ⊢; exact herr
    | panic w => simp at herr
  exact loop_err_misshaped hc hn _ _ (FrInv.init c image resps idx0) (RInv.init c image resps idx0) e hne hl

/-! ### All three entry points terminate -/

/-- **terminates, all variants.** `tx_rx`, `tx_rx_dc` and `tx_rx_sync_system_time` — the latter with or without a DC
    reference stored in the MainDevice (without one it is `tx_rx`, which takes the image lock itself) — never
    exhaust the fuel, for every frame size the variant that runs allows. -/
theorem terminates_all_variants (c : Cfg) (image : List Nat) (resps : List (List RPdu)) (idx0 ref : Nat) :
    (CfgOk { c with dc := none } image.length →
      (txRx c image resps idx0).res ≠ .err .fuel ∧ (txRxSyncSystemTime c 0 image resps idx0).res ≠ .err .fuel) ∧
    (CfgOk { c with dc := some ref } image.length →
      (txRxDc c ref image resps idx0).res ≠ .err .fuel ∧
      (0 < ref → (txRxSyncSystemTime c ref image resps idx0).res ≠ .err .fuel)) := by
  obtain ⟨h1, h2, h3, h4⟩ := variants c image resps idx0 ref
  refine ⟨fun hc => ⟨?_, ?_⟩, fun hc => ⟨?_, fun href => ?_⟩⟩
  · rw [h1]; exact terminates _ image resps idx0 hc
  · rw [h4]; exact terminates _ image resps idx0 hc
  · rw [h2]; exact terminates _ image resps idx0 hc
  · rw [h3 href]; exact terminates _ image resps idx0 hc

/-- Regression witness of the repaired defect (KNOWN_FINDINGS `fixed:` C07): without a DC reference
    `tx_rx_sync_system_time` on an empty group and image returns `Ok` with no time, having sent nothing. -/
theorem sync_without_reference_returns :
    (txRxSyncSystemTime { cap := 64, pdiStart := 0, readLen := 0, addrs := [], maxSd := 16, mode := .checked, dc := none }
      0 [] [] 0).res = .ok ⟨0, [], none⟩ := by decide

/-! ### Non-vacuity: concrete cycles satisfying the hypotheses -/

/-- The smallest frame size: two image bytes per frame, then one state check per frame. -/
def demoPlain : Cfg :=
  { cap := 30, pdiStart := 0, readLen := 2, addrs := [0x1000, 0x1001], maxSd := 16, mode := .checked, dc := none }

def demoPlainResps : List (List RPdu) :=
  [[⟨[10, 11], 3⟩], [⟨[12, 13], 3⟩], [⟨[8, 0], 1⟩], [⟨[0x14, 0], 1⟩]]

example : CfgOk demoPlain 4 := ⟨by decide, by decide, by decide, by decide⟩

example : (cycle demoPlain [1, 2, 3, 4] demoPlainResps 5).res = .ok ⟨6, [8, 4], none⟩ := by decide
example : (cycle demoPlain [1, 2, 3, 4] demoPlainResps 5).image = [10, 11, 3, 4] := by decide
example : lrws (cycle demoPlain [1, 2, 3, 4] demoPlainResps 5).frames = [(0, 2), (2, 2)] := by decide

/-- A clock variant at its smallest frame size: clock datagram + 2 image bytes, then 1 byte + one state check. -/
def demoDc : Cfg :=
  { cap := 50, pdiStart := 100, readLen := 1, addrs := [0x1000], maxSd := 16, mode := .checked, dc := some 0x1000 }

def demoDcResps : List (List RPdu) :=
  [[⟨[1, 0, 0, 0, 0, 0, 0, 0], 1⟩, ⟨[0xaa, 0xbb], 3⟩], [⟨[0xcc], 3⟩, ⟨[8, 0], 1⟩]]

example : CfgOk demoDc 3 := ⟨by decide, by decide, by decide, by decide⟩
example : (cycle demoDc [1, 2, 3] demoDcResps 0).res = .ok ⟨6, [8], some 1⟩ := by decide
example : (cycle demoDc [1, 2, 3] demoDcResps 0).image = [0xaa, 2, 3] := by decide
example : (allDescs (cycle demoDc [1, 2, 3] demoDcResps 0).frames).head? = some (frmwDesc 0x1000) := by decide

end Ec.C07
