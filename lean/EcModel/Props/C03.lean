/-
  C03 — frame slots are always returned: capacity is never lost.

  Subject: the sequential (API-level) model of the PDU loop's frame storage (`EcModel/Slots.lean`),
  stepped by `Ec.step` over `Ec.Op` (one constructor per API operation; `Lemmas/SlotsStep.lean`).
  All theorems quantify over every slot count `n` (capacity clauses: `n ∣ 256`, i.e. the legal sizes
  1, 2, 4, …, 128), every frame size, every initial counter value and every history (`Reach`):
  successful round trips, failed validation, send errors and partial sends, lost / duplicate /
  garbage responses, deadline expiries with and without retries, drops of every handle kind in every
  state it can be in, and `reset` at quiescent points.

  The history "future abandoned while the TX side holds the `SendableFrame`, then the send
  completes" is included (current code: the send's compare-exchange fails): see
  `abandon_then_stale_send_keeps_capacity` below and C06.
-/
import EcModel.Lemmas.SlotsCapacity
import EcModel.Lemmas.SlotsSites

namespace Ec.C03
open Ec

/-! ### generated obligation (T1) -/

/-- The slot-state transition sites extracted from `/repo/src/pdu_loop/**` on this run are exactly
    the primitives the model implements (same function, same primitive — compare-exchange or plain
    store —, same source and target state, same order). -/
theorem transition_sites_are_the_models : Gen.transitionSites = modelTransitionSites := by decide

/-! ### readable form of the ownership invariant -/

/-- Handle kinds that own a slot (everything but the TX side's `SendableFrame`). -/
def IsOwner (h : Hd) : Prop := h.kind ≠ .sendable

/-- The slot states an owner of kind `k` can find its slot in. -/
def Owns (k : HK) (st : St) : Prop :=
  match k with
  | .created _ _ => st = .created
  | .fut _ _ _ _ => st = .sendable ∨ st = .sending ∨ st = .sent ∨ st = .rxBusy ∨ st = .rxDone
  | .received => st = .rxProcessing
  | .view _ _ _ => st = .rxProcessing
  | .sendable => False

theorem isOwner_iff (h : Hd) : IsOwner h ↔ h.kind.cls ≠ 4 := by
  unfold IsOwner; cases h.kind <;> simp [HK.cls]

theorem owns_iff (k : HK) (st : St) (hk : k.cls ≠ 4) : Owns k st ↔ st.cls = k.cls := by
  cases k <;> cases st <;> simp [Owns, HK.cls, St.cls] at hk ⊢

/-- **Ownership invariant J** in every reachable world: registers are unique; every owner handle
    refers to an existing slot whose state is compatible with the handle's kind (Created ↔ a
    `CreatedFrame`; Sendable/Sending/Sent/RxBusy/RxDone ↔ a `ReceiveFrameFut`; RxProcessing ↔ a
    `ReceivedFrame` or the `ReceivedPdu` that owns it); owner handles refer to distinct slots; every
    slot that is not `None` has an owner. -/
theorem ownership_invariant {n data : Nat} {w : World} (hn : 0 < n) (hr : Reach n data w) :
    (w.2.map (·.reg)).Nodup ∧
    (∀ h ∈ w.2, IsOwner h → h.slot < n ∧ Owns h.kind (w.1.slot h.slot).st) ∧
    (∀ a ∈ w.2, ∀ b ∈ w.2, IsOwner a → IsOwner b → a.slot = b.slot → a = b) ∧
    (∀ i, (w.1.slot i).st ≠ .none → ∃ h ∈ w.2, IsOwner h ∧ h.slot = i) := by
  have hJ := J_reach hn hr
  refine ⟨hJ.regs, ?_, ?_, ?_⟩
  · intro h hm ho
    have ho' := (isOwner_iff h).mp ho
    exact ⟨hr.n_eq ▸ hJ.owner_lt hm ho', (owns_iff _ _ ho').mpr (hJ.compat h hm ho')⟩
  · intro a ha b hb hoa hob
    exact hJ.distinct a ha b hb ((isOwner_iff a).mp hoa) ((isOwner_iff b).mp hob)
  · intro i hi
    obtain ⟨h, hm, ho, e⟩ := hJ.held i hi
    exact ⟨h, hm, (isOwner_iff h).mpr ho, e⟩

/-- A slot is held (state ≠ `None`) iff a live owner handle refers to it — and then exactly one
    does, of the kind its state demands. -/
theorem held_iff_handle {n data : Nat} {w : World} (hn : 0 < n) (hr : Reach n data w) (i : Nat) :
    ((w.1.slot i).st ≠ .none ↔ ∃ h ∈ w.2, IsOwner h ∧ h.slot = i) ∧
    ((w.1.slot i).st ≠ .none → ∃ h, (h ∈ w.2 ∧ IsOwner h ∧ h.slot = i ∧ Owns h.kind (w.1.slot i).st) ∧
        ∀ h', h' ∈ w.2 ∧ IsOwner h' ∧ h'.slot = i → h' = h) := by
  obtain ⟨_, hc, hd, hh⟩ := ownership_invariant hn hr
  have back : (∃ h ∈ w.2, IsOwner h ∧ h.slot = i) → (w.1.slot i).st ≠ .none := by
    rintro ⟨h, hm, ho, rfl⟩ hnone
    have := (hc h hm ho).2
    rw [hnone] at this
    revert this ho; unfold IsOwner; cases h.kind <;> simp [Owns]
  refine ⟨⟨hh i, back⟩, ?_⟩
  intro hne
  obtain ⟨h, hm, ho, e⟩ := hh i hne
  refine ⟨h, ⟨hm, ho, e, e ▸ (hc h hm ho).2⟩, ?_⟩
  rintro h' ⟨hm', ho', e'⟩
  exact hd h' hm' h hm ho' ho (e'.trans e.symm)

/-- **Conservation of capacity**: in every reachable world, held slots and live owner handles are
    equinumerous — `free slots + owner handles = n`. -/
theorem capacity_conserved {n data : Nat} {w : World} (hn : 0 < n) (hr : Reach n data w) :
    heldCount w.1 = owners w.2 ∧ heldCount w.1 ≤ n := by
  have hJ := J_reach hn hr
  refine ⟨hJ.count, ?_⟩
  unfold heldCount
  calc _ ≤ (List.range w.1.n).length := List.length_filter_le _ _
    _ = n := by rw [List.length_range, hr.n_eq]

/-! ### allocation -/

/-- The legal storage sizes (`N ≤ u8::MAX`, `N` a power of two or 1) all divide 256. -/
theorem legal_sizes_dvd (n : Nat) (h : n ∈ [1, 2, 4, 8, 16, 32, 64, 128]) : n ∣ 256 := by
  simp only [List.mem_cons, List.mem_nil_iff, or_false] at h
  rcases h with rfl | rfl | rfl | rfl | rfl | rfl | rfl | rfl <;> decide

/-- `2n` consecutive values of the wrapping `u8` cursor cover every residue mod `n` (already the
    first `n` do) because `n ∣ 256`. -/
theorem cursor_covers (f n i : Nat) (hd : n ∣ 256) (hi : i < n) :
    ∃ j, j < 2 * n ∧ (f + j) % 256 % n = i := by
  obtain ⟨j, hj, e⟩ := cursor_hits f n i hd hi
  exact ⟨j, by omega, e⟩

/-- **alloc_complete**: if some slot is `None`, `alloc_frame` succeeds — it claims a slot that was
    `None`, which becomes `Created` and is owned by the new handle. -/
theorem alloc_complete {n data : Nat} {w : World} (hr : Reach n data w) (hd : n ∣ 256) (r : Nat)
    (hfree : getH w.2 r = none) (i : Nat) (hi : i < n) (hnone : (w.1.slot i).st = .none) :
    ∃ k, k < n ∧ (w.1.slot k).st = .none ∧ (step w (.alloc r)).2 = s!"ok.{k}" ∧
      (step w (.alloc r)).1.2 = putH w.2 ⟨r, k, .created 0 none⟩ ∧
      ((step w (.alloc r)).1.1.slot k).st = .created := by
  have hn : 0 < n := Nat.pos_of_dvd_of_pos hd (by decide)
  have hJ := J_reach hn hr
  have hne := hr.n_eq
  obtain ⟨s', k, e⟩ := allocLoop_complete w.1 (hne ▸ hd) i (hne ▸ hi) hnone
  obtain ⟨hk, hkn, f, rfl⟩ := allocLoop_some hJ.pos e
  refine ⟨k, hne ▸ hk, hkn, ?_, ?_, ?_⟩
  · simp [step, hfree, opAlloc, e]
  · simp [step, hfree, opAlloc, e]
  · simp only [step, hfree, Option.isNone_none, if_true, opAlloc, e]
    rw [slot_setSlot, if_pos ⟨rfl, hk⟩]; rfl

/-- **alloc_fails_only_if_full**: `alloc_frame` reports `SwapState` only when every slot is held, each
    by its own live request or response handle; and if every slot is held it does report it. -/
theorem alloc_fails_only_if_full {n data : Nat} {w : World} (hr : Reach n data w) (hd : n ∣ 256) (r : Nat) :
    ((step w (.alloc r)).2 = "err.swapstate" →
      ∀ i, i < n → (w.1.slot i).st ≠ .none ∧ ∃ h ∈ w.2, IsOwner h ∧ h.slot = i) ∧
    (getH w.2 r = none → (∀ i, i < n → (w.1.slot i).st ≠ .none) → (step w (.alloc r)).2 = "err.swapstate") := by
  have hn : 0 < n := Nat.pos_of_dvd_of_pos hd (by decide)
  have hJ := J_reach hn hr
  constructor
  · intro hout i hi
    have hne : (w.1.slot i).st ≠ .none := by
      intro hnone
      cases hfree : getH w.2 r with
      | none =>
        obtain ⟨k, _, _, hk, _⟩ := alloc_complete hr hd r hfree i hi hnone
        rw [hk] at hout
        exact ok_ne_swapstate k hout
      | some h =>
        simp [step, hfree] at hout
    exact ⟨hne, ((held_iff_handle hn hr i).1).mp hne⟩
  · intro hfree hfull
    simp only [step, hfree, Option.isNone_none, if_true]
    unfold opAlloc
    split
    · next s' i e =>
      obtain ⟨hi, hnone, _⟩ := allocLoop_some hJ.pos e
      exact absurd hnone (hfull i (hr.n_eq ▸ hi))
    · rfl

/-- **created_drop_releases**: a frame that was claimed but never marked sendable is released when
    dropped; no other slot is touched. -/
theorem created_drop_releases {n data : Nat} {w : World} (hn : 0 < n) (hr : Reach n data w) (r k c : Nat)
    (l : Option Nat) (hh : getH w.2 r = some ⟨r, k, .created c l⟩) :
    ((step w (.dropCreated r)).1.1.slot k).st = .none ∧
    (step w (.dropCreated r)).1.2 = delH w.2 r ∧
    (∀ j, j ≠ k → (step w (.dropCreated r)).1.1.slot j = w.1.slot j) ∧
    (step w (.dropCreated r)).2 = "ok" := by
  have hJ := J_reach hn hr
  have hm := (getH_some hh).1
  have hk : k < w.1.n := hJ.owner_lt hm (by simp [HK.cls])
  have hst : (w.1.slot k).st = .created := by
    have := hJ.compat _ hm (by simp [HK.cls])
    revert this; simp only; cases (w.1.slot k).st <;> simp [St.cls, HK.cls]
  simp only [step, opDropCreated, hh, hst, if_true]
  refine ⟨by rw [slot_setSlot_eq _ _ _ hk], by simp, ?_, by simp⟩
  intro j hj; exact slot_setSlot_ne _ _ _ _ hj

/-! ### draining and the reallocation probe -/

/-- **drain_restores_capacity**: after ANY history, disposing of every live handle in any order
    (`CreatedFrame`: drop; `ReceiveFrameFut`: drop; `SendableFrame`: complete the send, with any
    outcome; `ReceivedFrame` / `ReceivedPdu`: drop) leaves no handle and every slot `None`; then `n`
    consecutive allocations succeed and the `(n+1)`-th reports `SwapState`. -/
theorem drain_restores_capacity {n data : Nat} {w : World} (hr : Reach n data w) (hd : n ∣ 256)
    (o : Nat → Nat) (rs : List Nat) (hall : ∀ h ∈ w.2, h.reg ∈ rs)
    (ps : List Nat) (hps : ps.Nodup) (hlen : ps.length = n) (extra : Nat) (hex : extra ∉ ps) :
    let w' := drain o w rs
    w'.2 = [] ∧ (∀ i, (w'.1.slot i).st = .none) ∧ allocsOk w' ps ∧
    (step (run w' (ps.map Op.alloc)) (.alloc extra)).2 = "err.swapstate" := by
  intro w'
  have hn : 0 < n := Nat.pos_of_dvd_of_pos hd (by decide)
  have hJ := J_reach hn hr
  have hJ' : J w'.1 w'.2 := J_drain o hJ rs
  have hn' : w'.1.n = n := by rw [n_drain, hr.n_eq]
  obtain ⟨he, hnone⟩ := drain_empties o hJ rs hall
  have hown : owners w'.2 = 0 := by rw [he]; rfl
  obtain ⟨hok, hcount, hregs⟩ := probe hJ' (hn' ▸ hd) ps hps (by rw [he]; intro h hm; cases hm)
    (by rw [hown, hn', hlen]; omega)
  refine ⟨he, hnone, hok, ?_⟩
  have hJ'' := J_run hJ' (ps.map Op.alloc)
  have hfull : owners (run w' (ps.map Op.alloc)).2 = (run w' (ps.map Op.alloc)).1.n := by
    rw [hcount, hown, n_run, hn', hlen]; omega
  refine alloc_step_full hJ'' hfull extra ?_
  intro h hm e
  rcases hregs h hm with h1 | h1
  · rw [he] at h1; cases h1
  · exact hex (e ▸ h1)

/-- **Exact remaining capacity** from any reachable world, without draining: with `m` live owner
    handles, exactly `n - m` further allocations succeed and the next one reports `SwapState`. -/
theorem capacity_exact {n data : Nat} {w : World} (hr : Reach n data w) (hd : n ∣ 256)
    (ps : List Nat) (hps : ps.Nodup) (hfresh : ∀ h ∈ w.2, h.reg ∉ ps) (hlen : owners w.2 + ps.length = n)
    (extra : Nat) (hex : extra ∉ ps) (hex' : ∀ h ∈ w.2, h.reg ≠ extra) :
    allocsOk w ps ∧ (step (run w (ps.map Op.alloc)) (.alloc extra)).2 = "err.swapstate" := by
  have hn : 0 < n := Nat.pos_of_dvd_of_pos hd (by decide)
  have hJ := J_reach hn hr
  have hne := hr.n_eq
  obtain ⟨hok, hcount, hregs⟩ := probe hJ (hne ▸ hd) ps hps hfresh (by omega)
  refine ⟨hok, ?_⟩
  refine alloc_step_full (J_run hJ _) (by rw [hcount, n_run]; omega) extra ?_
  intro h hm e
  rcases hregs h hm with h1 | h1
  · exact hex' h h1 e
  · exact hex (e ▸ h1)

/-! ### no panic in `Drop for ReceivedFrame` -/

theorem tok_ne_panic_drop_1 (a : Nat) : s!"err.invalidindex.{a}" ≠ "panic.drop" := by
  intro h
  have := congrArg String.toList h
  simp [String.toList_append, toString] at this

theorem tok_ne_panic_drop_2 (a b : Nat) : s!"ok.{a}.{b}" ≠ "panic.drop" := by
  intro h
  have := congrArg String.toList h
  simp [String.toList_append, toString] at this

/-- **no_panic_in_drop**: the `RxProcessing → None` compare-exchange in `Drop for ReceivedFrame`
    (whose failure is a panic in the Rust code) succeeds in every reachable world, whichever way the
    frame is dropped: directly, through `first_pdu`'s error paths, with the PDU iterator, or with the
    `ReceivedPdu` that owns it. -/
theorem no_panic_in_drop {n data : Nat} {w : World} (hn : 0 < n) (hr : Reach n data w) (r k : Nat) :
    (getH w.2 r = some ⟨r, k, .received⟩ →
      (dropReceived w.1 k).2 = true ∧ (step w (.dropReceived r)).2 = "ok" ∧
      (∀ code idx, (step w (.first r code idx)).2 ≠ "panic.drop") ∧
      (∀ m, (step w (.iter r m)).2 =
        String.intercalate "," (iterLoop ((w.1.slot k).buf.drop 16) (w.1.slot k).used m (some 0) []).reverse)) ∧
    (∀ off len wkc, getH w.2 r = some ⟨r, k, .view off len wkc⟩ →
      (dropReceived w.1 k).2 = true ∧ (step w (.dropView r)).2 = "ok") := by
  have hJ := J_reach hn hr
  constructor
  · intro hh
    have hd := (J_dropReceived hJ hh (by simp [HK.cls])).1
    simp only at hd
    refine ⟨hd, by simp [step, opDropReceived, hh, hd], ?_, ?_⟩
    · intro code idx
      simp only [step, opFirst, hh, hd, if_true]
      split
      · simp only; decide
      · simp only; decide
      · simp only; decide
      · split
        · simp only; decide
        · split
          · exact tok_ne_panic_drop_1 _
          · exact tok_ne_panic_drop_2 _ _
    · intro m
      simp [step, opIter, hh, hd]
  · intro off len wkc hh
    have hd := (J_dropReceived hJ hh (by simp [HK.cls])).1
    simp only at hd
    exact ⟨hd, by simp [step, opDropView, hh, hd]⟩

/-! ### the C06 window at API level (what fix 362a9e12 bought) -/

/-- The request is abandoned while the TX side holds the `SendableFrame` (state `Sending`), then the
    send completes: the slot is `None` after the drop and the stale send changes no slot (its
    compare-exchange from `Sending` fails); the invariant — hence every capacity theorem above —
    keeps holding (it holds in every reachable world). -/
theorem abandon_then_stale_send_keeps_capacity {n data : Nat} {w : World} (hn : 0 < n) (hr : Reach n data w)
    (r t k o : Nat) (a b c : Nat) (d : Bool)
    (hf : getH w.2 r = some ⟨r, k, .fut a b c d⟩) (ht : getH w.2 t = some ⟨t, k, .sendable⟩) :
    let w1 := (step w (.dropFut r)).1
    let w2 := (step w1 (.txSend t o)).1
    (w1.1.slot k).st = .none ∧ w2.1 = w1.1 ∧ w2.2 = delH (delH w.2 r) t := by
  have hJ := J_reach hn hr
  have hk : k < w.1.n := hJ.owner_lt (getH_some hf).1 (by simp [HK.cls])
  have hrt : r ≠ t := by
    intro e; subst e; rw [hf] at ht; cases ht
  have ht' : getH (delH w.2 r) t = some ⟨t, k, .sendable⟩ := by
    have hm : (⟨t, k, .sendable⟩ : Hd) ∈ delH w.2 r := mem_delH.mpr ⟨(getH_some ht).1, fun e => hrt e.symm⟩
    exact getH_of_mem (regs_delH hJ.regs r) hm
  simp only [step, opDropFut, hf, opTxSend, ht']
  rw [slot_setSlot_eq _ _ _ hk]
  simp

/-! ### non-vacuity -/

/-- A two-slot history: both slots claimed, the third allocation refused, one frame dropped
    unsent, one sent / timed out; every slot ends `None`. -/
def demoOps : List Op :=
  [.alloc 0, .alloc 1, .alloc 2, .dropCreated 0, .push 1 .nop [1, 2] none, .mark 1 0 10, .txNext 3,
   .txSend 3 0, .poll 1, .advance 11, .poll 1]

example : ((run (World.init 2 32 255 7) (demoOps.take 3)).1.slots.map (·.st)) = [.created, .created] := by decide
example : ((run (World.init 2 32 255 7) (demoOps.take 8)).1.slots.map (·.st)) = [.sent, .none] := by decide
example : ((run (World.init 2 32 255 7) demoOps).1.slots.map (·.st)) = [.none, .none] := by decide
example : (run (World.init 2 32 255 7) demoOps).2 = [] := by decide
example : Reach 2 32 (run (World.init 2 32 255 7) demoOps) := ⟨255, 7, demoOps, rfl⟩

end Ec.C03
