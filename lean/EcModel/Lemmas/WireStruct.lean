/-
  Derived structs (C19): what `parse_struct` guarantees about accepted layouts, specification vocabulary
  (`Lawful`, `fieldEnc`, `extractBits`, …) and the invariants of the generated write / read code.
-/
import EcModel.Lemmas.WireBits

namespace Ec.Wire
open Ec

/-! ### Specification vocabulary -/

/-- Laws of a field codec (an `EtherCrabWire{Read,Write,Sized}` impl triple) the struct theorems rely on. -/
structure Lawful (c : Codec) : Prop where
  /-- whatever is packed has `PACKED_LEN` bytes -/
  enc_len : ∀ v bs, c.enc v = .ok bs → bs.length = c.len ∧ AllBytes bs
  /-- valid values pack without panic -/
  enc_ok : ∀ v, c.valid v → ∃ bs, c.enc v = .ok bs
  /-- a short buffer is an error -/
  dec_short : ∀ buf, buf.length < c.len → c.dec buf = .err .readBufferTooShort
  /-- only the first `PACKED_LEN` bytes are looked at -/
  dec_prefix : ∀ buf, c.len ≤ buf.length → c.dec buf = c.dec (buf.take c.len)
  /-- decoding never panics -/
  dec_total : ∀ buf why, c.dec buf ≠ .panic why
  /-- unpacking what was packed gives the value back -/
  roundtrip : ∀ v bs, c.valid v → c.enc v = .ok bs → c.dec bs = .ok v

/-- The encoding of one field as the generated code obtains it: `self.f as u8` for `u8`/`bool` fields,
    `pack_to_slice_unchecked` of the field's type otherwise. -/
def fieldEnc (f : FieldMeta) (v : Val) : List Nat :=
  if f.ty.isU8OrBool then
    match asU8 v with
    | some x => [x]
    | none => []
  else
    match f.codec.enc v with
    | .ok bs => bs
    | _ => []

/-- Bits `[s, s + w)` of `buf` (little-endian bit order) as `⌈w/8⌉` bytes. -/
def extractBits (buf : List Nat) (s w : Nat) : List Nat :=
  leBytes ((w + 7) / 8) (leVal buf / 2 ^ s % 2 ^ w)

/-- How a field's value is obtained from the bytes holding its bits (zero-extended). -/
def decodeField (f : FieldMeta) (fb : List Nat) : Out Val :=
  if f.bitsLen ≤ 8 then
    if f.ty = .bool then .ok (.bool (decide (fb.getD 0 0 > 0)))
    else if f.ty = .u8 then .ok (.int (fb.getD 0 0))
    else f.codec.dec fb
  else f.codec.dec fb

/-- Specification of the derived `unpack_from_slice` body: every non-skipped field is decoded from the bits
    `[bit_start, bit_end)` of the buffer; first error wins. -/
def readFieldsSpec : List FieldMeta → List Nat → Out (List Val)
  | [], _ => .ok []
  | f :: fs, buf =>
    bindO (if f.skip then .ok .dflt else decodeField f (extractBits buf f.bitStart f.bitsLen)) fun v =>
    bindO (readFieldsSpec fs buf) fun vs => .ok (v :: vs)

/-- Bit `k` of the struct image according to the declared layout. -/
def fieldsBit : List FieldMeta → List Val → Nat → Bool
  | f :: fs, v :: vs, k =>
    (!f.skip && decide (f.bitStart ≤ k) && decide (k < f.bitEnd) && bitAt (fieldEnc f v) (k - f.bitStart))
      || fieldsBit fs vs k
  | _, _, _ => false

/-! ### What parse_struct guarantees -/

/-- Shape of a non-skipped field of an accepted layout: either it lies within one byte, or it is byte aligned at
    both ends and longer than one byte. -/
structure FieldMeta.Shaped (f : FieldMeta) : Prop where
  le : f.bitStart ≤ f.bitEnd
  byteStart_eq : f.byteStart = f.bitStart / 8
  byteEnd_eq : f.byteEnd = (f.bitEnd + 7) / 8
  off_eq : f.bitOffset = f.bitStart % 8
  small_or_big : (f.bitsLen ≤ 8 ∧ f.bitOffset + f.bitsLen ≤ 8 ∧ f.bytesLen ≤ 1) ∨
    (f.bitOffset = 0 ∧ f.bitsLen % 8 = 0 ∧ 8 < f.bitsLen ∧ 1 < f.bytesLen)

/-- Non-skipped fields occupy increasing, disjoint bit ranges between the cursor `c` and the end `e`. -/
def Chain : List FieldMeta → Nat → Nat → Prop
  | [], c, e => c ≤ e
  | f :: fs, c, e => if f.skip then Chain fs c e else c ≤ f.bitStart ∧ f.Shaped ∧ Chain fs f.bitEnd e

theorem Chain.mono : ∀ {fs : List FieldMeta} {c c' e : Nat}, Chain fs c e → c' ≤ c → Chain fs c' e
  | [], _, _, _, h, hc => by simp only [Chain] at *; omega
  | f :: fs, c, c', e, h, hc => by
    simp only [Chain] at *
    split
    · rename_i hs; simp only [hs, if_true] at h; exact Chain.mono h hc
    · rename_i hs
      simp only [hs] at h
      exact ⟨by have := h.1; omega, h.2.1, h.2.2⟩

theorem Chain.le : ∀ {fs : List FieldMeta} {c e : Nat}, Chain fs c e → c ≤ e
  | [], _, _, h => h
  | f :: fs, c, e, h => by
    simp only [Chain] at h
    split at h
    · exact Chain.le h
    · have := Chain.le h.2.2
      have := h.2.1.le
      omega

theorem Chain.mem_bounds : ∀ {fs : List FieldMeta} {c e : Nat}, Chain fs c e → ∀ f ∈ fs, f.skip = false →
    c ≤ f.bitStart ∧ f.bitStart ≤ f.bitEnd ∧ f.bitEnd ≤ e ∧ f.Shaped
  | [], _, _, _, f, hf, _ => by simp at hf
  | g :: fs, c, e, h, f, hf, hs => by
    simp only [Chain] at h
    by_cases hg : g.skip = true
    · simp only [hg, if_true] at h
      rcases List.mem_cons.mp hf with rfl | hf'
      · rw [hg] at hs; cases hs
      · exact Chain.mem_bounds h f hf' hs
    · simp only [hg] at h
      rcases List.mem_cons.mp hf with rfl | hf'
      · exact ⟨h.1, h.2.1.le, h.2.2.le, h.2.1⟩
      · have ih := Chain.mem_bounds h.2.2 f hf' hs
        have hle := h.2.1.le
        have h1 := h.1
        exact ⟨by omega, ih.2.1, ih.2.2.1, ih.2.2.2⟩

theorem parseField_spec {d : FieldDecl} {total : Nat} {fm : FieldMeta} {t' : Nat}
    (h : parseField d total = .ok (fm, t')) :
    fm.skip = d.skip ∧ fm.ty = d.ty ∧ fm.codec = d.codec ∧ total ≤ t' ∧
      (d.skip = false → total ≤ fm.bitStart ∧ fm.Shaped ∧ fm.bitEnd ≤ t') := by
  unfold parseField at h
  split at h
  · cases h
  · generalize d.preSkipBits = pre at h
    generalize d.postSkipBits = post at h
    simp only at h
    split at h
    · split at h
      · rename_i hs
        simp only [Except.ok.injEq, Prod.mk.injEq] at h
        obtain ⟨rfl, rfl⟩ := h
        exact ⟨rfl, rfl, rfl, by omega, fun h' => by rw [hs] at h'; cases h'⟩
      · cases h
    · split at h
      · rename_i hs
        simp only [Except.ok.injEq, Prod.mk.injEq] at h
        obtain ⟨rfl, rfl⟩ := h
        exact ⟨rfl, rfl, rfl, by omega, fun h' => by rw [hs] at h'; cases h'⟩
      · split at h
        · cases h
        · rename_i hA
          split at h
          · cases h
          · rename_i hB
            simp only [Except.ok.injEq, Prod.mk.injEq] at h
            obtain ⟨rfl, rfl⟩ := h
            refine ⟨rfl, rfl, rfl, by omega, fun _ => ?_⟩
            simp only [FieldMeta.bytesLen, FieldMeta.bitsLen, mkFieldMeta] at hA hB
            refine ⟨by simp [mkFieldMeta], ?_, by simp [mkFieldMeta]⟩
            constructor <;> simp only [FieldMeta.bitsLen, FieldMeta.bytesLen, mkFieldMeta] <;> omega

theorem parseFields_chain : ∀ (ds : List FieldDecl) (total : Nat) (ms : List FieldMeta) (tot : Nat),
    parseFields ds total = .ok (ms, tot) → Chain ms total tot
  | [], total, ms, tot, h => by
    simp only [parseFields, Except.ok.injEq, Prod.mk.injEq] at h
    obtain ⟨rfl, rfl⟩ := h
    simp [Chain]
  | d :: rest, total, ms, tot, h => by
    unfold parseFields at h
    split at h
    · cases h
    · rename_i fm total' hf
      split at h
      · cases h
      · rename_i ms' tot' hrest
        simp only [Except.ok.injEq, Prod.mk.injEq] at h
        obtain ⟨rfl, rfl⟩ := h
        have ih := parseFields_chain rest _ _ _ hrest
        obtain ⟨hsk, _, _, hle, hns⟩ := parseField_spec hf
        simp only [Chain]
        split
        · exact ih.mono hle
        · rename_i hs
          have hd : d.skip = false := by rw [← hsk]; simpa using hs
          obtain ⟨h1, h2, h3⟩ := hns hd
          exact ⟨h1, h2, ih.mono h3⟩

theorem parseStruct_chain {d : StructDecl} {m : StructMeta} (h : parseStruct d = .ok m) :
    Chain m.fields 0 m.widthBits := by
  unfold parseStruct at h
  split at h
  · cases h
  · cases h
  · rename_i width _
    split at h
    · cases h
    · split at h
      · cases h
      · rename_i ms total hp
        split at h
        · cases h
        · rename_i ht
          simp only [Except.ok.injEq] at h
          subst h
          simp only [ne_eq, Decidable.not_not] at ht
          subst ht
          exact parseFields_chain _ _ _ _ hp

/-! ### The generated write code, bitwise -/

/-- Facts about a small (within one byte) non-empty field. -/
theorem FieldMeta.Shaped.small_facts {f : FieldMeta} (hsh : f.Shaped) (hpos : 0 < f.bitsLen) (hs : f.bitsLen ≤ 8) :
    f.bitStart = 8 * f.byteStart + f.bitOffset ∧ f.bitEnd = f.bitStart + f.bitsLen ∧
      f.bitOffset + f.bitsLen ≤ 8 ∧ f.bytesLen = 1 := by
  have h1 := hsh.le; have h2 := hsh.byteStart_eq; have h3 := hsh.byteEnd_eq; have h4 := hsh.off_eq
  rcases hsh.small_or_big with h | h
  · simp only [FieldMeta.bitsLen, FieldMeta.bytesLen] at *; omega
  · simp only [FieldMeta.bitsLen, FieldMeta.bytesLen] at *; omega

theorem FieldMeta.Shaped.big_facts {f : FieldMeta} (hsh : f.Shaped) (hs : 8 < f.bitsLen) :
    f.bitStart = 8 * f.byteStart ∧ f.bitEnd = 8 * f.byteEnd ∧ f.byteStart < f.byteEnd ∧ f.bytesLen ≠ 1 ∧
      f.bitOffset = 0 ∧ f.bitsLen = 8 * (f.byteEnd - f.byteStart) := by
  have h1 := hsh.le; have h2 := hsh.byteStart_eq; have h3 := hsh.byteEnd_eq; have h4 := hsh.off_eq
  rcases hsh.small_or_big with h | h
  · simp only [FieldMeta.bitsLen, FieldMeta.bytesLen] at *; omega
  · simp only [FieldMeta.bitsLen, FieldMeta.bytesLen] at *; omega

/-- The single-byte OR-merge of generate_struct_write, bitwise. -/
theorem write_small_bits {f : FieldMeta} {buf : List Nat} (x : Nat)
    (hsh : f.Shaped) (hpos : 0 < f.bitsLen) (hs : f.bitsLen ≤ 8) (hlen : f.byteStart < buf.length)
    (hb : AllBytes buf) :
    let buf' := buf.set f.byteStart (buf.getD f.byteStart 0 ||| (((x <<< f.bitOffset) % 256) &&& f.mask))
    buf'.length = buf.length ∧ AllBytes buf' ∧
      ∀ k, bitAt buf' k = (bitAt buf k ||
        (decide (f.bitStart ≤ k) && decide (k < f.bitEnd) && bitAt [x] (k - f.bitStart))) := by
  obtain ⟨e1, e2, e3, _⟩ := hsh.small_facts hpos hs
  refine ⟨by simp, ?_, ?_⟩
  · exact allBytes_set hb _ _ (or_lt_256 (allBytes_getD hb _) (small_lt_256 _ _))
  · intro k
    rw [bitAt_set _ _ hlen]
    by_cases hk : k / 8 = f.byteStart
    · simp only [hk, if_true, Nat.testBit_or, FieldMeta.mask, tb_small _ _ _ _ e3]
      have : bitAt buf k = (buf.getD f.byteStart 0).testBit (k % 8) := by rw [bitAt, hk]
      rw [this]
      congr 1
      by_cases h1 : f.bitStart ≤ k <;> by_cases h2 : k < f.bitEnd
      · have a1 : f.bitOffset ≤ k % 8 := by omega
        have a2 : k % 8 < f.bitOffset + f.bitsLen := by omega
        have a3 : k % 8 - f.bitOffset = k - f.bitStart := by omega
        have a4 : k - f.bitStart < 8 := by omega
        simp [h1, h2, a1, a2, a3, bitAt_singleton _ _ a4]
      · have a2 : ¬ k % 8 < f.bitOffset + f.bitsLen := by omega
        simp [h2, a2]
      · have a1 : ¬ f.bitOffset ≤ k % 8 := by omega
        simp [h1, a1]
      · have a1 : ¬ f.bitOffset ≤ k % 8 := by omega
        simp [h1, a1]
    · simp only [hk, if_false]
      have : (decide (f.bitStart ≤ k) && decide (k < f.bitEnd)) = false := by
        by_cases h1 : f.bitStart ≤ k <;> by_cases h2 : k < f.bitEnd <;> simp [h1, h2]
        omega
      simp [this]

theorem slice_length {buf : List Nat} {a b : Nat} (hb : b ≤ buf.length) : (slice buf a b).length = b - a := by
  simp [slice]; omega

/-- The byte-aligned delegation of generate_struct_write, bitwise. -/
theorem write_big_bits {f : FieldMeta} {buf encb : List Nat} {c : Nat}
    (hsh : f.Shaped) (hbig : 8 < f.bitsLen) (hlen : f.byteEnd ≤ buf.length) (hb : AllBytes buf)
    (hc : c ≤ f.bitStart) (hz : ∀ k, c ≤ k → bitAt buf k = false)
    (henc : AllBytes encb) (hfit : encb.length ≤ f.byteEnd - f.byteStart) :
    let buf' := buf.take f.byteStart ++ (encb ++ (slice buf f.byteStart f.byteEnd).drop encb.length) ++ buf.drop f.byteEnd
    buf'.length = buf.length ∧ AllBytes buf' ∧
      ∀ k, bitAt buf' k = (bitAt buf k ||
        (decide (f.bitStart ≤ k) && decide (k < f.bitEnd) && bitAt encb (k - f.bitStart))) := by
  obtain ⟨e1, e2, e3, _, _, _⟩ := hsh.big_facts hbig
  have hsl := slice_length (a := f.byteStart) hlen
  have hmid : (encb ++ (slice buf f.byteStart f.byteEnd).drop encb.length).length = f.byteEnd - f.byteStart := by
    simp [hsl]; omega
  refine ⟨?_, ?_, ?_⟩
  · simp only [List.length_append, hmid, List.length_take, List.length_drop]; omega
  · simp only [allBytes_append]
    exact ⟨⟨allBytes_take _ hb, henc, allBytes_drop _ (allBytes_take _ (allBytes_drop _ hb))⟩, allBytes_drop _ hb⟩
  · intro k
    rw [bitAt_splice (by omega) hlen hmid]
    by_cases h1 : k / 8 < f.byteStart
    · have : ¬ f.bitStart ≤ k := by omega
      simp [h1, this]
    · simp only [h1, if_false]
      have hzk : bitAt buf k = false := hz k (by omega)
      by_cases h2 : k / 8 < f.byteEnd
      · simp only [h2, if_true, hzk, Bool.false_or]
        have a1 : f.bitStart ≤ k := by omega
        have a2 : k < f.bitEnd := by omega
        have a3 : k - 8 * f.byteStart = k - f.bitStart := by omega
        simp only [a1, a2, a3, decide_true, Bool.true_and]
        by_cases h3 : (k - f.bitStart) / 8 < encb.length
        · rw [bitAt_append_left h3]
        · rw [bitAt_append_right (by omega), bitAt_drop, bitAt_slice, bitAt_of_length_le (by omega : encb.length ≤ (k - f.bitStart) / 8)]
          have : 8 * f.byteStart + (8 * encb.length + (k - f.bitStart - 8 * encb.length)) = k := by omega
          rw [this, hzk]; simp
      · have : ¬ k < f.bitEnd := by omega
        simp [h2, this]

/-- Only the law "packed length = PACKED_LEN, all bytes" is needed on the write side. -/
def EncLen (c : Codec) : Prop := ∀ v bs, c.enc v = .ok bs → bs.length = c.len ∧ AllBytes bs

theorem writeField_bits {f : FieldMeta} {v : Val} {buf buf' : List Nat} {c : Nat}
    (hns : f.skip = false) (hsh : f.Shaped) (hpos : 0 < f.bitsLen) (hc : c ≤ f.bitStart)
    (hz : ∀ k, c ≤ k → bitAt buf k = false) (hb : AllBytes buf)
    (hlaw : EncLen f.codec) (hgen : f.ty.isU8OrBool = true → f.bitsLen < 16)
    (h : writeField f v buf = .ok buf') :
    buf'.length = buf.length ∧ AllBytes buf' ∧
      ∀ k, bitAt buf' k = (bitAt buf k ||
        (decide (f.bitStart ≤ k) && decide (k < f.bitEnd) && bitAt (fieldEnc f v) (k - f.bitStart))) := by
  unfold writeField at h
  simp only [hns, Bool.false_eq_true, if_false] at h
  by_cases hu : f.ty.isU8OrBool = true
  · -- u8 / bool
    have hs : f.bitsLen ≤ 8 := by
      have := hgen hu
      rcases hsh.small_or_big with h' | h'
      · exact h'.1
      · omega
    simp only [hu, if_true] at h
    cases hx : asU8 v with
    | none => simp [hx, illTyped] at h
    | some x =>
      simp only [hx] at h
      split at h
      · rename_i hlen
        simp only [Outcome.ok.injEq] at h
        subst h
        have := write_small_bits x hsh hpos hs hlen hb
        simpa [fieldEnc, hu, hx] using this
      · cases h
  · simp only [hu, Bool.false_eq_true, if_false] at h
    by_cases h1 : f.bytesLen = 1
    · -- any other type within one byte
      have hs : f.bitsLen ≤ 8 := by
        rcases hsh.small_or_big with h' | h'
        · exact h'.1
        · omega
      simp only [h1, if_true] at h
      obtain ⟨fb, hfb, h⟩ := bindO_eq_ok.mp h
      unfold Codec.packU at hfb
      split at hfb
      · cases hfb
      · rename_i hl
        obtain ⟨bs, hbs, hfb⟩ := bindO_eq_ok.mp hfb
        simp only [Outcome.ok.injEq] at hfb
        subst hfb
        obtain ⟨hbl, hba⟩ := hlaw v bs hbs
        rw [← hbl, List.take_left' rfl] at h
        cases bs with
        | nil => simp at h
        | cons res tl =>
          have htl : tl = [] := by
            simp only [List.length_cons, List.length_nil] at hl hbl
            have : tl.length = 0 := by omega
            exact List.eq_nil_of_length_eq_zero this
          subst htl
          simp only at h
          split at h
          · rename_i hlen
            simp only [Outcome.ok.injEq] at h
            subst h
            have := write_small_bits res hsh hpos hs hlen hb
            simpa [fieldEnc, hu, hbs] using this
          · cases h
    · -- byte aligned, more than one byte
      have hbig : 8 < f.bitsLen := by
        rcases hsh.small_or_big with h' | h'
        · have := (hsh.small_facts hpos h'.1).2.2.2; contradiction
        · exact h'.2.2.1
      simp only [h1, if_false] at h
      split at h
      · rename_i hr
        obtain ⟨sub, hsub, h⟩ := bindO_eq_ok.mp h
        simp only [Outcome.ok.injEq] at h
        subst h
        unfold Codec.packU at hsub
        split at hsub
        · cases hsub
        · rename_i hl
          obtain ⟨bs, hbs, hsub⟩ := bindO_eq_ok.mp hsub
          simp only [Outcome.ok.injEq] at hsub
          subst hsub
          obtain ⟨hbl, hba⟩ := hlaw v bs hbs
          rw [slice_length hr.2] at hl
          have := write_big_bits (encb := bs) hsh hbig hr.2 hb hc hz hba (by omega)
          rw [hbl] at this
          simpa [fieldEnc, hu, hbs, List.append_assoc] using this
      · cases h


theorem deriveWriteOk_field {m : StructMeta} (h : deriveWriteOk m = true) :
    ∀ f ∈ m.fields, f.skip = false → f.ty.isU8OrBool = true → f.bitsLen < 16 := by
  intro f hf hs hu
  have := (List.all_eq_true.mp h) f hf
  simpa [hs, hu] using this

/-- Invariant of `#(#fields_pack)*`: every step ORs the field's bits into a region that is still zero. -/
theorem writeFields_bits : ∀ (fs : List FieldMeta) (vs : List Val) (buf buf' : List Nat) (c e : Nat),
    Chain fs c e → (∀ f ∈ fs, f.skip = false → 0 < f.bitsLen) → (∀ f ∈ fs, EncLen f.codec) →
    (∀ f ∈ fs, f.skip = false → f.ty.isU8OrBool = true → f.bitsLen < 16) →
    (∀ k, c ≤ k → bitAt buf k = false) → AllBytes buf →
    writeFields fs vs buf = .ok buf' →
    buf'.length = buf.length ∧ AllBytes buf' ∧ ∀ k, bitAt buf' k = (bitAt buf k || fieldsBit fs vs k)
  | [], [], buf, buf', c, e, _, _, _, _, _, hb, h => by
    simp only [writeFields, Outcome.ok.injEq] at h
    subst h
    exact ⟨rfl, hb, fun k => by simp [fieldsBit]⟩
  | [], _ :: _, _, _, _, _, _, _, _, _, _, _, h => by simp [writeFields, illTyped] at h
  | _ :: _, [], _, _, _, _, _, _, _, _, _, _, h => by simp [writeFields, illTyped] at h
  | f :: fs, v :: vs, buf, buf', c, e, hch, hpos, hlaw, hgen, hz, hb, h => by
    simp only [writeFields] at h
    obtain ⟨b1, h1, h2⟩ := bindO_eq_ok.mp h
    simp only [Chain] at hch
    by_cases hs : f.skip = true
    · simp only [hs, if_true] at hch
      simp only [writeField, hs, if_true, Outcome.ok.injEq] at h1
      subst h1
      obtain ⟨r1, r2, r3⟩ := writeFields_bits fs vs buf buf' c e hch
        (fun g hg => hpos g (List.mem_cons_of_mem _ hg)) (fun g hg => hlaw g (List.mem_cons_of_mem _ hg))
        (fun g hg => hgen g (List.mem_cons_of_mem _ hg)) hz hb h2
      exact ⟨r1, r2, fun k => by simp [r3 k, fieldsBit, hs]⟩
    · have hs' : f.skip = false := by simpa using hs
      simp only [hs] at hch
      obtain ⟨hc, hsh, hrest⟩ := hch
      obtain ⟨q1, q2, q3⟩ := writeField_bits hs' hsh (hpos f (List.mem_cons_self ..) hs') hc hz hb
        (hlaw f (List.mem_cons_self ..)) (hgen f (List.mem_cons_self ..) hs') h1
      have hz1 : ∀ k, f.bitEnd ≤ k → bitAt b1 k = false := by
        intro k hk
        have : ¬ k < f.bitEnd := by omega
        rw [q3 k, hz k (by have := hsh.le; omega)]
        simp [this]
      obtain ⟨r1, r2, r3⟩ := writeFields_bits fs vs b1 buf' f.bitEnd e hrest
        (fun g hg => hpos g (List.mem_cons_of_mem _ hg)) (fun g hg => hlaw g (List.mem_cons_of_mem _ hg))
        (fun g hg => hgen g (List.mem_cons_of_mem _ hg)) hz1 q2 h2
      exact ⟨by omega, r2, fun k => by simp [r3 k, q3 k, fieldsBit, hs', Bool.or_assoc]⟩

/-- The second validity check of parse_struct ("Fields smaller than 8 bits may not cross byte boundaries") is dead code:
    whenever it would fire, the alignment check before it has fired already. -/
theorem parseField_not_smallCrosses (d : FieldDecl) (total : Nat) : parseField d total ≠ .error .smallCrosses := by
  intro h
  unfold parseField at h
  split at h
  · rename_i e he
    simp only [bitWidthAttr] at he
    split at he
    · simp only [Except.error.injEq] at he h
      subst he
      cases h
    · cases he
  · generalize d.preSkipBits = pre at h
    generalize d.postSkipBits = post at h
    simp only at h
    split at h
    · split at h <;> cases h
    · split at h
      · cases h
      · split at h
        · cases h
        · rename_i hA
          split at h
          · rename_i hB
            simp only [FieldMeta.bytesLen, FieldMeta.bitsLen, mkFieldMeta] at hA hB
            omega
          · cases h

theorem parseFields_not_smallCrosses : ∀ (ds : List FieldDecl) (total : Nat),
    parseFields ds total ≠ .error .smallCrosses
  | [], _ => by simp [parseFields]
  | d :: rest, total => by
    intro h
    unfold parseFields at h
    split at h
    · rename_i e he
      simp only [Except.error.injEq] at h
      subst h
      exact parseField_not_smallCrosses d total he
    · split at h
      · rename_i e he
        simp only [Except.error.injEq] at h
        subst h
        exact parseFields_not_smallCrosses rest _ he
      · cases h

end Ec.Wire
