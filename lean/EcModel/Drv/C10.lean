/- Line protocol for C10: `c10 <recipe> <kind> <args..>` -> answer. See harness/src/bin/c10.rs.
     sum <status pdus>                          per-cycle state list of a tx_rx call and its four summaries
     tr <mode> <pduLen> <desired> <members> <trace>   SubDeviceGroup::transition_to: result | frames sent
     reqop <members> <trace>                    SubDeviceGroup::request_into_op: result | frames sent
     md <num> <desired> <trace>                 MainDevice::wait_for_state -/
import EcModel.Drv.WkcUtil

namespace Ec.Drv.C10
open Ec Ec.Drv Ec.Wkc Ec.Group Ec.Drv.WkcUtil

def showOptState : Option SdState → String
  | some s => s!"some:{s.toNat}"
  | Option.none => "none"

def bit (b : Bool) : String := if b then "1" else "0"

def desiredList : List SdState :=
  [.none, .init, .preOp, .bootstrap, .safeOp, .op] ++ (List.range 16).map SdState.other

def showSummaries (states : List Nat) : String :=
  let sts := joinWith "," (states.map toString)
  let ins := String.join (desiredList.map fun d => bit (isInState states d))
  s!"st={if states.isEmpty then "-" else sts} gs={groupState states} single={showOptState (groupInSingleState states)} allop={bit (allOp states)} in={ins}"

def pdusOf (tr : List Ev) : List Pdu :=
  tr.filterMap fun e => match e with | .resp p => some p | _ => Option.none

def handle (args : List String) : String :=
  match args.drop 1 with
  | ["sum", tr] =>
    match statesOf (pdusOf (parseTrace tr)) with
    | .ok states => showSummaries states
    | .error e => showErr e
  | ["tr", mode, pduLen, desired, members, tr] =>
    let r := transitionTo (parseMode mode) (nat! pduLen) (nat! desired) (parseNats members) (parseTrace tr)
    showRes (fun _ => "ok") r.1 ++ "|" ++ showSent r.2.2
  | ["reqop", members, tr] =>
    let r := requestIntoOp (parseNats members) (parseTrace tr)
    showRes (fun _ => "ok") r.1 ++ "|" ++ showSent r.2.2
  | ["md", num, desired, tr] => showRes (fun _ => "ok") (mdWaitForState (nat! num) (nat! desired) (parseTrace tr)).1
  | _ => "bad-case"

end Ec.Drv.C10
