/-
  Helper lemmas for C07: the loop. A pass that sends a frame and digests its answer (`Advance`), the invariant
  of the transmit side (`FrInv`), and the generic "last pass" lemma for the fuel-driven loop.
-/
import EcModel.Lemmas.TxRxSpec

namespace Ec.TxRx
open Ec

/-- `pushed_chunk` of a pass from `s`. -/
def pushedOf (c : Cfg) (s : St) : Option Nat := if remOf s = 0 then none else some (kOf c s)

/-- A pass from `s` sent a frame, got an answer and digested all of it, ending in `s'`. -/
def Advance (c : Cfg) (s s' : St) : Prop :=
  ∃ fr idx' r rs, FrameGood c s fr ∧ s.resps = r :: rs ∧
    (consume c (needDc c s) (pushedOf c s) (remOf s) { sentState s fr idx' (tOf c s) with resps := rs } r
        = .continue s' ∨
     consume c (needDc c s) (pushedOf c s) (remOf s) { sentState s fr idx' (tOf c s) with resps := rs } r
        = .done s')

theorem advance_of_continue {c : Cfg} {s s' : St} (h : CfgOk c s.image.length) (hs : s.sent ≤ s.image.length)
    (hstep : step c s = .continue s') : Advance c s s' := by
  rcases step_cases h hs with ⟨hd, _⟩ | ⟨fr, idx', hg, ⟨_, hf⟩ | ⟨r, rs, hr, hc⟩⟩
  · rw [hd] at hstep; cases hstep
  · rw [hf] at hstep; cases hstep
  · exact ⟨fr, idx', r, rs, hg, hr, Or.inl (by unfold pushedOf; rw [← hc]; exact hstep)⟩

theorem done_cases {c : Cfg} {s s' : St} (h : CfgOk c s.image.length) (hs : s.sent ≤ s.image.length)
    (hstep : step c s = .done s') :
    (s' = s ∧ remOf s = 0 ∧ (c.addrs.length ≤ s.checks ∨ s.subs = []) ∧ (c.dc.isSome = true → s.timeRead = true)) ∨
    (Advance c s s' ∧ remOf s = 0 ∧ c.addrs.length ≤ s'.checks) := by
  rcases step_cases h hs with ⟨hd, h1, h2, h3⟩ | ⟨fr, idx', hg, ⟨_, hf⟩ | ⟨r, rs, hr, hc⟩⟩
  · left; rw [hd] at hstep; cases hstep; exact ⟨rfl, h1, h2, h3⟩
  · rw [hf] at hstep; cases hstep
  · right
    rw [hc] at hstep
    have := (consume_cont (Or.inr hstep)).2.2.2.2.1 hstep
    exact ⟨⟨fr, idx', r, rs, hg, hr, Or.inr (by unfold pushedOf; exact hstep)⟩, this.1, this.2.1⟩

/-- What a digested pass does to the loop variables, whatever the answer contained. -/
theorem advance_facts {c : Cfg} {s s' : St} (hs : s.sent ≤ s.image.length) (ha : Advance c s s') :
    ∃ fr r, FrameGood c s fr ∧ s'.frames = s.frames ++ [fr] ∧ s.resps = r :: s'.resps ∧
      s'.subs = s.subs.drop (tOf c s) ∧ s'.checks = s.checks + tOf c s ∧
      s'.image.length = s.image.length ∧ s'.image.drop c.readLen = s.image.drop c.readLen ∧
      s'.sent = s.sent + (if remOf s = 0 then 0 else kOf c s) ∧
      s'.timeRead = (s.timeRead || needDc c s) ∧
      s'.image.drop s'.sent = s.image.drop s'.sent := by
  obtain ⟨fr, idx', r, rs, hg, hr, hres⟩ := ha
  have hk : ∀ k, pushedOf c s = some k →
      ({ sentState s fr idx' (tOf c s) with resps := rs } : St).sent + k
        ≤ ({ sentState s fr idx' (tOf c s) with resps := rs } : St).image.length := by
    intro k hk
    unfold pushedOf at hk; split at hk
    · cases hk
    · cases hk; simp only [sentState]; unfold kOf remOf; omega
  have ho := consume_other c (needDc c s) (pushedOf c s) (remOf s)
    { sentState s fr idx' (tOf c s) with resps := rs } r hk
  have hc := consume_cont hres
  have hst : (consume c (needDc c s) (pushedOf c s) (remOf s)
      { sentState s fr idx' (tOf c s) with resps := rs } r).st = s' := by
    rcases hres with h | h <;> rw [h] <;> rfl
  rw [hst] at ho
  have hsent : s'.sent = s.sent + (if remOf s = 0 then 0 else kOf c s) := by
    rw [hc.1]; simp only [sentState, pushedOf]; split <;> simp
  refine ⟨fr, r, hg, ho.1, ?_, ho.2.1, ho.2.2.1, ho.2.2.2.2.2.1, ?_, hsent, hc.2.1, ?_⟩
  · rw [hr, ho.2.2.2.2.1]
  · exact ho.2.2.2.2.2.2 c.readLen (fun k _ => Nat.min_le_right _ _)
  · refine ho.2.2.2.2.2.2 s'.sent ?_
    intro k hk
    unfold pushedOf at hk; split at hk
    · cases hk
    · rename_i hr0
      cases hk; rw [hsent, if_neg hr0]; simp only [sentState]; exact Nat.min_le_left _ _

/-! ### The fuel-driven loop: the last pass -/

theorem loop_final (c : Cfg) (P : St → Prop)
    (hcont : ∀ s s', P s → step c s = .continue s' → P s') :
    ∀ (fuel : Nat) (s : St), P s → ∃ sl, P sl ∧
      (loop c fuel s = (sl, .err .fuel) ∨
       (∃ s', step c sl = .done s' ∧ loop c fuel s = (s', .ok ())) ∨
       (∃ s' e, step c sl = .fail s' e ∧ loop c fuel s = (s', .err e)) ∨
       (∃ s' w, step c sl = .panic s' w ∧ loop c fuel s = (s', .panic w)))
  | 0, s, hp => ⟨s, hp, Or.inl rfl⟩
  | fuel + 1, s, hp => by
    cases hst : step c s with
    | «continue» s' =>
      obtain ⟨sl, hpl, hl⟩ := loop_final c P hcont fuel s' (hcont s s' hp hst)
      refine ⟨sl, hpl, ?_⟩
      simp only [loop, hst]; exact hl
    | done s' => exact ⟨s, hp, Or.inr (Or.inl ⟨s', hst, by simp [loop, hst]⟩)⟩
    | fail s' e => exact ⟨s, hp, Or.inr (Or.inr (Or.inl ⟨s', e, hst, by simp [loop, hst]⟩))⟩
    | panic s' w => exact ⟨s, hp, Or.inr (Or.inr (Or.inr ⟨s', w, hst, by simp [loop, hst]⟩))⟩

end Ec.TxRx
