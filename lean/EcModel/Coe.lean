/-
  EcModel.Coe — hand translation of ethercrab's CoE mailbox client (C15, C16).

  Translation map (Rust -> Lean), all in /repo/src:
    subdevice/mod.rs            SubDevice::mailbox_counter                 -> `nextCounter`, `mailboxCounter`
    pdu_loop/.../received_frame.rs  ReceivedPdu {deref, len, trim_front}   -> `Pdu`, `Pdu.bytes`, `Pdu.trimFront`
    mailbox/mod.rs              MailboxHeader (derive)                     -> `unpackMailboxHeader`, `packMailboxHeader`
    mailbox/coe/headers.rs      CoeHeader, SdoHeader, SdoHeaderSegmented, SdoInfoHeader, SubIndex
                                                                           -> `unpack…`, `SubIndex`
    mailbox/coe/services.rs     SdoExpedited::download, SdoNormal::upload, SdoSegmented::upload,
                                ObjectDescriptionListRequest::{get_object_description_list, get_object_quantities},
                                CoeServiceRequest::validate_response       -> `downloadRequest`, `uploadRequest`,
                                                                              `segmentRequest`, `listRequest`, `validateIdx`
    mailbox/coe/mod.rs          wait_for_mailboxes                         -> `hasMailbox` test + `List.drop DRAIN_ROUNDS`
                                wait_for_mailbox_response                  -> `readMailbox`
                                mailbox_write_read (HeadersRaw triage)     -> `triage`, `mailboxWriteRead`
                                send_sdo_info_service                      -> `infoStep`, `infoLoop`, `sendSdoInfoService`
                                sdo_write / sdo_write_array                -> `sdoWrite`, `writeEach`, `sdoWriteArray`
                                sdo_read (expedited/normal/segmented)      -> `sdoRead`, `segLoop`, `sdoReadT`
                                sdo_read_expedited                         -> `sdoReadExpedited`
                                sdo_read_array                             -> `sdoReadArray`, `readEach`
                                sdo_info_object_description_list / _quantities -> `sdoInfoList`, `sdoInfoQuantities`

  The SubDevice is an explicit environment (`World`): a deterministic function from the request that landed in
  its IN mailbox to the messages it queues for its OUT mailbox. C16 instantiates it with a script of arbitrary
  byte strings (`scriptWorld`), C15 with the specification server of `CoeServer.lean`.
  What is NOT modelled (out of scope of C15/C16, covered by C01/C06/C11): loss/timeout/working-counter errors of
  the individual register and mailbox datagrams, and a device whose IN mailbox stays full. A device that does not
  answer is modelled (empty OUT queue => `Err.timeout`).

  Every Rust operation that can panic is an explicit `.panic` branch:
    (P1 `assert_ne!(headers.coe_header.service, CoeService::Emergency)` was removed by fix-c16-emergency: the service is
        now looked at on the 8-byte mailbox + CoE header before the SDO header is decoded)
    (P2 `headers.header.length - 3` on u16 was repaired by fix-c16-segment-length: `checked_sub` -> Error::Internal)
    (P3 `headers.mailbox.length as usize - COE_HEADER_AND_LIST_TYPE_SIZE` and P4 `response[..length]` were repaired by
        fix-c16-sdo-info-length: `checked_sub` / `get(..length)` -> Error::Internal)
  No panic branch is left in the model: `coe_total` (Props/C16.lean) is unconditional.
  All other slice accesses in this code are `get(..).ok_or(..)` and are modelled as the error they return.
  Operations that could panic in principle but cannot be reached with a panicking argument, and are therefore not
  branches of the model: `fmt::unwrap!(fetch_update(..))` in mailbox_counter (the closure always returns `Some`);
  `debug_assert!(T::PACKED_LEN <= 4)` in sdo_read_expedited (`SdoExpeditedPayload` is implemented for u8/u16/u32 only);
  `values.push(value)` in sdo_read_array (guarded by `len > MAX_ENTRIES`); `chunk_len -= segment_data_size` (only when
  chunk_len == 7, segment_data_size is a 3-bit field); `total_len + chunk_len` (usize, see the assumption in props.py);
  `n + 1` in the counter update (only for n < 7). The correspondence (catch_unwind on every generated case in both
  build profiles) is what validates this list.
-/
import EcModel.Basic
import EcModel.Generated.Coe

namespace Ec.Coe
open Ec
open Ec.Gen.Coe

/-! ### Outcomes -/

/-- Canonical image of `ethercrab::error::Error` as far as this code can produce it. -/
inductive Err where
  /-- `Error::Wire(ReadBufferTooShort)` -/
  | wireShort
  /-- `Error::Wire(InvalidValue)` -/
  | wireInvalid
  /-- `Error::Timeout(MailboxResponse)`: the OUT mailbox stayed empty -/
  | timeout
  /-- `Error::Mailbox(NoReadMailbox | NoWriteMailbox)` -/
  | noMailbox
  | emergency (code reg : Nat)
  | aborted (code addr sub : Nat)
  | responseInvalid (addr sub : Nat)
  | tooLong (addr sub : Nat)
  /-- `Error::Internal` -/
  | internal
  /-- `Error::Pdu(PduError::Decode)` -/
  | decode
  /-- `Error::Capacity(Item::SdoSubIndex)` -/
  | capacity
  /-- Not a Rust outcome: the model's loop bound was reached, i.e. the Rust loop is still running. -/
  | outOfFuel
  deriving Repr, DecidableEq

abbrev Res (α : Type) := Outcome Err α

def Res.isPanic {α : Type} : Res α → Bool
  | .panic _ => true
  | _ => false

def Res.isOk {α : Type} : Res α → Bool
  | .ok _ => true
  | _ => false

/-- `?` / unwinding. -/
def Res.bind {α β : Type} (x : Res α) (f : α → Res β) : Res β :=
  match x with
  | .ok a => f a
  | .err e => .err e
  | .panic w => .panic w

def Res.map {α β : Type} (f : α → β) (x : Res α) : Res β := x.bind fun a => .ok (f a)

/-! ### Integer operations that depend on the build profile -/

/-! ### `ReceivedPdu`: a view into the frame buffer -/

/-- `ReceivedPdu`: `data_start` (as an offset into the slot's frame buffer) and `len`. -/
structure Pdu where
  frame : List Nat
  start : Nat
  len : Nat
  deriving Repr

/-- `Deref for ReceivedPdu`: `slice::from_raw_parts(data_start, len)`. -/
def Pdu.bytes (p : Pdu) : List Nat := (p.frame.drop p.start).take p.len

/-- `ReceivedPdu::trim_front` (current code: moves the start AND shortens the view). -/
def Pdu.trimFront (p : Pdu) (ct : Nat) : Pdu :=
  let c := min ct p.len
  { p with start := p.start + c, len := p.len - c }

/-! ### Bit fields and enum tables (values from Generated/Coe.lean) -/

/-- Bits `lo .. lo+n` of a byte. -/
def bitsOf (b lo n : Nat) : Nat := b / 2 ^ lo % 2 ^ n

/-- Does the derive-generated `unpack_from_slice` of an enum without catch-all accept this raw value? -/
def validDisc (tbl : List (String × Nat)) (v : Nat) : Bool := tbl.any fun e => e.2 == v

/-- Discriminant of a named variant. -/
def disc (tbl : List (String × Nat)) (name : String) : Nat :=
  match tbl.find? fun e => e.1 == name with
  | some e => e.2
  | none => 0

def mbxCoe : Nat := disc mailboxType "Coe"
def svcEmergency : Nat := disc coeService "Emergency"
def svcSdoRequest : Nat := disc coeService "SdoRequest"
def svcSdoResponse : Nat := disc coeService "SdoResponse"
def svcSdoInformation : Nat := disc coeService "SdoInformation"
def cmdDownload : Nat := disc coeCommand "Download"
def cmdUpload : Nat := disc coeCommand "Upload"
def cmdAbort : Nat := disc coeCommand "Abort"
def cmdUploadSegment : Nat := disc coeCommand "UploadSegment"
def opListRequest : Nat := disc sdoInfoOpCode "GetObjectDescriptionListRequest"
def opListResponse : Nat := disc sdoInfoOpCode "GetObjectDescriptionListResponse"

/-! ### Derive-generated decoders (`unpack_from_slice`) -/

/-- `MailboxHeader` (6 bytes): length u16, 2 bytes skipped, 6 bits skipped, priority 2 bits, type 4 bits,
    counter 3 bits, 1 bit skipped. -/
structure MbxHeader where
  length : Nat
  priority : Nat
  mailboxType : Nat
  counter : Nat
  deriving Repr, DecidableEq

def unpackMailboxHeader (b : List Nat) : Res MbxHeader :=
  if b.length < LEN_MailboxHeader then .err .wireShort
  else
    let prio := bitsOf (b.getD 4 0) 6 2
    let ty := bitsOf (b.getD 5 0) 0 4
    if !validDisc priority prio then .err .wireInvalid
    else if !validDisc mailboxType ty then .err .wireInvalid
    else .ok { length := rd16 b, priority := prio, mailboxType := ty, counter := bitsOf (b.getD 5 0) 4 3 }

/-- `CoeHeader` (2 bytes at offset 6): 12 bits skipped, service 4 bits. -/
def unpackService (b : List Nat) : Res Nat :=
  let s := bitsOf (b.getD 7 0) 4 4
  if validDisc coeService s then .ok s else .err .wireInvalid

/-- `CoeCommand` in bits 5..7 of byte 8. -/
def unpackCommand (b : List Nat) : Res Nat :=
  let c := bitsOf (b.getD 8 0) 5 3
  if validDisc coeCommand c then .ok c else .err .wireInvalid

/-- The function-local `CoeHeadersRaw` of mailbox_write_read (8 bytes): mailbox header and the CoE service. -/
def unpackCoeHeaders (b : List Nat) : Res (MbxHeader × Nat) :=
  if b.length < LEN_CoeHeadersRaw then .err .wireShort
  else
    (unpackMailboxHeader (b.take LEN_MailboxHeader)).bind fun h =>
    (unpackService b).bind fun svc => .ok (h, svc)

/-- The function-local `HeadersRaw` of mailbox_write_read (12 bytes). -/
structure HeadersRaw where
  header : MbxHeader
  service : Nat
  command : Nat
  address : Nat
  subIndex : Nat
  deriving Repr, DecidableEq

def unpackHeadersRaw (b : List Nat) : Res HeadersRaw :=
  if b.length < LEN_HeadersRaw then .err .wireShort
  else
    (unpackMailboxHeader (b.take LEN_MailboxHeader)).bind fun h =>
    (unpackService b).bind fun svc =>
    (unpackCommand b).bind fun cmd =>
    .ok { header := h, service := svc, command := cmd, address := rd16 (b.drop 9), subIndex := b.getD 11 0 }

/-- `SdoNormal` (12 bytes): mailbox header, CoE header, `SdoHeader`. -/
structure SdoNormal where
  header : MbxHeader
  service : Nat
  sizeIndicator : Bool
  expedited : Bool
  size : Nat
  completeAccess : Bool
  command : Nat
  index : Nat
  subIndex : Nat
  deriving Repr, DecidableEq

def unpackSdoNormal (b : List Nat) : Res SdoNormal :=
  if b.length < LEN_SdoNormal then .err .wireShort
  else
    (unpackMailboxHeader (b.take LEN_MailboxHeader)).bind fun h =>
    (unpackService b).bind fun svc =>
    (unpackCommand b).bind fun cmd =>
    let c := b.getD 8 0
    .ok { header := h, service := svc, sizeIndicator := bitsOf c 0 1 != 0, expedited := bitsOf c 1 1 != 0,
          size := bitsOf c 2 2, completeAccess := bitsOf c 4 1 != 0, command := cmd,
          index := rd16 (b.drop 9), subIndex := b.getD 11 0 }

/-- `SdoExpedited` (16 bytes): `SdoNormal` + `[u8; 4]`. Only its length matters to the caller. -/
def unpackSdoExpedited (b : List Nat) : Res SdoNormal :=
  if b.length < LEN_SdoExpedited then .err .wireShort else unpackSdoNormal b

/-- `SdoSegmented` (9 bytes): mailbox header, CoE header, `SdoHeaderSegmented`. -/
structure SdoSegmented where
  header : MbxHeader
  service : Nat
  isLast : Bool
  segDataSize : Nat
  toggle : Bool
  command : Nat
  deriving Repr, DecidableEq

def unpackSdoSegmented (b : List Nat) : Res SdoSegmented :=
  if b.length < LEN_SdoSegmented then .err .wireShort
  else
    (unpackMailboxHeader (b.take LEN_MailboxHeader)).bind fun h =>
    (unpackService b).bind fun svc =>
    (unpackCommand b).bind fun cmd =>
    let c := b.getD 8 0
    .ok { header := h, service := svc, isLast := bitsOf c 0 1 != 0, segDataSize := bitsOf c 1 3,
          toggle := bitsOf c 4 1 != 0, command := cmd }

/-- `ObjectDescriptionListResponse` (12 bytes): mailbox header, CoE header, `SdoInfoHeader`
    (op code 7 bits, incomplete 1 bit, 8 bits skipped, fragments_left u16). -/
structure ListResponse where
  mailbox : MbxHeader
  service : Nat
  opCode : Nat
  incomplete : Bool
  fragmentsLeft : Nat
  deriving Repr, DecidableEq

def unpackListResponse (b : List Nat) : Res ListResponse :=
  if b.length < LEN_ListResponse then .err .wireShort
  else
    (unpackMailboxHeader (b.take LEN_MailboxHeader)).bind fun h =>
    (unpackService b).bind fun svc =>
    let op := bitsOf (b.getD 8 0) 0 7
    if !validDisc sdoInfoOpCode op then .err .wireInvalid
    else .ok { mailbox := h, service := svc, opCode := op, incomplete := bitsOf (b.getD 8 0) 7 1 != 0,
               fragmentsLeft := rd16 (b.drop 10) }

/-- `u32::unpack_from_slice` / `CoeAbortCode::unpack_from_slice` (catch-all enum over u32). -/
def unpackU32 (b : List Nat) : Res Nat :=
  if b.length < 4 then .err .wireShort else .ok (rd32 b)

/-- The function-local `EmergencyData` (8 bytes): error code u16, error register u8, 5 data bytes. -/
def unpackEmergency (b : List Nat) : Res (Nat × Nat) :=
  if b.length < LEN_EmergencyData then .err .wireShort else .ok (rd16 b, b.getD 2 0)

/-! ### Requests (`pack`) -/

/-- `SubIndex`. -/
inductive SubIndex where
  | complete
  | index (n : Nat)
  deriving Repr, DecidableEq

def SubIndex.completeAccess : SubIndex → Bool
  | .complete => true
  | .index _ => false

def SubIndex.subIndex : SubIndex → Nat
  | .complete => COMPLETE_SUB_INDEX
  | .index n => n

/-- `MailboxHeader { length, priority: Lowest, mailbox_type: Coe, counter }.pack()`. -/
def packMailboxHeader (length ctr : Nat) : List Nat :=
  [length % 256, length / 256 % 256, 0, 0, 0, mbxCoe + 16 * (ctr % 8)]

/-- `SdoHeader` first byte. -/
def sdoByte (sizeInd expedited : Bool) (size : Nat) (complete : Bool) (cmd : Nat) : Nat :=
  (if sizeInd then 1 else 0) + (if expedited then 2 else 0) + 4 * (size % 4) + (if complete then 16 else 0) + 32 * (cmd % 8)

/-- `SdoNormal::upload(counter, index, access).pack()`. -/
def uploadRequest (ctr index : Nat) (access : SubIndex) : List Nat :=
  packMailboxHeader REQ_LEN_upload ctr ++ [0, 16 * svcSdoRequest] ++
  [sdoByte false false 0 access.completeAccess cmdUpload, index % 256, index / 256 % 256, access.subIndex % 256]

/-- `SdoSegmented::upload(counter, toggle).pack()`. -/
def segmentRequest (ctr : Nat) (toggle : Bool) : List Nat :=
  packMailboxHeader REQ_LEN_upload ctr ++ [0, 16 * svcSdoRequest] ++ [(if toggle then 16 else 0) + 32 * cmdUploadSegment]

/-- `SdoExpedited::download(counter, index, access, data, len).pack()`; `data` has 4 bytes. -/
def downloadRequest (ctr index : Nat) (access : SubIndex) (data : List Nat) (len : Nat) : List Nat :=
  packMailboxHeader REQ_LEN_download ctr ++ [0, 16 * svcSdoRequest] ++
  [sdoByte true true (DOWNLOAD_SIZE_BASE - len % 256) access.completeAccess cmdDownload, index % 256, index / 256 % 256,
   access.subIndex % 256] ++ data

/-- `ObjectDescriptionListRequest::{get_object_description_list, get_object_quantities}(counter, ..).pack()`. -/
def listRequest (ctr listType : Nat) : List Nat :=
  packMailboxHeader REQ_LEN_list ctr ++ [0, 16 * svcSdoInformation] ++ [opListRequest, 0, 0, 0] ++ [listType % 256, 0]

/-- `CoeServiceRequest::validate_response` of `SdoExpedited` / `SdoNormal`. -/
def validateIdx (index sub : Nat) (rIndex rSub : Nat) : Bool := rIndex == index && rSub == sub

/-! ### The environment -/

/-- A SubDevice's mailbox application: request (image of its IN mailbox) ↦ messages queued for its OUT mailbox. -/
structure World (σ : Type) where
  respond : σ → List Nat → σ × List (List Nat)

/-- The hostile device of C16: a script, one entry (a list of raw messages) per request. -/
def scriptWorld : World (List (List (List Nat))) where
  respond := fun sc _ =>
    match sc with
    | [] => ([], [])
    | e :: rest => (rest, e)

/-- Configuration of one SubDevice as the MainDevice sees it, and the build profile. -/
structure Cfg where
  mode : Mode
  /-- `config.mailbox.read.len` (SubDevice OUT) -/
  rmbx : Nat
  /-- `config.mailbox.write.len` (SubDevice IN) -/
  wmbx : Nat
  hasMailbox : Bool
  /-- What lies before / after the mailbox data in the frame buffer the `ReceivedPdu` points into. -/
  pre : List Nat
  post : List Nat

/-- The real tree's configuration for a mailbox of the given sizes. -/
def Cfg.real (mode : Mode) (rmbx wmbx : Nat) : Cfg :=
  { mode := mode, rmbx := rmbx, wmbx := wmbx, hasMailbox := true, pre := [], post := [] }

/-- MainDevice-side counter + device + queue of messages for the OUT mailbox (head = in the mailbox now). -/
structure St (σ : Type) where
  ctr : Nat
  dev : σ
  outq : List (List Nat)
  /-- images of the IN mailbox after each request, oldest first -/
  reqs : List (List Nat)
  /-- messages the MainDevice took out of the OUT mailbox (stale ones thrown away + responses) -/
  reads : Nat

/-- `fetch_update(|n| if n >= 7 { Some(1) } else { Some(n + 1) })`. -/
def nextCounter (c : Nat) : Nat := if c ≥ COUNTER_MAX then COUNTER_RESET else c + 1

/-- `SubDevice::mailbox_counter`: returns the PREVIOUS value (fetch_update's Ok), stores the next. -/
def mailboxCounter {σ : Type} (s : St σ) : Nat × St σ := (s.ctr, { s with ctr := nextCounter s.ctr })

/-- What a mailbox of `mbx` bytes holds after the device put message `m` into it (zero padded / cut). -/
def image (mbx : Nat) (m : List Nat) : List Nat := (m ++ zeros (mbx - m.length)).take mbx

/-- The `ReceivedPdu` returned by `receive_slice(read_mailbox.len)`. -/
def mkPdu (cfg : Cfg) (img : List Nat) : Pdu :=
  { frame := cfg.pre ++ img ++ cfg.post, start := cfg.pre.length, len := img.length }

/-- `wait_for_mailboxes`: up to DRAIN_ROUNDS stale messages are read from the OUT mailbox and thrown away
    (`for i in 0..10 { if sm_status.mailbox_full { read } else { break } }`). -/
def drainStale {σ : Type} (s : St σ) : St σ :=
  { s with outq := s.outq.drop DRAIN_ROUNDS, reads := s.reads + min DRAIN_ROUNDS s.outq.length }

/-- `.write(write_mailbox.address).with_len(write_mailbox.len).send(&request.pack())`. -/
def writeRequest {σ : Type} (w : World σ) (cfg : Cfg) (req : List Nat) (s : St σ) : St σ :=
  let img := image cfg.wmbx req
  let r := w.respond s.dev img
  { s with dev := r.1, outq := s.outq ++ r.2, reqs := s.reqs ++ [img] }

/-- `wait_for_mailbox_response`: poll the OUT mailbox status until full (or time out), read it. -/
def readMailbox {σ : Type} (cfg : Cfg) (s : St σ) : Option Pdu × St σ :=
  match s.outq with
  | [] => (none, s)
  | m :: q => (some (mkPdu cfg (image cfg.rmbx m)), { s with outq := q, reads := s.reads + 1 })

/-! ### mailbox_write_read -/

/-- The triage of a response in `mailbox_write_read` (everything after `wait_for_mailbox_response`). -/
def triage {ρ : Type} (_cfg : Cfg) (unpackR : List Nat → Res ρ) (validate : Nat → Nat → Bool) (p : Pdu) :
    Res (ρ × List Nat) :=
  (unpackCoeHeaders p.bytes).bind fun ch =>
    if ch.2 == svcEmergency then
      -- the emergency data follows the CoE header directly
      let p := p.trimFront LEN_CoeHeadersRaw
      (unpackEmergency p.bytes).bind fun d => .err (.emergency d.1 d.2)
    else
      (unpackHeadersRaw p.bytes).bind fun h =>
        if h.command == cmdAbort then
          let p := p.trimFront LEN_HeadersRaw
          (unpackU32 p.bytes).bind fun code => .err (.aborted code h.address h.subIndex)
        else if h.header.mailboxType != mbxCoe || !validate h.address h.subIndex then
          .err (.responseInvalid h.address h.subIndex)
        else
          (unpackR p.bytes).bind fun r => .ok (r, (p.trimFront LEN_HeadersRaw).bytes)

/-- `mailbox_write_read`. The returned byte list is `&response` after the trim (the callers only deref it). -/
def mailboxWriteRead {σ ρ : Type} (w : World σ) (cfg : Cfg) (req : List Nat) (unpackR : List Nat → Res ρ)
    (validate : Nat → Nat → Bool) (s : St σ) : Res (ρ × List Nat) × St σ :=
  if !cfg.hasMailbox then (.err .noMailbox, s)
  else
    let s := drainStale s
    let s := writeRequest w cfg req s
    match readMailbox cfg s with
    | (none, s) => (.err .timeout, s)
    | (some p, s) => (triage cfg unpackR validate p, s)

/-! ### sdo_read -/

/-- The segmented loop of `sdo_read` (`fuel` bounds the iterations; `outOfFuel` = still looping). -/
def segLoop {σ : Type} (w : World σ) (cfg : Cfg) :
    Nat → Bool → List Nat → Nat → St σ → Res (List Nat) × St σ
  | 0, _, _, _, s => (.err .outOfFuel, s)
  | fuel + 1, toggle, buf, total, s =>
    let cs := mailboxCounter s
    match mailboxWriteRead w cfg (segmentRequest cs.1 toggle) unpackSdoSegmented (fun _ _ => true) cs.2 with
    | (.err e, s) => (.err e, s)
    | (.panic why, s) => (.panic why, s)
    | (.ok (h, data), s) =>
      -- `usize::from(headers.header.length.checked_sub(3).ok_or(Error::Internal)?)` (fix-c16-segment-length)
      if h.header.length < SEGMENT_HEADER_LEN then (.err .internal, s)
      else
        let chunk0 := h.header.length - SEGMENT_HEADER_LEN
        let chunk := if chunk0 == SEGMENT_MIN_DATA then chunk0 - h.segDataSize else chunk0
        if chunk > data.length then (.err .internal, s)
        else if total + chunk > buf.length then (.err .internal, s)
        else
          let buf := setRange buf total (data.take chunk)
          let total := total + chunk
          if h.isLast then
            (if total ≤ buf.length then .ok (buf.take total) else .err .internal, s)
          -- `if chunk_len == 0 { return Err(Error::Internal) }` (fix-c16-endless-loops)
          else if chunk == 0 then (.err .internal, s)
          else segLoop w cfg fuel (!toggle) buf total s

/-- `sdo_read` up to (not including) `T::unpack_from_slice`: the bytes handed to the destination type's decoder.
    `bufLen` = `T::buffer().len()`. -/
def sdoRead {σ : Type} (w : World σ) (cfg : Cfg) (fuel bufLen index : Nat) (access : SubIndex) (s : St σ) :
    Res (List Nat) × St σ :=
  let cs := mailboxCounter s
  match mailboxWriteRead w cfg (uploadRequest cs.1 index access) unpackSdoNormal (validateIdx index access.subIndex) cs.2 with
  | (.err e, s) => (.err e, s)
  | (.panic why, s) => (.panic why, s)
  | (.ok (h, data), s) =>
    if h.expedited then
      let dataLen := EXPEDITED_MAX - h.size
      (if dataLen ≤ data.length then .ok (data.take dataLen) else .err .internal, s)
    else
      let dataLength := h.header.length - UPLOAD_HEADER_LEN
      match unpackU32 data with
      | .err e => (.err e, s)
      | .panic why => (.panic why, s)
      | .ok completeSize =>
        let data := data.drop 4
        if completeSize > bufLen % 4294967296 then (.err (.tooLong h.index h.subIndex), s)
        else if completeSize ≤ dataLength then
          (if dataLength ≤ data.length then .ok (data.take dataLength) else .err .internal, s)
        else segLoop w cfg fuel false (zeros bufLen) 0 s

/-- A destination type `T: EtherCrabWireReadSized`: `T::buffer().len()` and `T::unpack_from_slice`. -/
structure Dest (α : Type) where
  bufLen : Nat
  decode : List Nat → Option α

/-- `sdo_read::<T>`: any decode error becomes `Error::Pdu(PduError::Decode)`. -/
def sdoReadT {σ α : Type} (w : World σ) (cfg : Cfg) (fuel : Nat) (T : Dest α) (index : Nat) (access : SubIndex)
    (s : St σ) : Res α × St σ :=
  match sdoRead w cfg fuel T.bufLen index access s with
  | (.ok payload, s) =>
    (match T.decode payload with
     | some v => .ok v
     | none => .err .decode, s)
  | (.err e, s) => (.err e, s)
  | (.panic why, s) => (.panic why, s)

/-- `sdo_read_expedited::<T>` up to `T::unpack_from_slice` (whose error becomes `Error::Wire`, see the driver). -/
def sdoReadExpedited {σ : Type} (w : World σ) (cfg : Cfg) (index : Nat) (access : SubIndex) (s : St σ) :
    Res (List Nat) × St σ :=
  let cs := mailboxCounter s
  match mailboxWriteRead w cfg (uploadRequest cs.1 index access) unpackSdoNormal (validateIdx index access.subIndex) cs.2 with
  | (.err e, s) => (.err e, s)
  | (.panic why, s) => (.panic why, s)
  | (.ok (h, data), s) =>
    if h.expedited then
      let dataLen := EXPEDITED_MAX - h.size
      (if dataLen ≤ data.length then .ok (data.take dataLen) else .err .internal, s)
    else (.err .internal, s)

/-- `u8` as a destination. -/
def destU8 : Dest Nat := { bufLen := 1, decode := fun b => b.head? }

/-- The `for i in 1..=len` loop of `sdo_read_array` (`n` sub-indices left, next is `i`). -/
def readEach {σ α : Type} (w : World σ) (cfg : Cfg) (fuel : Nat) (T : Dest α) (index : Nat) :
    Nat → Nat → St σ → Res (List α) × St σ
  | 0, _, s => (.ok [], s)
  | n + 1, i, s =>
    match sdoReadT w cfg fuel T index (.index i) s with
    | (.err e, s) => (.err e, s)
    | (.panic why, s) => (.panic why, s)
    | (.ok v, s) =>
      match readEach w cfg fuel T index n (i + 1) s with
      | (.ok vs, s) => (.ok (v :: vs), s)
      | (.err e, s) => (.err e, s)
      | (.panic why, s) => (.panic why, s)

/-- `sdo_read_array::<T, MAX_ENTRIES>`. -/
def sdoReadArray {σ α : Type} (w : World σ) (cfg : Cfg) (fuel : Nat) (T : Dest α) (maxEntries index : Nat)
    (s : St σ) : Res (List α) × St σ :=
  match sdoReadT w cfg fuel destU8 index (.index 0) s with
  | (.err e, s) => (.err e, s)
  | (.panic why, s) => (.panic why, s)
  | (.ok len, s) =>
    if len > maxEntries then (.err .capacity, s)
    else readEach w cfg fuel T index len 1 s

/-! ### sdo_write -/

/-- `sdo_write(index, sub_index, value)`; `value` = the value's packed bytes (`pack_to_slice`). -/
def sdoWrite {σ : Type} (w : World σ) (cfg : Cfg) (index : Nat) (access : SubIndex) (value : List Nat) (s : St σ) :
    Res Unit × St σ :=
  -- the counter is taken before the length check
  let cs := mailboxCounter s
  if value.length > WRITE_MAX then (.err .internal, cs.2)
  else
    let buf := value ++ zeros (4 - value.length)
    match mailboxWriteRead w cfg (downloadRequest cs.1 index access buf value.length) unpackSdoExpedited
        (validateIdx index access.subIndex) cs.2 with
    | (.ok _, s) => (.ok (), s)
    | (.err e, s) => (.err e, s)
    | (.panic why, s) => (.panic why, s)

/-- The `for (i, value) in values.iter().enumerate()` loop of `sdo_write_array` (`i` = next sub-index, before `as u8`). -/
def writeEach {σ : Type} (w : World σ) (cfg : Cfg) (index : Nat) : Nat → List (List Nat) → St σ → Res Unit × St σ
  | _, [], s => (.ok (), s)
  | i, v :: vs, s =>
    match sdoWrite w cfg index (.index (i % 256)) v s with
    | (.ok _, s) => writeEach w cfg index (i + 1) vs s
    | (.err e, s) => (.err e, s)
    | (.panic why, s) => (.panic why, s)

/-- `sdo_write_array(index, values)`. -/
def sdoWriteArray {σ : Type} (w : World σ) (cfg : Cfg) (index : Nat) (values : List (List Nat)) (s : St σ) :
    Res Unit × St σ :=
  match sdoWrite w cfg index (.index 0) [0] s with
  | (.err e, s) => (.err e, s)
  | (.panic why, s) => (.panic why, s)
  | (.ok _, s) =>
    match writeEach w cfg index 1 values s with
    | (.err e, s) => (.err e, s)
    | (.panic why, s) => (.panic why, s)
    | (.ok _, s) => sdoWrite w cfg index (.index 0) [values.length % 256] s

/-! ### SDO information -/

/-- What one successful iteration of the `loop` in `send_sdo_info_service` does with a response: the fragment is
    appended; `incomplete` says whether more follow. -/
inductive InfoStep where
  | frag (buf : List Nat) (incomplete : Bool)
  deriving Repr, DecidableEq

/-- `response.trim_front(PACKED_LEN); if !consumed_list_type { response.trim_front(2) }`. -/
def infoTrim (p : Pdu) (consumed : Bool) : Pdu :=
  if !consumed then (p.trimFront LEN_ListResponse).trimFront 2 else p.trimFront LEN_ListResponse

def infoStep (_cfg : Cfg) (p : Pdu) (consumed : Bool) (buf : List Nat) : Res InfoStep :=
  (unpackListResponse p.bytes).bind fun h =>
    if h.opCode == opListResponse then
      -- `(headers.mailbox.length as usize).checked_sub(COE_HEADER_AND_LIST_TYPE_SIZE).ok_or(Error::Internal)?`
      if h.mailbox.length < COE_HEADER_AND_LIST_TYPE_SIZE then .err .internal
      -- `response.get(..length).ok_or(Error::Internal)?`  (fix-c16-sdo-info-length)
      else if h.mailbox.length - COE_HEADER_AND_LIST_TYPE_SIZE > (infoTrim p consumed).len then .err .internal
      -- heapless `extend_from_slice`: refuses (copies nothing) when it does not fit
      else if buf.length + ((infoTrim p consumed).bytes.take (h.mailbox.length - COE_HEADER_AND_LIST_TYPE_SIZE)).length >
          INFO_BUF_CAP then .err .internal
      -- `if length == 0 { return Err(Error::Internal) }` after `if !incomplete { break }` (fix-c16-endless-loops)
      else if h.incomplete && h.mailbox.length - COE_HEADER_AND_LIST_TYPE_SIZE == 0 then .err .internal
      else .ok (.frag (buf ++ (infoTrim p consumed).bytes.take (h.mailbox.length - COE_HEADER_AND_LIST_TYPE_SIZE))
        h.incomplete)
    -- anything but a Get-OD-List response ends the request (fix-c16-endless-loops)
    else .err (.responseInvalid 0 0)

/-- The `loop` of `send_sdo_info_service` over the messages queued in the OUT mailbox. Returns the result, the
    messages left in the queue and the number of messages read (= iterations, not counting the one that timed out). -/
def infoLoop (cfg : Cfg) : List (List Nat) → Bool → List Nat → Nat → Res (List Nat) × List (List Nat) × Nat
  | [], _, _, reads => (.err .timeout, [], reads)
  | m :: q, consumed, buf, reads =>
    match infoStep cfg (mkPdu cfg (image cfg.rmbx m)) consumed buf with
    | .err e => (.err e, q, reads + 1)
    | .panic why => (.panic why, q, reads + 1)
    | .ok (.frag buf' incomplete) =>
      if incomplete then infoLoop cfg q true buf' (reads + 1) else (.ok buf', q, reads + 1)

/-- `send_sdo_info_service(request)`: `Ok(None)` without mailboxes. -/
def sendSdoInfoService {σ : Type} (w : World σ) (cfg : Cfg) (req : List Nat) (s : St σ) :
    Res (Option (List Nat)) × St σ :=
  if !cfg.hasMailbox then (.ok none, s)
  else
    let s := drainStale s
    let s := writeRequest w cfg req s
    let r := infoLoop cfg s.outq false [] 0
    (r.1.map some, { s with outq := r.2.1, reads := s.reads + r.2.2 })

/-- `<heapless::Vec<u16, 0x1_0000>>::unpack_from_slice`: `chunks_exact(2).take(0x10000)`; cannot fail. -/
def unpackU16s : Nat → List Nat → List Nat
  | 0, _ => []
  | n + 1, a :: b :: rest => (a + 256 * b) :: unpackU16s n rest
  | _, _ => []

/-- `sdo_info_object_description_list(list_type)`. -/
def sdoInfoList {σ : Type} (w : World σ) (cfg : Cfg) (listType : Nat) (s : St σ) :
    Res (Option (List Nat)) × St σ :=
  let cs := mailboxCounter s
  match sendSdoInfoService w cfg (listRequest cs.1 listType) cs.2 with
  | (.ok none, s) => (.ok none, s)
  | (.ok (some payload), s) => (.ok (some (unpackU16s 65536 payload)), s)
  | (.err e, s) => (.err e, s)
  | (.panic why, s) => (.panic why, s)

/-- `sdo_info_object_quantities()`: `ObjectDescriptionListQueryCounts` is five u16. -/
def sdoInfoQuantities {σ : Type} (w : World σ) (cfg : Cfg) (s : St σ) : Res (Option (List Nat)) × St σ :=
  let cs := mailboxCounter s
  match sendSdoInfoService w cfg (listRequest cs.1 0) cs.2 with
  | (.ok none, s) => (.ok none, s)
  | (.ok (some payload), s) =>
    (if payload.length < 10 then .err .decode else .ok (some (unpackU16s 5 payload)), s)
  | (.err e, s) => (.err e, s)
  | (.panic why, s) => (.panic why, s)

/-- Initial client/device state. -/
def St.init {σ : Type} (ctr : Nat) (dev : σ) (stale : List (List Nat)) : St σ :=
  { ctr := ctr, dev := dev, outq := stale, reqs := [], reads := 0 }

end Ec.Coe
