/-
  C14 — writing a station alias changes the al and its checksum, nothing else; generic EEPROM writes are
  exact; the write retry loop is bounded. Property theorems only; helper lemmas live in EcModel/Lemmas.
-/
import EcModel.Lemmas.EepromWrite
import EcModel.Lemmas.EepromCrc

namespace Ec.C14
open Ec Ec.Eeprom Ec.EepromSpec

theorem startAt_small (m : Mode) (w n : Nat) (h : 2 * w + 2 * ((n + 1) / 2) ≤ 131072) :
    startAt m w n = ret ⟨2 * w, 2 * w + 2 * ((n + 1) / 2)⟩ := by
  unfold startAt Range.new ADDRESS_SPACE_BYTES
  congr 2 <;> omega

/-- **Station alias write.** For every build mode, every device memory, every chunk size (≥ 2; real
    providers serve 4 or 8), every previous write log and every alias value: `set_station_alias` succeeds,
    the only provider writes are word 4 := alias (little endian) and word 7 := (CRC-8 of the fourteen header
    bytes after patching the alias, 0); every other byte of the memory is unchanged; and the alias read back
    afterwards is the new one. -/
theorem alias_two_words (m : Mode) (d : Dev) (hcs : 2 ≤ d.cs) (al : Nat) (ha : al < 65536) :
    (setStationAlias m d al).1.1 = .ok () ∧
    (setStationAlias m d al).2.log
      = d.log ++ [(4, al % 256, al / 256),
                  (7, crc8 (setRange (slice d.rd 0 14) 8 (le16 al)), 0)] ∧
    (setStationAlias m d al).2.rd
      = storeAt (storeAt d.rd 8 (le16 al)) 14 [crc8 (setRange (slice d.rd 0 14) 8 (le16 al)), 0] ∧
    (setStationAlias m d al).2.cs = d.cs ∧
    (stationAlias m (setStationAlias m d al).2.prov).1 = .ok al := by
  have hre := readExact_ok m d.prov hcs ⟨0, 14⟩ 14 (by decide) (by decide)
  have hset : setStationAlias m d al =
      ((.ok (), (Range.readExact m d.prov ⟨0, 14⟩ 14).2 + 2),
        { d with rd := storeAt (storeAt d.rd 8 (le16 al)) 14 [crc8 (setRange (slice d.rd 0 14) 8 (le16 al)), 0],
                 log := d.log ++ [(4, al % 256, al / 256),
                                  (7, crc8 (setRange (slice d.rd 0 14) 8 (le16 al)), 0)] }) := by
    unfold setStationAlias
    simp only [Gen.Eeprom.STATION_ALIAS_START, Gen.Eeprom.CHECKSUM_START]
    rw [startAt_small m 0 14 (by decide), startAt_small m (8 / 2) 2 (by decide),
      startAt_small m (14 / 2) 2 (by decide)]
    simp only [bindW, liftW, ret, eofToOverrun, hre.1]
    rw [writeAll_fits m _ _ (le16 al) (by decide) (by decide) (by decide) (by rw [le16_length]; decide)]
    simp only []
    rw [writeAll_fits m _ _ (le16 _) (by decide) (by decide) (by decide) (by rw [le16_length]; decide)]
    simp only [Dev.prov]
    have hcrc := crc8_lt (setRange (slice d.rd 0 14) 8 (le16 al))
    generalize crc8 (setRange (slice d.rd 0 14) 8 (le16 al)) = C at hcrc ⊢
    have e1 : C % 256 = C := Nat.mod_eq_of_lt hcrc
    have e2 : C / 256 % 256 = 0 := by rw [Nat.div_eq_of_lt hcrc]
    have e3 : al / 256 % 256 = al / 256 := Nat.mod_eq_of_lt (by omega)
    simp [le16, wordsAt, padEven, e1, e2, e3]
  rw [hset]
  refine ⟨rfl, rfl, rfl, rfl, ?_⟩
  -- read back
  generalize crc8 (setRange (slice d.rd 0 14) 8 (le16 al)) = C
  unfold stationAlias
  simp only [Gen.Eeprom.STATION_ALIAS_START]
  rw [startAt_small m (8 / 2) 2 (by decide)]
  simp only [bind_ret]
  have hre2 := readExact_ok m
    (Dev.prov { d with rd := storeAt (storeAt d.rd 8 (le16 al)) 14 [C, 0],
                       log := d.log ++ [(4, al % 256, al / 256), (7, C, 0)] })
    hcs ⟨2 * (8 / 2), 2 * (8 / 2) + 2 * (2 / 2)⟩ 2 (by decide) (by decide)
  rw [bind_fst_ok _ (eofToOverrun_ok hre2.1).1]
  simp [Dev.prov, slice, storeAt, le16, rd16, List.range_succ]
  omega

/-- Every byte other than 8, 9 (alias) and 14, 15 (checksum word) keeps its value. -/
theorem alias_others_unchanged (m : Mode) (d : Dev) (hcs : 2 ≤ d.cs) (al : Nat) (ha : al < 65536)
    (a : Nat) (h : a ≠ 8 ∧ a ≠ 9 ∧ a ≠ 14 ∧ a ≠ 15) :
    (setStationAlias m d al).2.rd a = d.rd a := by
  rw [(alias_two_words m d hcs al ha).2.2.1]
  simp [storeAt, le16]
  rw [if_neg (by omega), if_neg (by omega)]

/-- The checksum word holds the CRC-8 of the first fourteen bytes *as they read after the change*, high byte 0,
    and bytes 8..9 hold the new alias. -/
theorem alias_checksum_valid (m : Mode) (d : Dev) (hcs : 2 ≤ d.cs) (al : Nat) (ha : al < 65536) :
    (setStationAlias m d al).2.rd 14 = crc8 (slice (setStationAlias m d al).2.rd 0 14) ∧
    (setStationAlias m d al).2.rd 15 = 0 ∧
    rd16 (slice (setStationAlias m d al).2.rd 8 2) = al := by
  rw [(alias_two_words m d hcs al ha).2.2.1]
  have hs : slice (storeAt (storeAt d.rd 8 (le16 al)) 14 [crc8 (setRange (slice d.rd 0 14) 8 (le16 al)), 0]) 0 14
      = setRange (slice d.rd 0 14) 8 (le16 al) := by
    simp [slice, storeAt, setRange, le16, List.range_succ]
  rw [hs]
  refine ⟨by simp [storeAt], by simp [storeAt], ?_⟩
  simp [slice, storeAt, le16, rd16, List.range_succ]
  omega

/-- **The checksum is the CRC-8 the property names.** `crc8` (the bitwise shift-register definition the
    model of `STATION_ALIAS_CRC.checksum` uses; generator and preset regenerated from `ECAT_CRC_ALGORITHM`) is
    the remainder of polynomial division over GF(2): with the message read as a polynomial (first byte most
    significant, MSB first), `msg · x^8 + 0xFF · x^(8n) = q ⊗ (x^8 + x^2 + x + 1) + crc8 msg` for some
    quotient `q`, and `crc8 msg` has degree < 8 — i.e. CRC-8, polynomial 0x07, register preset to 0xFF, no
    reflection, no final xor. -/
theorem crc8_spec (bytes : List Nat) (hb : AllBytes bytes) :
    crc8 bytes < 256 ∧
    ∃ q, msgPoly bytes * 256 ^^^ 255 * 256 ^ bytes.length = clmul q (2 ^ 8 + 7) ^^^ crc8 bytes := by
  exact ⟨crc8_lt bytes, crc8_division bytes hb⟩

/-- ... and that remainder is unique: any `r < 2^8` with `msg · x^8 + 0xFF · x^(8n) = q ⊗ G + r` for some `q`
    equals `crc8 msg`. So the checksum word is *the* CRC-8 (0x07 / 0xFF) of the header, not merely what the
    code happens to compute. -/
theorem crc8_unique (bytes : List Nat) (hb : AllBytes bytes) (q r : Nat) (hr : r < 256)
    (h : msgPoly bytes * 256 ^^^ 255 * 256 ^ bytes.length = clmul q (2 ^ 8 + 7) ^^^ r) :
    r = crc8 bytes := by
  obtain ⟨q', hq'⟩ := crc8_division bytes hb
  exact crc_remainder_unique _ q r q' (crc8 bytes) h hq' hr (crc8_lt bytes)

/-- **Generic write (`EepromRange::write`).** On a word-aligned window inside the address space (what
    `EepromRange::new` produces), with room left or nothing to write, in both build modes: the call stores
    `k = min ⌈len/2⌉ (window words left)` words taken from the buffer padded with one zero byte if its length is
    odd, at consecutive word addresses starting at the cursor; reports the `min len (2k)` buffer bytes it
    consumed (never more than it was given); advances the cursor by `2k`; never panics; and no other byte of
    the memory changes. -/
theorem write_exact (m : Mode) (d : Dev) (r : Range) (buf : List Nat)
    (hp : r.pos % 2 = 0) (he : r.endp % 2 = 0) (hle : r.pos ≤ r.endp) (hlt : r.endp ≤ 131072)
    (hroom : buf.length = 0 ∨ r.pos < r.endp) :
    let k := min ((buf.length + 1) / 2) ((r.endp - r.pos) / 2)
    let stored := (padEven buf).take (2 * k)
    (Range.write m d r buf).1.1 = .ok (min buf.length (2 * k), { r with pos := r.pos + 2 * k }) ∧
    (Range.write m d r buf).1.2 = k ∧
    (Range.write m d r buf).2.rd = storeAt d.rd r.pos stored ∧
    (Range.write m d r buf).2.log = d.log ++ wordsAt (r.pos / 2) stored ∧
    stored.length = 2 * k ∧ r.pos + 2 * k ≤ r.endp := by
  intro k stored
  rw [write_spec m d r buf hp he hle hlt hroom]
  refine ⟨rfl, rfl, rfl, rfl, ?_, ?_⟩
  · have hl := padEven_length buf
    simp only [stored, List.length_take, hl, k]; omega
  · simp only [k]; omega

/-- A non-empty buffer on an exhausted window is refused with `Err(SectionOverrun)`; nothing is written. -/
theorem write_exhausted (m : Mode) (d : Dev) (r : Range) (buf : List Nat) (hne : buf.length ≠ 0)
    (hfull : r.endp - r.pos = 0) : Range.write m d r buf = ((.err .overrun, 0), d) :=
  write_overrun m d r buf hne hfull

/-- Nothing is ever written past the permitted range: every byte outside `[pos, end)` keeps its value. -/
theorem write_never_past_end (m : Mode) (d : Dev) (r : Range) (buf : List Nat)
    (hp : r.pos % 2 = 0) (he : r.endp % 2 = 0) (hle : r.pos ≤ r.endp) (hlt : r.endp ≤ 131072)
    (a : Nat) (ha : a < r.pos ∨ r.endp ≤ a) :
    (Range.write m d r buf).2.rd a = d.rd a := by
  by_cases hroom : buf.length = 0 ∨ r.pos < r.endp
  · have h := write_exact m d r buf hp he hle hlt hroom
    simp only at h
    rw [h.2.2.1]
    unfold storeAt
    rw [if_neg]
    have := h.2.2.2.2
    omega
  · rw [write_exhausted m d r buf (by omega) (by omega)]

/-- **`write_all` (what `eeprom_write_dangerously` and `set_station_alias` call), payload fits** — any length,
    odd or even (was `write_all_exact_partial`, even lengths only): the payload, padded with one zero byte if
    its length is odd, is stored exactly, `Ok(())` is returned. -/
theorem write_all_exact (m : Mode) (d : Dev) (r : Range) (buf : List Nat)
    (hp : r.pos % 2 = 0) (he : r.endp % 2 = 0) (hlt : r.endp ≤ 131072)
    (hfit : r.pos + 2 * ((buf.length + 1) / 2) ≤ r.endp) :
    (Range.writeAll m d r buf).1.1 = .ok { r with pos := r.pos + 2 * ((buf.length + 1) / 2) } ∧
    (Range.writeAll m d r buf).2.rd = storeAt d.rd r.pos (padEven buf) ∧
    (Range.writeAll m d r buf).2.log = d.log ++ wordsAt (r.pos / 2) (padEven buf) := by
  rw [writeAll_fits m d r buf hp he hlt hfit]
  exact ⟨rfl, rfl, rfl⟩

/-- **`write_all`, payload longer than the window**: the bytes that fit are stored, nothing past the window
    is touched, and the call returns `Err(SectionOverrun)` — it never panics. -/
theorem write_all_overrun (m : Mode) (d : Dev) (r : Range) (buf : List Nat)
    (hp : r.pos % 2 = 0) (he : r.endp % 2 = 0) (hle : r.pos ≤ r.endp) (hlt : r.endp ≤ 131072)
    (hnofit : r.endp < r.pos + 2 * ((buf.length + 1) / 2)) :
    (Range.writeAll m d r buf).1.1 = .err .overrun ∧
    (Range.writeAll m d r buf).2.rd = storeAt d.rd r.pos ((padEven buf).take (r.endp - r.pos)) ∧
    (Range.writeAll m d r buf).2.log = d.log ++ wordsAt (r.pos / 2) ((padEven buf).take (r.endp - r.pos)) := by
  have h := writeAll_overrun m d r buf hp he hle hlt hnofit
  rw [h.2]
  exact ⟨h.1, rfl, rfl⟩

/-- A device whose memory is all zero, for the concrete witnesses below. -/
def dev0 : Dev := ⟨fun _ => 0, 4, []⟩

/-- FIXED (was `write_all_odd_counterexample`: the three bytes were stored, then `write_all` panicked slicing
    `&buf[2..]` of a one-byte rest because `write` reported 2 bytes for the padded last byte): `Ok`, same
    words written. -/
theorem write_all_odd_fixed :
    (Range.writeAll .checked dev0 ⟨8, 12⟩ [1, 2, 3]).1.1 = .ok ⟨12, 12⟩ ∧
    (Range.writeAll .wrapping dev0 ⟨8, 12⟩ [1, 2, 3]).1.1 = .ok ⟨12, 12⟩ ∧
    (Range.writeAll .checked dev0 ⟨8, 12⟩ [1, 2, 3]).2.log = [(4, 1, 2), (5, 3, 0)] := by
  decide

/-- FIXED (was `write_all_overrun_counterexample`: `write` returned `Ok(0)` on an exhausted window and
    `write_all` panicked "write() returned Ok(0)"; `start_at(word, 1)` — what `eeprom_write_dangerously::<u8>`
    builds — was an empty window): `start_at(4, 1)` is the one-word window and the byte is written; a payload
    longer than its window ends with `Err(SectionOverrun)`. -/
theorem write_all_overrun_fixed :
    (startAt .checked 4 1).1 = .ok ⟨8, 10⟩ ∧
    (Range.writeAll .checked dev0 ⟨8, 10⟩ [0xaa]).1.1 = .ok ⟨10, 10⟩ ∧
    (Range.writeAll .checked dev0 ⟨8, 10⟩ [0xaa]).2.log = [(4, 0xaa, 0)] ∧
    (Range.writeAll .checked dev0 ⟨8, 8⟩ [0xaa]).1.1 = .err .overrun ∧
    (Range.writeAll .wrapping dev0 ⟨8, 10⟩ [1, 2, 3, 4]).1.1 = .err .overrun ∧
    (Range.writeAll .wrapping dev0 ⟨8, 10⟩ [1, 2, 3, 4]).2.log = [(4, 1, 2)] := by
  decide

/-- **`EepromRange::new(start_word, len_words)`, every word address** (was `range_new_partial`): the window is
    the byte range of the words asked for, clipped to the end of the 2^16-word address space; it is word aligned
    and inside the address space — the hypotheses of `write_exact` — for EVERY `u16` start and length, in both
    build modes. -/
theorem range_new_exact (m : Mode) (w n : Nat) (hw : w < 65536) :
    Range.new m w n = ret ⟨2 * w, min (2 * w + 2 * n) 131072⟩ ∧
    (2 * w) % 2 = 0 ∧ (min (2 * w + 2 * n) 131072) % 2 = 0 ∧ 2 * w ≤ min (2 * w + 2 * n) 131072 ∧
    min (2 * w + 2 * n) 131072 ≤ 131072 := by
  refine ⟨?_, by omega, by omega, by omega, by omega⟩
  unfold Range.new ADDRESS_SPACE_BYTES
  congr 2 <;> omega

/-- FIXED (was `range_new_overflow_counterexample`: `start_word * 2` in `u16` panicked in checked builds and put
    the window at word 0 in wrapping builds): word 0x8000 is byte 0x10000 in both build modes, and the last
    word of the address space is a window of two bytes. -/
theorem range_new_overflow_fixed :
    (Range.new .checked 0x8000 1).1 = .ok ⟨65536, 65538⟩ ∧
    (Range.new .wrapping 0x8000 1).1 = .ok ⟨65536, 65538⟩ ∧
    (Range.new .checked 0xffff 1).1 = .ok ⟨131070, 131072⟩ ∧
    (Range.new .wrapping 0xffff 4).1 = .ok ⟨131070, 131072⟩ := by
  decide

/-- **Retry bound.** For every device script: `write_word` makes between 1 and 21 attempts; it stops at the
    first attempt `k ≤ 20` that is not answered with a command error, after exactly `k + 1` attempts; if the
    first 20 attempts are all refused it makes the 21st and stops whatever its answer (and reports `Ok`). -/
theorem write_retry_bound (errs : Nat → Bool) :
    1 ≤ writeWordProto errs ∧ writeWordProto errs ≤ Gen.Eeprom.WRITE_RETRY_LIMIT + 1 ∧
    (∀ k, k ≤ Gen.Eeprom.WRITE_RETRY_LIMIT → (∀ i, i < k → errs i = true) →
      (errs k = false ∨ k = Gen.Eeprom.WRITE_RETRY_LIMIT) → writeWordProto errs = k + 1) := by
  refine ⟨?_, ?_, ?_⟩
  · have h : ∀ fuel r a, 1 ≤ fuel → a + 1 ≤ writeWordAttempts errs fuel r a := by
      intro fuel
      induction fuel with
      | zero => intro r a h; omega
      | succ f ih =>
        intro r a _
        unfold writeWordAttempts
        split
        · cases f with
          | zero => simp [writeWordAttempts]
          | succ f => have := ih (r + 1) (a + 1) (by omega); omega
        · omega
    have := h (Gen.Eeprom.WRITE_RETRY_LIMIT + 1) 0 0 (by omega)
    unfold writeWordProto; omega
  · have := writeWordAttempts_bound errs (Gen.Eeprom.WRITE_RETRY_LIMIT + 1) 0 0 (by omega)
    unfold writeWordProto; omega
  · intro k hk herr hstop
    exact writeWordAttempts_stop errs _ 0 k (by omega) hk (by omega) (fun i _ hi => herr i hi) hstop

/-- T1 obligation: the positions and CRC parameters the statements above spell out as literals are the ones
    regenerated from /repo (`STATION_ALIAS_POSITION`, `CHECKSUM_POSITION`, `ECAT_CRC_ALGORITHM`, retry limit). -/
theorem t1_alias_constants :
    Gen.Eeprom.STATION_ALIAS_START = 8 ∧ Gen.Eeprom.STATION_ALIAS_END = 10 ∧ Gen.Eeprom.CHECKSUM_START = 14 ∧
    Gen.Eeprom.CHECKSUM_END = 16 ∧ Gen.Eeprom.CRC_WIDTH = 8 ∧ Gen.Eeprom.CRC_POLY = 7 ∧
    Gen.Eeprom.CRC_INIT = 255 ∧ Gen.Eeprom.CRC_XOROUT = 0 ∧ Gen.Eeprom.CRC_REFIN = false ∧
    Gen.Eeprom.CRC_REFOUT = false ∧ Gen.Eeprom.WRITE_RETRY_LIMIT = 20 := by
  decide

/-! ### non-vacuity: concrete instances -/

set_option maxRecDepth 100000 in
/-- The suite's own example (akd.hex header, alias 0xabcd ⇒ checksum 0x04). -/
example : crc8 [0x09, 0x00, 0x00, 0x08, 0, 0, 0, 0, 0xcd, 0xab, 0, 0, 0, 0] = 0x04 := by decide

set_option maxRecDepth 100000 in
/-- The check string "123456789" gives 0xFB (the `check: 0x80` field written in `ECAT_CRC_ALGORITHM` is not
    this algorithm's check value; the `crc` crate never uses that field for computing). -/
example : crc8 [0x31, 0x32, 0x33, 0x34, 0x35, 0x36, 0x37, 0x38, 0x39] = 0xfb := by decide

example : (setStationAlias .checked ⟨fun a => a % 7, 8, []⟩ 0xabcd).2.log.length = 2 := by decide

/-- Three refusals, then acceptance: four attempts. -/
example : writeWordProto (fun i => decide (i < 3)) = 4 := by decide
/-- A device that always refuses: 21 attempts. -/
example : writeWordProto (fun _ => true) = 21 := by decide

end Ec.C14
