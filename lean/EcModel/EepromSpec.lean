/-
  EcModel.EepromSpec — the specification side of the EEPROM properties: what memory should look like after a
  write, and how a device description is laid out in an SII image (ETG2010 / ETG1000.6 §5.4), written
  independently of the parser model in `EcModel.Eeprom`. Import-free apart from Basic/Generated.
-/
import EcModel.Basic
import EcModel.Generated.Eeprom

namespace Ec.EepromSpec
open Ec

/-- Memory after storing the bytes `bs` at byte address `a`; every other byte keeps its value. -/
def storeAt (rd : Nat → Nat) (a : Nat) (bs : List Nat) : Nat → Nat :=
  fun x => if a ≤ x ∧ x < a + bs.length then bs.getD (x - a) 0 else rd x

/-- A byte string padded with one zero byte when its length is odd. -/
def padEven (bs : List Nat) : List Nat := if bs.length % 2 = 1 then bs ++ [0] else bs

/-- The `(word address, low byte, high byte)` triples of an (even-length) byte string stored from word `w`. -/
def wordsAt (w : Nat) : List Nat → List (Nat × Nat × Nat)
  | b0 :: b1 :: rest => (w, b0, b1) :: wordsAt (w + 1) rest
  | _ => []

theorem padEven_length_even (bs : List Nat) : (padEven bs).length % 2 = 0 := by
  unfold padEven; split
  · simp; omega
  · omega

/-! ### CRC-8 as polynomial division over GF(2)

  A natural number stands for the polynomial whose coefficients are its binary digits; addition of polynomials
  is `^^^`, multiplication by `x^k` is multiplication by `2^k`. -/

/-- Carry-less product with explicit fuel (structural, so the kernel can evaluate it). -/
def clmulF : Nat → Nat → Nat → Nat
  | 0, _, _ => 0
  | f + 1, q, g => (if q % 2 = 1 then g else 0) ^^^ 2 * clmulF f (q / 2) g

/-- Product of the polynomials `q` and `g` over GF(2). -/
def clmul (q g : Nat) : Nat := clmulF q q g

/-- The generator `x^8 + x^2 + x + 1` (width and low coefficients come from `ECAT_CRC_ALGORITHM` in /repo). -/
def crcG : Nat := 2 ^ Gen.Eeprom.CRC_WIDTH + Gen.Eeprom.CRC_POLY

/-- The message as a polynomial: first byte most significant, each byte MSB first (no reflection). -/
def msgPoly (bytes : List Nat) : Nat := bytes.foldl (fun a b => a * 256 + b) 0

end Ec.EepromSpec
