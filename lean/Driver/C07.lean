import EcModel.Drv.C07
def main : IO Unit := Ec.Drv.runDriver Ec.Drv.C07.handle
