//! Self-check of the simulated segment + executor: the real `MainDevice::init` -> `into_op` ->
//! `tx_rx` must succeed on lines of 0..=16 devices of mixed kinds, and process data must land where
//! the FMMUs say. `simcheck [seed]` prints one line per network and exits non-zero on failure.
use ecverif::exec::{Net, run};
use ecverif::rng::Rng;
use ecverif::sim::{DcCaps, DeviceDesc, Segment};
use ethercrab::SubDeviceState;

fn descs(rng: &mut Rng, n: usize) -> Vec<DeviceDesc> {
    (0..n)
        .map(|i| {
            let d = match rng.below(4) {
                0 => DeviceDesc::coupler(&format!("EK{i}")),
                1 => DeviceDesc::digital_in(&format!("DI{i}"), *rng.pick(&[1u8, 2, 4, 8, 16])),
                2 => DeviceDesc::digital_out(&format!("DO{i}"), *rng.pick(&[1u8, 2, 4, 8, 16])),
                _ => DeviceDesc::coe_io(&format!("COE{i}"), rng.range(0, 6) as usize, rng.range(0, 6) as usize, *rng.pick(&[32u16, 64, 128, 256])),
            };
            let d = d.with_dc(*rng.pick(&[DcCaps::NONE, DcCaps::NONE, DcCaps::REF_ONLY, DcCaps::BITS32, DcCaps::BITS64]));
            let d = d.with_chunk(*rng.pick(&[4usize, 8]));
            d.with_alias(rng.next() as u16)
        })
        .collect()
}

fn one(rng: &mut Rng, n: usize) -> Result<String, String> {
    let ds = descs(rng, n);
    let mut seg = Segment::from_descs(&ds);
    for d in seg.devices.iter_mut() {
        // stale station addresses
        d.set_station_address(*rng.pick(&[0u16, 0x1000, 0x1001, 0x1234]));
        d.dc.local_offset_ns = rng.next() >> 8;
    }
    let (mut net, md) = Net::simple(seg);
    let res = run(&mut net, async {
        let group = md.init_single_group::<16, 256>(|| ecverif::clock::now() * 1000).await.map_err(|e| format!("init: {e:?}"))?;
        if group.len() != n {
            return Err(format!("group.len {} != {}", group.len(), n));
        }
        let group = group.into_op(md).await.map_err(|e| format!("into_op: {e:?}"))?;
        // write a pattern to all outputs
        for sd in group.iter(md) {
            let mut o = sd.outputs_raw_mut();
            for (k, b) in o.iter_mut().enumerate() {
                *b = (sd.configured_address() as u8).wrapping_add(k as u8) | 1;
            }
        }
        let r = group.tx_rx(md).await.map_err(|e| format!("tx_rx: {e:?}"))?;
        if !r.all_op() && n > 0 {
            return Err(format!("not all op: {:?}", r.subdevice_states));
        }
        let mut summary = format!("wkc={}", r.working_counter);
        let r2 = group.tx_rx(md).await.map_err(|e| format!("tx_rx2: {e:?}"))?;
        for (i, sd) in group.iter(md).enumerate() {
            summary.push_str(&format!(" {}:{}i{}o", i, sd.inputs_raw().len(), sd.outputs_raw().len()));
        }
        let _ = r2;
        Ok::<_, String>(summary)
    });
    let summary = match res {
        Ok(Ok(s)) => s,
        Ok(Err(e)) => return Err(e),
        Err(st) => return Err(format!("executor: {st:?} stats {:?}", net.stats)),
    };
    // device-side checks
    let mut expect_wkc = 0u16;
    for (i, d) in net.seg.devices.iter().enumerate() {
        if d.station_address() != 0x1000 + i as u16 {
            return Err(format!("device {i} station address {:#06x}", d.station_address()));
        }
        if d.al_state() != 8 {
            return Err(format!("device {i} AL state {}", d.al_state()));
        }
        let (ib, ob) = (ds[i].input_bytes(), ds[i].output_bytes());
        if ib > 0 {
            expect_wkc += 1;
        }
        if ob > 0 {
            expect_wkc += 2;
        }
        // outputs arrived in the output SM
        if ob > 0 {
            let sm = ds[i].sms.iter().find(|s| s.usage == 3).unwrap();
            let got = &d.mem[sm.start as usize..sm.start as usize + ob];
            let want: Vec<u8> = (0..ob).map(|k| ((0x1000 + i as u16) as u8).wrapping_add(k as u8) | 1).collect();
            // digital outputs narrower than a byte only carry their bits
            let bits: u32 = ds[i].rx_pdos.iter().map(|p| p.bits()).sum();
            let ok = if bits % 8 == 0 { got == &want[..] } else { got[0] & ((1u16 << bits) - 1) as u8 == want[0] & ((1u16 << bits) - 1) as u8 || ob > 1 };
            if !ok {
                return Err(format!("device {i} outputs {:02x?} want {:02x?}", got, want));
            }
        }
    }
    if !summary.starts_with(&format!("wkc={expect_wkc} ")) && !(n == 0 && summary.starts_with("wkc=0")) {
        return Err(format!("working counter: {summary}, expected {expect_wkc}"));
    }
    let frames = net.stats.frames_sent;
    unsafe { net.recycle() };
    Ok(format!("{summary} frames={frames}"))
}

/// Inputs, SDO transfers, EEPROM and register access, a fork with DC.
fn features() -> Result<String, String> {
    use ecverif::sim::{Esc, Link, UploadMode};
    let mut ds = vec![
        DeviceDesc::coupler("EK1100").with_dc(DcCaps::BITS64),
        DeviceDesc::coe_io("COE", 4, 2, 48).with_dc(DcCaps::BITS32).with_chunk(8),
        DeviceDesc::digital_in("EL1008", 8),
        DeviceDesc::digital_out("EL2004", 4).with_dc(DcCaps::BITS64),
    ];
    ds[1].od.insert((0x2000, 0), (0..40u8).collect());
    ds[1].od.insert((0x2001, 0), vec![1, 2, 3, 4, 5, 6]);
    ds[1].od.insert((0x2002, 0), vec![0xaa, 0xbb]);
    let escs: Vec<Esc> = ds.iter().map(|d| d.build()).collect();
    // EK1100 with two branches: device 1 + 2 on port 3 (E-bus), device 3 on port 1
    let links = vec![
        None,
        Some(Link { parent: 0, port: 3, delay_ns: 50 }),
        Some(Link { parent: 1, port: 1, delay_ns: 50 }),
        Some(Link { parent: 0, port: 1, delay_ns: 500 }),
    ];
    let mut seg = Segment::tree(escs, links);
    seg.devices[2].mem[0x1000] = 0xa5;
    seg.devices[1].mem[0x1c00..0x1c04].copy_from_slice(&[9, 8, 7, 6]);
    let (mut net, md) = Net::simple(seg);
    let res = run(&mut net, async {
        let group = md.init_single_group::<8, 64>(|| ecverif::clock::now() * 1000).await.map_err(|e| format!("init: {e:?}"))?;
        let mut out = String::new();
        {
            let sd = group.subdevice(md, 1).map_err(|e| format!("{e:?}"))?;
            // 40 bytes through a 48-byte mailbox: segmented upload. Informational: the standard's
            // upload-segment response has command specifier 0, which ethercrab cannot decode.
            let seg = sd.sdo_read::<[u8; 40]>(0x2000, 0).await;
            out.push_str(&format!("segmented={} ", match &seg { Ok(v) if v.to_vec() == (0..40u8).collect::<Vec<_>>() => "ok".to_string(), Ok(v) => format!("wrong{:?}", &v[..8]), Err(e) => format!("{e:?}") }));
            let v: [u8; 6] = sd.sdo_read(0x2001, 0).await.map_err(|e| format!("sdo normal: {e:?}"))?;
            if v != [1, 2, 3, 4, 5, 6] {
                return Err(format!("sdo 0x2001 {:?}", v));
            }
            let v: u16 = sd.sdo_read(0x2002, 0).await.map_err(|e| format!("sdo expedited: {e:?}"))?;
            if v != 0xbbaa {
                return Err(format!("sdo 0x2002 {v:#x}"));
            }
            sd.sdo_write(0x2002, 0, 0x1234u16).await.map_err(|e| format!("sdo write: {e:?}"))?;
            let e = sd.sdo_read::<u16>(0x3000, 0).await;
            out.push_str(&format!("abort={:?} ", e.is_err()));
            let ee: [u8; 4] = sd.eeprom_read(md, 8).await.map_err(|e| format!("eeprom: {e:?}"))?;
            if u32::from_le_bytes(ee) != 2 {
                return Err(format!("eeprom vendor {:?}", ee));
            }
            let st: u16 = sd.register_read(0x0130u16).await.map_err(|e| format!("reg: {e:?}"))?;
            out.push_str(&format!("al={st} name={} dc={:?} delay={} ", sd.name(), sd.dc_support(), sd.propagation_delay()));
        }
        for sd in group.iter(md) {
            out.push_str(&format!("[{:#06x} {} delay {}] ", sd.configured_address(), sd.name(), sd.propagation_delay()));
        }
        let group = group.into_op(md).await.map_err(|e| format!("into_op: {e:?}"))?;
        let r = group.tx_rx(md).await.map_err(|e| format!("tx_rx: {e:?}"))?;
        let i1 = group.subdevice(md, 1).unwrap().inputs_raw().to_vec();
        let i2 = group.subdevice(md, 2).unwrap().inputs_raw().to_vec();
        if i1 != [9, 8, 7, 6] || i2 != [0xa5] {
            return Err(format!("inputs {i1:?} {i2:?}"));
        }
        let t = group.tx_rx_sync_system_time(md).await.map_err(|e| format!("tx_rx_sync: {e:?}"))?;
        out.push_str(&format!("wkc={} time={:?}", r.working_counter, t.extra.is_some()));
        Ok::<_, String>(out)
    });
    let out = match res {
        Ok(Ok(s)) => s,
        Ok(Err(e)) => return Err(e),
        Err(st) => return Err(format!("executor: {st:?} stats {:?}", net.stats)),
    };
    let coe = net.seg.devices[1].coe.as_ref().unwrap();
    if coe.od[&(0x2002, 0)] != vec![0x34, 0x12] {
        return Err(format!("sdo write did not land: {:?}", coe.od[&(0x2002, 0)]));
    }
    let _ = UploadMode::Auto;
    Ok(out)
}

/// Nothing connected and nothing echoing: every PDU times out on the virtual clock.
fn no_echo() -> Result<String, String> {
    let mut seg = Segment::line(Vec::new());
    seg.echo_when_empty = false;
    let (mut net, md) = Net::simple(seg);
    let t0 = ecverif::clock::now();
    let r = run(&mut net, async { md.init_single_group::<4, 16>(|| 0).await.map(|g| g.len()) });
    match r {
        Ok(Err(ethercrab::error::Error::Timeout(_))) => Ok(format!("timeout after {} us", ecverif::clock::now() - t0)),
        other => Err(format!("{:?}", other.map(|x| x.map_err(|e| format!("{e:?}"))))),
    }
}

fn main() {
    match no_echo() {
        Ok(s) => println!("ok no-echo {s}"),
        Err(e) => {
            println!("FAIL no-echo {e}");
            std::process::exit(1);
        }
    }
    match features() {
        Ok(s) => println!("ok features {s}"),
        Err(e) => {
            println!("FAIL features {e}");
            std::process::exit(1);
        }
    }
    let seed: u64 = std::env::args().nth(1).and_then(|s| s.parse().ok()).unwrap_or(1);
    let mut rng = Rng::new(seed);
    let mut bad = 0;
    for round in 0..3 {
        for n in 0..=16usize {
            match one(&mut rng, n) {
                Ok(s) => println!("ok n={n} round={round} {s}"),
                Err(e) => {
                    bad += 1;
                    println!("FAIL n={n} round={round} {e}");
                }
            }
        }
    }
    let _ = SubDeviceState::Op;
    std::process::exit(if bad == 0 { 0 } else { 1 });
}
