/- Line protocol for C20 (see harness/src/bin/c20.rs):
   `c20 g<kind>.<seed> <nslots> <cursor0> <total0> <img0> <tasks> <sched> <resps>`
   (request fields `extra,grp,op,off,len,ioff`)
   -> `adm=<0|1> idx=<first index per issue> f=<SwapState failures per task> t0=<op:hex[w<wkc>]|…> … img=<hex/hex/hex>`
   The recorded schedule is run through `Ec.Tasks.step` (the function the C20 theorems are about); the
   segment is the table of recorded responses in the order the segment processed the frames, a task's
   program is the table of the requests it issued. -/
import EcModel.Tasks
import EcModel.Drv.Util

namespace Ec.Drv.C20
open Ec Ec.Drv Ec.Tasks

structure DReq where
  extra : Nat
  grp : Option Nat
  op : Nat
  off : Nat
  len : Nat
  /-- offset in the group's input image where the slice of this LRW chunk lands -/
  ioff : Nat

abbrev DResp := List Nat × Nat

def hexOrDash (l : List Nat) : String := if l.isEmpty then "-" else hexBytes l

def parseReq (s : String) : DReq :=
  match splitOn s "," with
  | [e, g, o, off, len, ioff] => ⟨nat! e, optNat g, nat! o, nat! off, nat! len, nat! ioff⟩
  | [e, g, o, off, len] => ⟨nat! e, optNat g, nat! o, nat! off, nat! len, 0⟩
  | _ => ⟨0, none, 0, 0, 0, 0⟩

def parseList (s : String) (sep : String) : List String := if s = "-" then [] else splitOn s sep

def parseResp (s : String) : DResp :=
  match splitOn s "." with
  | [d, w] => (hex! d, nat! w)
  | _ => ([], 0)

def parseAct (s : String) : Option Act :=
  match s.toList with
  | 'i' :: r => some (.issue (nat! (String.ofList r)))
  | 'a' :: r => some (.arrive (nat! (String.ofList r)))
  | 'd' :: r => some (.deliver (nat! (String.ofList r)))
  | 'c' :: r => some (.consume (nat! (String.ofList r)))
  | _ => none

def slice (rq : DReq) (rs : DResp) : List Nat := (rs.1.drop rq.off).take rq.len

def mkSys (reqs : List (List DReq)) (resps : List DResp) : Sys DReq DResp Nat :=
  { seg := fun k _ => (k + 1, resps.getD k ([], 0)),
    tasks := fun t h => (reqs.getD t [])[h.length]?,
    extra := fun rq => rq.extra,
    grp := fun rq => rq.grp,
    -- process_received_pdi_chunk: the chunk's input bytes overwrite their part of the image
    inputs := fun rq rs old => old.take rq.ioff ++ slice rq rs ++ old.drop (rq.ioff + (slice rq rs).length) }

/-- Per-operation results of one task: consecutive requests with the same operation number. -/
def opTok (op : Nat) (d : List Nat) (w : Option Nat) : String :=
  s!"{op}:{hexOrDash d}" ++ (match w with | some w => s!"w{w}" | none => "")

def opResults : List (DReq × DResp) → Option (Nat × List Nat × Option Nat) → List String → List String
  | [], none, acc => acc.reverse
  | [], some (op, d, w), acc => (opTok op d w :: acc).reverse
  | (rq, rs) :: rest, cur, acc =>
    let w := if rq.grp.isSome then some rs.2 else none
    match cur with
    | none => opResults rest (some (rq.op, slice rq rs, w)) acc
    | some (op, d, w0) =>
      if op = rq.op then opResults rest (some (op, d ++ slice rq rs,
        match w, w0 with
        | some a, some b => some (a + b)   -- tx_rx sums the working counters of the image chunks
        | some a, none => some a
        | none, x => x)) acc
      else opResults rest (some (rq.op, slice rq rs, w)) (opTok op d w0 :: acc)

def handle (args : List String) : String :=
  match args with
  | [_, nslots, cursor0, total0, img0, tasks, sched, resps] =>
    let reqs : List (List DReq) := (splitOn tasks "/").map fun t => (parseList t ";").map parseReq
    let rsp : List DResp := (parseList resps ";").map parseResp
    let imgs : List (List Nat) := (splitOn img0 "/").map fun h => if h = "-" then [] else hex! h
    let acts : List Act := (parseList sched ";").filterMap parseAct
    let S := mkSys reqs rsp
    let st0 : St DReq DResp Nat := St.init (nat! nslots) (nat! cursor0) (nat! total0) 0 (fun g => imgs.getD g [])
    let adm := admissibleB S st0 acts
    -- step by step, noting the wire index of every request that was actually issued
    let (st, idxs) := acts.foldl (fun (p : St DReq DResp Nat × List Nat) a =>
      let st' := step S p.1 a
      (st', if st'.total != p.1.total then (p.1.total % 256) :: p.2 else p.2)) (st0, [])
    let nt := reqs.length
    let perTask := (List.range nt).map fun t =>
      let rs := opResults ((reqs.getD t []).zip (st.got t)) none []
      s!"t{t}=" ++ (if rs.isEmpty then "-" else joinWith "|" rs)
    let fails := joinWith "," ((List.range nt).map fun t => toString (st.fails t))
    let img := joinWith "/" ((List.range 3).map fun g => hexOrDash (st.img g))
    let idxS := if idxs.isEmpty then "-" else joinWith "," (idxs.reverse.map toString)
    s!"adm={if adm then 1 else 0} idx={idxS} f={fails} " ++ joinWith " " perTask ++ s!" img={img}"
  | _ => "bad-case"

end Ec.Drv.C20
