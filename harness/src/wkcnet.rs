//! Shared parts of the C10/C11 harnesses: a recorder/rewriter installed on `exec::Net` (fate + tap
//! hooks) that logs every datagram of a call as the MainDevice gets it back, applies a script of
//! wire faults (alter a working counter, lose a frame, make a device drop out), and renders the
//! log as the event trace the Lean models consume (`r<wkc>.<hex>` | `x` | `d`).
use crate::exec::{Fate, Net};
use crate::sim::Segment;
use crate::util::hex;
use ethercrab::error::{EepromError, Error, TimeoutError};
use ethercrab::{AlStatusCode, EtherCrabWireRead};
use std::cell::RefCell;
use std::collections::HashMap;
use std::rc::Rc;

/// One datagram as delivered to the MainDevice.
#[derive(Clone, Debug)]
pub struct RecDg {
    pub cmd: u8,
    /// address fields as sent
    pub adp: u16,
    pub ado: u16,
    pub len: u16,
    /// payload as sent
    pub sent: Vec<u8>,
    /// payload as delivered
    pub data: Vec<u8>,
    /// working counter the simulated devices produced
    pub wkc_sim: u16,
    /// working counter delivered (after the scripted wire fault)
    pub wkc: u16,
    pub frame: usize,
}

#[derive(Clone, Debug)]
pub enum RecEv {
    Dg(RecDg),
    /// a whole frame was lost: (cmd, adp, ado) of its datagrams
    Lost(Vec<(u8, u16, u16)>),
}

#[derive(Clone, Debug, PartialEq, Eq)]
pub enum Act {
    /// deliver this working counter instead
    SetWkc(u16),
    /// add to the working counter (wrapping)
    AddWkc(u16),
    /// the frame carrying this datagram is lost (true: after the devices processed it)
    Lose(bool),
    /// after the frame carrying this datagram, device `dev` forgets its station address (power
    /// cycle): it no longer answers configured-address commands
    DropAfter(usize),
    /// replace the payload delivered for this datagram
    SetData(Vec<u8>),
}

#[derive(Default)]
pub struct Recorder {
    pub evs: Vec<RecEv>,
    /// ordinal of the next datagram
    pub n: usize,
    pub frames: usize,
    pub script: Vec<(usize, Act)>,
    skip_tap: bool,
}

/// (cmd, adp, ado, len, data offset) of every datagram of an EtherCAT frame.
pub fn datagrams(frame: &[u8]) -> Vec<(u8, u16, u16, usize, usize)> {
    let mut out = Vec::new();
    if frame.len() < 16 {
        return out;
    }
    let total = (u16::from_le_bytes([frame[14], frame[15]]) & 0x07ff) as usize;
    let end = (16 + total).min(frame.len());
    let mut pos = 16;
    while pos + 10 <= end {
        let lf = u16::from_le_bytes([frame[pos + 6], frame[pos + 7]]);
        let len = (lf & 0x07ff) as usize;
        if pos + 10 + len + 2 > end {
            break;
        }
        out.push((frame[pos], u16::from_le_bytes([frame[pos + 2], frame[pos + 3]]), u16::from_le_bytes([frame[pos + 4], frame[pos + 5]]), len, pos + 10));
        pos += 10 + len + 2;
        if lf & 0x8000 == 0 {
            break;
        }
    }
    out
}

/// Install recorder + script on the net (replaces `fate` and `tap`).
pub fn install(net: &mut Net, script: Vec<(usize, Act)>) -> Rc<RefCell<Recorder>> {
    let rec = Rc::new(RefCell::new(Recorder { script, ..Default::default() }));
    let r1 = rec.clone();
    net.fate = Some(Box::new(move |bytes: &[u8]| {
        let mut r = r1.borrow_mut();
        let dgs = datagrams(bytes);
        let lo = r.n;
        let hi = r.n + dgs.len();
        let lose = r.script.iter().find_map(|(k, a)| match a {
            Act::Lose(after) if *k >= lo && *k < hi => Some(*after),
            _ => None,
        });
        match lose {
            Some(after) => {
                r.evs.push(RecEv::Lost(dgs.iter().map(|d| (d.0, d.1, d.2)).collect()));
                r.frames += 1;
                if after {
                    // the tap still runs for this frame: it only advances the ordinal
                    r.skip_tap = true;
                    Fate::LoseResponse
                } else {
                    r.n = hi;
                    Fate::LoseRequest
                }
            }
            None => Fate::Deliver,
        }
    }));
    let r2 = rec.clone();
    net.tap = Some(Box::new(move |seg: &mut Segment, req: &[u8], resp: &mut Vec<u8>| {
        let mut r = r2.borrow_mut();
        let dq = datagrams(req);
        let lo = r.n;
        let frame = r.frames;
        if r.skip_tap {
            r.skip_tap = false;
            r.n += dq.len();
            // a drop-out scripted on a lost frame still happens
            let drops: Vec<usize> = r.script.iter().filter_map(|(k, a)| match a {
                Act::DropAfter(d) if *k >= lo && *k < lo + dq.len() => Some(*d),
                _ => None,
            }).collect();
            for d in drops {
                if d < seg.devices.len() {
                    seg.devices[d].set_station_address(0);
                }
            }
            return;
        }
        if resp.len() != req.len() {
            // nothing came back (no devices, no echo)
            r.evs.push(RecEv::Lost(dq.iter().map(|d| (d.0, d.1, d.2)).collect()));
            r.n += dq.len();
            r.frames += 1;
            return;
        }
        for (i, &(cmd, adp, ado, len, off)) in dq.iter().enumerate() {
            let ord = lo + i;
            let wkc_sim = u16::from_le_bytes([resp[off + len], resp[off + len + 1]]);
            let mut wkc = wkc_sim;
            let acts: Vec<Act> = r.script.iter().filter(|(k, _)| *k == ord).map(|(_, a)| a.clone()).collect();
            for a in &acts {
                match a {
                    Act::SetWkc(v) => wkc = *v,
                    Act::AddWkc(v) => wkc = wkc.wrapping_add(*v),
                    Act::SetData(d) => {
                        let n = d.len().min(len);
                        resp[off..off + n].copy_from_slice(&d[..n]);
                    }
                    _ => {}
                }
            }
            resp[off + len..off + len + 2].copy_from_slice(&wkc.to_le_bytes());
            r.evs.push(RecEv::Dg(RecDg {
                cmd,
                adp,
                ado,
                len: len as u16,
                sent: req[off..off + len].to_vec(),
                data: resp[off..off + len].to_vec(),
                wkc_sim,
                wkc,
                frame,
            }));
            for a in &acts {
                if let Act::DropAfter(d) = a {
                    if *d < seg.devices.len() {
                        seg.devices[*d].set_station_address(0);
                    }
                }
            }
        }
        r.n += dq.len();
        r.frames += 1;
    }));
    rec
}

pub fn uninstall(net: &mut Net) {
    net.fate = None;
    net.tap = None;
}

/// The event trace of a finished call. `deadline`: the call ended with a non-PDU timeout — the
/// timer of the enclosing wrapper fired; if the last thing on the wire was a lost frame, that loss
/// is what the deadline pre-empted.
pub fn trace(rec: &Recorder, deadline: bool) -> String {
    let mut evs: Vec<String> = rec
        .evs
        .iter()
        .map(|e| match e {
            RecEv::Dg(d) => format!("r{}.{}", d.wkc, hex(&d.data)),
            RecEv::Lost(_) => "x".to_string(),
        })
        .collect();
    if deadline {
        if evs.last().map(|s| s == "x").unwrap_or(false) {
            // sent, unanswered, pre-empted by the wrapper's deadline
            evs.pop();
            evs.push("xd".to_string());
        } else {
            evs.push("d".to_string());
        }
    }
    if evs.is_empty() { "-".to_string() } else { evs.join(",") }
}

/// `FPWR:1000:0120:08+..;..` — frames as the wire saw them (lost frames included), for the C10 tie.
pub fn sent_log(rec: &Recorder) -> String {
    let mut frames: Vec<Vec<String>> = Vec::new();
    let mut cur: Option<usize> = None;
    let name = |c: u8| crate::sim::cmd_name(c);
    for e in &rec.evs {
        match e {
            RecEv::Dg(d) => {
                let s = if d.cmd == crate::sim::CMD_FPWR || d.cmd == crate::sim::CMD_BWR || d.cmd == crate::sim::CMD_APWR {
                    format!("{}:{:04x}:{:04x}:{:02x}", name(d.cmd), d.adp, d.ado, d.sent.first().copied().unwrap_or(0))
                } else {
                    format!("{}:{:04x}:{:04x}", name(d.cmd), d.adp, d.ado)
                };
                if cur == Some(d.frame) {
                    frames.last_mut().unwrap().push(s);
                } else {
                    frames.push(vec![s]);
                    cur = Some(d.frame);
                }
            }
            RecEv::Lost(ds) => {
                frames.push(ds.iter().map(|(c, a, o)| if *c == crate::sim::CMD_FPWR { format!("{}:{:04x}:{:04x}:??", name(*c), a, o) } else { format!("{}:{:04x}:{:04x}", name(*c), a, o) }).collect());
                cur = None;
            }
        }
    }
    if frames.is_empty() { "-".to_string() } else { frames.iter().map(|f| f.join("+")).collect::<Vec<_>>().join(";") }
}

thread_local! {
    static CODES: HashMap<String, u16> = {
        let mut m = HashMap::new();
        for v in 0..=0xffffu16 {
            if let Ok(c) = AlStatusCode::unpack_from_slice(&v.to_le_bytes()) {
                if !matches!(c, AlStatusCode::Unknown(_)) {
                    m.insert(format!("{c:?}"), v);
                }
            }
        }
        m
    };
}

/// Numeric value of an AL status code (`Unknown(n)` -> n).
pub fn code_num(c: AlStatusCode) -> u16 {
    match c {
        AlStatusCode::Unknown(n) => n,
        other => CODES.with(|m| m.get(&format!("{other:?}")).copied().unwrap_or(0xffff)),
    }
}

pub fn timeout_kind(t: TimeoutError) -> &'static str {
    match t {
        TimeoutError::StateTransition => "statetransition",
        TimeoutError::Pdu => "pdu",
        TimeoutError::Eeprom => "eeprom",
        TimeoutError::MailboxEcho => "mailboxecho",
        TimeoutError::MailboxResponse => "mailboxresponse",
    }
}

/// Canonical error token (the Lean drivers print the same tokens).
pub fn err_token(e: &Error) -> String {
    match e {
        Error::WorkingCounter { expected, received } => format!("wkc:{expected}:{received}"),
        Error::Timeout(k) => format!("timeout:{}", timeout_kind(*k)),
        Error::Wire(_) => "wire".to_string(),
        Error::SubDevice(c) => format!("sub:{}", code_num(*c)),
        Error::StateTransition => "statetransition".to_string(),
        Error::Eeprom(EepromError::ClearErrors) => "eeprom:clearerrors".to_string(),
        other => format!("other:{}", format!("{other:?}").replace(' ', "")),
    }
}

/// Did the call end because a wrapper deadline fired (any timeout that is not the PDU timeout)?
pub fn is_deadline(e: &Error) -> bool {
    matches!(e, Error::Timeout(k) if *k != TimeoutError::Pdu)
}
