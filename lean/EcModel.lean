-- Root of the `EcModel` library: models, lemmas and property theorems.
import EcModel.Basic
import EcModel.Generated.Consts
import EcModel.Frame
import EcModel.Props.C09
import EcModel.Props.C19
import EcModel.Props.C08
import EcModel.Props.C20
import EcModel.Props.C17
import EcModel.Props.C18
import EcModel.Props.C07
import EcModel.Props.C12
import EcModel.Props.C13
import EcModel.Props.C14
import EcModel.Props.C13Config
import EcModel.TxWake
import EcModel.Props.C19Impls
