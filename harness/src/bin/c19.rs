//! C19 — derived wire encodings match their declared layout and round-trip.
//!
//! Generates random struct/enum definitions (`Ty`, mirror of the T grammar of `lean/EcModel/Drv/C19.lean`), writes
//! them into the stand-alone crate `gen-types` with the REAL derive macro applied, builds and runs that crate on
//! random values/buffers, and checks the answers with an independent bit-level reference (monitors). Invalid layouts
//! go to the macro's own `parse_struct`/`parse_enum` (included in gen-types as modules). In-crate derived types are
//! exercised through the hook `ethercrab::verif::wire`.
#[path = "../c19_common.rs"]
mod common;

use common::*;
use ecverif::rng::Rng;
use ecverif::util::Report;
use std::collections::{BTreeMap, BTreeSet, HashMap};
use std::fmt::Write as _;

const HARNESS_DIR: &str = env!("CARGO_MANIFEST_DIR");

// =====================================================================================================
// Layout analysis (independent of the macro: plain cursor walk as in the property statement)
// =====================================================================================================

fn is_num_prim(t: &Ty) -> bool {
    matches!(t, Ty::Prim(p) if !matches!(*p, "bool" | "u128" | "i128"))
}

fn repr_size(r: &str) -> Option<usize> {
    match r {
        "u8" | "i8" => Some(1),
        "u16" | "i16" => Some(2),
        "u32" | "i32" => Some(4),
        "u64" | "i64" => Some(8),
        _ => None,
    }
}

fn repr_signed(r: &str) -> bool {
    r.starts_with('i')
}

fn repr_range(r: &str) -> (i128, i128) {
    let n = repr_size(r).unwrap_or(1) as u32 * 8;
    if repr_signed(r) { (-(1i128 << (n - 1)), (1i128 << (n - 1)) - 1) } else { (0, (1i128 << n) - 1) }
}

/// Width in bits a field declares: bits, bytes*8, or the automatic width of u8…f64 (f32 = 8 bytes, as the macro has it).
fn field_width(a: &Attrs, t: &Ty) -> Option<u64> {
    if let Some(b) = a.bits {
        return Some(b);
    }
    if let Some(b) = a.bytes {
        return Some(b * 8);
    }
    match t {
        Ty::Prim("u8") | Ty::Prim("i8") => Some(8),
        Ty::Prim("u16") | Ty::Prim("i16") => Some(16),
        Ty::Prim("u32") | Ty::Prim("i32") => Some(32),
        Ty::Prim("u64") | Ty::Prim("i64") | Ty::Prim("f32") | Ty::Prim("f64") => Some(64),
        Ty::Prim("u128") | Ty::Prim("i128") => Some(128),
        _ => None,
    }
}

#[derive(Clone, Debug)]
struct FieldLay {
    start: u64,
    width: u64,
    skip: bool,
}

/// cursor += pre_skip; field at cursor; cursor += width; cursor += post_skip. Skipped fields take no space.
fn layout(st: &StructTy) -> (Vec<FieldLay>, u64) {
    let mut c = 0u64;
    let mut out = Vec::new();
    for (a, t) in &st.fields {
        if a.skip {
            out.push(FieldLay { start: c, width: 0, skip: true });
            continue;
        }
        c += a.pre_skip.or(a.pre_skip_bytes.map(|b| b * 8)).unwrap_or(0);
        let w = field_width(a, t).unwrap_or(0);
        out.push(FieldLay { start: c, width: w, skip: false });
        c += w;
        c += a.post_skip.or(a.post_skip_bytes.map(|b| b * 8)).unwrap_or(0);
    }
    (out, c)
}

fn struct_width(st: &StructTy) -> u64 {
    st.attrs.bits.or(st.attrs.bytes.map(|b| b * 8)).unwrap_or(0)
}

fn packed_len(t: &Ty) -> usize {
    match t {
        Ty::Prim(p) => prim_len(p),
        Ty::XN(n) => *n,
        Ty::Unit | Ty::X | Ty::Named(_) => 0,
        Ty::Arr(n, e) | Ty::HVec(n, e) => n * packed_len(e),
        Ty::HStr(n) => *n,
        Ty::Tup(ts) => ts.iter().map(packed_len).sum(),
        Ty::Enum(e) => repr_size(&e.repr).unwrap_or(0),
        Ty::Struct(s) => struct_width(s).div_ceil(8) as usize,
    }
}

/// A layout the macro accepts but whose field types do not fit their slots at run time (or that nests one).
fn misfit(t: &Ty) -> bool {
    match t {
        Ty::Arr(_, e) | Ty::HVec(_, e) => misfit(e),
        Ty::Tup(ts) => ts.iter().any(misfit),
        Ty::Struct(s) => {
            let (lay, _) = layout(s);
            s.fields.iter().zip(&lay).any(|((_, ft), l)| {
                if l.skip {
                    return false;
                }
                if misfit(ft) {
                    return true;
                }
                let tl = packed_len(ft);
                if l.width <= 8 {
                    !matches!(ft, Ty::Prim("u8") | Ty::Prim("bool")) && tl != 1
                } else {
                    tl > (l.width / 8) as usize
                }
            })
        }
        _ => false,
    }
}

/// Contains an array of zero-size elements (`chunks_exact(0)` panics by construction).
fn degenerate(t: &Ty) -> bool {
    match t {
        Ty::Arr(n, e) | Ty::HVec(n, e) => (*n > 0 || true) && (packed_len(e) == 0 || degenerate(e)),
        Ty::Tup(ts) => ts.iter().any(degenerate),
        Ty::Struct(s) => s.fields.iter().any(|(a, t)| !a.skip && degenerate(t)),
        _ => false,
    }
}

#[derive(Clone, Copy, PartialEq, Eq, Debug)]
enum Num {
    /// rustc: explicit, else previous + 1, first 0. Since the fix of parse_enum.rs this is also the macro's numbering
    /// (read side, and write side of catch-all enums).
    Rustc,
    /// the macro's read side BEFORE the fix (accumulator started at 0, implicit = accumulator + 1, alternatives advanced
    /// it). Kept only as a classifier: a deviation explained by it is a regression of the fixed defect and is reported
    /// under the stable key `c19/implicit-enum-discriminant`.
    Macro,
}

fn has_catch_all(e: &EnumTy) -> bool {
    e.variants.iter().any(|v| v.catch_all)
}

fn has_implicit(e: &EnumTy) -> bool {
    e.variants.iter().any(|v| v.disc.is_none() && !v.catch_all)
}

/// Discriminant of every declared variant (index = declaration order).
fn primary_discs(e: &EnumTy, num: Num) -> Vec<i128> {
    let mut out = Vec::new();
    if num == Num::Macro {
        let mut acc = 0i128;
        for v in &e.variants {
            let d = v.disc.unwrap_or(acc + 1);
            out.push(d);
            acc = *v.alts.last().unwrap_or(&d);
        }
    } else {
        let mut next = 0i128;
        for v in &e.variants {
            let d = v.disc.unwrap_or(next);
            out.push(d);
            next = d + 1;
        }
    }
    out
}

/// (variant index, raw value) in declaration order, alternatives after their variant; catch-all excluded.
fn read_arms(e: &EnumTy, num: Num) -> Vec<(usize, i128)> {
    let p = primary_discs(e, num);
    let mut out = Vec::new();
    for (i, v) in e.variants.iter().enumerate() {
        if v.catch_all {
            continue;
        }
        out.push((i, p[i]));
        for a in &v.alts {
            out.push((i, *a));
        }
    }
    out
}

// =====================================================================================================
// Independent bit-level reference packer / unpacker
// =====================================================================================================

fn bytes_to_bits(b: &[u8]) -> Vec<bool> {
    let mut v = Vec::with_capacity(b.len() * 8);
    for x in b {
        for k in 0..8 {
            v.push(x >> k & 1 == 1);
        }
    }
    v
}

fn bits_to_bytes(b: &[bool]) -> Vec<u8> {
    let mut v = vec![0u8; b.len().div_ceil(8)];
    for (k, bit) in b.iter().enumerate() {
        if *bit {
            v[k / 8] |= 1 << (k % 8);
        }
    }
    v
}

fn le_bytes(x: i128, n: usize) -> Vec<u8> {
    (0..n).map(|k| (x >> (8 * k)) as u8).collect()
}

fn le_val(b: &[u8], signed: bool) -> i128 {
    let mut x: i128 = 0;
    for (k, v) in b.iter().enumerate() {
        x |= (*v as i128) << (8 * k);
    }
    if signed && !b.is_empty() && b[b.len() - 1] & 0x80 != 0 {
        x -= 1i128 << (8 * b.len());
    }
    x
}

/// Reference encoding of a stand-alone value (None = the value is not of this type).
fn ref_pack(t: &Ty, v: &Val, num: Num) -> Option<Vec<u8>> {
    match (t, v) {
        (Ty::Prim("bool"), Val::Bool(b)) => Some(vec![if *b { 0xff } else { 0 }]),
        (Ty::Prim(p), Val::Int(i)) if is_num_prim(t) => Some(le_bytes(*i, prim_len(p))),
        (Ty::Unit, Val::Seq(vs)) if vs.is_empty() => Some(vec![]),
        (Ty::Arr(n, e), Val::Seq(vs)) if vs.len() == *n => {
            let mut o = Vec::new();
            for x in vs {
                o.extend(ref_pack(e, x, num)?);
            }
            Some(o)
        }
        (Ty::Tup(ts), Val::Seq(vs)) if vs.len() == ts.len() => {
            let mut o = Vec::new();
            for (t, x) in ts.iter().zip(vs) {
                o.extend(ref_pack(t, x, num)?);
            }
            Some(o)
        }
        (Ty::Enum(e), Val::Unit(i)) => {
            let d = *primary_discs(e, num).get(*i)?;
            if e.variants[*i].catch_all {
                return None;
            }
            Some(le_bytes(d, repr_size(&e.repr)?))
        }
        (Ty::Enum(e), Val::Catch(n)) if has_catch_all(e) => Some(le_bytes(*n, repr_size(&e.repr)?)),
        (Ty::Struct(s), Val::Seq(vs)) if vs.len() == s.fields.len() => {
            let (lay, _) = layout(s);
            let mut img = vec![false; packed_len(t) * 8];
            for (((_, ft), l), fv) in s.fields.iter().zip(&lay).zip(vs) {
                if l.skip {
                    continue;
                }
                let w = l.width as usize;
                let enc: Vec<bool> = match (ft, fv) {
                    (Ty::Prim("bool"), Val::Bool(b)) => {
                        let mut e = vec![false; w];
                        if w > 0 {
                            e[0] = *b;
                        }
                        e
                    }
                    (Ty::Prim("bool"), _) => return None,
                    _ => {
                        let mut e = bytes_to_bits(&ref_pack(ft, fv, num)?);
                        e.resize(w, false); // truncate to w bits / zero pad a narrower type
                        e
                    }
                };
                for (k, b) in enc.iter().enumerate() {
                    let p = l.start as usize + k;
                    if p < img.len() {
                        img[p] = *b;
                    }
                }
            }
            Some(bits_to_bytes(&img))
        }
        _ => None,
    }
}

/// Reference decoding: Ok(value) or Err(WireError token).
fn ref_unpack(t: &Ty, buf: &[u8], num: Num) -> Result<Val, &'static str> {
    let len = packed_len(t);
    if let Ty::Tup(ts) = t {
        // a tuple has no PACKED_LEN of its own: components are decoded one after the other from what is left,
        // the first failing component decides the error; a component that was content with fewer bytes than its packed
        // length (heapless::Vec / heapless::String) although bytes were there is refused: ReadBufferTooShort
        let mut vs = Vec::new();
        let mut p = 0;
        for t in ts {
            let rest = &buf[p.min(buf.len())..];
            vs.push(ref_unpack(t, rest, num)?);
            if !rest.is_empty() && packed_len(t) > rest.len() {
                return Err("ReadBufferTooShort");
            }
            p += packed_len(t);
        }
        return Ok(Val::Seq(vs));
    }
    if let Ty::HVec(n, e) = t {
        // the declared layout of a bounded vector: the complete elements present, at most N of them, back to back
        let el = packed_len(e);
        if el == 0 {
            return Err("zero-size-element");
        }
        let mut vs = Vec::new();
        for k in 0..(*n).min(buf.len() / el) {
            vs.push(ref_unpack(e, &buf[k * el..(k + 1) * el], num)?);
        }
        return Ok(Val::Seq(vs));
    }
    if let Ty::HStr(n) = t {
        // the whole buffer is the string: well-formed UTF-8 of at most N bytes
        if !ref_utf8_ok(buf) {
            return Err("InvalidUtf8");
        }
        if buf.len() > *n {
            return Err("ArrayLength");
        }
        return Ok(Val::Seq(buf.iter().map(|b| Val::Int(*b as i128)).collect()));
    }
    if buf.len() < len {
        return Err("ReadBufferTooShort");
    }
    let buf = &buf[..len];
    match t {
        Ty::Prim("bool") => Ok(Val::Bool(buf[0] != 0)),
        Ty::Prim(p) => Ok(Val::Int(le_val(buf, p.starts_with('i')))),
        Ty::Unit => Ok(Val::Seq(vec![])),
        Ty::Arr(n, e) => {
            let el = packed_len(e);
            let mut vs = Vec::new();
            for k in 0..*n {
                vs.push(ref_unpack(e, &buf[k * el..(k + 1) * el], num)?);
            }
            Ok(Val::Seq(vs))
        }
        Ty::Tup(_) | Ty::HVec(..) | Ty::HStr(_) => unreachable!(),
        Ty::Enum(e) => {
            let raw = le_val(buf, repr_signed(&e.repr));
            if let Some((i, _)) = read_arms(e, num).into_iter().find(|(_, d)| *d == raw) {
                return Ok(Val::Unit(i));
            }
            if has_catch_all(e) {
                return Ok(Val::Catch(raw));
            }
            if let Some(i) = e.variants.iter().position(|v| v.default) {
                return Ok(Val::Unit(i));
            }
            Err("InvalidValue")
        }
        Ty::Struct(s) => {
            let (lay, _) = layout(s);
            let bits = bytes_to_bits(buf);
            let mut vs = Vec::new();
            for ((_, ft), l) in s.fields.iter().zip(&lay) {
                if l.skip {
                    vs.push(Val::Dflt);
                    continue;
                }
                let (st, w) = (l.start as usize, l.width as usize);
                let fb: Vec<bool> = (st..st + w).map(|k| bits.get(k).copied().unwrap_or(false)).collect();
                let v = if w <= 8 {
                    match ft {
                        Ty::Prim("bool") => Val::Bool(fb.iter().any(|b| *b)),
                        _ => {
                            let mut one = fb.clone();
                            one.resize(8, false);
                            ref_unpack(ft, &bits_to_bytes(&one), num)?
                        }
                    }
                } else {
                    ref_unpack(ft, &bits_to_bytes(&fb), num)?
                };
                vs.push(v);
            }
            Ok(Val::Seq(vs))
        }
        Ty::X | Ty::XN(_) | Ty::Named(_) => Err("unknown-type"),
    }
}

/// Independent UTF-8 check (by decoding scalar values, not by the byte-range table the model uses): every sequence has a
/// lead byte 0xxxxxxx / 110xxxxx / 1110xxxx / 11110xxx followed by the right number of 10xxxxxx bytes, encodes its scalar
/// value in the shortest form, and the value is neither a surrogate nor above U+10FFFF.
fn ref_utf8_ok(b: &[u8]) -> bool {
    let mut i = 0;
    while i < b.len() {
        let b0 = b[i] as u32;
        let (n, init, min) = if b0 & 0x80 == 0 {
            (0, b0, 0)
        } else if b0 & 0xe0 == 0xc0 {
            (1, b0 & 0x1f, 0x80)
        } else if b0 & 0xf0 == 0xe0 {
            (2, b0 & 0x0f, 0x800)
        } else if b0 & 0xf8 == 0xf0 {
            (3, b0 & 0x07, 0x10000)
        } else {
            return false;
        };
        if i + n >= b.len() {
            return false; // cut off by the end of the buffer
        }
        let mut cp = init;
        for k in 1..=n {
            let c = b[i + k] as u32;
            if c & 0xc0 != 0x80 {
                return false;
            }
            cp = (cp << 6) | (c & 0x3f);
        }
        if cp < min || cp > 0x10ffff || (0xd800..=0xdfff).contains(&cp) {
            return false;
        }
        i += n + 1;
    }
    true
}

/// Does the value fit the declared widths (no set bit of a field's encoding beyond its width)?
fn fits(t: &Ty, v: &Val) -> bool {
    match (t, v) {
        (Ty::Arr(_, e) | Ty::HVec(_, e), Val::Seq(vs)) => vs.iter().all(|x| fits(e, x)),
        (Ty::Tup(ts), Val::Seq(vs)) => ts.iter().zip(vs).all(|(t, x)| fits(t, x)),
        (Ty::Struct(s), Val::Seq(vs)) => {
            let (lay, _) = layout(s);
            s.fields.iter().zip(&lay).zip(vs).all(|(((_, ft), l), fv)| {
                if l.skip {
                    return true;
                }
                if matches!(ft, Ty::Prim("bool")) {
                    return true;
                }
                if !fits(ft, fv) {
                    return false;
                }
                match ref_pack(ft, fv, Num::Rustc) {
                    Some(b) => bytes_to_bits(&b).iter().skip(l.width as usize).all(|x| !*x),
                    None => false,
                }
            })
        }
        _ => true,
    }
}

/// The value with every skipped field replaced by `d` (what an unpack can give back at best).
fn normalize(t: &Ty, v: &Val) -> Val {
    match (t, v) {
        (Ty::Arr(_, e) | Ty::HVec(_, e), Val::Seq(vs)) => Val::Seq(vs.iter().map(|x| normalize(e, x)).collect()),
        (Ty::Tup(ts), Val::Seq(vs)) => Val::Seq(ts.iter().zip(vs).map(|(t, x)| normalize(t, x)).collect()),
        (Ty::Struct(s), Val::Seq(vs)) => {
            Val::Seq(s.fields.iter().zip(vs).map(|((a, t), x)| if a.skip { Val::Dflt } else { normalize(t, x) }).collect())
        }
        _ => v.clone(),
    }
}

/// Does the type contain an enum without catch-all that has an implicit discriminant (the known read/write mismatch)?
fn contains_implicit_enum(t: &Ty) -> bool {
    match t {
        Ty::Enum(e) => !has_catch_all(e) && has_implicit(e),
        Ty::Arr(_, e) | Ty::HVec(_, e) => contains_implicit_enum(e),
        Ty::Tup(ts) => ts.iter().any(contains_implicit_enum),
        Ty::Struct(s) => s.fields.iter().any(|(a, t)| !a.skip && contains_implicit_enum(t)),
        _ => false,
    }
}

// =====================================================================================================
// What rustc + the macro accept (generator side), capabilities of a type
// =====================================================================================================

/// Will `#[derive(EtherCrabWire…)]` on this enum compile? (rustc's discriminant rules + the macro's literals in range)
fn enum_compiles(e: &EnumTy) -> bool {
    if repr_size(&e.repr).is_none() || e.variants.is_empty() {
        return false;
    }
    if e.variants.iter().filter(|v| v.catch_all).count() > 1 || e.variants.iter().filter(|v| v.default).count() > 1 {
        return false;
    }
    if e.variants.iter().any(|v| v.catch_all && (!v.alts.is_empty() || v.default)) {
        return false;
    }
    // `alternatives = [-1]` is refused by the macro ("Alternatives must be numbers")
    if e.variants.iter().any(|v| v.alts.iter().any(|a| *a < 0)) {
        return false;
    }
    let (lo, hi) = repr_range(&e.repr);
    // rustc numbering: in range, distinct
    let mut seen = BTreeSet::new();
    let mut next = 0i128;
    for v in &e.variants {
        let d = v.disc.unwrap_or(next);
        if d < lo || d > hi || !seen.insert(d) {
            return false;
        }
        next = d + 1;
    }
    // literals the macro pastes into match arms
    read_arms(e, Num::Rustc).iter().all(|(_, d)| *d >= lo && *d <= hi)
}

/// The write half of the struct derive computes `2u16.pow(width)` for u8/bool and single-byte fields.
fn derive_write_ok(s: &StructTy) -> bool {
    let (lay, _) = layout(s);
    s.fields.iter().zip(&lay).all(|((_, t), l)| l.skip || !matches!(t, Ty::Prim("u8") | Ty::Prim("bool")) || l.width < 16)
}

fn sized(t: &Ty) -> bool {
    match t {
        Ty::Prim(p) => !matches!(*p, "u128" | "i128"),
        Ty::Unit | Ty::Enum(_) | Ty::Struct(_) => true,
        Ty::Arr(_, e) => is_num_prim(e),
        // `impl EtherCrabWireSized for heapless::Vec<T, N> where T: Into<u8>`
        Ty::HVec(_, e) => matches!(**e, Ty::Prim("u8") | Ty::Prim("bool")),
        Ty::HStr(_) => true,
        _ => false,
    }
}

fn can_read(t: &Ty) -> bool {
    match t {
        Ty::Prim(p) => !matches!(*p, "u128" | "i128"),
        Ty::Unit => true,
        Ty::Enum(e) => enum_compiles(e),
        Ty::Arr(_, e) | Ty::HVec(_, e) => can_read(e) && sized(e),
        Ty::HStr(_) => true,
        Ty::Tup(ts) => !ts.is_empty() && ts.len() <= 16 && ts.iter().all(|t| can_read(t) && sized(t)),
        // the generated structs derive `Copy`: no heapless fields
        Ty::Struct(s) => !t.contains_heapless() && s.fields.iter().all(|(a, t)| a.skip || can_read(t)),
        _ => false,
    }
}

fn can_write(t: &Ty) -> bool {
    match t {
        Ty::Prim(p) => !matches!(*p, "u128" | "i128"),
        Ty::Unit => true,
        Ty::Enum(e) => enum_compiles(e),
        Ty::Arr(_, e) => matches!(**e, Ty::Prim("u8")),
        Ty::Tup(ts) => !ts.is_empty() && ts.len() <= 16 && ts.iter().all(can_write),
        Ty::Struct(s) => !t.contains_heapless() && derive_write_ok(s) && s.fields.iter().all(|(a, t)| a.skip || can_write(t)),
        _ => false,
    }
}

/// Has `EtherCrabWireWriteSized::pack`.
fn can_pack(t: &Ty) -> bool {
    can_write(t) && matches!(t, Ty::Prim(_) | Ty::Unit | Ty::Enum(_) | Ty::Struct(_))
}

fn fnv(s: &str) -> u64 {
    let mut h = 0xcbf29ce484222325u64;
    for b in s.bytes() {
        h = (h ^ b as u64).wrapping_mul(0x100000001b3);
    }
    h
}

#[derive(Clone, Copy, PartialEq, Eq, Hash, Debug)]
enum Flavour {
    /// ReadWrite derive (Read-only derive if the type cannot be written)
    Base,
    /// ReadWrite derive on a `#[repr(C, packed)]` struct
    Packed,
    /// two items of the same layout: one Write-only derive, one Read-only derive
    Split,
}

/// Derive flavour of a stand-alone subject: a fixed function of its T-expression, so that a replay regenerates the same crate.
fn flavour_of(t: &Ty) -> Flavour {
    if !(can_read(t) && can_write(t)) {
        return Flavour::Base;
    }
    let h = fnv(&t.show()) >> 7;
    match t {
        Ty::Struct(_) => match h % 8 {
            0 => Flavour::Packed,
            1 => Flavour::Split,
            _ => Flavour::Base,
        },
        Ty::Enum(_) => {
            if h % 6 == 0 {
                Flavour::Split
            } else {
                Flavour::Base
            }
        }
        _ => Flavour::Base,
    }
}

// =====================================================================================================
// Code generation for gen-types/src/generated.rs
// =====================================================================================================

#[derive(Default)]
struct Registry {
    /// (canonical T-expr, suffix) -> item name
    names: HashMap<(String, &'static str), String>,
    counter: usize,
    base_no: HashMap<String, usize>,
    code: String,
    /// one dispatch arm per subject
    arms: Vec<String>,
    subject_idx: HashMap<String, usize>,
}

impl Registry {
    fn type_expr(&mut self, t: &Ty) -> String {
        match t {
            Ty::Prim(p) => p.to_string(),
            Ty::Unit => "()".into(),
            Ty::Arr(n, e) => format!("[{}; {n}]", self.type_expr(e)),
            Ty::HVec(n, e) => format!("heapless::Vec<{}, {n}>", self.type_expr(e)),
            Ty::HStr(n) => format!("heapless::String<{n}>"),
            Ty::Tup(ts) => format!("({})", ts.iter().map(|t| self.type_expr(t) + ",").collect::<Vec<_>>().join(" ")),
            Ty::Enum(_) | Ty::Struct(_) => self.item(t, ""),
            Ty::X | Ty::XN(_) | Ty::Named(_) => "Unknown".into(),
        }
    }

    /// Ensure the item for `t` with the given suffix exists ("" = base, "P" = packed, "W"/"R" = write-only/read-only).
    fn item(&mut self, t: &Ty, suffix: &'static str) -> String {
        let key = t.show();
        if let Some(n) = self.names.get(&(key.clone(), suffix)) {
            return n.clone();
        }
        let no = *self.base_no.entry(key.clone()).or_insert_with(|| {
            self.counter += 1;
            self.counter - 1
        });
        let name = format!("G{no}{suffix}");
        self.names.insert((key.clone(), suffix), name.clone());
        // nested types first
        let field_types: Vec<String> = match t {
            Ty::Struct(s) => s.fields.iter().map(|(_, ft)| self.type_expr(ft)).collect(),
            _ => vec![],
        };
        let (r, w) = (can_read(t), can_write(t));
        let wire = match suffix {
            "W" => "EtherCrabWireWrite",
            "R" => "EtherCrabWireRead",
            _ if r && w => "EtherCrabWireReadWrite",
            _ if w => "EtherCrabWireWrite",
            _ => "EtherCrabWireRead",
        };
        let dflt = matches!(t, Ty::Enum(e) if e.variants.iter().any(|v| v.default));
        let prefix = format!(
            "// {key}\n#[derive(Debug, Clone, Copy, PartialEq, {}ethercrab_wire::{wire})]\n",
            if dflt { "Default, " } else { "" }
        );
        let mut k = 0usize;
        let ftn = |_: &Ty| {
            k += 1;
            field_types[k - 1].clone()
        };
        let ftn = std::cell::RefCell::new(ftn);
        let tn = |t: &Ty| (ftn.borrow_mut())(t);
        let text = emit_item(t, &Emit { name: &name, prefix: &prefix, packed: suffix == "P", type_name: &tn }).expect("item");
        self.code.push_str(&text);
        // glue
        match t {
            Ty::Struct(s) => {
                let n = s.fields.len();
                let _ = writeln!(self.code, "impl Glue for {name} {{");
                let _ = writeln!(self.code, "    fn from_val(v: &Val) -> Option<Self> {{");
                let _ = writeln!(self.code, "        let Val::Seq(vs) = v else {{ return None }};");
                let _ = writeln!(self.code, "        if vs.len() != {n} {{ return None; }}");
                let _ = writeln!(self.code, "        Some(Self {{");
                for (i, (a, _)) in s.fields.iter().enumerate() {
                    if a.skip {
                        let _ = writeln!(self.code, "            f{i}: ops::skip_from(&vs[{i}])?,");
                    } else {
                        let _ = writeln!(self.code, "            f{i}: Glue::from_val(&vs[{i}])?,");
                    }
                }
                let _ = writeln!(self.code, "        }})\n    }}");
                let _ = writeln!(self.code, "    fn to_val(&self) -> Val {{\n        Val::Seq(vec![");
                for (i, (a, _)) in s.fields.iter().enumerate() {
                    if a.skip {
                        let _ = writeln!(self.code, "            {{ let x = self.f{i}; ops::skip_to(&x) }},");
                    } else {
                        let _ = writeln!(self.code, "            {{ let x = self.f{i}; x.to_val() }},");
                    }
                }
                let _ = writeln!(self.code, "        ])\n    }}\n}}");
            }
            Ty::Enum(e) => {
                let _ = writeln!(self.code, "impl Glue for {name} {{");
                let _ = writeln!(self.code, "    fn from_val(v: &Val) -> Option<Self> {{\n        match v {{");
                for (i, v) in e.variants.iter().enumerate() {
                    if v.catch_all {
                        let _ = writeln!(self.code, "            Val::Catch(n) => Some(Self::V{i}((*n).try_into().ok()?)),");
                    } else {
                        let _ = writeln!(self.code, "            Val::Unit({i}) => Some(Self::V{i}),");
                    }
                }
                let _ = writeln!(self.code, "            _ => None,\n        }}\n    }}");
                let _ = writeln!(self.code, "    fn to_val(&self) -> Val {{\n        match self {{");
                for (i, v) in e.variants.iter().enumerate() {
                    if v.catch_all {
                        let _ = writeln!(self.code, "            Self::V{i}(x) => Val::Catch(*x as i128),");
                    } else {
                        let _ = writeln!(self.code, "            Self::V{i} => Val::Unit({i}),");
                    }
                }
                let _ = writeln!(self.code, "        }}\n    }}\n}}");
            }
            _ => {}
        }
        self.code.push('\n');
        name
    }

    /// Register a stand-alone subject; returns its dispatch index.
    fn subject(&mut self, t: &Ty) -> usize {
        let key = t.show();
        if let Some(i) = self.subject_idx.get(&key) {
            return *i;
        }
        let (r, w, p) = (can_read(t), can_write(t), can_pack(t));
        let (rt_, wt_) = match (t, flavour_of(t)) {
            (Ty::Enum(_) | Ty::Struct(_), Flavour::Split) => (self.item(t, "R"), self.item(t, "W")),
            (Ty::Struct(_), Flavour::Packed) => {
                let n = self.item(t, "P");
                (n.clone(), n)
            }
            _ => {
                let n = self.type_expr(t);
                (n.clone(), n)
            }
        };
        let idx = self.arms.len();
        let mut arm = format!("        {idx} => match op {{ // {key}\n");
        if p {
            let _ = writeln!(arm, "            \"pack\" => ops::pack::<{wt_}>(a),");
        }
        if w {
            let _ = writeln!(arm, "            \"packto\" => ops::packto::<{wt_}>(a),");
            let _ = writeln!(arm, "            \"packun\" => ops::packun::<{wt_}>(a),");
        }
        if r {
            let _ = writeln!(arm, "            \"unpack\" => ops::unpack::<{rt_}>(a),");
            let _ = writeln!(arm, "            \"status\" => ops::status::<{rt_}>(a),");
        }
        if sized(t) && t.impl_only() {
            let _ = writeln!(arm, "            \"buflen\" => ops::buflen::<{rt_}>(),");
        }
        if p && r {
            let _ = writeln!(arm, "            \"rt\" => ops::rt::<{wt_}, {rt_}>(a),");
            let _ = writeln!(arm, "            \"repack\" => ops::repack::<{rt_}, {wt_}>(a),");
        }
        arm.push_str("            _ => \"no-such-op\".into(),\n        },\n");
        self.arms.push(arm);
        self.subject_idx.insert(key, idx);
        idx
    }

    fn source(&self) -> String {
        let mut o = String::from(
            "// REGENERATED by harness/src/bin/c19.rs — do not edit.\n#![allow(warnings)]\nuse crate::common::Val;\nuse crate::ops::{self, Glue};\n\n",
        );
        o.push_str(&self.code);
        o.push_str("pub fn run(idx: usize, op: &str, a: &[&str]) -> String {\n    match idx {\n");
        for a in &self.arms {
            o.push_str(a);
        }
        o.push_str("        _ => \"no-such-subject\".into(),\n    }\n}\n");
        o
    }
}

// =====================================================================================================
// Building and running the generated crate
// =====================================================================================================

struct Lock(std::path::PathBuf);

impl Lock {
    /// One c19 at a time may rewrite/build/run gen-types (the source file and the binary are shared).
    fn take() -> Lock {
        let dir = format!("{HARNESS_DIR}/target/gen-types");
        std::fs::create_dir_all(&dir).ok();
        let p = std::path::PathBuf::from(format!("{dir}/.c19.lock"));
        let t0 = std::time::Instant::now();
        loop {
            match std::fs::OpenOptions::new().write(true).create_new(true).open(&p) {
                Ok(mut f) => {
                    use std::io::Write;
                    let _ = writeln!(f, "{}", std::process::id());
                    return Lock(p);
                }
                Err(_) => {
                    // stale lock: owner gone, or older than 30 min
                    let owner_alive = std::fs::read_to_string(&p)
                        .ok()
                        .and_then(|s| s.trim().parse::<u32>().ok())
                        .map(|pid| std::path::Path::new(&format!("/proc/{pid}")).exists())
                        .unwrap_or(true);
                    let old = std::fs::metadata(&p).and_then(|m| m.modified()).ok().and_then(|m| m.elapsed().ok()).map_or(false, |e| e.as_secs() > 1800);
                    if !owner_alive || old || t0.elapsed().as_secs() > 3600 {
                        let _ = std::fs::remove_file(&p);
                        continue;
                    }
                    std::thread::sleep(std::time::Duration::from_millis(300));
                }
            }
        }
    }
}

impl Drop for Lock {
    fn drop(&mut self) {
        let _ = std::fs::remove_file(&self.0);
    }
}

/// Write generated.rs (only if changed), `cargo build --offline`, run the binary on the work lines; one answer per line.
fn build_and_run(source: &str, work: &[String], outdir: &str, tag: &str, rep: &mut Report) -> Vec<String> {
    let _lock = Lock::take();
    let gt = format!("{HARNESS_DIR}/gen-types");
    let gen_path = format!("{gt}/src/generated.rs");
    if std::fs::read_to_string(&gen_path).ok().as_deref() != Some(source) {
        std::fs::write(&gen_path, source).expect("write generated.rs");
    }
    let t0 = std::time::Instant::now();
    let out = std::process::Command::new("cargo")
        .args(["build", "--offline", "--quiet", "--target-dir"])
        .arg(format!("{HARNESS_DIR}/target/gen-types"))
        .current_dir(&gt)
        .env("CARGO_NET_OFFLINE", "true")
        .env_remove("RUSTFLAGS")
        .output()
        .expect("spawn cargo");
    if !out.status.success() {
        let err = String::from_utf8_lossy(&out.stderr);
        eprintln!("c19: building gen-types failed:\n{}", err.chars().take(6000).collect::<String>());
        std::process::exit(3);
    }
    let build_s = t0.elapsed().as_secs_f64();
    std::fs::create_dir_all(outdir).ok();
    let wf = format!("{outdir}/c19.work.{tag}");
    let of = format!("{outdir}/c19.answers.{tag}");
    std::fs::write(&wf, work.join("\n") + "\n").expect("work file");
    let t1 = std::time::Instant::now();
    let st = std::process::Command::new(format!("{HARNESS_DIR}/target/gen-types/debug/gen-types")).arg(&wf).arg(&of).status().expect("spawn gen-types");
    if !st.success() {
        eprintln!("c19: gen-types runner failed: {st:?}");
        std::process::exit(3);
    }
    let answers: Vec<String> = std::fs::read_to_string(&of).expect("answers").lines().map(|s| s.to_string()).collect();
    if answers.len() != work.len() {
        eprintln!("c19: {} answers for {} cases", answers.len(), work.len());
        std::process::exit(3);
    }
    rep.notes.push(format!("gen-types batch {tag}: build {:.1}s, run {:.1}s, {} cases", build_s, t1.elapsed().as_secs_f64(), work.len()));
    let _ = std::fs::remove_file(&wf);
    let _ = std::fs::remove_file(&of);
    answers
}

/// A case line with everything the executor needs.
#[derive(Clone)]
struct Case {
    line: String,
    /// subject type for value-level ops of generated types (None: parse op or in-crate)
    subject: Option<Ty>,
}

/// Subject of a case line = its T-expression (4th token), unless the op is `parse` or the type is `@Name`.
fn case_of_line(line: &str) -> Option<Case> {
    let t: Vec<&str> = line.split(' ').collect();
    if t.len() < 3 || t[0] != "c19" {
        return None;
    }
    let ty = parse_ty(t[2])?;
    let subject = if t[1] == "parse" || matches!(ty, Ty::Named(_)) { None } else { Some(ty) };
    Some(Case { line: line.to_string(), subject })
}

/// Run all generated-type and parse cases (in batches of at most `max_subjects` distinct subjects per build).
fn run_generated(cases: &[Case], outdir: &str, max_subjects: usize, rep: &mut Report) -> Vec<String> {
    let mut answers = vec![String::new(); cases.len()];
    let mut start = 0;
    let mut batch = 0;
    while start < cases.len() {
        let mut reg = Registry::default();
        let mut work = Vec::new();
        let mut idxs = Vec::new();
        let mut end = start;
        while end < cases.len() {
            let c = &cases[end];
            match &c.subject {
                Some(t) => {
                    if !reg.subject_idx.contains_key(&t.show()) && reg.arms.len() >= max_subjects {
                        break;
                    }
                    let i = reg.subject(t);
                    work.push(format!("{i} {}", c.line));
                }
                None => work.push(format!("- {}", c.line)),
            }
            idxs.push(end);
            end += 1;
        }
        let ans = build_and_run(&reg.source(), &work, outdir, &batch.to_string(), rep);
        for (k, a) in idxs.iter().zip(ans) {
            answers[*k] = a;
        }
        start = end;
        batch += 1;
    }
    answers
}

// =====================================================================================================
// Random type definitions
// =====================================================================================================

fn pick_disc(rng: &mut Rng, lo: i128, hi: i128, small_w: Option<u64>, used: &BTreeSet<i128>) -> i128 {
    for _ in 0..20 {
        let d = if let Some(w) = small_w.filter(|_| rng.chance(5, 6)) {
            rng.below(1 << w.min(8)) as i128
        } else {
            match rng.below(8) {
                0..=3 => rng.below(17) as i128,
                4 => *rng.pick(&[lo, hi, hi - 1, lo + 1]),
                5 if lo < 0 => -(rng.below(130) as i128) - 1,
                _ => {
                    let span = (hi - lo) as u128;
                    let r = ((rng.next() as u128) << 64 | rng.next() as u128) % (span + 1);
                    lo + r as i128
                }
            }
        };
        if d >= lo && d <= hi && !used.contains(&d) {
            return d;
        }
    }
    lo
}

/// A derived enum rustc and the macro accept. `small_w`: the enum is meant for a field of that many bits.
fn gen_enum(rng: &mut Rng, repr: Option<&'static str>, small_w: Option<u64>) -> EnumTy {
    for _ in 0..200 {
        let repr = repr.unwrap_or_else(|| *rng.pick(&["u8", "u8", "u8", "i8", "u16", "i16", "u32", "i32", "u64", "i64"]));
        let (lo, hi) = repr_range(repr);
        let n = if rng.chance(1, 8) { 1 } else { rng.range(2, 10) as usize };
        let style = rng.below(4);
        let want_catch = rng.chance(1, 4);
        let want_default = rng.chance(1, 4);
        let alt_p = *rng.pick(&[0u64, 0, 1, 2]);
        let catch_pos = if want_catch { Some(if rng.chance(2, 3) { n - 1 } else { rng.below(n as u64) as usize }) } else { None };
        let mut used = BTreeSet::new();
        let mut variants = Vec::new();
        let mut asc = rng.below(3) as i128;
        for i in 0..n {
            if Some(i) == catch_pos {
                let disc = if rng.chance(1, 6) { Some(pick_disc(rng, lo, hi, small_w, &used)) } else { None };
                if let Some(d) = disc {
                    used.insert(d);
                }
                variants.push(Variant { disc, alts: vec![], catch_all: true, default: false });
                continue;
            }
            let explicit = match style {
                0 => true,
                1 => false,
                2 => rng.chance(1, 2),
                _ => true,
            };
            let disc = if !explicit {
                None
            } else if style == 3 {
                let d = asc;
                asc += 1 + rng.below(3) as i128;
                Some(d)
            } else {
                Some(pick_disc(rng, lo, hi, small_w, &used))
            };
            if let Some(d) = disc {
                used.insert(d);
            }
            let mut alts = Vec::new();
            if rng.below(4) < alt_p {
                for _ in 0..rng.range(1, 3) {
                    let a = if rng.chance(1, 8) { rng.below(12) as i128 } else { pick_disc(rng, lo.max(0), hi, small_w, &used) };
                    used.insert(a);
                    alts.push(a);
                }
            }
            variants.push(Variant { disc, alts, catch_all: false, default: false });
        }
        if want_default {
            let c: Vec<usize> = (0..n).filter(|i| Some(*i) != catch_pos).collect();
            if !c.is_empty() {
                variants[*rng.pick(&c)].default = true;
            }
        }
        let e = EnumTy { repr: repr.to_string(), variants };
        if enum_compiles(&e) {
            return e;
        }
    }
    EnumTy {
        repr: repr.unwrap_or("u8").to_string(),
        variants: vec![
            Variant { disc: Some(0), alts: vec![], catch_all: false, default: false },
            Variant { disc: Some(1), alts: vec![], catch_all: false, default: false },
        ],
    }
}

#[derive(Clone, Copy)]
struct Allow {
    /// arrays of non-u8 elements (Read-only derive)
    ro: bool,
    /// types wider than their slot
    misfit: bool,
}

fn skip_attr(a: &mut Attrs, pre: bool, bits: u64, rng: &mut Rng) {
    if bits == 0 {
        return;
    }
    let as_bytes = bits % 8 == 0 && rng.chance(1, 2);
    match (pre, as_bytes) {
        (true, true) => a.pre_skip_bytes = Some(bits / 8),
        (true, false) => a.pre_skip = Some(bits),
        (false, true) => a.post_skip_bytes = Some(bits / 8),
        (false, false) => a.post_skip = Some(bits),
    }
}

/// A field of `w` ≤ 8 bits inside one byte.
fn gen_small_field(rng: &mut Rng, depth: u32, w: u64, aligned: bool, allow: Allow) -> (Attrs, Ty) {
    let mut a = Attrs::default();
    let mut w = w;
    let ty = match rng.below(100) {
        0..=34 => Ty::Prim("u8"),
        35..=62 => {
            if w > 1 && rng.chance(3, 4) {
                w = 1;
            }
            Ty::Prim("bool")
        }
        63..=70 => Ty::Prim("i8"),
        71..=87 => {
            if allow.misfit && rng.chance(1, 3) {
                {
                    let r = *rng.pick(&["u16", "i32"]);
                    Ty::Enum(gen_enum(rng, Some(r), Some(w)))
                }
            } else {
                let r = if rng.chance(1, 5) { "i8" } else { "u8" };
                Ty::Enum(gen_enum(rng, Some(r), Some(w)))
            }
        }
        _ => {
            if depth == 0 {
                Ty::Prim("u8")
            } else {
                let mb = if rng.chance(1, 6) { 8 } else { w };
                Ty::Struct(gen_small_struct(rng, depth - 1, mb))
            }
        }
    };
    if w == 8 && aligned && rng.chance(1, 2) {
        if matches!(ty, Ty::Prim("u8") | Ty::Prim("i8")) && rng.chance(1, 2) {
            // automatic width
        } else {
            a.bytes = Some(1);
        }
    } else {
        a.bits = Some(w);
    }
    (a, ty)
}

/// A struct of at most `max_bits` ≤ 8 bits (PACKED_LEN = 1): only small fields.
fn gen_small_struct(rng: &mut Rng, depth: u32, max_bits: u64) -> StructTy {
    let total = rng.range(1, max_bits.max(1));
    let mut c = 0u64;
    let mut fields = Vec::new();
    while c < total {
        let remaining = total - c;
        let ps = if remaining > 1 && rng.chance(1, 5) { rng.below(remaining) } else { 0 };
        let w = rng.range(1, remaining - ps);
        let (mut a, t) = gen_small_field(rng, depth, w, false, Allow { ro: false, misfit: false });
        let w = a.bits.unwrap_or(8);
        skip_attr(&mut a, true, ps, rng);
        c += ps + w;
        if c < total && rng.chance(1, 6) {
            let qs = rng.range(1, total - c);
            skip_attr(&mut a, false, qs, rng);
            c += qs;
        }
        fields.push((a, t));
    }
    let mut attrs = Attrs::default();
    if c == 8 && rng.chance(1, 2) {
        attrs.bytes = Some(1);
    } else {
        attrs.bits = Some(c);
    }
    StructTy { attrs, fields }
}

fn width_attr(a: &mut Attrs, bytes: u64, auto_ok: bool, rng: &mut Rng) {
    match rng.below(3) {
        0 if auto_ok => {}
        1 => a.bits = Some(bytes * 8),
        _ => a.bytes = Some(bytes),
    }
}

/// A byte-aligned field of at least 16 bits (or an 8-bit one holding a one-byte aggregate).
fn gen_big_field(rng: &mut Rng, depth: u32, allow: Allow) -> (Attrs, Ty) {
    let mut a = Attrs::default();
    let nums = ["u16", "u32", "u64", "i16", "i32", "i64", "f32", "f64"];
    // Read-only structs (arrays of non-u8 elements) are rare as structs but then use such arrays often
    let k = if allow.ro && rng.chance(1, 4) { 90 } else { rng.below(100) };
    let ty = match k {
        0..=39 => {
            let p = *rng.pick(&nums);
            let auto = if p == "f32" { 8 } else { prim_len(p) } as u64;
            let own = prim_len(p) as u64;
            match rng.below(8) {
                0 => {
                    // narrower type in a wider slot
                    let b = own + rng.range(1, 4);
                    if rng.chance(1, 2) {
                        a.bits = Some(b * 8)
                    } else {
                        a.bytes = Some(b)
                    }
                }
                1 => {} // automatic width (f32: 8 bytes)
                _ => width_attr(&mut a, own, auto == own, rng),
            }
            Ty::Prim(p)
        }
        40..=47 => {
            // u8 / i8 in a multi-byte slot would be `nw` for u8; i8 works (zero padded)
            let b = rng.range(2, 4);
            a.bytes = Some(b);
            Ty::Prim("i8")
        }
        48..=59 => {
            let r = *rng.pick(&["u16", "i16", "u32", "i32", "u64", "i64"]);
            let e = gen_enum(rng, Some(r), None);
            let own = repr_size(r).unwrap() as u64;
            let b = if rng.chance(1, 5) { own + rng.range(1, 3) } else { own };
            width_attr(&mut a, b, false, rng);
            Ty::Enum(e)
        }
        60..=74 if depth > 0 => {
            let s = gen_struct(rng, depth - 1, allow, 6);
            let t = Ty::Struct(s);
            let own = packed_len(&t) as u64;
            let b = if rng.chance(1, 6) { own + rng.range(1, 3) } else { own };
            width_attr(&mut a, b, false, rng);
            t
        }
        75..=86 => {
            let n = rng.range(1, 20);
            width_attr(&mut a, n, false, rng);
            Ty::Arr(n as usize, Box::new(Ty::Prim("u8")))
        }
        87..=93 if allow.ro => {
            let n = rng.range(1, 4);
            let el = match rng.below(6) {
                0 => Ty::Prim("u16"),
                1 => Ty::Prim("i32"),
                2 => Ty::Prim("bool"),
                3 => Ty::Enum(gen_enum(rng, None, None)),
                4 => Ty::Struct(gen_small_struct(rng, 0, 8)),
                _ if depth > 0 => Ty::Struct(gen_struct(rng, 0, Allow { ro: false, misfit: false }, 4)),
                _ => Ty::Prim("u64"),
            };
            let own = packed_len(&el) as u64 * n;
            let b = if rng.chance(1, 6) { own + 1 } else { own };
            width_attr(&mut a, b, false, rng);
            Ty::Arr(n as usize, Box::new(el))
        }
        94..=96 => {
            let comps: Vec<Ty> = (0..rng.range(1, 3)).map(|_| Ty::Prim(*rng.pick(&["u8", "u16", "i32", "bool", "u64"]))).collect();
            let t = Ty::Tup(comps);
            width_attr(&mut a, packed_len(&t) as u64, false, rng);
            t
        }
        _ if allow.misfit => {
            let p = *rng.pick(&["u32", "u64", "i64"]);
            a.bytes = Some(rng.range(2, prim_len(p) as u64 - 1));
            Ty::Prim(p)
        }
        _ => {
            let p = *rng.pick(&nums);
            width_attr(&mut a, prim_len(p) as u64, p != "f32", rng);
            Ty::Prim(p)
        }
    };
    (a, ty)
}

fn gen_skip_field(rng: &mut Rng) -> (Attrs, Ty) {
    let mut a = Attrs { skip: true, ..Attrs::default() };
    let t = match rng.below(6) {
        0 => Ty::Prim("u8"),
        1 => Ty::Prim("bool"),
        2 => Ty::Prim(*rng.pick(&["u16", "i32", "u64", "f32", "i8"])),
        3 => Ty::Arr(rng.range(1, 8) as usize, Box::new(Ty::Prim("u8"))),
        4 => {
            // needs Default: an enum with a #[default] variant
            let mut e = gen_enum(rng, None, None);
            if !e.variants.iter().any(|v| v.default) {
                match e.variants.iter().position(|v| !v.catch_all) {
                    Some(i) => e.variants[i].default = true,
                    None => return (a, Ty::Prim("u16")),
                }
            }
            Ty::Enum(e)
        }
        _ => Ty::Prim("u32"),
    };
    // a skipped field needs no width; sometimes it has one (ignored) or skips (ignored)
    match rng.below(6) {
        0 => a.bits = Some(rng.range(1, 16)),
        1 => a.pre_skip = Some(rng.range(1, 9)),
        2 => a.post_skip_bytes = Some(1),
        _ => {}
    }
    (a, t)
}

/// A struct the macro accepts: 1..=max_fields fields, small fields inside one byte, big fields byte aligned, skips.
fn gen_struct(rng: &mut Rng, depth: u32, allow: Allow, max_fields: u64) -> StructTy {
    let nf = rng.range(1, max_fields);
    let mut c = 0u64;
    let mut fields = Vec::new();
    for _ in 0..nf {
        if c > 320 {
            break;
        }
        if rng.chance(1, 14) {
            fields.push(gen_skip_field(rng));
            continue;
        }
        let off = c % 8;
        let ps = if off != 0 {
            match rng.below(6) {
                0 => 8 - off + 8 * rng.below(2),
                1 => rng.below(8 - off),
                _ => 0,
            }
        } else if rng.chance(1, 8) {
            *rng.pick(&[8u64, 16, 1, 2, 3, 4, 5, 6, 7, 24])
        } else {
            0
        };
        let off2 = (c + ps) % 8;
        let avail = 8 - off2;
        let small = off2 != 0 || rng.chance(2, 5);
        let (mut a, t) = if small {
            let w = if off2 == 0 && rng.chance(1, 3) { 8 } else { rng.range(1, avail) };
            gen_small_field(rng, depth, w, off2 == 0, allow)
        } else {
            gen_big_field(rng, depth, allow)
        };
        let w = field_width(&a, &t).expect("generated field has a width");
        skip_attr(&mut a, true, ps, rng);
        c += ps + w;
        if rng.chance(1, 7) {
            let qs = match rng.below(3) {
                0 if c % 8 != 0 => 8 - c % 8,
                1 => *rng.pick(&[8u64, 16]),
                _ => rng.range(1, 12),
            };
            skip_attr(&mut a, false, qs, rng);
            c += qs;
        }
        fields.push((a, t));
    }
    if c == 0 {
        // only skipped fields so far: add one real field
        let (a, t) = gen_small_field(rng, 0, 8, true, allow);
        c += field_width(&a, &t).unwrap();
        fields.push((a, t));
    }
    let mut attrs = Attrs::default();
    if c % 8 == 0 && rng.chance(2, 3) {
        attrs.bytes = Some(c / 8);
    } else {
        attrs.bits = Some(c);
    }
    StructTy { attrs, fields }
}

/// Every struct/enum nested in `t` (and `t` itself), outermost first.
fn collect_items(t: &Ty, out: &mut Vec<Ty>) {
    match t {
        Ty::Struct(s) => {
            out.push(t.clone());
            for (_, ft) in &s.fields {
                collect_items(ft, out);
            }
        }
        Ty::Enum(_) => out.push(t.clone()),
        Ty::Arr(_, e) | Ty::HVec(_, e) => collect_items(e, out),
        Ty::Tup(ts) => ts.iter().for_each(|t| collect_items(t, out)),
        _ => {}
    }
}

// =====================================================================================================
// Random values
// =====================================================================================================

fn gen_int(rng: &mut Rng, lo: i128, hi: i128) -> i128 {
    match rng.below(8) {
        0 => 0i128.clamp(lo, hi),
        1 => hi,
        2 => lo,
        3 => (-1i128).clamp(lo, hi),
        4 => (hi - 1).max(lo),
        _ => {
            let span = (hi - lo) as u128;
            lo + (((rng.next() as u128) << 64 | rng.next() as u128) % (span + 1)) as i128
        }
    }
}

/// `small_w`: the value sits in a field of that many (≤ 8) bits — mostly generate values that fit.
fn gen_val(rng: &mut Rng, t: &Ty, small_w: Option<u64>) -> Val {
    match t {
        Ty::Prim("bool") => Val::Bool(rng.chance(1, 2)),
        Ty::Prim(p) => {
            let n = prim_len(p) as u32 * 8;
            let (lo, hi) = match *p {
                "f32" | "f64" => (0, (1i128 << n) - 1),
                p if p.starts_with('i') => (-(1i128 << (n - 1)), (1i128 << (n - 1)) - 1),
                _ => (0, (1i128 << n) - 1),
            };
            match small_w {
                Some(w) if w < 8 && rng.chance(5, 6) => Val::Int(gen_int(rng, 0, ((1i128 << w) - 1).min(hi))),
                _ => Val::Int(gen_int(rng, lo, hi)),
            }
        }
        Ty::Unit => Val::Seq(vec![]),
        Ty::Arr(n, e) | Ty::HVec(n, e) => Val::Seq((0..*n).map(|_| gen_val(rng, e, None)).collect()),
        Ty::HStr(n) => Val::Seq((0..*n).map(|_| Val::Int(rng.range(0x20, 0x7e) as i128)).collect()),
        Ty::Tup(ts) => Val::Seq(ts.iter().map(|t| gen_val(rng, t, None)).collect()),
        Ty::Enum(e) => {
            let n = e.variants.len();
            let mut i = rng.below(n as u64) as usize;
            if let Some(w) = small_w.filter(|w| *w < 8) {
                // prefer a variant whose discriminant fits
                let d = primary_discs(e, Num::Rustc);
                for _ in 0..4 {
                    if e.variants[i].catch_all || (d[i] >= 0 && d[i] < (1 << w)) {
                        break;
                    }
                    i = rng.below(n as u64) as usize;
                }
            }
            if e.variants[i].catch_all {
                let (lo, hi) = repr_range(&e.repr);
                let arms = read_arms(e, Num::Rustc);
                if !arms.is_empty() && rng.chance(1, 8) {
                    Val::Catch(rng.pick(&arms).1) // not canonical
                } else if let Some(w) = small_w.filter(|w| *w < 8 && rng.chance(5, 6)) {
                    Val::Catch(gen_int(rng, 0, ((1i128 << w) - 1).min(hi)))
                } else {
                    Val::Catch(gen_int(rng, lo, hi))
                }
            } else {
                Val::Unit(i)
            }
        }
        Ty::Struct(s) => {
            let (lay, _) = layout(s);
            Val::Seq(
                s.fields
                    .iter()
                    .zip(&lay)
                    .map(|((a, ft), l)| {
                        if a.skip {
                            if rng.chance(3, 4) { Val::Dflt } else { gen_val(rng, ft, None) }
                        } else {
                            gen_val(rng, ft, if l.width <= 8 { Some(l.width) } else { None })
                        }
                    })
                    .collect(),
            )
        }
        Ty::X | Ty::XN(_) | Ty::Named(_) => Val::Dflt,
    }
}

/// Which bits of the packed image are declared (belong to some field's encoding).
fn declared_mask(t: &Ty) -> Vec<bool> {
    match t {
        Ty::Arr(n, e) => {
            let m = declared_mask(e);
            (0..*n).flat_map(|_| m.clone()).collect()
        }
        Ty::Tup(ts) => ts.iter().flat_map(declared_mask).collect(),
        Ty::Struct(s) => {
            let (lay, _) = layout(s);
            let mut img = vec![false; packed_len(t) * 8];
            for ((_, ft), l) in s.fields.iter().zip(&lay) {
                if l.skip {
                    continue;
                }
                let mut m = match ft {
                    Ty::Prim("u8") | Ty::Prim("bool") => vec![true; l.width as usize],
                    _ => declared_mask(ft),
                };
                m.resize(l.width as usize, false);
                for (k, b) in m.iter().enumerate() {
                    if let Some(x) = img.get_mut(l.start as usize + k) {
                        *x = *b;
                    }
                }
            }
            img
        }
        _ => vec![true; packed_len(t) * 8],
    }
}

// =====================================================================================================
// Case generation
// =====================================================================================================

fn rand_hex(rng: &mut Rng, n: usize) -> String {
    let b = match rng.below(10) {
        0 => vec![0u8; n],
        1 => vec![0xffu8; n],
        _ => rng.bytes(n),
    };
    hex(&b)
}

/// Raw values worth feeding to an enum decoder: everything declared (under either numbering) and undefined ones.
fn enum_probe_values(e: &EnumTy, rng: &mut Rng) -> Vec<i128> {
    let (lo, hi) = repr_range(&e.repr);
    let mut v: BTreeSet<i128> = BTreeSet::new();
    for num in [Num::Rustc, Num::Macro] {
        for (_, d) in read_arms(e, num) {
            v.insert(d);
            v.insert(d + 1);
            v.insert(d - 1);
        }
    }
    v.extend([lo, hi, 0, 1, hi - 1, lo + 1]);
    for _ in 0..3 {
        v.insert(gen_int(rng, lo, hi));
    }
    v.into_iter().filter(|d| *d >= lo && *d <= hi).collect()
}

/// The cases of one stand-alone subject.
fn subject_cases(rng: &mut Rng, t: &Ty, thorough: bool, out: &mut Vec<String>) {
    let key = t.show();
    let len = packed_len(t);
    let (r, w, p) = (can_read(t), can_write(t), can_pack(t));
    let nvals = if thorough { 5 } else { 3 };
    let mut images: Vec<Vec<u8>> = Vec::new();
    if w {
        for k in 0..nvals {
            let v = gen_val(rng, t, None);
            let vs = v.show();
            if let Some(img) = ref_pack(t, &v, Num::Rustc) {
                images.push(img);
            }
            if p {
                if r && (k % 3 != 2) {
                    out.push(format!("c19 rt {key} {vs}"));
                } else {
                    out.push(format!("c19 pack {key} {vs}"));
                }
            }
            // pack_to_slice with a destination of random bytes
            let dl = match (k + rng.below(3) as usize) % 5 {
                0 => 0,
                1 => len.saturating_sub(1),
                2 => len,
                _ => len + rng.range(1, 5) as usize,
            };
            out.push(format!("c19 packto {key} {vs} {}", hex(&rng.bytes(dl))));
            if !p || rng.chance(1, 3) {
                out.push(format!("c19 packto {key} {vs} {}", { let n = len + rng.below(3) as usize; hex(&rng.bytes(n)) }));
            }
            if rng.chance(1, 3) {
                out.push(format!("c19 packun {key} {vs} {}", { let n = len + rng.below(4) as usize; hex(&rng.bytes(n)) }));
            } else if len > 0 && rng.chance(1, 12) {
                out.push(format!("c19 packun {key} {vs} {}", hex(&rng.bytes(len - 1))));
            }
        }
    }
    if r {
        let op = |rng: &mut Rng| if p && rng.chance(1, 8) { "repack" } else if rng.chance(1, 10) { "status" } else { "unpack" };
        let mut lens = vec![0usize, len, len, len + 1 + rng.below(4) as usize];
        if len > 0 {
            lens.push(len - 1);
        }
        if len > 2 {
            lens.push(rng.range(1, len as u64 - 1) as usize);
        }
        if thorough {
            lens.extend([len, len, len + 7]);
        }
        for l in lens {
            out.push(format!("c19 {} {key} {}", op(rng), rand_hex(rng, l)));
        }
        // packed images with undeclared bits flipped (must decode like the image itself)
        let mask = declared_mask(t);
        for img in images.iter().take(2) {
            let mut b = img.clone();
            for (k, m) in mask.iter().enumerate() {
                if !*m && rng.chance(1, 2) && k / 8 < b.len() {
                    b[k / 8] ^= 1 << (k % 8);
                }
            }
            let extra = rng.below(3) as usize;
            b.extend(rng.bytes(extra));
            out.push(format!("c19 unpack {key} {}", hex(&b)));
        }
        if let Ty::Enum(e) = t {
            let size = repr_size(&e.repr).unwrap_or(1);
            for d in enum_probe_values(e, rng) {
                let mut b = le_bytes(d, size);
                let extra = rng.below(2) as usize;
                b.extend(rng.bytes(extra));
                out.push(format!("c19 {} {key} {}", if rng.chance(1, 10) { "repack" } else { "unpack" }, hex(&b)));
            }
        }
    }
}


// =====================================================================================================
// Case family "impl": the hand-written impls of impls.rs that are not derive output — heapless::Vec<T, N>,
// heapless::String<N>, [T; N], tuples of 1..16 components — on buffers shorter / equal / longer (up to 3x) than the
// packed length
// =====================================================================================================

fn impl_family_corpus_subjects() -> Vec<&'static str> {
    vec![
        "hv(0,u8)", "hv(1,u8)", "hv(4,u8)", "hv(8,u8)", "hv(16,u8)", "hv(1,u16)", "hv(3,u16)", "hv(2,u32)", "hv(5,u32)", "hv(1,u64)",
        "hv(3,bool)", "hv(2,i16)", "hv(2,a(2,u8))", "hv(3,e(u8;0;1))", "hv(2,unit)",
        "hs(0)", "hs(1)", "hs(2)", "hs(3)", "hs(4)", "hs(8)", "hs(16)",
        "a(5,u8)", "a(4,u16)", "a(3,i32)", "a(2,u64)", "a(0,u64)", "a(1,i32)", "a(2,hv(2,u8))", "a(2,hs(2))",
        "t(hv(4,u8),u8)", "t(hs(4),u8)", "t(u8,hv(2,u8))", "t(u16,hs(3))", "t(hv(2,bool),u16)", "t(a(2,u16),u8,bool)",
        "t(u8,u16,u32,u64,i8,i16,i32,i64,bool,f32,f64,u8,bool,u16,unit,u32)",
    ]
}

fn impl_family_corpus_lines() -> Vec<&'static str> {
    vec![
        // one element more than the capacity (`.take(N)` is what keeps `collect` from overflowing)
        "c19 unpack hv(1,u8) 0000",
        "c19 unpack hv(3,u16) 01000200030004",
        "c19 unpack hv(3,u16) 0100020003000400ff",
        "c19 unpack hv(3,u16) 0100020003",
        "c19 unpack hv(0,u8) 0102",
        "c19 unpack hv(2,u32) 01000000020000000300000004000000",
        // elements that can fail: the first N decide, what lies behind them is not looked at
        "c19 unpack hv(3,e(u8;0;1)) 00010005",
        "c19 unpack hv(3,e(u8;0;1)) 000500",
        "c19 unpack hv(3,e(u8;0;1)) 0001",
        "c19 unpack hv(2,unit) 00",
        // strings: the whole buffer is the string
        "c19 unpack hs(4) e282ac41",
        "c19 unpack hs(4) e282ac4142",
        "c19 unpack hs(3) 41e282ac",
        "c19 unpack hs(3) 41e282",
        "c19 unpack hs(4) eda080",
        "c19 unpack hs(4) c080",
        "c19 unpack hs(4) f4908080",
        "c19 unpack hs(4) f48fbfbf",
        "c19 unpack hs(8) f5808080",
        "c19 unpack hs(0) -",
        "c19 unpack hs(0) 41",
        // arrays
        "c19 unpack a(2,u16) 010002",
        "c19 unpack a(2,u16) 0100020003",
        "c19 unpack a(2,hv(2,u8)) 01020304",
        "c19 unpack a(2,hs(2)) 4142c3a9",
        "c19 unpack a(2,hs(2)) 41c3a942",
        // tuples holding a variable-length component: on a short buffer the walk used to index `&buf[PACKED_LEN..]` out of
        // range (former defect c19/impl-tuple-varlen-short-panic, fix-c19-tuple-short): ReadBufferTooShort now; with enough
        // bytes they decode / are refused as before
        "c19 unpack t(hv(4,u8),u8) 0102",
        "c19 unpack t(hs(4),u8) 6162",
        "c19 unpack t(u8,hv(2,u8)) 0102",
        "c19 unpack t(hv(4,u8),u8) 0102030405",
        "c19 unpack t(hv(4,u8),u8) 01020304",
        "c19 unpack t(hv(4,u8),u8) -",
        "c19 unpack t(hs(4),u8) 6162636465",
        "c19 unpack t(hs(4),u8) 61626364",
        "c19 unpack t(u16,hs(3)) 0100414243",
        "c19 buflen a(3,u16)",
        "c19 buflen a(3,u8)",
        "c19 buflen hv(3,u8)",
        "c19 buflen hs(7)",
    ]
}

const FAMILY_PRIMS: [&str; 11] = ["u8", "u16", "u32", "u64", "i8", "i16", "i32", "i64", "bool", "f32", "f64"];

fn impl_family_random_subjects(rng: &mut Rng, thorough: bool) -> Vec<Ty> {
    let mut out = Vec::new();
    let reps = if thorough { 4 } else { 1 };
    let caps: [usize; 12] = [0, 1, 2, 3, 4, 5, 6, 7, 8, 12, 16, 31];
    for _ in 0..8 * reps {
        let el = if rng.chance(2, 3) { *rng.pick(&["u8", "u16", "u32"]) } else { *rng.pick(&FAMILY_PRIMS) };
        out.push(Ty::HVec(*rng.pick(&caps), Box::new(Ty::Prim(el))));
    }
    for _ in 0..3 * reps {
        out.push(Ty::HStr(*rng.pick(&[0usize, 1, 2, 3, 4, 5, 6, 7, 8, 11, 16, 32])));
    }
    for _ in 0..5 * reps {
        let el = if rng.chance(2, 3) { *rng.pick(&["u8", "u16", "i32", "u64"]) } else { *rng.pick(&FAMILY_PRIMS) };
        out.push(Ty::Arr(rng.range(0, 9) as usize, Box::new(Ty::Prim(el))));
    }
    for arity in 1..=16usize {
        for _ in 0..reps {
            let mut c: Vec<Ty> = Vec::new();
            for _ in 0..arity {
                c.push(match rng.below(14) {
                    0 => Ty::Unit,
                    1 => Ty::Arr(rng.range(0, 3) as usize, Box::new(Ty::Prim(*rng.pick(&["u8", "u16", "i32"])))),
                    _ => Ty::Prim(*rng.pick(&FAMILY_PRIMS)),
                });
            }
            out.push(Ty::Tup(c));
        }
    }
    // tuples with one variable-length component
    for _ in 0..3 * reps {
        let n = rng.range(1, 6) as usize;
        let var = if rng.chance(1, 2) { Ty::HStr(n) } else { Ty::HVec(n, Box::new(Ty::Prim(*rng.pick(&["u8", "bool"])))) };
        let mut c: Vec<Ty> = (0..rng.range(1, 3)).map(|_| Ty::Prim(*rng.pick(&["u8", "u16", "bool", "i32"]))).collect();
        let at = rng.below(c.len() as u64 + 1) as usize;
        c.insert(at, var);
        out.push(Ty::Tup(c));
    }
    out
}

/// A random well-formed UTF-8 string of exactly `len` bytes (ASCII padding at the end when the last character does not fit).
fn utf8_of_len(rng: &mut Rng, len: usize) -> Vec<u8> {
    const POOL: [char; 20] = [
        'a', 'Z', '0', ' ', '\0', '\u{7f}', '\u{80}', 'é', 'ß', '\u{7ff}', '\u{800}', '€', 'あ', '\u{d7ff}', '\u{e000}', '\u{ffff}', '\u{10000}',
        '😀', '\u{10ffff}', '~',
    ];
    let mut s = String::new();
    while s.len() < len {
        let c = if rng.chance(1, 3) { (rng.range(0x20, 0x7e) as u8) as char } else { *rng.pick(&POOL) };
        if s.len() + c.len_utf8() <= len {
            s.push(c);
        } else {
            s.push('x');
        }
    }
    s.into_bytes()
}

fn string_buffers(rng: &mut Rng, n: usize, thorough: bool) -> Vec<Vec<u8>> {
    let mut out: Vec<Vec<u8>> = Vec::new();
    // well-formed, byte length around the capacity and up to 3x
    let mut lens = vec![0, n.saturating_sub(1), n, n, n + 1, n + 2, 2 * n, 3 * n, 3 * n + 1];
    if thorough {
        lens.extend([n, n, n / 2, n + 3]);
    }
    for l in lens {
        out.push(utf8_of_len(rng, l));
    }
    // a multi-byte character cut at the capacity: well-formed up to N - k, then the first k bytes of a longer character
    for ch in ['é', '€', '😀'] {
        let mut enc = [0u8; 4];
        let e = ch.encode_utf8(&mut enc).as_bytes().to_vec();
        for k in 1..e.len() {
            if n >= k {
                let mut b = utf8_of_len(rng, n - k);
                b.extend_from_slice(&e[..k]);
                out.push(b.clone()); // exactly N bytes, cut: invalid
                b.extend_from_slice(&e[k..]);
                out.push(b); // the whole character: valid but longer than N
            }
        }
    }
    // ill-formed sequences at a random position of a well-formed string
    let bad: [&[u8]; 20] = [
        &[0x80], &[0xbf], &[0xc0, 0x80], &[0xc1, 0xbf], &[0xe0, 0x80, 0x80], &[0xe0, 0x9f, 0xbf], &[0xed, 0xa0, 0x80], &[0xed, 0xbf, 0xbf],
        &[0xf0, 0x80, 0x80, 0x80], &[0xf0, 0x8f, 0xbf, 0xbf], &[0xf4, 0x90, 0x80, 0x80], &[0xf5, 0x80, 0x80, 0x80], &[0xff], &[0xfe],
        &[0xc2], &[0xe2, 0x82], &[0xf0, 0x9f, 0x98], &[0xc2, 0x41], &[0xe2, 0x41, 0x80], &[0xf8, 0x88, 0x80, 0x80, 0x80],
    ];
    for b in bad.iter() {
        if thorough || rng.chance(1, 2) {
            let pl = rng.below(n as u64 + 1) as usize;
            let mut v = utf8_of_len(rng, pl);
            v.extend_from_slice(b);
            if rng.chance(1, 2) {
                let sl = rng.below(3) as usize;
                v.extend(utf8_of_len(rng, sl));
            }
            out.push(v);
        }
    }
    // the extreme well-formed sequences of each length
    let good: [&[u8]; 9] = [
        &[0x00], &[0x7f], &[0xc2, 0x80], &[0xdf, 0xbf], &[0xe0, 0xa0, 0x80], &[0xed, 0x9f, 0xbf], &[0xee, 0x80, 0x80], &[0xf0, 0x90, 0x80, 0x80],
        &[0xf4, 0x8f, 0xbf, 0xbf],
    ];
    for g in good.iter() {
        if thorough || rng.chance(1, 2) {
            out.push(g.to_vec());
        }
    }
    // plain random bytes
    for _ in 0..if thorough { 8 } else { 4 } {
        let l = rng.below(3 * n as u64 + 3) as usize;
        out.push(rng.bytes(l));
    }
    out
}

/// The cases of one subject of the family, on top of `subject_cases`.
fn impl_family_cases(rng: &mut Rng, t: &Ty, thorough: bool, out: &mut Vec<String>) {
    subject_cases(rng, t, thorough, out);
    let key = t.show();
    if sized(t) && t.impl_only() {
        out.push(format!("c19 buflen {key}"));
    }
    if !can_read(t) {
        return;
    }
    let len = packed_len(t);
    if let Ty::HStr(n) = t {
        for b in string_buffers(rng, *n, thorough) {
            out.push(format!("c19 unpack {key} {}", hex(&b)));
        }
        return;
    }
    // element size (vectors, arrays) or 1
    let el = match t {
        Ty::HVec(_, e) | Ty::Arr(_, e) => packed_len(e).max(1),
        _ => 1,
    };
    let mut lens = vec![len + el, 2 * len, 2 * len + 1, 3 * len, 3 * len + el.saturating_sub(1)];
    if el > 1 {
        lens.extend([len + el - 1, len.saturating_sub(el) + 1]);
    }
    if len >= el {
        lens.push(len - el);
    }
    for _ in 0..if thorough { 6 } else { 3 } {
        lens.push(rng.below(3 * len as u64 + 3) as usize);
    }
    for l in lens {
        let op = if rng.chance(1, 10) { "status" } else { "unpack" };
        out.push(format!("c19 {op} {key} {}", rand_hex(rng, l)));
    }
    // tuples with a string component: ASCII buffers so that the string itself is well-formed
    if let Ty::Tup(ts) = t {
        if ts.iter().any(|c| matches!(c, Ty::HStr(_))) {
            for l in [len.saturating_sub(1), len, len + 1, len / 2, 1] {
                out.push(format!("c19 unpack {key} {}", hex(&utf8_of_len(rng, l))));
            }
        }
    }
}

/// A panic of this kind is a regression of the repaired defect (fix-c19-tuple-short): a tuple with a `heapless::Vec` /
/// `heapless::String` component (which decode fewer bytes than their PACKED_LEN without complaint) on a buffer shorter than
/// the tuple's packed length. Reported under its own key.
fn tuple_varlen_short(t: &Ty, n: usize) -> bool {
    matches!(t, Ty::Tup(ts) if ts.iter().any(|c| matches!(c, Ty::HVec(..) | Ty::HStr(_)))) && n < packed_len(t)
}

fn impl_kind(t: &Ty) -> &'static str {
    match t {
        Ty::HVec(..) => "heapless-vec",
        Ty::HStr(_) => "heapless-string",
        Ty::Arr(..) => "array",
        Ty::Tup(ts) if ts.iter().any(|c| matches!(c, Ty::HVec(..) | Ty::HStr(_))) => "tuple-with-heapless",
        Ty::Tup(_) => "tuple",
        Ty::Unit => "unit",
        _ => "primitive",
    }
}

/// Monitor of `unpack` / `status` on a type built from hand-written impls only: never a panic, and the answer is what the
/// declared element layout says (vector: the complete elements present, at most N, little-endian, back to back; string:
/// the whole buffer if it is well-formed UTF-8 of at most N bytes; array: the first N elements or ReadBufferTooShort;
/// tuple: components at consecutive offsets).
fn monitor_impl_unpack(line: &str, op: &str, ty: &Ty, buf: &[u8], ans: &str, rep: &mut Report) {
    let len = packed_len(ty);
    let kind = impl_kind(ty);
    let cls = if len > 0 && buf.len() >= 3 * len {
        "3x+"
    } else if len > 0 && buf.len() >= 2 * len {
        "2x+"
    } else {
        buf_class(buf.len(), len)
    };
    rep.hit(&format!("impl:{kind}:buf:{cls}"));
    if let Ty::HVec(n, e) = ty {
        let el = packed_len(e).max(1);
        rep.hit(if buf.len() % el != 0 { "impl:vec:partial-tail" } else { "impl:vec:whole-elements" });
        rep.hit(if buf.len() / el > *n { "impl:vec:more-than-N-elements" } else if buf.len() / el == *n { "impl:vec:N-elements" } else { "impl:vec:fewer-than-N-elements" });
    }
    if let Ty::Tup(ts) = ty {
        rep.hit(&format!("impl:tuple-arity:{}", ts.len()));
    }
    if degenerate(ty) {
        rep.hit("degenerate");
        return;
    }
    if !matches!(ty, Ty::Prim(_) | Ty::Unit) && buf.len() != len {
        rep.nontrivial.insert(line.to_string());
    }
    if ans == "panic" {
        if tuple_varlen_short(ty, buf.len()) {
            rep.fail(
                "c19/impl-tuple-varlen-short-panic",
                &format!("unpack of a {}-byte buffer (packed length {len}) panicked: the tuple walk slices &buf[PACKED_LEN..] behind a heapless component that decoded fewer bytes", buf.len()),
                line,
            );
        } else {
            rep.fail("c19/impl-panic", &format!("unpack of a {}-byte buffer (packed length {len}) panicked", buf.len()), line);
        }
        return;
    }
    let r = ref_unpack(ty, buf, Num::Rustc);
    if let (Ty::HStr(_), Err(e)) = (ty, &r) {
        rep.hit(&format!("impl:string:{e}"));
    }
    let want = match (op, &r) {
        ("status", Ok(_)) => "ok".to_string(),
        (_, Ok(_)) => show_res(&r),
        (_, Err(e)) => format!("err:{e}"),
    };
    if ans != want {
        rep.fail("c19/impl-decode", &format!("answered {ans}, the declared element layout gives {want}"), line);
    }
}

fn fixed_corpus_subjects() -> Vec<&'static str> {
    vec![
        // stand-alone impls of impls.rs
        "u8", "u16", "u32", "u64", "i8", "i16", "i32", "i64", "f32", "f64", "bool", "unit",
        "t(u8,u16,bool)", "t(u32,u8)", "t(unit,u8)", "t(bool)", "a(4,u8)", "a(3,u16)", "a(0,u16)", "a(2,i32)", "a(3,bool)", "a(2,a(2,u16))",
        "a(1,u8)", "a(0,u8)",
        // enums: the known implicit-discriminant mismatch and its relatives
        "e(u8;_;_;_)", "e(u8;_)", "e(i8;-1;_;_)", "e(u8;5;_;7;_)", "e(u8;_/9;_)", "e(u16;_;_d;_)", "e(u8;_;_;_c)", "e(u8;_c;_;_)",
        "e(u8;0;1;2)", "e(i16;-2;5/7/9;_c)", "e(u8;0d;1)", "e(u8;0/255;1;2;3)", "e(i64;-9223372036854775808;9223372036854775807)",
        "e(u64;18446744073709551615;0)", "e(u32;1/2/3;4/1;_c)", "e(u8;3/4;4)", "e(i32;-5d;5c)", "e(u8;7c)",
        // struct boundary shapes
        "s(B1;b8:u8)", "s(B1;B1:u8)", "s(B1;-:u8)", "s(B1;b8:bool)", "s(B1;b3.p5:u8)", "s(B1;b5.q3:u8)", "s(b8;b1:bool;b3.p4:u8)",
        "s(b3;b3:u8)", "s(b1;b1:bool)", "s(b11;b8:u8;b3:u8)", "s(B1;b1:bool;b1:bool;b1:bool;b1:bool;b1:bool;b1:bool;b1:bool;b1:bool)",
        "s(B1;b4:i8;b4:i8)", "s(B1;b8:i8)", "s(B2;b3:bool;b5:u8;b8:e(i8;-1;0;1))",
        "s(B3;b3:u8;b1.p2:bool;b2:e(u8;_;_;_);-:u16)", "s(B3;b3:u8;b1.p2:bool;b2:e(u8;0;1;2);-:u16)",
        "s(B16;B4:u32;B2:u16;b3.q5:u8;b3.q5:u8;B2:u16;b3.q5:u8;b1:bool;b1.q6:bool;b1.q31:bool)",
        "s(B8;-:f32)", "s(B4;B4:f32)", "s(B8;-:f64)", "s(B4;B4:u16)", "s(B6;-:u16;k:u32;B4:i32)", "s(B2;k.b7:u8;-:i16;k:e(u8;0d;1))",
        "s(B5;B5:a(5,u8))", "s(B6;B6:a(3,u16))", "s(B3;B3:t(u8,u16))", "s(B2;b4:s(b4;b1:bool;b3:u8);b4:s(b3;b3:u8);B1:s(B1;b8:u8))",
        "s(B1;b3:s(b5;b5:u8);b5:u8)", "s(B4;B2.P1.Q1:u16)", "s(b24;b16.p8:u16)",
        "s(B1;b1.p1.P1:bool;b6:u8)", "s(B2;b1.q7.Q1:bool;b8:u8)", "s(B2;B2:unit)", "s(B3;B1:t(u8);B2:t(bool,bool))",
        // misfits: accepted by the macro, fail at run time
        "s(B2;B2:u32)", "s(B1;b4:e(u16;0;1);b4:u8)", "s(B1;B1:u16)", "s(B1;B1:unit)", "s(B2;B2:s(B3;B3:a(3,u8)))",
        // degenerate: array of zero-size elements
        "s(B1;B1:a(2,unit))",
        // readable only: u8/bool field of 16 bits (the write half of the derive overflows)
        "s(B2;B2:u8)", "s(B3;B2:bool;B1:u8)",
    ]
}

fn fixed_corpus_lines() -> Vec<&'static str> {
    vec![
        // witnesses of the former defect c19/implicit-enum-discriminant (fixed in parse_enum.rs): they must round-trip now
        "c19 rt e(u8;1/5/6;_) v1",
        "c19 unpack e(u8;1/5/6;_) 02",
        "c19 unpack e(u8;1/5/6;_) 07",
        "c19 rt e(u8;_;_c) v0",
        "c19 rt e(u8;_;_;_) v0",
        "c19 rt e(u8;_;_;_) v1",
        "c19 rt e(u8;_;_;_) v2",
        "c19 pack s(B3;b3:u8;b1.p2:bool;b2:e(u8;_;_;_);-:u16) [5,T,v2,4660]",
        "c19 unpack s(B3;b3:u8;b1.p2:bool;b2:e(u8;_;_;_);-:u16) a5341209",
        "c19 packto s(B3;b3:u8;b1.p2:bool;b2:e(u8;_;_;_);-:u16) [5,T,v2,4660] ffff",
        "c19 packto s(B3;b3:u8;b1.p2:bool;b2:e(u8;_;_;_);-:u16) [5,T,v2,4660] ffffffffff",
        "c19 packun s(B3;b3:u8;b1.p2:bool;b2:e(u8;_;_;_);-:u16) [5,T,v2,4660] ffff",
        "c19 unpack e(u8;_;_;_) 00",
        "c19 unpack e(u8;_;_;_) -",
        "c19 unpack e(i16;-2;5/7/9;_c) feff",
        "c19 unpack e(i16;-2;5/7/9;_c) 0700",
        "c19 unpack e(i16;-2;5/7/9;_c) 0a00",
        "c19 unpack e(i16;-2;5/7/9;_c) 0b00",
        "c19 pack e(i16;-2;5/7/9;_c) c-300",
        "c19 unpack a(3,u16) 010002000300ff",
        "c19 unpack t(u8,u16,bool) 01020003",
        "c19 unpack a(2,unit) 00",
        "c19 pack s(B1;b3:u8;b5:u8) [255,255]",
        "c19 rt s(B1;b4:i8;b4:i8) [-3,5]",
        "c19 rt s(B1;b3:bool;b5:u8) [T,31]",
        "c19 unpack s(B1;b3:bool;b5:u8) 04",
        "c19 rt bool T",
        "c19 unpack bool 01",
        "c19 rt s(B8;-:f32) [1065353216]",
        "c19 pack s(B2;B2:u32) [1]",
        "c19 unpack s(B2;B2:u32) 0102",
        "c19 unpack s(B2;B2:u8) 0102",
    ]
}

fn parse_corpus() -> Vec<&'static str> {
    vec![
        "s(B3;b3:u8;b1.p2:bool;b2:e(u8;_;_;_);-:u16)",
        "s(b8.B1;b8:u8)",
        "s(-;b8:u8)",
        "s(B1.n;b8:u8)",
        "s(n;b8:u8)",
        "s(b8.B1.n;b8:u8)",
        "s(B1;b8.B1:u8)",
        "s(B1;k.b8.B1:u8;b8:u8)",
        "s(B1;-:bool)",
        "s(B2;-:e(u16;0;1))",
        "s(B2;-:a(2,u8))",
        "s(B1;-:unit)",
        "s(B2;b12:u16;b4:u8)",
        "s(B2;b4:u8;B1:u8;b4:u8)",
        "s(B2;b4:u8;b8:u8;b4:u8)",
        "s(B2;b5:u8;b5:u8;b6:u8)",
        "s(B2;b9:u16;b7:u8)",
        "s(b20;b16.p4:u16)",
        "s(B1;b4:u8)",
        "s(b9;b8:u8)",
        "s(B0)",
        "s(b0)",
        "s(B1;b0:u8;b8:u8)",
        "s(B1;b4:u8;b0:bool;b4:u8)",
        "s(B2;b0.p8:u16;b8:u8)",
        "s(B4;B2:u8;B2:u16)",
        "s(B2;B2:bool)",
        "s(B3;b16:u8;b8:u8)",
        "s(B2;b15:u8;b1:bool)",
        "s(B16;-:u128)",
        "s(B16;-:i128)",
        "s(B8;-:f32)",
        "s(B4;-:f32)",
        "s(B2;k:x;-:u16)",
        "s(B2;k.p3.q5:u8;-:u16)",
        "s(B3;B2.P1:x)",
        "s(b3;b1.p1.q1:bool)",
        "s(B1;b1.p1.P1:bool;b6:u8)",
        "s(B2;b1.q7.Q1:bool;b7:u8)",
        "e(usize;1)",
        "e(isize;1)",
        "e(none;0;1)",
        "e(u128;0;1)",
        "e(i128;0)",
        "e(u8;1c;2c)",
        "e(i8;0/-1)",
        "e(i8;0/-1c)",
        "e(i16;3/5/-7;_c)",
        "e(u8;0;_c;_c)",
        "e(u8;0;1/2c)",
        "e(u8;0d;1d)",
        "e(u8;0d;1cd)",
        "e(u8;0/1c;2c)",
        "e(u8;0d;1d;_c;_c)",
        "e(none;0/1c;2c)",
        "e(usize;0d;1d)",
        "e(u8)",
        "e(u8;_;_;_)",
        "e(i16;-2;5/7/9;_c)",
        "e(u8;255;_)",
        "e(u8;300)",
    ]
}

/// Mutations of a valid struct layout towards what the macro must refuse (or accept differently).
fn mutate_struct(rng: &mut Rng, s: &StructTy) -> StructTy {
    let mut m = s.clone();
    let nf = m.fields.len();
    let fi = rng.below(nf.max(1) as u64) as usize;
    match rng.below(16) {
        0 => {
            m.attrs.bits = Some(struct_width(s));
            m.attrs.bytes = Some(struct_width(s).div_ceil(8));
        }
        1 => {
            m.attrs.bits = None;
            m.attrs.bytes = None;
        }
        2 => m.attrs.unnamed = true,
        3 if nf > 0 => {
            let w = field_width(&m.fields[fi].0, &m.fields[fi].1).unwrap_or(8);
            m.fields[fi].0.bits = Some(w);
            m.fields[fi].0.bytes = Some(w.div_ceil(8));
        }
        4 if nf > 0 => {
            m.fields[fi].0.bits = None;
            m.fields[fi].0.bytes = None;
        }
        5 if nf > 0 => {
            // shift everything behind by a few bits
            let (a, t) = (Attrs { bits: Some(rng.range(1, 7)), ..Attrs::default() }, Ty::Prim("u8"));
            m.fields.insert(fi, (a, t));
        }
        6 if nf > 0 => {
            let w = field_width(&m.fields[fi].0, &m.fields[fi].1).unwrap_or(8);
            m.fields[fi].0.bytes = None;
            m.fields[fi].0.bits = Some((w + rng.range(1, 9)).max(1));
        }
        7 if nf > 0 => {
            let w = field_width(&m.fields[fi].0, &m.fields[fi].1).unwrap_or(8);
            m.fields[fi].0.bytes = None;
            m.fields[fi].0.bits = Some(w.saturating_sub(rng.range(1, 9)));
        }
        8 => {
            let w = struct_width(s);
            m.attrs.bytes = None;
            m.attrs.bits = Some(if rng.chance(1, 2) { w + rng.range(1, 9) } else { w.saturating_sub(rng.range(1, 9)) });
        }
        9 if nf > 0 => m.fields[fi].0.pre_skip = Some(rng.range(1, 12)),
        10 if nf > 0 => m.fields[fi].0.post_skip = Some(rng.range(1, 12)),
        11 if nf > 0 => {
            m.fields[fi].0.bits = None;
            m.fields[fi].0.bytes = Some(rng.range(2, 3));
            m.fields[fi].1 = Ty::Prim(if rng.chance(1, 2) { "u8" } else { "bool" });
        }
        12 if nf > 0 => m.fields[fi].0.skip = !m.fields[fi].0.skip,
        13 if nf > 0 => {
            m.fields[fi].1 = Ty::Prim(*rng.pick(&["u128", "i128", "f32", "u64", "bool", "u8"]));
            if rng.chance(1, 2) {
                m.fields[fi].0.bits = None;
                m.fields[fi].0.bytes = None;
            }
        }
        14 if nf > 0 => {
            m.fields[fi].0.bytes = None;
            m.fields[fi].0.bits = Some(0);
        }
        _ => {
            if nf > 1 {
                let j = rng.below(nf as u64) as usize;
                m.fields.swap(fi, j);
            } else {
                m.attrs.unnamed = true;
            }
        }
    }
    m
}

fn mutate_enum(rng: &mut Rng, e: &EnumTy) -> EnumTy {
    let mut m = e.clone();
    let n = m.variants.len();
    let vi = rng.below(n.max(1) as u64) as usize;
    match rng.below(10) {
        9 if n > 0 => m.variants[vi].alts.push(-(rng.below(100) as i128) - 1),
        0 => m.repr = "none".into(),
        1 => m.repr = rng.pick(&["usize", "isize"]).to_string(),
        2 => m.repr = rng.pick(&["u128", "i128"]).to_string(),
        3 => {
            m.variants.push(Variant { disc: None, alts: vec![], catch_all: true, default: false });
            m.variants.push(Variant { disc: None, alts: vec![], catch_all: true, default: false });
        }
        4 if n > 0 => {
            m.variants[vi].catch_all = true;
            m.variants[vi].alts = vec![rng.below(50) as i128];
        }
        5 if n > 0 => {
            m.variants[vi].default = true;
            m.variants.push(Variant { disc: None, alts: vec![], catch_all: false, default: true });
        }
        6 if n > 0 => m.variants[vi].catch_all = true,
        7 if n > 0 => m.variants[vi].disc = Some(rng.below(100000) as i128 - 500),
        _ => {
            m.repr = "none".into();
            m.variants.push(Variant { disc: None, alts: vec![1], catch_all: true, default: true });
        }
    }
    m
}

// =====================================================================================================
// Monitors: every answer of the real code against the independent reference
// =====================================================================================================

fn show_res(r: &Result<Val, &'static str>) -> String {
    match r {
        Ok(v) => format!("ok:{}", v.show()),
        Err(e) => format!("err:{e}"),
    }
}

fn nontrivial_type(t: &Ty) -> bool {
    match t {
        Ty::Struct(s) => {
            let (lay, _) = layout(s);
            let real: Vec<&FieldLay> = lay.iter().filter(|l| !l.skip).collect();
            real.len() >= 2 && real.iter().any(|l| l.start % 8 != 0 || l.width % 8 != 0)
        }
        Ty::Enum(e) => e.variants.iter().any(|v| !v.alts.is_empty() || v.catch_all || v.default),
        _ => false,
    }
}

fn outcome_kind(ans: &str) -> String {
    if let Some(e) = ans.strip_prefix("err:") {
        format!("outcome:err:{e}")
    } else if ans.starts_with("ok") {
        if ans.ends_with("|panic") {
            "outcome:ok|panic".into()
        } else if let Some(i) = ans.find("|err:") {
            format!("outcome:ok|{}", &ans[i + 1..])
        } else {
            "outcome:ok".into()
        }
    } else {
        format!("outcome:{ans}")
    }
}

fn buf_class(n: usize, len: usize) -> &'static str {
    if n == 0 && len > 0 {
        "empty"
    } else if n + 1 == len {
        "len-1"
    } else if n < len {
        "short"
    } else if n == len {
        "exact"
    } else {
        "longer"
    }
}

fn monitor(line: &str, ans: &str, layouts: &BTreeMap<String, Ty>, rep: &mut Report) {
    let tk: Vec<&str> = line.split(' ').collect();
    if tk.len() < 3 {
        return;
    }
    let op = tk[1];
    rep.hit(&format!("op:{op}"));
    rep.hit(&outcome_kind(ans));
    if op == "parse" {
        return;
    }
    let Some(mut ty) = parse_ty(tk[2]) else { return };
    if op == "buflen" {
        // `EtherCrabWireSized` of a hand-written impl: PACKED_LEN must be the declared packed length; buffer() has that
        // many bytes — except `[$ty; N]`, whose Buffer is `[u8; N]` (array_buffer_shorter_counterexample; C15 finding)
        let want_len = packed_len(&ty);
        let parts: Vec<&str> = ans.split(':').collect();
        match (parts.first(), parts.get(1).and_then(|x| x.parse::<usize>().ok()), parts.get(2).and_then(|x| x.parse::<usize>().ok())) {
            (Some(&"ok"), Some(b), Some(p)) => {
                if p != want_len {
                    rep.fail("c19/impl-packed-len", &format!("PACKED_LEN = {p}, the declared layout has {want_len} bytes"), line);
                } else if b != p {
                    match &ty {
                        Ty::Arr(n, e) if b == *n && packed_len(e) > 1 => rep.hit("buffer:array-of-wide-elements-shorter-than-packed-len"),
                        _ => rep.fail("c19/impl-buffer-len", &format!("buffer() has {b} bytes, PACKED_LEN = {p}"), line),
                    }
                } else {
                    rep.hit("buffer:packed-len");
                }
            }
            _ => rep.fail("c19/impl-buffer-len", &format!("answered {ans}"), line),
        }
        return;
    }
    if let Ty::Named(n) = &ty {
        rep.hit(&format!("incrate:{n}"));
        match layouts.get(n) {
            Some(t) if !t.contains_x() => ty = t.clone(),
            _ => return,
        }
    }
    let len = packed_len(&ty);
    let (mf, dg) = (misfit(&ty), degenerate(&ty));
    if mf {
        rep.hit("misfit");
    }
    if nontrivial_type(&ty) {
        rep.nontrivial.insert(line.to_string());
    }
    let implicit = contains_implicit_enum(&ty);
    match op {
        "pack" | "rt" => {
            let Some(v) = tk.get(3).and_then(|s| parse_val(s)) else { return };
            if mf {
                return;
            }
            let Some(img) = ref_pack(&ty, &v, Num::Rustc) else { return };
            let fit = fits(&ty, &v);
            if !fit {
                rep.hit("value:overwide");
            }
            let first = ans.split('|').next().unwrap_or("");
            if first != format!("ok:{}", hex(&img)) {
                rep.fail("c19/pack-layout", &format!("packed image {first}, declared layout gives ok:{}", hex(&img)), line);
                return;
            }
            if op == "rt" {
                let second = ans.split_once('|').map(|x| x.1).unwrap_or("");
                if second == "panic" && !dg {
                    rep.fail("c19/unpack-panic", "unpack of the packed image panicked", line);
                    return;
                }
                if !fit {
                    return;
                }
                let norm = normalize(&ty, &v);
                if ref_unpack(&ty, &img, Num::Rustc) != Ok(norm.clone()) {
                    rep.hit("value:noncanonical");
                    return;
                }
                if second != format!("ok:{}", norm.show()) {
                    if implicit && second == show_res(&ref_unpack(&ty, &img, Num::Macro)) {
                        rep.fail("c19/implicit-enum-discriminant", &format!("round trip of {} gives {second}: implicit discriminants are numbered from 1 on the read side", norm.show()), line);
                    } else {
                        rep.fail("c19/roundtrip", &format!("round trip of {} gives {second}", norm.show()), line);
                    }
                }
            }
        }
        "packto" | "packun" => {
            let Some(v) = tk.get(3).and_then(|s| parse_val(s)) else { return };
            let Some(dst) = tk.get(4).and_then(|s| unhex(s)) else { return };
            rep.hit(&format!("dst:{}", buf_class(dst.len(), len)));
            if dst.len() < len {
                if op == "packto" {
                    if ans != "err:WriteBufferTooShort" {
                        rep.fail("c19/pack-to-slice-short", &format!("destination of {} < {len} bytes answered {ans}", dst.len()), line);
                    }
                } else if ans != "panic" {
                    rep.fail("c19/pack-to-slice", &format!("unchecked pack into {} < {len} bytes answered {ans}", dst.len()), line);
                }
                return;
            }
            if mf {
                return;
            }
            let Some(img) = ref_pack(&ty, &v, Num::Rustc) else { return };
            if !fits(&ty, &v) {
                rep.hit("value:overwide");
            }
            let mut after = img.clone();
            after.extend_from_slice(&dst[len..]);
            let want = format!("ok:{}:{len}", hex(&after));
            if ans != want {
                rep.fail("c19/pack-to-slice", &format!("answered {ans}, declared layout gives {want}"), line);
            }
        }
        "unpack" | "status" | "repack" => {
            let Some(buf) = tk.get(3).and_then(|s| unhex(s)) else { return };
            rep.hit(&format!("buf:{}", buf_class(buf.len(), len)));
            if ty.impl_only() && op != "repack" {
                monitor_impl_unpack(line, op, &ty, &buf, ans, rep);
                return;
            }
            if dg {
                rep.hit("degenerate");
                return;
            }
            if ans == "panic" {
                // a misfit subject panics in the pack half of `repack`
                if !(mf && op == "repack") {
                    rep.fail("c19/unpack-panic", "unpack panicked", line);
                }
                return;
            }
            if buf.len() < len && !matches!(ty, Ty::Tup(_) | Ty::HVec(..) | Ty::HStr(_)) {
                if ans != "err:ReadBufferTooShort" {
                    rep.fail("c19/short-buffer", &format!("buffer of {} < {len} bytes answered {ans}", buf.len()), line);
                }
                return;
            }
            if mf {
                return;
            }
            let expect = |num: Num| -> String {
                let r = ref_unpack(&ty, &buf, num);
                match (op, &r) {
                    ("unpack", _) => show_res(&r),
                    ("status", Ok(_)) => "ok".into(),
                    ("repack", Ok(v)) => match ref_pack(&ty, v, Num::Rustc) {
                        Some(b) => format!("ok:{}", hex(&b)),
                        None => "ref-pack-failed".into(),
                    },
                    (_, Err(e)) => format!("err:{e}"),
                    _ => String::new(),
                }
            };
            let want = expect(Num::Rustc);
            if ans != want {
                if implicit && ans == expect(Num::Macro) {
                    rep.fail("c19/implicit-enum-discriminant", &format!("answered {ans}, declared layout (rustc numbering) gives {want}"), line);
                } else {
                    rep.fail("c19/unpack-layout", &format!("answered {ans}, declared layout gives {want}"), line);
                }
            }
            if let (Ty::Enum(e), "unpack") = (&ty, op) {
                let raw = le_val(&buf[..len], repr_signed(&e.repr));
                let declared = [Num::Rustc, Num::Macro].iter().any(|n| read_arms(e, *n).iter().any(|(_, d)| *d == raw));
                if !declared {
                    rep.hit("enum:undefined-raw");
                    let want = if has_catch_all(e) {
                        format!("ok:c{raw}")
                    } else if let Some(i) = e.variants.iter().position(|v| v.default) {
                        format!("ok:v{i}")
                    } else {
                        "err:InvalidValue".into()
                    };
                    if ans != want {
                        rep.fail("c19/undefined-enum-value", &format!("undefined raw value {raw} answered {ans}, expected {want}"), line);
                    }
                }
            }
        }
        _ => {}
    }
}

/// Input-distribution histogram of one generated subject.
fn hit_subject(t: &Ty, rep: &mut Report) {
    let (r, w) = (can_read(t), can_write(t));
    let kind = match t {
        Ty::Struct(_) => "struct",
        Ty::Enum(_) => "enum",
        Ty::Arr(..) => "array",
        Ty::Tup(_) => "tuple",
        Ty::HVec(..) => "heapless-vec",
        Ty::HStr(_) => "heapless-string",
        _ => "primitive",
    };
    rep.hit(&format!("subject:{kind}"));
    rep.hit(&format!(
        "derive:{}",
        match (flavour_of(t), r, w) {
            (Flavour::Packed, ..) => "ReadWrite+repr(C,packed)",
            (Flavour::Split, ..) => "Write-only+Read-only pair",
            (_, true, true) => "ReadWrite",
            (_, true, false) => "Read-only",
            (_, false, true) => "Write-only",
            _ => "none",
        }
    ));
    match t {
        Ty::Struct(s) => {
            let (lay, total) = layout(s);
            rep.hit(&format!("fields:{}", s.fields.len()));
            rep.hit(if s.attrs.bits.is_some() { "struct-width:bits" } else { "struct-width:bytes" });
            rep.hit(if total % 8 == 0 { "struct-total:whole-bytes" } else { "struct-total:partial-byte" });
            rep.hit(&format!("struct-bytes:{}", match total.div_ceil(8) { 0..=1 => "1", 2..=4 => "2-4", 5..=16 => "5-16", _ => "17+" }));
            for ((a, ft), l) in s.fields.iter().zip(&lay) {
                let k = match ft {
                    Ty::Prim(p) => p.to_string(),
                    Ty::Enum(e) => format!("enum-{}", e.repr),
                    Ty::Struct(_) => "nested-struct".into(),
                    Ty::Arr(_, e) if matches!(**e, Ty::Prim("u8")) => "array-u8".into(),
                    Ty::Arr(_, e) if matches!(**e, Ty::Prim(_)) => "array-prim".into(),
                    Ty::Arr(..) => "array-item".into(),
                    Ty::Tup(_) => "tuple".into(),
                    _ => "other".into(),
                };
                if a.skip {
                    rep.hit(&format!("field-kind:skip:{k}"));
                    continue;
                }
                rep.hit(&format!("field-kind:{k}"));
                rep.hit(&format!("field-width:{}", match l.width { 0..=8 => l.width.to_string(), 9..=16 => "16".into(), 17..=32 => "17-32".into(), 33..=64 => "33-64".into(), _ => "65+".into() }));
                rep.hit(&format!("field-offset:{}", l.start % 8));
                rep.hit(if a.bits.is_some() { "field-attr:bits" } else if a.bytes.is_some() { "field-attr:bytes" } else { "field-attr:auto" });
                if a.pre_skip.is_some() { rep.hit("skip:pre_skip"); }
                if a.pre_skip_bytes.is_some() { rep.hit("skip:pre_skip_bytes"); }
                if a.post_skip.is_some() { rep.hit("skip:post_skip"); }
                if a.post_skip_bytes.is_some() { rep.hit("skip:post_skip_bytes"); }
                if l.width > 8 && (packed_len(ft) as u64) < l.width / 8 { rep.hit("field:narrower-than-slot"); }
                if l.width <= 8 && matches!(ft, Ty::Struct(s2) if struct_width(s2) > l.width) { rep.hit("field:nested-wider-than-slot"); }
            }
        }
        Ty::Enum(e) => {
            rep.hit(&format!("enum-repr:{}", e.repr));
            rep.hit(&format!("enum-variants:{}", e.variants.len()));
            let imp = e.variants.iter().filter(|v| v.disc.is_none()).count();
            rep.hit(if imp == 0 { "enum-discs:explicit" } else if imp == e.variants.len() { "enum-discs:implicit" } else { "enum-discs:mixed" });
            if e.variants.iter().any(|v| !v.alts.is_empty()) { rep.hit("enum:alternatives"); }
            if has_catch_all(e) { rep.hit("enum:catch_all"); }
            if e.variants.iter().any(|v| v.default) { rep.hit("enum:default"); }
            if e.variants.iter().any(|v| v.disc.map_or(false, |d| d < 0)) { rep.hit("enum:negative-disc"); }
            let arms = read_arms(e, Num::Rustc);
            let mut seen = BTreeSet::new();
            if arms.iter().any(|(_, d)| !seen.insert(*d)) { rep.hit("enum:colliding-arms"); }
        }
        _ => {}
    }
}

// =====================================================================================================
// In-crate derived types (hook `ethercrab::verif::wire`, layouts from the extractor's layouts.txt)
// =====================================================================================================

fn incrate_cases(tier: &str, seed: u64, layouts: &[(String, String, Ty)], rep: &mut Report) -> Vec<Case> {
    let thorough = tier == "thorough";
    let mut rng = Rng::new(seed ^ 0x1c19);
    let hook = ethercrab::verif::wire::WIRE_TYPES;
    let mut lines = Vec::new();
    for (id, _) in hook {
        if !layouts.iter().any(|(n, ..)| n == id) {
            rep.notes.push(format!("in-crate: hook knows {id} but layouts.txt does not"));
        }
    }
    for (id, rw, ty) in layouts {
        let Some((_, has_write)) = hook.iter().find(|(n, _)| n == id) else {
            rep.notes.push(format!("in-crate: {id} is in layouts.txt but not reachable through the hook (function-local or private)"));
            continue;
        };
        if ty.contains_x() {
            rep.hit("incrate:skipped-unknown-field-type");
            rep.notes.push(format!("in-crate: {id} has a field type the extractor cannot resolve; skipped"));
            continue;
        }
        if (rw == "RW") != *has_write {
            rep.notes.push(format!("in-crate: {id} is {rw} in layouts.txt but the hook says write = {has_write}"));
        }
        let op = if *has_write { "repack" } else { "status" };
        let len = packed_len(ty);
        let mut lens = vec![0, len.saturating_sub(1), len, len, len + 3];
        if thorough {
            lens.extend([len; 12]);
            lens.extend([len + 1, len / 2]);
        }
        for l in lens {
            lines.push(format!("c19 {op} @{id} {}", rand_hex(&mut rng, l)));
        }
        // valid images (reference packing of random values) with the undeclared bits randomised
        let mask = declared_mask(ty);
        for _ in 0..if thorough { 24 } else { 6 } {
            let v = gen_val(&mut rng, ty, None);
            if let Some(mut b) = ref_pack(ty, &v, Num::Rustc) {
                for (k, m) in mask.iter().enumerate() {
                    if !*m && rng.chance(1, 2) && k / 8 < b.len() {
                        b[k / 8] ^= 1 << (k % 8);
                    }
                }
                lines.push(format!("c19 {op} @{id} {}", hex(&b)));
            }
        }
        if let Ty::Enum(e) = ty {
            for d in enum_probe_values(e, &mut rng) {
                lines.push(format!("c19 {op} @{id} {}", hex(&le_bytes(d, len))));
            }
        }
    }
    lines.iter().filter_map(|l| case_of_line(l)).collect()
}

/// `repack @id <hex>` / `status @id <hex>` on the real in-crate type.
fn run_incrate(line: &str, rep: &mut Report) -> String {
    let tk: Vec<&str> = line.split(' ').collect();
    if tk.len() != 4 {
        return "bad-case".into();
    }
    let (op, id) = (tk[1], tk[2].trim_start_matches('@'));
    let Some(buf) = unhex(tk[3]) else { return "bad-case".into() };
    let mut out = vec![0xa5u8; 96];
    let r = std::panic::catch_unwind(std::panic::AssertUnwindSafe(|| ethercrab::verif::wire::unpack_repack(id, &buf, &mut out)));
    match r {
        Err(_) => "panic".into(),
        Ok(None) => "unknown-id".into(),
        Ok(Some(Err(e))) => format!("err:{}", match e {
            ethercrab_wire::WireError::ReadBufferTooShort => "ReadBufferTooShort",
            ethercrab_wire::WireError::WriteBufferTooShort => "WriteBufferTooShort",
            ethercrab_wire::WireError::InvalidValue => "InvalidValue",
            ethercrab_wire::WireError::ArrayLength => "ArrayLength",
            ethercrab_wire::WireError::InvalidUtf8 => "InvalidUtf8",
        }),
        Ok(Some(Ok(n))) => {
            if out[n.min(96)..].iter().any(|b| *b != 0xa5) {
                rep.fail("c19/pack-to-slice", "pack_to_slice changed bytes behind the returned slice", line);
            }
            match op {
                "repack" => format!("ok:{}", hex(&out[..n.min(96)])),
                _ => "ok".into(),
            }
        }
    }
}

// =====================================================================================================
// Main
// =====================================================================================================

fn load_layouts(rep: &mut Report) -> Vec<(String, String, Ty)> {
    let path = format!("{HARNESS_DIR}/gen-types/layouts.txt");
    let mut out = Vec::new();
    let Ok(text) = std::fs::read_to_string(&path) else {
        rep.notes.push(format!("{path} missing: in-crate types not exercised"));
        return out;
    };
    for l in text.lines() {
        let f: Vec<&str> = l.split(' ').collect();
        if f.len() < 5 {
            continue;
        }
        match parse_ty(f[4]) {
            Some(t) => out.push((f[0].to_string(), f[3].to_string(), t)),
            None => rep.notes.push(format!("layouts.txt: cannot parse T-expr of {}", f[0])),
        }
    }
    out
}

fn generate(tier: &str, seed: u64, rep: &mut Report) -> Vec<Case> {
    let thorough = tier == "thorough";
    let mut rng = Rng::new(seed ^ 0xc19);
    let mut lines: Vec<String> = Vec::new();
    let mut subjects: Vec<Ty> = Vec::new();
    let mut seen: BTreeSet<String> = BTreeSet::new();
    let mut add_subject = |t: &Ty, subjects: &mut Vec<Ty>| {
        let mut items = Vec::new();
        collect_items(t, &mut items);
        if !matches!(t, Ty::Struct(_) | Ty::Enum(_)) {
            items.insert(0, t.clone());
        }
        for it in items {
            if seen.insert(it.show()) {
                subjects.push(it);
            }
        }
    };
    // corpus first
    lines.extend(fixed_corpus_lines().iter().map(|s| s.to_string()));
    for s in fixed_corpus_subjects() {
        let t = parse_ty(s).unwrap_or_else(|| panic!("corpus subject {s}"));
        add_subject(&t, &mut subjects);
    }
    // random definitions
    let (n_struct, n_enum, n_agg) = if thorough { (900, 420, 50) } else { (95, 50, 10) };
    for i in 0..n_struct {
        let allow = Allow { ro: rng.chance(1, 6), misfit: rng.chance(1, 20) };
        let depth = if thorough && i % 10 == 0 { 3 } else if i % 3 == 0 { 2 } else { 1 };
        let t = Ty::Struct(gen_struct(&mut rng, depth, allow, 12));
        add_subject(&t, &mut subjects);
    }
    for _ in 0..n_enum {
        let t = Ty::Enum(gen_enum(&mut rng, None, None));
        add_subject(&t, &mut subjects);
    }
    for _ in 0..n_agg {
        // arrays / tuples over generated items
        let el = if rng.chance(1, 2) {
            Ty::Enum(gen_enum(&mut rng, None, None))
        } else {
            Ty::Struct(gen_struct(&mut rng, 0, Allow { ro: false, misfit: false }, 4))
        };
        let t = if rng.chance(1, 2) {
            Ty::Arr(rng.range(0, 4) as usize, Box::new(el))
        } else {
            let mut c = vec![el];
            for _ in 0..rng.range(0, 3) {
                c.push(Ty::Prim(*rng.pick(&["u8", "u16", "bool", "i32", "f64"])));
            }
            if rng.chance(1, 2) {
                c.reverse();
            }
            Ty::Tup(c)
        };
        add_subject(&t, &mut subjects);
    }
    for t in &subjects {
        hit_subject(t, rep);
        subject_cases(&mut rng, t, thorough, &mut lines);
        if matches!(t, Ty::Struct(_) | Ty::Enum(_)) {
            lines.push(format!("c19 parse {}", t.show()));
        }
    }
    // the hand-written impls of impls.rs (own random stream: the cases above do not depend on it)
    {
        let mut frng = Rng::new(seed ^ 0x19c19_1397);
        lines.extend(impl_family_corpus_lines().iter().map(|s| s.to_string()));
        let mut fam: Vec<Ty> = impl_family_corpus_subjects().iter().map(|s| parse_ty(s).unwrap_or_else(|| panic!("family subject {s}"))).collect();
        fam.extend(impl_family_random_subjects(&mut frng, thorough));
        let mut fseen: BTreeSet<String> = BTreeSet::new();
        for t in &fam {
            if !fseen.insert(t.show()) {
                continue;
            }
            hit_subject(t, rep);
            rep.hit(&format!("impl-subject:{}", impl_kind(t)));
            impl_family_cases(&mut frng, t, thorough, &mut lines);
        }
    }
    // invalid layouts: fixed corpus + random mutations of valid ones
    for p in parse_corpus() {
        lines.push(format!("c19 parse {p}"));
    }
    let items: Vec<&Ty> = subjects.iter().filter(|t| matches!(t, Ty::Struct(_) | Ty::Enum(_))).collect();
    let n_mut = if thorough { 2500 } else { 260 };
    for _ in 0..n_mut {
        let base = *rng.pick(&items);
        let m = match base {
            Ty::Struct(s) => Ty::Struct(mutate_struct(&mut rng, s)),
            Ty::Enum(e) => Ty::Enum(mutate_enum(&mut rng, e)),
            _ => continue,
        };
        rep.hit("parse:mutation");
        lines.push(format!("c19 parse {}", m.show()));
    }
    lines.iter().filter_map(|l| case_of_line(l)).collect()
}

fn main() {
    let args = ecverif::parse_args();
    let mut rep = Report::default();
    let layouts_list = load_layouts(&mut rep);
    let layouts: BTreeMap<String, Ty> = layouts_list.iter().map(|(n, _, t)| (n.clone(), t.clone())).collect();
    // Self-test of the monitors: C19_MONITOR_ONLY=<file of alternating case / answer lines> runs no code, only the
    // monitors on the given answers (to see which deviations they would report).
    if let Ok(f) = std::env::var("C19_MONITOR_ONLY") {
        let text = std::fs::read_to_string(&f).expect("monitor-only file");
        let l: Vec<&str> = text.lines().collect();
        for pair in l.chunks(2).filter(|p| p.len() == 2) {
            monitor(pair[0], pair[1], &layouts, &mut rep);
            rep.case(pair[0].to_string(), pair[1].to_string());
        }
        rep.write(&args.out, "c19");
        return;
    }
    let mut cases: Vec<Case> = if let Some(lines) = ecverif::replay_cases(&args) {
        lines.iter().filter(|l| l.starts_with("c19 ")).filter_map(|l| case_of_line(l)).collect()
    } else {
        let mut c = generate(&args.tier, args.seed, &mut rep);
        c.extend(incrate_cases(&args.tier, args.seed, &layouts_list, &mut rep));
        c
    };
    // drop value-level cases whose subject cannot be compiled (only possible in a hand-written replay file)
    cases.retain(|c| match &c.subject {
        Some(t) => {
            let ok = (can_read(t) || can_write(t)) && !t.contains_x();
            if !ok {
                rep.notes.push(format!("skipped (type cannot be compiled): {}", c.line));
            }
            ok
        }
        None => true,
    });
    let (gens, inc): (Vec<Case>, Vec<Case>) = cases.into_iter().partition(|c| !c.line.split(' ').nth(2).unwrap_or("").starts_with('@'));
    let max_subjects = 700;
    let answers = if gens.is_empty() { vec![] } else { run_generated(&gens, &args.out, max_subjects, &mut rep) };
    for (c, a) in gens.iter().zip(answers) {
        monitor(&c.line, &a, &layouts, &mut rep);
        rep.case(c.line.clone(), a);
    }
    for c in &inc {
        let a = run_incrate(&c.line, &mut rep);
        monitor(&c.line, &a, &layouts, &mut rep);
        rep.case(c.line.clone(), a);
    }
    rep.write(&args.out, "c19");
}
