/- ecdriver: reads one case per line on stdin, answers one line per case on stdout. -/
import EcModel.Drv.C04

open Ec.Drv

def dispatch (line : String) : String :=
  match (line.trimAscii.toString.splitOn " ") with
  | "c04" :: args => C04.handle args
  | _ => "bad-prop"

partial def loop (h : IO.FS.Stream) (out : IO.FS.Stream) : IO Unit := do
  let line ← h.getLine
  if line.isEmpty then return ()
  out.putStrLn (dispatch line)
  loop h out

def main : IO Unit := do
  let out ← IO.getStdout
  loop (← IO.getStdin) out
  out.flush
