"""Per-property configuration of ./check."""

PROPS = {
    "C04": {
        "lean_modules": ["EcModel.Props.C04"],
        "harness": ["c04"],
        "t1_facts": ["LEN_MASK", "ETHERCAT_ETHERTYPE", "MAINDEVICE_ADDR", "command constant", "Command::code"],
        "modelled": "Command::{code,pack,aprd,apwr}, PduFlags pack/unpack, PduHeader layout, EthercatFrameHeader::pdu, "
                    "FrameBox::init, CreatedFrame::{push_pdu,push_pdu_slice_rest,can_push_pdu_payload,mark_sendable}, "
                    "SendableFrame::as_bytes",
        "rule": "corpus of boundary programs, then random push programs (1-6 ops: push_pdu with all 11 command kinds, "
                "payload 0..room+20, length override below/equal/above, fill-the-rest of 0..2*cap bytes, can_push queries) "
                "for every frame size 28..1514 (thorough) or a stride (quick); real bytes are those handed to "
                "send_blocking's closure. non-trivial = frame with >= 2 accepted datagrams; distinct = distinct case line",
        "assumptions": [
            "frame size <= 2047+16 (property's own bound)",
            "payload type modelled as its packed byte string (EtherCrabWireWrite for &[u8])",
            "dynamic-size storage hook (verif::VerifDynStorage) mirrors PduStorage::as_ref's stride computation",
        ],
    },
}

PROPS["C05"] = {
    "lean_modules": ["EcModel.Props.C05"],
    "harness": ["c05"],
    "drivers": {"c05": "drv_seq"},
    "t1_facts": ["ETHERCAT_ETHERTYPE", "MAINDEVICE_ADDR", "LEN_MASK", "FrameState", "transition"],
    "modelled": "PduRx::receive_frame, EthernetFrame::{new_checked,ethertype,src_addr,payload}, EthercatFrameHeader::unpack, "
                "PduStorageRef::{frame_index_by_first_pdu_index,claim_receiving}, ReceivingFrame::mark_received, and (for the "
                "set-up of slot states) the whole sequential storage API in Slots.lean",
    "rule": "per case: 1/2/4 slots of 28..72 bytes; a random prefix of 0-30 real operations (alloc, pushes, mark_sendable, TX claim/"
            "send ok/partial/err, genuine responses, polls, drops, response reads, clock advances) puts the slots into reachable "
            "states; then 1-6 deliveries of: a genuine echo, truncated at any point, extended, own source MAC, other EtherType, "
            "EtherCAT length 0..2047, protocol nibble 0..15, index 0..255, lying datagram length, oversize payload, bit flip, raw "
            "noise, or a well-formed frame for an index nobody awaits; result token and full snapshot of every slot compared with the "
            "model; non-trivial = case in which at least one frame was accepted; distinct = distinct case line",
    "assumptions": [
        "sequential delivery (RX is one task: &mut self); interleavings with other tasks are C01/C02",
        "'never panics' of the implementation rests on the translation of which operations can panic (checked by catch_unwind on every generated case) ",
    ],
}

PROPS["C02"] = {
    "lean_modules": ["EcModel.Props.C02"],
    "harness": ["c02"],
    "drivers": {"c02": "drv_micro"},
    "t1_facts": ["FrameState", "transition"],
    "modelled": "every status / marker / counter / buffer access of src/pdu_loop/** at yield-site granularity (Micro.lean) and the "
                "status protocol as a token automaton (Lifecycle.lean): claim_created, mark_sendable, CreatedFrame::drop, claim_sending, "
                "mark_sent, release_sending_claim, claim_receiving, mark_received, ReceiveFrameFut::{poll,release}, ReceivedFrame::drop",
    "rule": "plans of 1-3 application threads (1-2 requests each: alloc, 1-3 pushes, mark_sendable, poll until complete, read via "
            "first_pdu/iterator/views incl. a nested request while a view is held), one TX thread (claim + send ok/partial/error) and "
            "one RX thread (genuine responses, duplicates, noise) over 1/2/4 slots; 1-4 baton schedules per plan (random thread choice "
            "with bursts of 0-40 steps, weights against pure spinning), every step = code between two yield sites of the real code; "
            "after EVERY step the full storage snapshot (state, marker, used, bytes of every slot, both counters) is hashed and compared "
            "with the Lean micro-step model replaying the same schedule; monitors on the real run: access windows derived from the "
            "status accesses never overlap, no panic, every slot free after all handles are dropped. non-trivial = a response was "
            "accepted in the run; distinct = distinct (plan, schedule)",
    "assumptions": [
        "sequentially consistent interleavings at yield-site granularity (one thread runs at a time); memory Ordering arguments, "
        "compiler reordering and tearing of buffer bytes are not modelled",
        "buffer accesses occur only between a party's claim and release status accesses (true by code structure; not extracted)",
        "deadline expiry / abandonment while TX or RX is inside the buffer is C06's window (Safe hypothesis of inv_reach)",
    ],
}

NOT_APPLICABLE = {}

MANIFEST_TEXT = {
    "C02": {
        "text": "The slot status protocol is a token automaton whose events are exactly the status-access sites regenerated from "
                "/repo (events_match_sites: function, compare-exchange vs store, from/to). inv_step / inv_reach: for EVERY sequence of "
                "events by any number of parties that does not abandon inside the TX/RX window, the status word determines who holds "
                "which handle; mutual_exclusion (at most one party may touch the buffer), no_realloc_while_held, lifecycle_order "
                "(every change is an edge of the documented lifecycle). micro_status_steps_are_sites ties the executable micro-step "
                "model to the sites; the micro-step model is diffed against the real code after every shared access under controlled schedules.",
        "note": "Trusted: Lean kernel; the hand translation of which handle may perform which status access (Rust ownership) and of "
                "the micro-steps (validated by per-step snapshot comparison on the schedules run); sequential consistency only. "
                "Abandonment inside the window is excluded here (property says so) and shown to break the invariant by "
                "abandon_inside_counterexample (C06).",
        "technique": "Lean 4 proof (invariant over all event sequences of a token automaton tied to extracted sites) + schedule-controlled differential correspondence",
    },
    "C05": {
        "text": "Theorems for every byte list and every storage state (any slot count/contents): rx_total (no panic branch "
                "reachable), rx_cases (complete characterisation: either nothing changes or exactly the first slot in Sent whose "
                "marker equals the frame's first index is claimed and receives exactly the declared payload inside its PDU area), "
                "rx_frame_condition, rx_rejects_strangers, rx_accepts_only_awaiting, rx_ignores, rx_copy_bounded. Tied to the code "
                "by regenerated constants and by diffing result + full slot snapshots on mutated frames in reachable slot states.",
        "note": "Trusted: Lean kernel; hand translation of receive_frame (incl. which slice operations can panic); the set-up "
                "operations' model is validated by the same correspondence. An oversize payload leaves the accepted slot in RxBusy "
                "(allowed by the property; recovered by the deadline, C06).",
        "technique": "Lean 4 proof (case analysis of a total model, all inputs and states) + differential correspondence",
    },
    "C04": {
        "text": "Theorem frame_wellformed: for every frame size <= 2063 and every sequence of push_pdu / push_pdu_slice_rest "
                "calls with any index values, the bytes given to the driver equal an independently written encoder applied to "
                "exactly the accepted datagrams (broadcast dst, MainDevice src, 0x88A4, exact length field, zero-padded data, "
                "zero irq/wkc, more-follows on all but the last); frame_fits, push_refused_iff, rest_reports, aprd/apwr negation. "
                "Unbounded in program length and contents; proved by an invariant over the push list. Tied to the code by "
                "regenerated constants/command codes and by diffing model vs real bytes for every frame size 28..1514.",
        "note": "Trusted: Lean kernel; hand translation of the push/flag-patch code (validated only on the generated cases); "
                "the EtherCrabWireWrite payload is modelled as its packed bytes; frame sizes above 2063 excluded by the property.",
        "technique": "Lean 4 proof (invariant by induction over push operations) + differential correspondence",
    },
}


PROPS["C18"] = {
    "lean_modules": ["EcModel.Props.C18"],
    "harness": ["c18"],
    "both_profiles": True,
    "t1_facts": ["dc:", "Dc.lean"],
    "modelled": "SubDeviceGroup::configure_dc_sync (reference check, dc_devices filter, u32 range checks, start-time rounding with "
                "the unchecked u64 +,/,*, the five register writes per device, Sync01 arm with its u64 conversion, HasDc incl. the "
                "`as u64` truncation of the shift) and the tail of tx_rx_dc (time % period, (period - offset) + shift), both in "
                "checked and wrapping build modes; register addresses / flag constants / expression shapes regenerated from /repo",
    "rule": "corpus of boundary configurations (period 1 and u32::MAX, sum = 2^64-1 and 2^64, range errors, no reference, nobody "
            "wants DC, period 0, unchecked shift, SYNC1 beyond u64), then random groups of 1-8 devices with every DC support level "
            "x DcSync setting, periods/delays/shifts 1..u32::MAX and just above (plus rare far-out values), reference times over all "
            "of u64 with emphasis on 0, 2^32, 2^63, u64::MAX-delay(+1), exact multiples; 0-4 cycles per configuration with times "
            "over all of u64 incl. multiples of the period +-1. The REAL configure_dc_sync / tx_rx_dc run through the public API "
            "against a register-level responder; compared: result token, every FPWR (address, register, bytes) in order, and per "
            "cycle (time, offset, wait, FRMW address). Dev profile and (thorough) release profile. non-trivial = accepted "
            "configuration with >= 1 configured device and >= 1 cycle; distinct = distinct case line",
    "assumptions": [
        "every datagram is answered with working counter 1 (network errors/timeouts are other properties)",
        "the group is built by the hook verif::dc::dc_group with Default + SubDeviceGroupHandle::push as MainDevice::init does; "
        "the reference address is stored through MainDevice::verif_set_dc_reference",
        "reference time + delay >= 2^64 is rejected with IntegerTypeConversion before any write (fix of c18/start-time-add-overflow); start_time_window covers both cases",
        "shift <= 2^33 ns in cycle_arithmetic_quantifier (the property's 'and just above'); cycle_arithmetic itself needs only period + shift < 2^64",
    ],
}

MANIFEST_TEXT["C18"] = {
    "text": "Theorems over all inputs and both build modes: only_dc_devices_touched (every write, whatever the outcome, goes to a "
            "device that supports DC and enabled DcSync) and every_dc_device_configured; configure_ok (exact write sequence and "
            "HasDc for every in-range configuration); start_time_window (for 1 <= period <= u32::MAX, delay <= u32::MAX: either ref+delay < 2^64 and start % period = 0, "
            "ref+delay-period < start <= ref+delay, written as 8 LE bytes to 0x0990, or the call is rejected before any write); configure_total; "
            "range_errors; flags_match_mode (deactivate first, 0x03 / 0x07 last); cycle_times_written (0x09A0 = period, 0x09A4 iff "
            "Sync01); cycle_arithmetic (offset = time % period, wait = (period-offset)+shift, no panic for EVERY time, period >= 1, "
            "period+shift < 2^64); configured_group_cycles (end to end). Fixed finding: reference time + delay >= 2^64 used to panic / wrap; now rejected (start_time_overflow_rejected).",
    "note": "Trusted: Lean kernel; hand translation of configure_dc_sync and the tx_rx_dc tail (validated by running the real async "
            "code through PduTx/PduRx against a register-level responder, both profiles); network failures not modelled. Also "
            "recorded (outside the quantifier): sync0_shift is not range checked (shift_not_range_checked), period 0 divides by zero.",
    "technique": "Lean 4 proof (total model with explicit panic outcomes, both overflow modes) + differential correspondence on the real async code",
}

PROPS["C09"] = {
    "lean_modules": ["EcModel.Props.C09"],
    "harness": ["c09"],
    "t1_facts": ["init:"],
    "modelled": "MainDevice::{init, count_subdevices, reset_subdevices, wait_for_state}, Command::{apwr, brd} addressing, "
                "SubDevice::new + SubDeviceRef::{wait_for_state, set_eeprom_mode, request_subdevice_state} (which device answers "
                "and the projected command sequence), heapless Deque/Vec/FnvIndexMap capacity behaviour (incl. IndexMap::into_iter "
                "popping from the back), SubDeviceGroupHandle::push, SubDeviceGroupRef::into_pre_op / configure_mailboxes and "
                "dc::{latch_dc_times, configure_dc, run_dc_static_sync} as command sequences; environment = EcModel.Net "
                "(auto-increment / configured-address / broadcast executors, working counter)",
    "rule": "corpus (empty network, one device of each kind, n = MAX, MAX+1, MAX+2 for MAX in {2,4,8,16}, all devices holding the "
            "same stale address incl. 0x1000, stale addresses = assigned range reversed / shifted by one, group overflow, unknown "
            "SubDevice, unnamed 8-byte-SII mailbox devices of every DC flavour), then random line networks of 0..MAX+2 simulated "
            "devices (coupler / bit-wide DI / DO / CoE with mailbox; stale station addresses random, duplicated or inside the "
            "assigned range; stale AL states incl. error flag; 4/8-byte SII; with/without General category or name; DC none/"
            "ref-only/32/64; filters into 1..3 groups of 6 capacity triples; 0..3 static sync iterations) run through the REAL "
            "MainDevice::init against harness/src/sim. Compared with the model: result (groups with records / error kind), final "
            "station address and AL status registers of every device, command trace projected to KIND:target:register with SII "
            "interface accesses folded into one token and consecutive duplicates dropped. non-trivial = networks of >= 2 devices; "
            "distinct = distinct case line",
    "assumptions": [
        "ring of at most 65535 devices (the largest count a 16-bit working counter reports); the harness runs 0..18",
        "responsive devices in a line topology that accept AL requests at once (faults are C10/C11, topologies C17)",
        "a device without DC does not implement the 0x09xx block (BWR 0x0900 counts DC devices only)",
        "EEPROM content enters the model as the per-device DevInfo the harness derives from the device description, not by "
        "modelling the SII parser (C12/C13); the simulator (harness/src/sim) is the environment oracle",
        "SubDevice::index is not observable through the public API; the harness prints configured_address - 0x1000 for it",
    ],
}

MANIFEST_TEXT["C09"] = {
    "text": "Theorems over the hand-translated MainDevice::init on an abstract ring (EcModel.Net/Init), for every ring of "
            "1..65535 devices with arbitrary (duplicate) stale station addresses and AL states, every MAX_SUBDEVICES, group "
            "capacities and group filter: count_is_n (BRD working counter = n), address_assigned/address_at/addresses_distinct/"
            "address_no_wrap/address_wraps (position i ends with (0x1000+i) mod 2^16, pairwise distinct), phase1_complete + "
            "two_phase_sufficient (every APWR reaches only its own position and all of them precede configured-address traffic; "
            "afterwards a command to 0x1000+i is executed by device i only) and one_phase_crosstalk_counterexample (a single loop "
            "lets a stale duplicate answer too), init_ok/record_from_own_device/record_independent/each_device_one_group/"
            "group_is_filters_choice/all_preop, capacity_error (n > MAX => Err(Capacity), never Ok), init_no_panic, empty_network. "
            "Tied to the code by regenerated facts (register numbers, base address, the two separate loops, capacity error "
            "mappings: t1_init_shape/t1_registers) and by running the real init against a simulated segment and diffing result, "
            "final registers and projected command trace with the model; independent monitors for cross-talk, addresses, "
            "records, membership, PRE-OP, capacity.",
    "note": "Trusted: Lean kernel; the hand translation (validated only on generated networks of 0..18 devices); the simulated "
            "segment as environment; EEPROM parsing is abstracted to per-device DevInfo; line topology, responsive devices.",
    "technique": "Lean 4 proof (induction over the assignment / discovery / grouping loops) + differential correspondence on a simulated segment",
}

PROPS["C17"] = {
    "lean_modules": ["EcModel.Props.C17"],
    "harness": ["c17"],
    "both_profiles": True,
    "t1_facts": ["dc:", "dctopo:", "Dc.lean"],
    "known_keys_expected": ["c17/chain-delay-nondc-gap", "c17/port-time-wrap"],
    "modelled": "ports.rs Ports::{new,set_receive_times,open_ports,entry_port,last_port,has_free_downstream_port,next_assignable_port,"
                "assign_next_downstream_port,port_assigned_to,topology,is_last_port,total_propagation_time,"
                "intermediate_propagation_time_to,propagation_time_to}, SubDevice::is_child_of, dc.rs find_subdevice_parent (junction search restricted to junctions with a free downstream port; source shape regenerated), "
                "configure_subdevice_offsets (incl. the evaluated log arguments of this build configuration), "
                "assign_parent_relationships, write_dc_parameters (i64 wrapping_sub), configure_dc "
                "(latch as a function of the register values, reference selection, offset/delay writes)",
    "rule": "per tree: (1) `spec` line: the Rust physical oracle (event walk of the frame through the tree) vs the Lean "
            "specification EcModel/DcSpec.lean (reports, arrival times, true parents, true downstream ports); (2) `assign` line: the "
            "REAL assign_parent_relationships on the oracle's reports vs the Lean model; (3) `dc` line: the REAL configure_dc through "
            "PduTx/PduRx against a register responder (BWR 0x0900, reads 0x0918/0x0900, writes 0x0920/0x0928) vs the model. Trees: "
            "1-24 devices, 1-4 open ports, children on any of ports 3/1/2, link 10-2000 ns, processing/forwarding delays (equal or "
            "independent 0-900 ns), DC support all/mixed/contiguous, 32- and 64-bit clocks with offsets placing the port-0 latch at "
            "0, just after / just below / exactly at the 32-bit wrap; streams: trees of every shape (flat, arbitrary, junctions nested "
            "up to 4 deep inside non-last branches of the enclosing junction: everything must hold, nothing is excused by the shape), "
            "pure chains, a nested-junction stream (spines of 2-5 junctions), intra-device wrap, plus arbitrary inconsistent reports (any DL status incl. no "
            "open port, arbitrary times, 1-24 devices) and master times over u64 edges. Dev and (thorough) release profile. Compared: "
            "result token incl. WHICH panic, per device parent/delay/downstream ports, reference address, all register writes. "
            "non-trivial = case with >= 3 devices; distinct = distinct case line",
    "assumptions": [
        "devices are constructed by the hook verif::dc (Ports::new from the DL status, index = discovery position) exactly as SubDevice::new does",
        "Port.number is written only by Ports::new (T1 check), so Port::index() is the identity on array slots (port_index_total)",
        "build configuration without log/defmt: fmt::debug! evaluates its arguments (debug_print_ports calls topology())",
        "parent_is_true_parent: any tree shape; no 32-bit wrap between the latches of one DC device (known finding c17/port-time-wrap)",
        "chain_delay_exact_partial: DC-capable devices contiguous in frame order (non-DC only before the first / after the last), pd(upstream) = return delay(downstream) on every hop, no intra-device wrap",
        "inconsistent_is_error: full statement since the fix of the topology panics (reports only need u32-typed times)",
        "offset_value: unconditional in both build modes since the wrapping_sub fix",
    ],
}

PROPS["C14"] = {
    "lean_modules": ["EcModel.Props.C14"],
    "harness": ["c14"],
    "both_profiles": True,
    "t1_facts": ["eeprom:"],
    "known_keys_expected": ["c14/write-retry-exhausted-reports-ok"],
    "modelled": "SubDeviceEeprom::{set_station_alias, station_alias, start_at}, EepromRange::{new, Read::read, Write::write}, "
                "embedded-io-async read_exact / write_all default methods (incl. their panics), crc::Crc<u8>::checksum for the "
                "non-reflected 8-bit algorithm as a bitwise shift register, DeviceEeprom::write_word's retry decision; u16 "
                "arithmetic in checked and wrapping mode; alias/checksum byte positions, CRC parameters and the retry limit "
                "regenerated from /repo (Generated/Eeprom.lean)",
    "rule": "alias: every alias value (thorough; stride 97 in quick) x a random header (0..200 byte image, random/partly missing "
            "header, old alias equal/zero/random, fill ff/00/wrap, chunk 4/8): alias; set_station_alias; alias; read 16 bytes. "
            "generic write: payloads of 0..64 bytes through write_all or one write on EepromRange::new(start, len) or "
            "start_at(start, len_bytes) with start over the whole u16 range (emphasis 0, 0x7fff, 0x8000, 0xffff) and windows "
            "shorter/equal/longer than the payload. The REAL code runs on an in-memory EepromDataProvider (ideal byte memory, "
            "write log); compared with the model: result tokens, cursor, write log, provider call count, panic site. "
            "retry: the REAL DeviceEeprom::write_word over a simulated ESC (SII control/address/data registers) refusing 0..30 "
            "attempts with the command-error flag, accepting after 0..5 busy polls or staying busy; attempts compared with the "
            "model. Dev profile and (thorough) release profile. non-trivial = alias case with distinct (alias, header) / "
            "write of >= 2 bytes; distinct = distinct case line",
    "assumptions": [
        "provider serves at least 2 bytes per read_chunk (real devices: 4 or 8) and never fails in the in-memory runs",
        "windows are clipped to the 2^16 words the provider's word addresses can reach (range_new_exact: every u16 start/length)",
        "busy polling / time-outs of the device provider are exercised on the real code only (simulated ESC), not modelled",
    ],
}

MANIFEST_TEXT["C14"] = {
    "text": "Theorems, for both build modes, every device memory, chunk size >= 2 and all 65536 aliases: alias_two_words "
            "(set_station_alias returns Ok, its only provider writes are word 4 := alias and word 7 := (crc8 of the 14 header "
            "bytes after patching, 0), memory = old memory with those four bytes replaced, alias read back = new alias), "
            "alias_others_unchanged, alias_checksum_valid; crc8_spec + crc8_unique (the shift-register definition is THE "
            "remainder of msg*x^8 + 0xFF*x^(8n) divided by x^8+x^2+x+1 over GF(2)); write_exact / write_exhausted / "
            "write_never_past_end (EepromRange::write on any aligned window stores min(ceil(len/2), room) words of the "
            "zero-padded buffer, reports the bytes it consumed, nothing else changes, no panic); write_all_exact (EVERY payload "
            "length, odd included, that fits: stored exactly, Ok) and write_all_overrun (longer than the window: the part that "
            "fits is stored, Err(SectionOverrun), never a panic); range_new_exact (every u16 start word / length); "
            "write_retry_bound (1..21 attempts, stops at first accepted attempt k<=20 with k+1 attempts, 21 when the first 20 are "
            "refused). Former counterexamples kept as write_all_odd_fixed, write_all_overrun_fixed, range_new_overflow_fixed.",
    "note": "Trusted: Lean kernel; hand translation (validated on generated cases only); the in-memory provider and the simulated "
            "ESC as environments. One known finding left on purpose: write_word reports Ok(()) after 21 refused attempts — the "
            "maintainers' own note in eeprom/types.rs says real hardware (EK1100) sets the command-error flag on SUCCESSFUL "
            "writes, so turning exhaustion into an error would break set_alias_address there; needs a hardware decision.",
    "technique": "Lean 4 proof (loop invariants, GF(2) polynomial algebra for the CRC) + differential correspondence on the real code",
}

PROPS["C19"] = {
    "lean_modules": ["EcModel.Props.C19", "EcModel.Props.C19Impls"],
    "harness": ["c19"],
    "t1_facts": ["wire layout", "Layouts.lean", "WireMacro.lean"],
    "modelled": "ethercrab-wire-derive: help.rs bit_width_attr; parse_struct.rs parse_struct (width table, pre/post skip, skip, bit_start/"
                "bit_end/bytes/bit_offset, the three validity errors, total width); generate_struct.rs generate_struct_write/read/"
                "sized_impl (u8/bool shortcut, one-byte OR-merge with the u16 mask, byte-aligned delegation, buffer zeroing, "
                "get/get_mut length checks); parse_enum.rs parse_enum (discriminant accumulator, alternatives, catch_all, default, "
                "its five errors); generate_enum.rs write (match arms with catch-all, `as repr` without) and read (first matching "
                "arm, catch-all / default / InvalidValue); ethercrab-wire lib.rs pack_to_slice / pack_to_slice_unchecked / pack; "
                "impls.rs u8..u64, i8..i64, f32/f64 (bit patterns), bool, (), [T; N] read, [u8; N] write, tuples; "
                "WireImpls.lean, line by line: the chunks_exact / take(N) / map / collect::<Result<heapless::Vec<_, N>, _>> pipeline "
                "(chunks_exact(0) and heapless' `Vec::from_iter overflow` as panic branches) of the heapless::Vec<T, N> decoder and "
                "of the [T; N] decoder (buf.get(0..PACKED_LEN*N), into_array -> ArrayLength), heapless::String<N> (from_utf8 as the "
                "well-formed byte sequences of Unicode table 3-7, try_from as the capacity test; the WHOLE buffer is the string), the "
                "tuple walk `if buf.len() > 0 { buf = &buf[PACKED_LEN..] }` with its out-of-range slice as a panic branch, the tuple "
                "pack_to_slice_unchecked (split_at_mut per component, final range index) and pack_to_slice, &[u8], and "
                "EtherCrabWireSized::buffer()/PACKED_LEN of every hand-written impl ([$ty; N]: Buffer = [u8; N] although "
                "PACKED_LEN = N * size)",
    "rule": "per run: a corpus of boundary declarations (3-bit field at offset 5 after a skip, 8-bit u8 at offset 0, the implicit-"
            "discriminant witnesses, every macro error kind), then several hundred random struct/enum declarations (1-12 fields, "
            "widths 1-64 bits obeying the macro's alignment rules, pre/post skips in bits and bytes, skip fields, u8..u64/i8..i64/"
            "f32/f64/bool/enum/nested-struct/array fields, types narrower than their slot, a few misfits and packed structs; enums "
            "with repr u8..i64, explicit/implicit/negative discriminants, alternatives, catch-all, default) written to "
            "harness/gen-types, compiled with the REAL derive macro and run on random values (boundary biased, also over-wide) and "
            "random buffers: pack, pack-then-unpack, pack_to_slice and pack_to_slice_unchecked into short/exact/long random-filled "
            "destinations, unpack_from_slice of short/exact/long buffers and of undefined enum values; invalid declarations go "
            "through the macro's own parse_struct/parse_enum (sources included by #[path]) and must be rejected with the error the "
            "model predicts; every in-crate derived type nameable from the hook verif::wire is unpacked (and repacked) on random "
            "buffers. Every answer is diffed with the Lean model and checked by an independent bit-level reference packer/unpacker "
            "driven by the same layout description. Sizes: ~430 subjects per quick run (~95 random top-level structs, 50 enums, "
            "10 array/tuple subjects, every nested struct/enum as its own subject, 90 fixed corpus subjects), ~3000 per thorough "
            "run in batches of 700 per compilation; 1/8 of writable structs #[repr(C, packed)], 1/8 of structs and 1/6 of enums "
            "compiled as a Write-only + Read-only pair of derives, types with non-u8 arrays as Read-only derives; 260 (thorough "
            "2500) random mutations of valid declarations + 60 fixed invalid declarations through the macro's parse functions. "
            "Case family `impl` (own random stream): the REAL hand-written impls heapless::Vec<T, N> (T = u8/u16/u32 mostly, also "
            "u64/i*/bool/f*/[u8; 2]/enum; N in 0..31), heapless::String<N> (N in 0..32), [T; N] (u8/u16/i32/u64 mostly; N in 0..8; "
            "also arrays of heapless vectors/strings), tuples of every arity 1..16 over primitives/bools/()/small arrays, tuples "
            "with one heapless component; ~75 subjects per quick run (37 fixed), ~180 per thorough run. Buffers: empty, one element "
            "short, exact, one element more than the capacity (with and without a partial tail), 2x, 3x, random lengths up to 3x, "
            "random / all-00 / all-ff bytes; strings: well-formed UTF-8 of N-1, N, N+1, 2N, 3N bytes, 2/3/4-byte characters cut at "
            "the capacity, 20 kinds of ill-formed sequences (lone continuation, overlong, surrogate, > U+10FFFF, 5-byte lead, "
            "truncated) inside well-formed text, the extreme well-formed sequences of each length, random bytes; `buflen` "
            "(buffer().len() and PACKED_LEN) for every sized subject; tuples and arrays also through pack_to_slice / "
            "pack_to_slice_unchecked into short/exact/long destinations. Every call runs under catch_unwind. Monitors (independent "
            "of the model): c19/impl-panic (never a panic), c19/impl-decode (the answer is what the declared element layout says: "
            "the complete elements present, at most N, little-endian, back to back; the whole buffer as a string iff it is "
            "well-formed UTF-8 of at most N bytes, checked by decoding scalar values; the first N array elements or "
            "ReadBufferTooShort; tuple components at consecutive offsets, a component content with fewer bytes than its packed "
            "length although bytes were left is refused), c19/impl-packed-len, c19/impl-buffer-len, and "
            "c19/impl-tuple-varlen-short-panic (regression classifier of the repaired tuple defect; its witnesses stay in the "
            "corpus and must answer ReadBufferTooShort). "
            "non-trivial = value-level case whose subject is a struct with >= 2 non-skipped fields of which at least one does "
            "not start or end on a byte boundary, or an enum with alternatives/catch-all/default, or an `impl` family case on a "
            "vector/string/array/tuple whose buffer length differs from the packed length; distinct = distinct case line",
    "assumptions": [
        "field widths >= 1 bit (the property's quantifier; `bits = 0` fields are accepted by the macro and are degenerate)",
        "field types obey the trait laws (Lawful: proved for u8..u64, i8..i64, bool and closed under struct nesting) and are not "
        "longer than their declared slot (slotFits; the macro cannot check it: a u32 in `bytes = 2` makes pack panic)",
        "values are representable in the declared width (a u8 in a 3-bit field is < 8); the generated code masks wider values",
        "enum round trip is proved for enums whose discriminants and alternatives are pairwise distinct (rustc enforces it only "
        "for the discriminants; enum_roundtrip_needs_distinct_arms shows the hypothesis is needed) and in range of the repr, "
        "and for canonical catch-all payloads",
        "buffers are byte strings (every element < 256)",
        "hand-written impls: element types are not zero-sized (heapless::Vec<(), N> and [(); N] panic in chunks_exact(0) for "
        "every buffer: heapless_vec_zero_size_panics, array_zero_size_panics) and their own decoders do not panic; the tuple "
        "LAYOUT theorems (fields, short_error, pack, roundtrip) assume lawful components, tuple_unpack_total (never a panic) "
        "holds for every modelled component incl. heapless::Vec / heapless::String; N * PACKED_LEN fits in usize; core::str::from_utf8 accepts "
        "exactly the well-formed sequences of the Unicode standard (validated by the differential run only)",
    ],
}

MANIFEST_TEXT["C19"] = {
    "text": "Theorems for EVERY struct declaration accepted by the model of the macro's parse_struct, every lawful field type and "
            "every representable value: pack_is_the_declared_layout / field_at_declared_bits (bits [bit_start, bit_start+w) of "
            "pack(v), little-endian bit order, hold the field's own encoding) and undeclared_bits_zero; pack_never_panics; "
            "unpack_reads_declared_bits and unpack_ignores_undeclared_bits (any buffer >= PACKED_LEN, no assumption on field "
            "types); unpack_pack (also with trailing bytes); short_buffer_error and pack_to_slice_refuses_short (unconditional); "
            "unpack_never_panics; nested_struct_lawful (the laws are closed under nesting, so depth is unbounded). Enums: "
            "enum_roundtrip (EVERY unit variant, explicit or implicit discriminant, with or without catch-all/default/"
            "alternatives, for pairwise distinct read arms; macro_numbering_is_rustc ties the macro's accumulator constants, "
            "re-read from parse_enum.rs each run, to rustc's numbering), enum_roundtrip_needs_distinct_arms, "
            "enum_catch_all_roundtrip, undefined_value_error_or_fallback (catch-all / default / InvalidValue, "
            "ReadBufferTooShort, never a panic). The former implicit-discriminant defect (read side numbered from 1, "
            "alternatives advanced the counter) is fixed; its witnesses now round-trip (implicit_discriminants_roundtrip_witness, "
            "implicit_after_alternatives_witness) and stay in the harness corpus. T1: every derived struct/enum of /repo/src is "
            "re-extracted each run; layouts_accepted, layouts_well_formed, layouts_enums_explicit, in_crate_types_lawful are "
            "re-decided on them. Hand-written impls of impls.rs (Props/C19Impls.lean), for EVERY buffer (any length, any bytes) "
            "and EVERY N: heapless_vec_unpack_total (no panic branch of the chunks_exact/take/collect pipeline is reachable for "
            "elements of non-zero size), heapless_vec_unpack_prefix / _elements / _prims (>= N*size bytes: exactly the first N "
            "elements; fewer: the complete elements present; element i is the little-endian value of bytes [i*size, i*size+size)), "
            "heapless_vec_no_take_counterexample (the same pipeline without .take(N) panics with `Vec::from_iter overflow` for "
            "every N as soon as N+1 elements are present), heapless_vec_zero_size_panics; heapless_string_unpack (never a panic; "
            "ill-formed -> InvalidUtf8; well-formed and longer than N -> ArrayLength; otherwise the string holding exactly the "
            "buffer), heapless_string_roundtrip (the encoding of ANY sequence of Unicode scalar values is accepted), "
            "heapless_string_cut_code_point; array_unpack_exact (fewer than N*size bytes -> ReadBufferTooShort, else the first N "
            "elements, never a panic), array_impl_is_codec_array (the line-by-line decoder IS the Codec.array of the struct "
            "theorems, so into_array never fails), array_length_error_unreachable, array_roundtrip; tuple_unpack_fields "
            "(component i is decoded from offset PACKED_LEN_0+..+PACKED_LEN_{i-1}), tuple_unpack_short_error, tuple_unpack_total "
            "(EVERY buffer, EVERY tuple of modelled components - lawful ones, (), heapless::Vec / [T; N] over modelled elements "
            "of non-zero size, heapless::String: a value or an error, never a panic; modelled_dec_total), "
            "tuple_pack_fields (pack_to_slice_unchecked / pack_to_slice store component i's encoding at that offset and leave the "
            "rest of the destination alone), tuple_pack_is_codec_tuple, tuple_pack_short (WriteBufferTooShort / the contractual "
            "panic), tuple_roundtrip; unit_and_bool_impls, slice_u8_pack; buffer_sizes and array_buffer_shorter_counterexample "
            "([$ty; N]::buffer() has N bytes for PACKED_LEN = N*size, so a wide array can never be unpacked from its own buffer: "
            "the cause of c15/word-array-buffer). The former tuple defect (the walk sliced &buf[PACKED_LEN..] unchecked and panicked "
            "behind a heapless::Vec / heapless::String component on a short buffer) is repaired (fix-c19-tuple-short: "
            "buf.get(PACKED_LEN..).ok_or(ReadBufferTooShort)?); its witnesses <(heapless::Vec<u8, 4>, u8)>::unpack_from_slice(&[1, 2]), "
            "<(heapless::String<4>, u8)>::unpack_from_slice(b\"ab\"), <(u8, heapless::Vec<u8, 2>)>::unpack_from_slice(&[1, 2]) are "
            "tuple_unpack_short_heapless_fixed and stay in the harness corpus. Oddity kept visible: "
            "tuple_after_string_never_decodes.",
    "note": "Trusted: Lean kernel; hand translation of the macro's parse/generate code and of impls.rs (validated by compiling "
            "hundreds of generated declarations with the real macro per run and diffing every answer, plus accept/reject agreement "
            "on invalid declarations through the macro's own parse functions); rustc's own checks (types, literal ranges) are "
            "outside the model. Partial: zero-width fields, arrays and heapless vectors of zero-sized elements (chunks_exact(0) "
            "panics), hand-written impls inside derived structs (bitflags wrappers, PduFlags) are opaque; heapless' and core's own code (push, try_from, from_utf8, chunks_exact) is modelled by its documented "
            "behaviour and tied by the differential run (the `impl` case family calls the real impls under catch_unwind).",
    "technique": "Lean 4 proof (bit-level invariant of the generated write loop, extensionality on bits) + differential correspondence "
                 "on freshly generated programs compiled with the real proc-macro",
}

PROPS["C11"] = {
    "lean_modules": ["EcModel.Props.C11"],
    "harness": ["c11"],
    "t1_facts": ["wkc", "WkcSites", "WrappedRead", "WrappedWrite", "ReceivedPdu::wkc", "RegisterAddress", "AlControl packed length", "push_state_checks", "EEPROM provider call sites", "EEPROM range call sites", "WkcEeprom"],
    "modelled": "ReceivedPdu::{wkc, maybe_wkc}; WrappedRead::{new, ignore_wkc, with_wkc, receive, receive_slice, receive_wkc}; "
                "WrappedWrite::{new, ignore_wkc, with_wkc, send, send_receive, send_receive_slice}; SubDeviceRef::{register_read, "
                "register_write, state, status (incl. the poll order of futures_lite::try_zip), wait_for_state, "
                "request_subdevice_state_nowait}; DeviceEeprom::{wait_while_busy, read_chunk, write_word, clear_errors}; "
                "Coe::{wait_for_mailboxes, wait_for_mailbox_response} and the exchange part of mailbox_write_read; "
                "MainDevice::wait_for_state; SubDeviceGroup::{is_state, wait_for_state, transition_to, request_into_op} "
                "(GroupState.lean); TimeoutFuture (deadline before inner future); the multi-datagram EEPROM paths above the "
                "provider, trace-driven (WkcEeprom.lean): EepromRange::{new, word_pos, skip_ahead_bytes}, <EepromRange as Read>::read "
                "(clear_errors + the 4/8-byte chunk loop with odd-start skip, every provider call `.await?`), embedded-io-async "
                "read_exact / write_all, <EepromRange as Write>::write (word loop), SubDeviceEeprom::{start_at, category, fmmus, "
                "set_station_alias}, SubDevice::{eeprom_read_raw, eeprom_read::<T>, eeprom_write_dangerously::<T>, set_alias_address}",
    "rule": "corpus first (every composite path healthy / first checked datagram unanswered / an exempt datagram unanswered / "
            "device dropped out / frame lost, and the former witnesses of the repaired status-poll gap; for ten multi-chunk EEPROM "
            "sequences (12/13/40/9-byte raw reads, 12/16-byte typed reads, 6- and 16-entry FMMU categories, a 3-word write, "
            "set_station_alias) a fault at EVERY datagram position x {counter 0, counter 2, addressed device drops out, frame lost "
            "before/after the devices}, led by the drop-out after the first chunk of a 12-byte raw read and of the FMMU category "
            "read), then random cases, half of them builder methods "
            "(receive, receive_slice, send, send_receive, send_receive_slice on FPRD/APRD/BRD/FRMW/FPWR/APWR/BWR/LWR/LRW with "
            "expected = default / ignore_wkc / with_wkc(0..3)) against 0-4 bare devices (absent addresses, duplicate station "
            "addresses => counter 2, broadcasts => counter n) with the wire setting/incrementing the counter or losing the frame; "
            "half composite paths on a network brought up by the real MainDevice::init (register_read/write, status with and "
            "without error indication, DeviceEeprom read_chunk/write_word/clear_errors with busy/busy-forever/command-error "
            "scripts, sdo_read/sdo_write with response delays and a stale out-mailbox, PreOp->..->Op group transition, "
            "request_into_op, MainDevice::wait_for_state; and the multi-datagram EEPROM paths: eeraw = SubDevice::eeprom_read_raw "
            "or start_at+skip_ahead_bytes+one EepromRange::read over the real DeviceEeprom with 0..40 bytes, odd/even word and "
            "byte starts, windows shorter/longer than the buffer and at the top of the address space; eetyped = "
            "eeprom_read::<[u8; 1..40]>; eefmmus = SubDeviceEeprom::fmmus on a rewritten category area with 0-2 foreign categories "
            "and an FMMU category of 0..11 words; eewrite = eeprom_write_dangerously::<u8|u16|u32|u64> or write_all of 1..12 bytes; "
            "eealias = set_station_alias; 4- and 8-byte SII reads, 0-2 busy polls per command, busy-forever / command-error / "
            "error-flag quirks) with 0-2 scripted faults at random datagram ordinals (for the EEPROM paths mostly ONE fault at a "
            "uniformly drawn position of the whole multi-chunk sequence, biased to the addressed device dropping out) (counter set to "
            "0/2/0..3, +1, frame lost before/after the devices, device forgets its station address). The case line is the trace of "
            "datagrams as delivered (payload + counter), the model must predict the result token from it. Monitor (independent "
            "table of which command/register/phase must be checked): Ok while a datagram the property requires to be checked came "
            "back with another counter; WorkingCounter error whose counts are not those of a delivered datagram; accepted counter "
            "but error; returned bytes differ from the delivered / stored ones; for the EEPROM paths also: Ok with fewer bytes / "
            "FMMU entries than requested and inside the window (c11/short-read-reported-complete), returned bytes that are not the "
            "concatenation of the payloads of the serviced data reads (c11/eeprom-bytes-not-delivered), bytes / entries that differ "
            "from the device's image on an unaltered wire (c11/eeprom-data-not-from-device). non-trivial = case in which some datagram came "
            "back with a counter other than 1 or was lost; distinct = distinct case line",
    "assumptions": [
        "one MainDevice task (responses are matched to requests: C01); retries disabled (RetryBehaviour::None, the default)",
        "the CoE layer above the mailbox exchange (header parsing, segmentation) is C15/C16: sdo_checked is about the raw response handed to it",
        "group transitions: a status poll placed behind one that reports another state in the same frame is never read by is_state (nothing of it is used); the monitor only judges polls that were read",
        "EEPROM paths: the SII command writes (FPWR 0x0502 read/write request, FPWR 0x0508 data) go through WrappedWrite::send, the documented exempt write; required are the status polls, the data reads and the error-reset write-and-read-back of clear_errors",
        "EEPROM paths: chunk payloads are whatever the data read delivered (any length in the model; 4 or 8 bytes from the real provider); the parsers above fmmus (strings, PDOs, sync managers) are C12/C13",
    ],
}

MANIFEST_TEXT["C11"] = {
    "text": "Theorems for every payload, counter and transport outcome: checked_returns_only_on_match / checked_slice_returns_only_on_match "
            "(Ok only if the datagram came back with counter = expected, and the value is the decoding of that very payload), "
            "mismatch_error_carries_counts (exactly WorkingCounter{expected, received}), match_is_accepted, default_expected_is_one "
            "(the literal is re-read from reads.rs/writes.rs every run), transport_error_passes_through, exemptions_as_coded (send, "
            "receive_wkc, ignore_wkc). Composite paths against an arbitrary event trace (any number of polls, any responses, losses, "
            "deadlines): register_access_checked, status_checked, state_request_checked, eeprom_read_checked (all status polls and the "
            "data read had counter 1; the only unchecked exchange is the documented fire-and-forget command write), "
            "eeprom_write_checked, eeprom_clear_errors_checked, sdo_checked (raw mailbox response came from a counter-1 read preceded by a counter-1 "
            "'mailbox full' poll), md_wait_checked (counter = number of SubDevices), absent_device_never_ok (no path reports success "
            "when no response carries counter 1), group_transition_absent. Exempt set as data (T1): exempt_sites — every "
            ".ignore_wkc() / .send( / .receive_wkc / raw-ReceivedPdu consumer in /repo/src equals the reviewed list, so a new silent "
            "opt-out breaks the obligation (incl. rawPduSitesChecked: is_state applies ReceivedPdu::wkc(1) itself); checked_methods — "
            "exactly receive, receive_slice, send_receive, send_receive_slice pass through maybe_wkc(self.wkc). Group transitions: "
            "group_transition_checked (Ok ends on a round whose status datagrams all carried counter 1), "
            "group_poll_mismatch_is_error, group_status_poll_former_witnesses (the inputs of the repaired gap). Multi-datagram EEPROM "
            "paths, by induction over the chunk / word loops for every length, window, start parity, chunk size and trace: "
            "eeprom_range_read_checked (EepromRange::read returns Ok only with min(n, window) bytes - never fewer -, after a "
            "clear_errors and chunk reads in every one of which all status polls and the data read had counter 1, and the bytes are "
            "gathered from exactly those data reads' payloads), eeprom_raw_read_checked / eeprom_typed_read_checked / "
            "eeprom_typed_read_never_short (eeprom_read_raw, eeprom_read::<T> and the other read_exact users), "
            "eeprom_fault_propagates + eeprom_clear_fault_propagates (after ANY number of healthy chunks that leave the buffer "
            "unfilled, a status poll at any position / data read / reset read-back with counter r != 1 gives exactly "
            "WorkingCounter{1, r}, a lost frame Timeout(Pdu), the deadline Timeout(Eeprom); never Ok with the bytes so far), "
            "eeprom_fault_after_k_chunks (the same for the public entry points, 4/8-byte chunks, every k with L*k < n), "
            "eeprom_healthy_read_returns_all (other direction), eeprom_fmmus_checked / eeprom_fmmus_fault_propagates (category "
            "search + one read: as many entries as the category holds, or the error), eeprom_write_all_checked / "
            "eeprom_write_fault_propagates / write_word_poll_mismatch (all ceil(n/2) words acknowledged by a counter-1 poll; stops "
            "at the first failing word after any k), eeprom_error_paths (T1: every provider call above the provider is `.await?`, "
            "every range call is `?` / tail / the two reviewed iterator matches).",
    "note": "Trusted: Lean kernel; hand translation of the paths (validated by diffing the result token on traces recorded from the "
            "real code under scripted wire faults); tools/extract_wkc.py (regex walk). The trace abstraction orders events as "
            "the datagrams are sent; for the two concurrent reads of status() the poll order of try_zip is modelled explicitly. "
            "",
    "technique": "Lean 4 proof (case analysis + induction over event traces) + regenerated exempt-site obligation + differential correspondence",
}


PROPS["C20"] = {
    "lean_modules": ["EcModel.Props.C20"],
    "harness": ["c20"],
    "t1_facts": [],
    "known_keys_expected": ["c20/index-reuse-in-flight"],
    "modelled": "at await-point granularity: PduStorageRef::alloc_frame (2n rounds of the wrapping u8 cursor), the shared wrapping "
                "datagram index (one per datagram), PduStorageRef::frame_index_by_first_pdu_index + PduRx::receive_frame as the "
                "routing function (first slot in Sent whose marker equals the frame's first index), ReceiveFrameFut Ready + "
                "ReceivedFrame drop (slot release), SubDeviceGroup::tx_rx's write of the response into the group's own image; "
                "tasks as arbitrary deterministic programs (next request = function of the responses so far: cycles, register "
                "accesses, SDO/EEPROM transactions); the segment ABSTRACT (any seg : state -> request -> state x response), "
                "frames reaching it and returning with arbitrary per-frame latencies",
    "rule": "witness of the index-reuse finding first; then per case 2-4 cooperative tasks on the deterministic executor (seeded choice "
            "at every poll) over 2-8 simulated devices (coupler / digital in / digital out / CoE with 48-128 byte mailbox, mailbox "
            "answer delay 0-3 datagrams, SII chunk 4/8) in 2-3 groups (real init with group filter, real into_op), storage 2 (one "
            "slot per task) / 4 / 8 / 16 slots, per-frame latency 0-500 us in five distributions (zero, uniform, 0-or-500, "
            "decreasing, mostly-fast), optional wire time, wait-loop delay 0/20/200 us; every 4th case has small frames (24-64 "
            "data bytes) and big groups so that one tx_rx spans 2-5 frames (image chunks and state checks spill over) on mostly "
            "exactly one slot per task; programs of 3-10 (every 8th case 8-30) operations per task: "
            "tx_rx of an own group with tagged changing outputs, input pokes, private and SHARED scratch register reads/writes, "
            "read-only registers of any device, SDO uploads (1-10 bytes: expedited and normal) and expedited downloads on owned CoE "
            "devices, EEPROM reads; compared: wire indices, admissibility, every operation result of every task, final images "
            "(model vs real), and independently: sequential oracle in segment order on an identically initialised segment, each "
            "task alone (cases without shared registers), tag monitors, every response accepted, and the no-failure monitor: an "
            "operation that fails with SwapState/timeout while fewer frames are IN FLIGHT (sent, response not yet delivered; "
            "counted from the executor trace at the failing poll) than the storage holds is c20/spurious-swapstate|timeout; "
            "non-trivial = responses were delivered out of order with >= 2 frames in flight; distinct = distinct generator seed",
    "assumptions": [
        "cooperative single-threaded executor: code between awaits is atomic (OS-thread parallelism inside those sections is covered only through the micro-step model of C01/C02)",
        "two tasks cycling the SAME group (spin lock held across awaits) is outside the property; every group is cycled by one task",
        "PDU timeouts are large and nothing is lost: a slot is released only by its requester picking the response up (timeouts/retries: C06)",
        "< 256 datagram indices handed out while a request is in flight (Admissible); outside it the real routing misdelivers: known finding c20/index-reuse-in-flight, theorem transparent_transport_counterexample",
        "imported as named hypotheses, to be wired by the lead: C01 deliver-exact (response frame carries the first index it was sent with, receive_frame copies it unchanged), C03 slots returned, C07/C08 disjoint logical windows (WindowsDisjoint)",
        "same_as_alone needs commuting segment transitions for requests of different tasks (explicit hypothesis Commute on seg); without it only same_as_sequential (linearisability) holds",
        "storage sizes are powers of two (PduStorage::new asserts it); 'just enough' for 3 tasks is therefore 4 slots",
    ],
}

MANIFEST_TEXT["C20"] = {
    "text": "Theorems for every slot count, task count, task program, schedule of issue/arrive/deliver/consume steps (= every "
            "interleaving and every per-frame latency assignment) and EVERY segment behaviour (seg abstract): routing_table "
            "(in-flight requests have distinct first indices, one slot per task), transparent_transport (the segment's response "
            "to a request is routed to the requester's own slot and nowhere else; partial: under Admissible = fewer than 256 "
            "indices handed out during a flight; transparent_transport_counterexample shows the cross-delivery otherwise), "
            "alloc_never_spurious / alloc_fails_iff_full / issue_never_spurious (SwapState iff all n slots in flight, for the real "
            "2n-round wrapping cursor), images_separate + images_provenance + cycles_commute (a group's image changes only by the "
            "segment's response to that group's own cycle; LRW over disjoint windows commute), same_as_sequential (each task's "
            "results are its share of ONE sequential execution in the order the segment processed the frames, requests in program "
            "order, final device state equal) and same_as_alone (with commuting cross-task requests: results equal running the "
            "program alone from the same initial segment state). Proved by an invariant over the schedule (induction). Tied to the "
            "code by replaying recorded schedules of the real stack (2-4 tasks, reordered responses, tight storage) through the "
            "model's step function and diffing indices, results and images, plus an independent sequential/alone oracle.",
    "note": "Level note: await-point granularity only - OS-thread parallelism is covered only through the lead's micro-step model "
            "for C01/C02; two tasks cycling the SAME group is outside the property; timeouts/retries/lost frames are C06. "
            "Known finding c20/index-reuse-in-flight (8-bit first index reused while an older request with the same index is "
            "still in flight in a lower slot: both tasks receive each other's response) is inside the property's quantifier "
            "only for zero-latency bursts of >= 256 datagrams within one 500 us flight. Trusted: Lean kernel; hand translation "
            "of alloc_frame / routing / slot release at await granularity (validated by the correspondence); the harness' "
            "attribution of frames to tasks (frames sent right after a poll belong to the polled task).",
    "technique": "Lean 4 proof (invariant by induction over schedules, abstract segment, commutation argument) + schedule-replay correspondence + sequential oracle",
}


PROPS["C16"] = {
    "lean_modules": ["EcModel.Props.C16"],
    "harness": ["c16"],
    "both_profiles": True,
    "t1_facts": ["coe:"],
    "known_keys_expected": [],
    "modelled": "mailbox/coe/mod.rs: wait_for_mailboxes (stale drain, 10 rounds), wait_for_mailbox_response, mailbox_write_read "
                "(HeadersRaw triage: assert_ne!, emergency, abort, type/index/sub-index validation, R::unpack, trim_front), "
                "send_sdo_info_service (fragment loop, length - 8, response[..length], 0x1fffe buffer), sdo_write, sdo_write_array, "
                "sdo_read (expedited / normal / segmented loop with length - 3 and the == 7 case), sdo_read_expedited, sdo_read_array, "
                "sdo_info_object_description_list / _quantities; services.rs request constructors; headers.rs / mailbox/mod.rs derive "
                "decoders (bit fields, enum validity); SubDevice::mailbox_counter; ReceivedPdu::{deref, trim_front}; unchecked u16/usize "
                "subtraction in checked and wrapping mode. Enum discriminants, packed lengths and the literal constants are regenerated "
                "from /repo (Generated/Coe.lean) and used by the model",
    "rule": "corpus (witness of every known finding, boundary length fields, exactly-full / one-too-many 0x1fffe buffer, 131 134 "
            "zero-length fragments, 40 zero-length segments), then for sdo_read (u8/u16/u32/u64/[u8;N]/[u16;N]/String<N>/Vec<u8,N> "
            "destinations), sdo_read_expedited, sdo_write, sdo_read_array, sdo_write_array, sdo_info_object_description_list, "
            "sdo_info_object_quantities: every header byte of a valid reply over 0..255 (thorough: every byte of the first 20; quick: "
            "bytes 5,7,8 fully, the others over 15 edge values), the length field over its range, every truncation length, read "
            "mailboxes 6..1024 (thorough: every size) x write mailboxes 6..128, random and field-mutated contents incl. stale "
            "non-zero bytes behind the message, 0..11 stale messages, segmented sequences (command 3 and the standard's command 0, "
            "length fields 0..3/0xffff, <7-byte encoding, toggles) and SDO-info fragment sequences (length fields below 8 / beyond the "
            "data, wrong op codes / services), a device without mailboxes. The REAL code runs through the public SubDeviceRef API "
            "against ecverif::sim (scripted raw replies), catch_unwind + step limit per case; compared with drv_c16: result token "
            "(value bytes / error kind with its fields / panic), mailbox counter afterwards, number of mailbox reads, messages left "
            "in the device, every request image written. Dev profile and (thorough) release profile. non-trivial = case with more "
            "than one request or more than one mailbox read; distinct = distinct case line",
    "assumptions": [
        "every register / mailbox datagram is answered (loss, PDU timeouts, working-counter errors are C06/C11); a device that does "
        "not answer a mailbox request is modelled (response timeout)",
        "the device's IN mailbox is free when the request is written (the wait loop for it is not modelled)",
        "coe_total, info_terminates and segments_terminate are unconditional since the repairs fix-c16-emergency, "
        "fix-c16-segment-length, fix-c16-sdo-info-length, fix-c16-endless-loops (the former witnesses stay in the corpus and as "
        "`*_fixed` theorems)",
        "usize is 64 bit; destination buffers are shorter than 2^64 - 65536 bytes (total_len + chunk_len cannot overflow)",
    ],
}

MANIFEST_TEXT["C16"] = {
    "text": "Theorems for an ARBITRARY device (any function from requests to lists of raw mailbox byte strings), any mailbox sizes, "
            "any stale queue, both overflow-check profiles: coe_total (all seven entry points return a value or an error, "
            "unconditionally; corollary for every script of byte strings), reads_inside_reply (trim_front views stay inside the "
            "reply; the two functions holding the ReceivedPdu are functions of the reply bytes; no entry point depends on the bytes "
            "around the reply in the frame buffer), info_buffer_bounded (<= 0x1fffe after every iteration), info_terminates (<= "
            "0x1fffe+1 mailbox reads for ANY reply stream; every read consumes one message), segments_terminate (<= free bytes of "
            "the destination + 1 segment requests for ANY device). The witnesses of the four former panic sites and two former "
            "endless loops are theorems (`*_fixed`: errors now) and corpus cases. Tied to the code by regenerated enum tables / "
            "packed lengths / constants / source shapes and by diffing result, counter, reads, requests against the real code on "
            "mutated, truncated, random and multi-message replies for mailboxes 6..1024 in both profiles.",
    "note": "Full proof on the repaired tree (fix-c16-emergency, fix-c16-segment-length, fix-c16-sdo-info-length, "
            "fix-c16-endless-loops). Trusted: Lean kernel; the hand translation of coe/mod.rs incl. which operations can panic "
            "(validated by catch_unwind on every generated case); the simulated ESC mailbox (ecverif::sim). PDU-level failures are "
            "out of scope.",
    "technique": "Lean 4 proof (invariant over an arbitrary environment, induction over loops) + differential correspondence",
}

PROPS["C08"] = {
    "lean_modules": ["EcModel.Props.C08"],
    "harness": ["c08"],
    "both_profiles": True,
    "t1_facts": ["SyncManagerType", "FmmuUsage", "Fmmu", "SyncManagerChannel", "Direction", "OperationMode", "config:"],
    "modelled": "PdiOffset::{increment,increment_byte_aligned,up_to}; SubDeviceRef::{configure_mailbox_sms,configure_fmmus,"
                "configure_pdos_coe,configure_pdos_eeprom,write_sm_config,write_fmmu_config (incl. the read-modify-write 'FMMU "
                "already enabled => extend' branch)}; SyncManager::usage_type; SubDeviceGroup::configure_fmmus (inputs pass, outputs "
                "pass, PdiTooLong); SubDeviceGroupRef::into_pre_op (offset += MAX_PDI as u16); MainDevice::init's group map order "
                "(heapless IndexMap drained from the back); all unchecked u64/u32/usize arithmetic through Ec.Mode (PDO bit lengths "
                "are summed and multiplied in u64; byte lengths go through u16::try_from(bits.div_ceil(8))? = Err.intConv; the shared "
                "FMMU is extended with checked_add; widths and shapes regenerated from the source: t1_config_arithmetic); device side: FMMU "
                "translation (byte granular; theorem fmmus_byte_aligned) and sync manager windows per ETG1000.4 6.6/6.7",
    "rule": "corpus (plain terminals, 3 interleaved groups, exact fit / one byte too long, CoE with contiguous and with "
            "non-contiguous sync managers, FoE device with 3 FMMUs, >8 sync managers, missing FMMU usage, oversampling, derived SM "
            "types, the witnesses of the three known findings and of the repaired u16 bit-length overflow (8x129x64 bit, 2x64 bit x "
            "oversampling 512, 5x255x64 bit as inputs and outputs, 65528/65529/65535/65536 bits, 524280 and 524281 bits = 65535 "
            "bytes / IntegerTypeConversion, 9 and 8 PDOs of 255x255 bit, 20 such PDOs x oversampling 65535, CoE 2 x 40000 bytes on "
            "one FMMU) then random lines of 1..16 simulated devices: no mailbox / mailbox "
            "without CoE / CoE; 0-3 output and 0-3 input sync managers interleaved at random, declared or control-derived type, "
            "enable byte variants; 0-8 PDOs per direction with 0-6 (rarely up to 60) entries of 1..64 (rarely ..255) bits; "
            "oversampling lists; 1 device in 25 has one sync manager whose bit sum is 65528+-16 / 65535+-16 / 65536+-16 bits or "
            "524280+-16 bits (65535 bytes, the register limit), composed of PDOs of up to 255 64-bit entries and oversampling "
            "factors up to 1024; FMMU usage list variants (shuffled, duplicates, 0xFF, missing); FMMU_EX lists; 1-16 FMMU entities; "
            "contiguous or gapped physical layout; 1-3 groups with MAX_PDI from {1,6,40,300,4000,65535} fitting or not. Real "
            "MainDevice::init -> into_safe_op -> into_op -> 2 x tx_rx per group on the simulated segment (dev profile: overflow "
            "checks on; thorough also release profile: wrapping). Compared with drv_c08: per group start/read_len/pdi_len or error "
            "token or panic, per device input/output window (hook io_ranges) and every non-zero SM (8 bytes) and FMMU (16 bytes) "
            "register of the simulated controller. non-trivial = a group reached OP with >= 2 devices that have process data; "
            "distinct = distinct case line",
    "assumptions": [
        "MAX_PDI < 64 KiB (the property's bound; into_pre_op truncates with `as u16`), <= 16 FMMU register sets per controller",
        "cooperative environment: register reads/writes acknowledged, devices in PRE-OP, EEPROM categories parse (C12/C13), SDO "
        "uploads of 0x1C1x/0x16xx/0x1Axx answer or abort; reset_subdevices blanked FMMU 0..15 / SM 0..15 before (state `Fresh`)",
        "fmmu_maps_exactly / outputs_reach_only_owner / inputs_come_only_from_owner are PARTIAL: hypotheses FmmuAvail (every FMMU "
        "number the MainDevice picks exists in the controller) and SharedContig (CoE path: sync managers sharing the one FMMU are "
        "physically contiguous); cross-group isolation needs the other group's layout to fit its MAX_PDI (a group that failed "
        "keeps its FMMUs) - each excluded class has a _counterexample theorem and a monitor key in KNOWN_FINDINGS.txt",
        "configuration_total / exact_windows_or_error / unrepresentable_length_is_error / network_total: Device.TypesOk (the "
        "numbers of a description fit the Rust types they are read into: u16 PDO bit lengths, oversampling factors and mailbox "
        "sizes, u8 mapping lengths and counts, <= 64 EEPROM PDOs per direction - what C13 collections_bounded gives) and the "
        "logical range inside u32 (start + 1048560 x devices < 2^32, i.e. up to 3855 devices; the u32 address addition itself is "
        "still unchecked in the source)",
        "device-side FMMU semantics are the simulator's (harness/src/sim/esc.rs::logical), restated in Lean as Fmmu.hit / fmmuMap; "
        "the marker round trip through real tx_rx cycles checks them against each other on every case",
    ],
    "known_keys_expected": ["c08/coe-multi-sm-shared-fmmu", "c08/eeprom-fmmu-index-is-sm-index", "c08/failed-group-keeps-fmmus"],
}

MANIFEST_TEXT["C08"] = {
    "text": "Theorems for every list of device descriptions (mailbox/CoE or not, any sync managers, PDO sets, FMMU lists, "
            "oversampling) in a group at any start address: windows_inside_image, inputs_before_outputs, windows_disjoint, "
            "window_length (= sum over the direction's sync managers of ceil(sum PDO bits x oversampling / 8), CoE or EEPROM), "
            "image_length, too_long_is_error, fmmus_byte_aligned, fmmu_maps_exactly_partial (programmed FMMUs map the window byte "
            "for byte onto the programmed sync managers and nothing else onto the device), window_is_backed, window_reaches_owner, "
            "window_reaches_only_owner, outputs_reach_only_owner, inputs_come_only_from_owner, translations_inside_group; for every "
            "partition into groups: groups_disjoint, groups_isolated; release_agrees_with_debug (wrapping build = checking build "
            "wherever the latter does not panic). After the repair of c08/pdo-bit-length-u16-overflow (fix-c08-pdo-bit-length: bit "
            "sums in u64, byte length by u16::try_from, checked FMMU extension) FULL statements replace the former "
            "bit_length_overflow_counterexample: configuration_total (for EVERY description the Rust types allow - any number of "
            "sync managers, PDOs, entries, any bit lengths and oversampling factors - and up to 3855 devices, configuring a group "
            "never panics and yields the same layout or the same error in the overflow-checking and the wrapping build), "
            "exact_windows_or_error (either an error, or every window has exactly the required length and every process-data sync "
            "manager exactly ceil(its bits / 8) bytes, a value its 16-bit register holds: sm_length_exact, registers_representable), "
            "unrepresentable_length_is_error (a sync manager needing more than 65535 bytes always ends in an error), network_total / "
            "network_total_16 (init's group addresses and every group, both modes), t1_config_arithmetic (the widths and checked "
            "conversions the model uses are the source's). Old witnesses kept as bit_length_overflow_fixed (81600 bits -> 10200 "
            "bytes in both modes, PdiTooLong{4000,10200}; 65536 bits -> 8192 bytes) and unrepresentable_lengths_are_errors. "
            "Proof: the Safe calculus (never panics + mode independent, closed under bind) over the loops with the u64 bounds "
            "derived from the type bounds; successful loop runs are shown equal to pure folds over the direction's "
            "sync managers, whose register/offset/translation effect is characterised by induction; two passes composed per device; "
            "tilings per group. Counterexample theorems (kernel-evaluated on the model, reproduced on the real code every run): "
            "fmmu_maps_exactly_counterexample (CoE: several sync managers share one FMMU), fmmu_avail_counterexample (EEPROM path: "
            "FMMU number := SM number), failed_group_keeps_fmmus_counterexample.",
    "note": "Trusted: Lean kernel; hand translation of the configuration code (validated by diffing windows and all SM/FMMU "
            "registers against the real stack on a simulated segment, dev and release profile); the simulator's FMMU semantics as "
            "the device side; the cooperative-environment assumptions. Partial where the code breaks the property: see the three "
            "known findings. The bit-length arithmetic is no longer partial (repaired; full theorems under the type bounds). Left "
            "unchecked in the source: the u32 logical address addition (PdiOffset::increment), which needs > 3855 devices of "
            "maximal size to overflow - outside the property's 16.",
    "technique": "Lean 4 proof (refinement of the imperative loops to pure folds + invariants by induction, all inputs) + "
                 "differential correspondence on a simulated EtherCAT segment + marker round-trip monitor",
}


PROPS["C03"] = {
    "lean_modules": ["EcModel.Props.C03"],
    "harness": ["c03"],
    "drivers": {"c03": "drv_seq"},
    "t1_facts": ["FrameState", "transition", "FIRST_PDU_EMPTY", "ETHERCAT_ETHERTYPE", "MAINDEVICE_ADDR", "LEN_MASK"],
    "modelled": "PduStorageRef::{alloc_frame,reset}, FrameElement::{claim_created,claim_sending,claim_receiving,swap_state,set_state}, "
                "CreatedFrame::{push_pdu,push_pdu_slice_rest,mark_sendable,drop}, PduTx::next_sendable_frame, "
                "SendableFrame::send_blocking (mark_sent / release_sending_claim), PduRx::receive_frame, "
                "ReceiveFrameFut::{poll,drop}, ReceivedFrame::{first_pdu,into_pdu_iter,drop}, ReceivedPdu::{trim_front,drop} "
                "as whole API calls (EcModel/Slots.lean), stepped by Ec.step over Ec.Op (Lemmas/SlotsStep.lean)",
    "rule": "random histories: 7 bias profiles (balanced, send failures partial+error, lossy/no retries, retries 0..3 with expiries, "
            "abandon-heavy drops of futures and created frames, garbage+duplicate responses, reset at quiescent points) x 1/2/4/8 slots of "
            "28..72 bytes, 0..(25+12n) adaptive operations (alloc, pushes, mark_sendable, TX claim/send ok/partial/error, genuine/duplicate/"
            "garbage/oversize responses, polls, clock advances, drops, response reads), then every live handle disposed of in a random "
            "order (stale SendableFrames completed with a random outcome), full snapshot, n probe allocations + one more that must fail, "
            "probe frames dropped; exhaustive enumeration of all enabled operation sequences over one slot to depth 6 (quick) / 8 "
            "(thorough) for two initial counter values, every node drained and probed; every result token and snapshot compared with "
            "the model. non-trivial = history with a completed request, a timeout or a failed send; distinct = distinct case line",
    "assumptions": [
        "slot count divides 256 (1, 2, 4, ..., 128: the sizes PduStorage::new accepts) for the capacity clauses",
        "sequential histories of whole API calls; reset only with no live handle (what &mut PduLoop enforces); a new handle is stored "
        "into a free register (storing into an occupied one would run the old handle's destructor = a separate drop operation)",
        "interleavings inside send_blocking / receive_frame / alloc_frame are C02/C06 (micro-step model)",
    ],
}

MANIFEST_TEXT["C03"] = {
    "text": "Theorems over every slot count, frame size, initial counters and every history of API operations (induction over operation "
            "lists, ownership invariant J proved preserved by all 19 operations): ownership_invariant, held_iff_handle (a slot is held iff "
            "exactly one live owner handle of the matching kind refers to it), capacity_conserved (held slots = live owner handles), "
            "alloc_complete (if a slot is None alloc_frame succeeds: 2n wrapping-u8 cursor values cover all residues because n | 256), "
            "alloc_fails_only_if_full (+ converse), created_drop_releases, drain_restores_capacity (after ANY history, disposing of every "
            "handle in any order leaves every slot None, then n allocations succeed and the (n+1)-th reports SwapState), capacity_exact "
            "(from any reachable world exactly n - owners further allocations succeed), no_panic_in_drop (the panic branch of "
            "ReceivedFrame::drop is unreachable), abandon_then_stale_send_keeps_capacity, transition_sites_are_the_models (T1: the "
            "extracted swap_state/set_state sites are exactly the primitives the model implements). Tied to the code by diffing every result token "
            "and slot snapshot of random and exhaustive-to-depth histories, each followed by the drain-and-reallocate probe.",
    "note": "Trusted: Lean kernel; the hand translation in Slots.lean (validated only on generated histories); harness register "
            "discipline = Rust ownership. Capacity clauses assume n | 256 (all sizes the constructor accepts). The history 'future abandoned "
            "while TX holds the SendableFrame, then the send completes' is covered at API level (the send's compare-exchange fails since fix "
            "362a9e12); what happens INSIDE send_blocking/receive_frame is the C06 micro-step model's business.",
    "technique": "Lean 4 proof (ownership invariant by induction over operation lists; counting by a permutation argument) + differential "
                 "correspondence with drain-and-reallocate probe",
}

PROPS["C06"] = {
    "lean_modules": ["EcModel.Props.C06"],
    "harness": ["c06"],
    "drivers": {"c06": "drv_seq"},
    "t1_facts": ["RetryBehaviour", "FrameState", "transition", "FIRST_PDU_EMPTY"],
    "modelled": "ReceiveFrameFut::{poll,drop,release} with embassy-time's Timer (expiry reported from the second poll on), "
                "SendableFrame::{send_blocking,mark_sent,release_sending_claim}, PduTx::next_sendable_frame, PduRx::receive_frame, "
                "CreatedFrame::mark_sendable(timeout, retries), RetryBehaviour::retry_count (regenerated), as whole API calls "
                "(EcModel/Slots.lean); one request observed along arbitrary histories by ghost functions sends/expiries/pollOuts "
                "(Lemmas/SlotsRetry.lean)",
    "rule": "systematic plans: 1/2/4 (thorough: 8) slots x retry budget 0,1,2,3,usize::MAX (Forever observed for 5 deadlines) x every subset "
            "of transmissions lost x clock just before (T-1, then +1) / exactly at / after each deadline x extra polls after mark / before "
            "claim / between claim and send / after send / after receive with the clock far past the deadline x competitor none / issued "
            "first / allocating after every deadline x response delivered in time or after the deadline passed; abandonment plans: drop or "
            "final timeout in each of Sendable, Sending, Sent, RxBusy (oversize response), RxDone, before/after the deadline, stale send "
            "completing with ok/partial/error before or after a second request claimed the slot, second request run to completion; retry "
            "expiry while Sendable / Sending / RxBusy with every send outcome; plus random retry-heavy histories over 1/2/4/8 slots. Every result "
            "token (and the final snapshot) compared with the model. non-trivial = a request resolved (ok or timeout); distinct = distinct case line",
    "assumptions": [
        "sequential clauses only: whole API calls without interleaving; the clauses about expiry/abandonment while the TX or RX side is "
        "INSIDE send_blocking / receive_frame come from the lead's micro-step model (Props/C06Micro.lean)",
        "transmission-count clause: the property's own assumption (TX services every Sendable frame before the next deadline = at every "
        "poll that finds the deadline expired the slot is Sent), no response arrives, the future is not dropped, and no SendableFrame "
        "of an earlier abandoned request is outstanding on the slot when the request is marked sendable",
        "embassy-time timer semantics of the no_std build (first poll of a timer never reports expiry); usize = 64 bit",
    ],
}

MANIFEST_TEXT["C06"] = {
    "text": "Sequential clauses, for every reachable world and arbitrary histories of all API operations around the observed request: "
            "retry_count_table (against the regenerated RetryBehaviour::retry_count) and retry_budget_sites; response_beats_deadline "
            "(RxDone at poll => Ready(Ok) whatever clock, deadline and retry counter say) and ok_only_if_rxDone; "
            "never_success_without_response (a poll returns Ok only if a receive_frame accepted a frame into that slot while it was Sent, "
            "and the slot stayed RxDone until the poll); timeout_progress / timeout_exact (no response, TX discipline, R retries => every "
            "poll pending, exactly 1+R complete transmissions, all byte-identical, then Err(Timeout), slot released) and "
            "forever_never_completes (usize::MAX: one transmission per expired deadline, no completion in any history shorter than "
            "usize::MAX); abandon_safe_partial (drop or final timeout with no SendableFrame outstanding: slot None, nobody refers to it, "
            "invariant kept, next allocation succeeds and returns this slot if the others are held); "
            "abandon_while_sending_keeps_capacity (abandoned in Sending: slot None, the later send's compare-exchange fails and changes no "
            "slot, also after the slot was claimed again); retry_while_sending (retry expiry in Sendable/Sending/RxBusy cannot "
            "re-queue or disturb it: the poll consumes a retry and changes no slot, fix b5bf0e20); tx_serves_every_sendable; "
            "count_needs_tx_discipline_counterexample (a deadline that expires before the TX side sent the frame consumes a retry "
            "without a retransmission: the count clause needs its assumption); transition_sites_are_the_models (T1: the extracted "
            "swap_state/set_state sites are exactly the model's). Tied by diffing every result token of systematic deadline/loss/poll "
            "placement plans, abandonment plans and random histories; independent monitors on transmission count/bytes, future output, "
            "later requests' results and slot states after quiescence.",
    "note": "PARTIAL by construction: only the sequential (API-call granularity) clauses are proved here, namely retry_count_table, "
            "retry_budget_sites, response_beats_deadline, ok_only_if_rxDone, never_success_without_response, timeout_progress, timeout_exact, "
            "forever_never_completes, abandon_effect, abandon_safe_partial, abandon_while_sending_keeps_capacity, retry_while_sending, "
            "tx_serves_every_sendable, transition_sites_are_the_models (+ count_needs_tx_discipline_counterexample showing the "
            "transmission-count clause needs its TX assumption). The concurrency "
            "clauses of the property — expiry or abandonment while the transmit or receive side is inside its buffer (buffer reuse while "
            "TX reads it, retry while RX copies), over all interleavings — come from the lead's micro-step model (Props/C06Micro.lean) "
            "and are NOT claimed by these theorems. Trusted: Lean kernel; hand translation in Slots.lean incl. the embassy timer's "
            "first-poll behaviour (validated on generated histories only); tx_rx_task in src/std returning on any receive error is "
            "outside the anchored files.",
    "technique": "Lean 4 proof (per-request invariant over arbitrary operation histories with ghost counters; case analysis of poll) + "
                 "differential correspondence under a virtual clock",
}

PROPS["C10"] = {
    "lean_modules": ["EcModel.Props.C10"],
    "harness": ["c10"],
    "t1_facts": ["SubDeviceState discriminants", "RegisterAddress", "AlControl packed length", "push_state_checks", "WkcSites"],
    "modelled": "push_state_checks; SubDeviceGroup::{is_state, wait_for_state, transition_to, request_into_op} (every into_* wrapper "
                "is one transition_to); SubDeviceRef::request_subdevice_state_nowait; MainDevice::wait_for_state; "
                "TxRxResponse::{group_state, group_in_single_state, is_in_state, all_op}; SubDeviceState <-> u8; AlControl decode; "
                "TimeoutFuture (deadline before the inner future)",
    "rule": "corpus first (healthy chain PreOp->SafeOp->Op->SafeOp->PreOp->Init; one member stalling / refusing with a status "
            "code / everybody k polls late; a member falling back with error indication), then: (sum) the real tx_rx against "
            "1-4 devices scripted to report EVERY list of status nibbles of length <= 3 (quick) / <= 4 (thorough: 69 904 lists, "
            "exhaustive) and thousands of random lists of length 5-16 (some with the error bit), state list + group_state + "
            "group_in_single_state + all_op + is_in_state for None/Init/PreOp/Bootstrap/SafeOp/Op/Other(0..15) diffed with the "
            "model and checked against the element-wise meaning; (tr) random networks of 1-16 devices in 1-3 groups initialised by "
            "the real MainDevice::init, every group walking a random chain of into_* / request_into_op calls through a second "
            "MainDevice whose frames are sized so that a status round needs 1, 2 or 3 frames, every member independently "
            "accepting at once / after 1-5 polls / too late / refusing with an AL status code / stalling / accepting and falling "
            "back with error, occasionally a lost frame; result AND the exact frames sent (addresses, registers, requested state, "
            "chunking) diffed with the model; (md) MainDevice::wait_for_state on 1-8 devices reporting equal/mixed states or an "
            "error. Monitors: last status round vs typestate, error indication, refusal/stall => error within the timeout "
            "(virtual clock), no spurious error, AL control writes vs group membership on the wire and in every device's own "
            "request log, chunk sizes. non-trivial = transition with a member that does not simply accept or a lost frame / "
            "summary over >= 2 distinct values; distinct = distinct case line",
    "assumptions": [
        "status nibbles below 16 (AlControl's 4-bit field); TxRxResponse cannot be built outside the crate (#[non_exhaustive])",
        "m = checked or frames with room for one 14-byte status check (a smaller frame cannot carry the AL control write either)",
        "one task per MainDevice (matching of responses: C01); retries disabled (default)",
    ],
}

MANIFEST_TEXT["C10"] = {
    "text": "Theorems over arbitrary event traces (any responses, polls, losses, deadline), member lists and frame sizes: "
            "ok_implies_all_reported / wait_ok_implies_all_reported (Ok ends on a complete status round, one poll per member in "
            "order, every one reporting the requested state), is_state_true_checks_everybody + chunking_covers_all (the frames "
            "of a round partition the members in order, each non-empty, fitting, <= 129 checks — any number of frames), "
            "requests_acknowledged, requests_exactly_members (every datagram of a transition addresses a member; on success the "
            "AL control writes are exactly the members once each with the requested state), refusal_is_error, "
            "stall_is_timeout_error (failing rounds then the deadline => Err(Timeout(StateTransition)) at that event), "
            "wait_fuel_sufficient, md_wait_ok_implies_reported, states_as_reported, group_state_is_or. Summaries (element-wise since "
            "the fix of the OR-fold): single_state_iff, is_in_state_iff, all_op_iff (all_op r <-> r.states != [] and every entry "
            "is Op) without any side condition, former_or_fold_witnesses ([Op, None] and [Init, PreOp] now answered correctly). "
            "error_indication_is_error + error_indication_former_witness (a status with the error bit ends the transition in "
            "Err(StateTransition); Reports now means: counter 1, requested state, no error indication). T1: state_discriminants, "
            "group_constants.",
    "note": "Trusted: Lean kernel; hand translation (validated by diffing result + frames sent on recorded traces of the real "
            "code, incl. the exhaustive summary enumeration through real tx_rx); the trace abstraction (events in send order; a "
            "deadline either before a frame is sent or while it is unanswered). 'Within the configured timeout' is checked on the "
            "virtual clock by the monitor, the theorem says the deadline event ends the call. The write read-back of FPWR is the "
            "MainDevice's own bytes on a real wire, so a refusal is in practice detected by the first status round that reads the "
            "member's error indication (Err(StateTransition)) or, for a silent stall, by the timeout (stall theorem).",
    "technique": "Lean 4 proof (induction over frames/rounds/traces, bounded decide for the nibble algebra) + differential correspondence incl. exhaustive enumeration",
}

MANIFEST_TEXT["C17"] = {
    "text": "Theorems over the physical specification EcModel/DcSpec.lean (tree wired through port 0, children on ports 3/1/2 in "
            "frame order, symmetric link delays, per-device processing/forwarding delays, arbitrary clock offsets, 32/64-bit, any DC "
            "mix): delay_monotone (ALL inputs: delays of DC devices never decrease); parent_is_true_parent (EVERY tree of the specification, any "
            "nesting of chains, forks and crosses, unbounded size/depth: run succeeds, parent = physical upstream neighbour, every port's "
            "downstream = the device plugged in; induction over the tree in frame order: the devices of completed subtrees have no "
            "junction with a free downstream port, the enclosing junctions still have one, so the repaired search finds the nearest "
            "ancestor junction; only hypothesis: no 32-bit wrap inside a device); chain_delay_exact_partial (pure "
            "chains on any ports, DC devices contiguous, symmetric forwarding: delay of every DC device = arrival - arrival of the first DC device) and chain_delay_formula (what is computed on any "
            "chain incl. the floor(./2) rounding and the non-DC case); offset_value/offset_formula (0x0920 = now - "
            "latched receive time as two's-complement i64, 0x0928 = delay, for exactly the DC devices, in order); "
            "first_dc_is_reference; inconsistent_is_error (ARBITRARY reports incl. no open port: never a panic; "
            "inconsistent_is_error_configure_dc: same for the whole configure_dc); valid_tree_no_panic (any shape). Two known findings, each with a decide-checked counterexample "
            "theorem and a harness key (non-DC gap, 32-bit wrap inside a device); five former findings fixed (no "
            "open port, over-subscribed junction, nested-junction panic, i64 overflow, nested-junction wrong parent): their witnesses are now theorems "
            "about errors/values (parent_is_true_parent_fixed: the former wrong-parent trees now get the physical parents and ports).",
    "note": "Trusted: Lean kernel; hand translation of dc.rs/ports.rs (validated by running the real assign_parent_relationships "
            "and the real configure_dc on every generated case, both profiles, incl. which panic fires); the physical specification "
            "itself (its Rust twin is diffed against the Lean one on every tree). Fork/cross delay formulas are modelled and tied "
            "but proved only as far as monotonicity; exactness is proved for chains.",
    "technique": "Lean 4 proof (tree induction with a times-erasing simulation; chain induction on the real loop) + differential correspondence + independent physical oracle",
}


PROPS["C15"] = {
    "lean_modules": ["EcModel.Props.C15"],
    "harness": ["c15"],
    "both_profiles": True,
    "t1_facts": ["coe:"],
    "known_keys_expected": ["c15/segment-response-scs0", "c15/segment-data-offset", "c15/segmented-initiate-data-ignored",
                            "c15/word-array-buffer", "c15/write-zero-length"],
    "modelled": "the client model of C16 (mailbox/coe/mod.rs, services.rs, headers.rs, mailbox/mod.rs, SubDevice::mailbox_counter, "
                "ReceivedPdu::trim_front) run against a SPECIFICATION CoE server (EcModel/CoeServer.lean, written from ETG1000.6 "
                "5.6.2 / SOEM / IgH, not from /repo): dictionary incl. complete access, expedited / normal / segmented upload with free "
                "choice of the data carried by the initiate response and of every segment size, expedited download, abort, emergency, "
                "toggle check, server-side mailbox counter",
    "rule": "the REAL sdo_read / sdo_write / sdo_read_array / sdo_write_array run against the simulator's honest CoE server and, for "
            "non-uniform segment-length patterns, against a second reference server written independently in c15.rs (its replies fed "
            "through the scripted-reply hook): every object size 0..512 (thorough: each size x 6 mailboxes x 5 server choices; quick: "
            "stride 7 above 24) x modes auto / never-expedited / segmented with 0..room bytes in the initiate response x command "
            "specifier 0 and 3 in segment responses; ALL compositions of 1..11 (quick 1..7) segment bytes for small objects, random "
            "patterns incl. <7-byte segments for large ones; mailboxes 16..1024; destinations u8/u16/u32/u64, [u8;N], [u16;N], "
            "heapless::String<N>, heapless::Vec<u8,N> against objects of exactly / less / more bytes; complete access; all 30 named "
            "abort codes + unknown ones for read and write; emergencies; unknown objects; 0..10 stale messages (valid-looking, "
            "emergency, garbage) in the OUT mailbox; values of 0..5 bytes written to objects of equal / other length; arrays of "
            "u8/u16/u32 with MAX_ENTRIES 4/8/255; responses for a foreign index / sub-index; a 'compensating' device isolating the "
            "initiate-data defect. Compared with drv_c15 (client model on the specification server described by the same line): "
            "result, counter, mailbox reads, every request image, final dictionary. Monitors: byte-compare against the dictionary, "
            "expected error kinds with their fields, download request bytes, dictionary after writes, counter sequence. non-trivial = "
            "case whose value / dictionary matched the oracle; distinct = distinct case line",
    "assumptions": [
        "every register / mailbox datagram is answered (PDU-level failures are C06/C11)",
        "the server specification is the builder's reading of ETG1000.6 5.6.2 (the document is not available in the sandbox), "
        "cross-checked against SOEM ecx_SDOread/ecx_SDOwrite and IgH ec_fsm_coe; in particular: the initiate response of a segmented "
        "upload MAY carry the first part of the data (SOEM and IgH copy length-10 bytes from it; the Beckhoff slave stack fills it)",
        "sdo_read_exact is proved for expedited and normal uploads only; EVERY segmented upload fails on the current code "
        "(known findings c15/segment-response-scs0, c15/segment-data-offset, c15/segmented-initiate-data-ignored)",
        "normal-mode theorems need destination buffer >= object (T::buffer().len(): N bytes for [u16;N], known finding c15/word-array-buffer)",
        "sdo_write_delivers / array_helpers_consistent: values of 1..4 bytes, plain (not complete-access) downloads, at most 10 stale messages",
        "emergency_reported holds since fix-c16-emergency (any code / register / data, emergency queued before the response)",
    ],
}

MANIFEST_TEXT["C15"] = {
    "text": "Theorems about the client model run against a specification CoE server with free choices, for all dictionaries, object "
            "bytes, indices, counters, mailbox sizes 16..65535, up to 10 arbitrary stale messages: sdo_read_exact_partial (expedited "
            "and normal uploads deliver exactly the object's bytes to the decoder), sdo_write_delivers (request bytes = index, "
            "sub-index, size field, data; dictionary afterwards), array_helpers_consistent (sdo_write_array then sdo_read_array "
            "round-trips, count in sub-index 0; by induction over the elements), abort_reported (read and write, any code incl. "
            "unknown object), wrong_object_reported, too_long_reported (normal and segmented, any initiate payload), counter_cycles "
            "(k-th request of any entry point carries (c0-1+k) mod 7 + 1, any device). Counterexample theorems for every clause that "
            "fails; emergency_reported (any error code, true since fix-c16-emergency). Tied to the code by the C16 correspondence of the same model plus honest-server runs of the real code against two "
            "independent servers.",
    "note": "PARTIAL: segmented uploads never work on the current code (three independent defects), [u16;N] destinations are "
            "refused in normal mode, zero-length writes are sent as 4 bytes — five known findings, "
            "each with a counterexample theorem and a replayed witness. Trusted: Lean kernel; hand translation (validated by C15+C16 "
            "correspondence); the server specification (reading of ETG1000.6 cross-checked with SOEM/IgH; the simulator's server and "
            "a second reference server agree with it on all generated cases).",
    "technique": "Lean 4 proof (symbolic evaluation of the client on specification replies, induction over arrays / loops) + "
                 "differential correspondence against two independent servers",
}


# ---- lead: C01, and the concurrency clauses of C06 (micro-step model + baton scheduler) ----------
PROPS["C01"] = {
    "lean_modules": ["EcModel.Props.C01", "EcModel.Props.C01View"],
    "harness": ["c01"],
    "drivers": {"c01": "drv_micro"},
    "t1_facts": ["FrameState", "transition", "FIRST_PDU_EMPTY"],
    "modelled": "PduRx::receive_frame + frame_index_by_first_pdu_index (status read before marker), claim_receiving, mark_received, "
                "ReceiveFrameFut::poll (waker registration before the RxDone test), ReceivedFrame::{first_pdu,into_pdu_iter,drop}, "
                "ReceivedPdu::{deref,trim_front,len} and every other shared access of src/pdu_loop/** at yield-site granularity (Micro.lean), "
                "plus the whole-call storage model (Slots.lean) for the delivery and view theorems",
    "rule": "corpus first (schedules that exposed since-repaired defects: drop order, view not owning its frame, trim_front), then plans "
            "of 1-3 application threads (1-2 requests each, 1-3 datagrams, poll until complete, read through first_pdu / iterator / "
            "views with trims, a nested request issued while a view is held), one TX and one RX thread (responses in transmission order, "
            "duplicates, noise; arrival before the first poll happens by schedule) over 1/2/4 slots, 1-4 baton schedules per plan "
            "(bursts of 0-40 steps); after EVERY shared access the hash of the full storage snapshot must equal the Lean micro-step "
            "model's; monitors on the real run: every view/iterator read equals the bytes the wire returned for that request's datagrams "
            "(after trims), a response accepted before a poll completes that poll, a genuine response to an outstanding request is never "
            "rejected, access windows never overlap, every slot free after drain. non-trivial = a response was accepted; distinct = "
            "distinct (plan, schedule)",
    "assumptions": [
        "fewer than 256 datagram indices are allocated while a request is outstanding (the property's own assumption; hypothesis of scan_finds_owner / deliver_exact via fresh_idx_distinct)",
        "no deadline expires for the request under observation (C06)",
        "sequentially consistent interleavings at yield-site granularity; memory Ordering arguments and buffer tearing are not modelled",
    ],
}
PROPS["C06"]["lean_modules"].append("EcModel.Props.C06Micro")
PROPS["C06"]["harness"].append("c06m")
PROPS["C06"]["drivers"]["c06m"] = "drv_micro"
PROPS["C06"]["known_keys_expected"] = ["c06m/two-parties@store-over-inside"]
PROPS["C06"]["rule"] += (" || concurrency clauses (c06m): plans as for C01/C02 plus retry budgets 0-2, the virtual clock advanced past or short of "
                         "deadlines between any two shared accesses, futures dropped at arbitrary points, partial/failed sends; every step's "
                         "snapshot compared with the micro-step model; monitors: retransmissions byte-identical, access windows disjoint, "
                         "no panic in TX/RX, every slot free after drain; a symptom seen in a run in which a plain store overwrote "
                         "Sending/RxBusy is attributed to that cause (key suffix @store-over-inside)")
MANIFEST_TEXT["C01"] = {
    "text": "deliver_exact: for any storage (any slot count, any other requests in flight) a response whose first datagram matches the "
            "owner's first index lands in the owner's slot, the owner's poll completes and first_pdu yields exactly the returned data and "
            "working counter, all other slots untouched; scan_finds_owner: the RX lookup, with its two loads per slot interleaved with "
            "arbitrary changes by other tasks, returns the owner's slot (scan_marker_first_counterexample shows the opposite load order "
            "fails); no_lost_wakeup over every interleaving of poll with mark_received; first_pdu_validates; view_trim_suffix; "
            "view_stable (C01View, from the ownership invariant J of C03): no operation of any other handle changes the bytes a held "
            "view denotes. Tied to the code by the micro-step model diffed after every shared access under controlled schedules.",
    "note": "Trusted: Lean kernel; hand translation (validated per step on the schedules run); the index-window assumption enters as a "
            "hypothesis (distinct first indices of outstanding requests); sequential consistency only; weak-memory behaviour not covered.",
    "technique": "Lean 4 proof (storage-model lemmas, interleaving enumeration for the handshake, induction for the scan) + schedule-controlled differential correspondence",
}
MANIFEST_TEXT["C06"]["note"] += (" Concurrency clauses (lead, Props/C06Micro.lean on the status-protocol automaton): abandon_safe_partial, retry_is_safe, "
                                 "stale_tx_cannot_resurrect, heals_after_stale_party_finishes proved; the full 'safe while TX/RX is inside' clause is false of the code "
                                 "(abandon_inside_tx/rx_counterexample) and carried as known findings c06m/*@store-over-inside, replayed on the real code by the baton scheduler.")

PROPS["C07"] = {
    "lean_modules": ["EcModel.Props.C07"],
    "harness": ["c07"],
    "both_profiles": True,
    "t1_facts": ["txrx:", "LEN_MASK", "ETHERCAT_ETHERTYPE", "MAINDEVICE_ADDR", "command constant", "Command::code"],
    "known_keys_expected": ["c07/wkc-sum-overflow"],
    "modelled": "SubDeviceGroup::{tx_rx, tx_rx_sync_system_time, tx_rx_dc (up to CycleInfo.dc_system_time), "
                "process_received_pdi_chunk}, push_state_checks (incl. the 129-per-frame cap), the u16/u32 additions in both "
                "overflow modes, the fallback of tx_rx_sync_system_time to tx_rx, on top of the C04 model of "
                "CreatedFrame::{push_pdu, push_pdu_slice_rest, can_push_pdu_payload, mark_sendable}; the network is a list of "
                "answer frames, each a list of (data, working counter) as ReceivedPduIter yields them",
    "rule": "one case = one cycle of the real code: variant x frame size x pdi_start x image bytes x read_pdi_len x SubDevice addresses "
            "x initial PDU index x answers; compared with drv_c07: every transmitted frame byte for byte, the image after the cycle, the "
            "TxRxResponse (working counter, states, time) or error kind / panic / hang. Paths: (raw) group built by the verif::txrx hook "
            "for every split of images of 0..8 bytes and random images up to 640 bytes at every frame size 30..200 and a stride up to "
            "1514 (quick: stride), answered by a scripted responder with arbitrary logical memory, working counters (incl. 0x8000/0xffff), "
            "AL status bytes, clock values, and 1 case in 8 with a missing/short/long/extra datagram or a lost answer; (sim) real "
            "MainDevice::init -> [configure_dc_sync] -> into_op on simulated segments of 0..16 devices with random PDO sizes (images "
            "0..~700 bytes), then cycles on a second MainDevice with the frame size under test, random device input memory and AL states, "
            "image read back through io_raw/inputs_raw/outputs_raw; (corpus) boundary cases incl. the known-finding witness and the witness of the repaired sync deadlock (real spin lock in a child process + deadlock-detecting lock), the "
            "129-check cap (140 SubDevices, 2000-byte frames), sub-minimum frame sizes, a window leaving the address space. "
            "non-trivial = cycle of at least two frames; distinct = distinct case line",
    "assumptions": [
        "frame size between 30 (50 for the clock variants) and 2063 bytes; logical window inside the 32-bit address space; "
        "read_pdi_len <= pdi_len <= MAX_PDI (established by configure_fmmus); #SubDevices <= MAX_SUBDEVICES",
        "a free frame slot exists when the loop allocates one (one slot suffices for a single cycle; C03)",
        "theorems about what came back (inputs_land, wkc_sum_partial, states_in_group_order, dc_time) assume every frame is answered "
        "datagram for datagram with data of the requested length; other answers are covered by the model and the tie, and by "
        "no_error_when_answered / outputs_untouched / each_frame_fits which hold for every answer",
        "ReceivedPduIter is modelled as yielding the answer's datagram list (its byte-level parsing is C01/C05); "
        "CycleInfo arithmetic after the tx_rx_dc loop is C18",
    ],
}

MANIFEST_TEXT["C07"] = {
    "text": "Theorems about the fuel-driven model of the three cycle loops, for every image length/content, every read/write split, every "
            "SubDevice list, every frame size 30 (50 with clock datagram)..2063, every start index, both overflow modes and every list of "
            "answers: lrw_tiles (LRW (address,length) pairs tile [pdi_start, pdi_start+pdi_len) contiguously, each non-empty), "
            "image_sent_once (their data concatenated is the image as written), each_frame_fits (every frame is the C04 encoding of its "
            "datagrams, non-empty, <= frame size), dc_first_once + dc_time (exactly one FRMW to the reference at 0x0910 with 8 zero bytes, "
            "first in the first frame; reported time = its answer), inputs_land, outputs_untouched, wkc_sum_partial, "
            "states_in_group_order, frame_count_bound (<= ceil(pdi_len/(cap-28)) + ceil(n/min((cap-16)/14,129)) [+1 clock]), terminates "
            "(fuel pdi_len+n+2 never exhausted; terminates_all_variants for the three entry points), no_error_when_answered. Proved by an invariant over the loop (induction on fuel) on top "
            "of the C04 frame invariant. Tied to the code by regenerated constants/statement shapes and by diffing frames, image and "
            "result of the real cycle (hook-built groups and groups from the real init on the simulated segment) against the model.",
    "note": "PARTIAL: wkc_sum holds only if the sum fits u16 (wkc_sum_partial); the unchanged code panics in builds with overflow "
            "checks / wraps without on lrw_wkc_sum += wkc (wkc_sum_counterexample, wkc_sum_full_false; known finding "
            "c07/wkc-sum-overflow). Repaired: tx_rx_sync_system_time without a DC reference used to call tx_rx while holding the image "
            "write lock and never returned (fixed: line in KNOWN_FINDINGS.txt); the witness still runs every time on the real spin lock "
            "in a child process and on a deadlock-detecting lock for every generated case, and any hang is a VIOLATION. Trusted: Lean "
            "kernel; hand translation (validated on the generated cases only); answers abstracted to datagram lists; alloc_frame "
            "assumed to succeed; the image lock itself is not modelled (its placement is tied by T1 source shapes and by the "
            "deadlock-detecting lock of the harness).",
    "technique": "Lean 4 proof (loop invariants by induction on fuel, refinement to an arithmetic plan per pass, reuse of the C04 frame "
                 "invariant) + differential correspondence (hook-built groups, real init on a simulated segment) + independent monitors",
}

PROPS["C13"] = {
    "lean_modules": ["EcModel.Props.C13"],
    "harness": ["c13"],
    "both_profiles": True,
    "t1_facts": ["eeprom:"],
    "known_keys_expected": [],
    "modelled": "SubDeviceEeprom::{category, start_at, station_alias, size, identity, mailbox_config, general, sync_managers, "
                "fmmus, fmmu_mappings, pdos, find_string, device_name, device_description, items}, CategoryIterator::{next, "
                "next_sub_item}, EepromRange::{new, word_pos, skip_ahead_bytes, read_byte, Read::read}, embedded-io-async "
                "read_exact, the derived wire parsers of SyncManager/Pdo/PdoEntry/FmmuEx/DefaultMailbox/SiiGeneral and their "
                "enums/bitflags; the remaining unchecked u16 arithmetic (PDO bit sum) through add16 in checked (panic) and "
                "wrapping mode, the u32 cursor arithmetic exactly with the invariant pos,end <= 2^17; provider calls counted; "
                "loops with explicit fuel (category walk: 32768+8); source shapes of the repaired sites checked by T1",
    "rule": "adversarial corpus (the byte-exact witnesses of the former counterexample theorems, now `_fixed` theorems; "
            "blank/zero images of 0..2048 bytes with ff/00/wrap fill; first category length 0xFFFF/0xFFFE/0x8000/0x7FFF/... x 6 "
            "types; wrap-to-self, two-cycle and periodic images; size words 510..0xFFFF; string index one past the table; string "
            "lengths overrunning the category; categories at words 0x7FFA..0x7FFD with lengths 0,1,2; 255x255-bit PDOs, 65 PDOs, "
            "missing PDO entries; 9 SMs / 17 FMMU_EX / 20 FMMUs; 31/32/33 empty categories), random byte images 0..2048 bytes, "
            "device descriptions encoded and then mutated 0-2 times (byte flips, extreme / near-miss length words, changed "
            "types, truncation, erased runs), a few images beyond 64 KiB; chunk size 4 and 8; per image 24 queries (alias, size, "
            "identity, mailbox, general, SMs, FMMUs, FMMU_EX, TX/RX PDOs, 8 category searches, 5 string lookups with N in "
            "{4,16,64,128,255}, name, description). The REAL parsers run on an in-memory provider with a provider-call cap "
            "(outcome `hang`), one catch_unwind per query; monitors: no panic, no hang, <= 184801 provider calls (the theorem's "
            "bound), collections within capacity; compared with the model: value/error token, panic site and provider-call "
            "count. Dev profile and (thorough) release profile. non-trivial = image with >= 3 distinct outcome classes; "
            "distinct = distinct image",
    "assumptions": [
        "provider serves 4 or 8 bytes per read_chunk (theorems: >= 4) and never fails; device memory holds bytes (< 256)",
        "the arguments of EepromRange::new are u16 values (its signature), so its u32 arithmetic is exact",
        "the release run generates a third of the random / mutated images of the dev run",
        "the configuration arithmetic that consumes PDO bit lengths (configure_pdos_eeprom's products and sum, the byte-length "
        "conversion, increment_byte_aligned's rounding) is covered by theorem only (Props/C13Config over C08's model "
        "EcModel/Config.lean, which C08's harness diffs against the real code on a simulated segment, incl. EEPROMs with 20 PDOs "
        "of 255x255 bit and oversampling 65535); this check's own harness does not run a MainDevice",
    ],
}

MANIFEST_TEXT["C13"] = {
    "text": "A Hoare-style calculus on the cost-counting model (Tri: provider calls <= B, never out of fuel, panics only at "
            "listed sites, postcondition) with one lemma per translated function, for ARBITRARY memories, both chunk sizes and "
            "both build modes. After the repairs in /repo (category walk, size, EepromRange cursor) the list of overflow sites "
            "is empty and the full statement holds: eeprom_queries_total (every query, every image, both build modes: "
            "terminates, returns value/absent/error, within an explicit bound) + eeprom_queries_never_panic; catLoop_terminates "
            "(the word address grows by >= 2 per step through a checked addition: <= 32737 calls); access_bound (every query "
            "<= 184801 calls); collections_bounded (lists <= heapless capacity, strings <= N). The eight former counterexample "
            "images are kept as `_fixed` theorems (category_len_overflow_fixed, category_beyond_32k_fixed, "
            "category_wrap_hang_fixed, size_overflow_fixed, found_category_overflow_fixed, skip_overflow_fixed, "
            "read_byte_overflow_fixed) and in the corpus: they now yield values or SectionOverrun.",
    "note": "Trusted: Lean kernel; hand translation (which operations can panic, evaluation order) validated by diffing outcome, "
            "panic site and provider-call count on ~1.2 k (quick) / ~20 k (thorough) images over both profiles; T1 checks the "
            "source shape of every repaired site (checked_add, usize size, u32 cursor, read_byte guard) so that a regression to "
            "unchecked arithmetic is reported even before a failing image is found. The configure_pdos_* / "
            "increment_byte_aligned arithmetic on PDO bit sums, formerly not covered (u16, c08/pdo-bit-length-u16-overflow), is "
            "repaired (fix-c08-pdo-bit-length) and proved total in Props/C13Config; its tie to the code is C08's.",
    "technique": "Lean 4 proof (Hoare calculus over a total model with explicit panic/fuel outcomes, both overflow modes) + differential correspondence",
}

PROPS["C12"] = {
    "lean_modules": ["EcModel.Props.C12"],
    "harness": ["c12"],
    "both_profiles": True,
    "t1_facts": ["eeprom:"],
    "known_keys_expected": [],
    "modelled": "EepromRange::{new, Read::read, read_byte, skip_ahead_bytes}, embedded-io-async read_exact, "
                "SubDeviceEeprom::{start_at, category, items, find_string, sync_managers, fmmus, fmmu_mappings, pdos, "
                "mailbox_config, general, identity, size, device_name, device_description, ignore_no_category}, "
                "CategoryIterator::{next, next_sub_item}, the PDO loop incl. the u16 bit-length sum and the heapless push, the "
                "derived wire parsers of the SII structs (SyncManager, Pdo, PdoEntry, FmmuEx, SiiGeneral incl. PortStatuses, "
                "CoeDetails, Flags, bool); byte layouts, category numbers, capacities and fixed word addresses regenerated from "
                "/repo. Spec side (EepromSpec.lean, independent of the parser model): encodeSii, encSm, encStrings, encPdo / "
                "encPdoEntry (ETG2010 Table 14, all six + six fields), encGeneral (all 18 bytes + tail) with decidable "
                "well-formedness predicates",
    "rule": "range reads: ALL (start word, length) windows over images of 0..16 words x chunk 4/8 x fill ff/00/wrap, each with "
            "single reads of exactly/less/more than the window, read_exact of n and n+1, a random schedule of partial reads, "
            "byte-wise reads, and the same through start_at with every (odd and even) byte length; random windows over 128 B .. "
            "512 KiB images incl. words 0x7ff0..0x8010 and 0xfff0..0xffff; mixed read/read_exact/read_byte/skip sequences. "
            "parsers: images encoded from random device descriptions (0..50 strings of 0..255 bytes incl. NUL and non-ASCII, "
            "0..8 SMs, 0..16 FMMUs, 0..16 FMMU_EX, 0..64 PDOs x 0..255 entries, optional categories in random order, 0..3 unknown "
            "categories interleaved, size word 0..4095, odd bodies padded with 00/ff, with/without End marker; a few padded to "
            "their declared size; PDO DC-sync byte, name index and flags random over their whole range; 1 in 16 small devices "
            "with 63..67 PDOs per direction, i.e. around the heapless capacity, more than 64 must give Capacity(Pdo); corpus: "
            "exactly 64 and 65 PDOs, a PDO of 255 entries, 255 x 255 bits, General before and behind Strings), 31 queries "
            "each; an independent reading of ETG2010 (harness/src/eeprom_gen.rs Oracle) "
            "says what each query must return. Compared with the model: every answer token and provider-call count. "
            "non-trivial = all-ranges case / device with >= 3 categories; distinct = distinct image",
    "assumptions": [
        "provider serves at least 2 bytes per read_chunk (real devices: 4 or 8) and never fails",
        "windows are clipped to the 2^16 words (128 KiB) that EepromDataProvider's u16 word addresses can reach; generated "
        "images are kept inside that space (larger EEPROMs cannot be addressed through this trait at all)",
        "round trips are for well-formed images inside that space with fewer than 32 empty categories before the one searched "
        "for (the code's blank-EEPROM heuristic, kept)",
    ],
}

MANIFEST_TEXT["C12"] = {
    "text": "range_read_exact: for every memory, chunk size >= 2, build mode, window (any cursor parity, end inside the 2^17-byte "
            "address space) and ANY sequence of partial reads, each call returns exactly the stored bytes [pos, pos+k) with k = "
            "min(requested, end-pos), never an error or panic; range_read_contiguous; range_window (EVERY u16 start word and "
            "length: the window is the bytes of the words asked for, clipped to the address space); read_raw_exact and "
            "read_typed_exact (eeprom_read_raw / eeprom_read::<T> for every length, odd included). Against an independent layout "
            "spec (EepromSpec.encodeSii: header, categories in any order incl. unknown types, End marker): category_found (exact "
            "byte extent of every present category, images up to 128 KiB), category_absent, category_found_counterexample (32 "
            "empty categories: the code's heuristic, kept); round trips sync_managers_roundtrip, fmmus_roundtrip, "
            "fmmu_mappings_roundtrip (with pad byte), find_string_roundtrip (NUL stripping, non-ASCII -> '?', any position in "
            "the table), identity_roundtrip, mailbox_roundtrip, size_roundtrip (every size word); pdos_roundtrip (EVERY list "
            "of <= 64 well-formed PDO descriptions - index, sync manager, DC sync, name index, flags, 0..255 entries of index, "
            "sub-index, name index, data type, bit length, flags - stored as TxPDO (50) or RxPDO (51) anywhere in the category "
            "list, chunk >= 4, both build modes: exactly one Pdo per description in order with its index, entry count, sync "
            "manager and the SUM of its entries' bit lengths, which is everything the real Pdo keeps; the u16 sum cannot "
            "overflow), pdos_over_capacity (> 64 PDOs: Capacity(Pdo), never a panic or a truncated list), pdos_absent (no "
            "category: empty list); general_roundtrip (every field SiiGeneral has: four string indices, CoE detail bits, "
            "FoE/EoE enables, flags, EBus current, four port kinds with 5..15 read as unused, physical memory address; reserved "
            "bytes and tail ignored), general_absent (NoCategory); name_roundtrip / description_roundtrip (device_name = "
            "cleaned string at General's ORDER index, device_description = cleaned string at its NAME index, General and "
            "Strings in either order anywhere in the list: general_roundtrip composed with find_string_roundtrip), "
            "name_description_index_zero, name_description_no_general (name absent; description is the error NoCategory), "
            "name_description_no_strings; former counterexamples kept as "
            "range_window_fixed, read_raw_odd_fixed, find_string_one_past_fixed; t1_layouts / t1_constants tie the literal "
            "offsets to the layouts regenerated from /repo. Non-vacuity: concrete images (two TxPDOs of 2 and 3 entries, "
            "General behind Strings, 65 PDOs) evaluated by the kernel AND fed through pdos_roundtrip / name_roundtrip with "
            "every hypothesis discharged.",
    "note": "Trusted: Lean kernel; hand translation (validated on generated cases); the oracle's reading of ETG2010. Every "
            "clause of the statement now has a Lean round trip against EepromSpec. Stays partial: the round trips assume an "
            "image inside the 128 KiB the word addresses reach, fewer than 32 empty categories before the one searched for, and "
            "the FIRST category of a type (duplicates are not described); a name/description index beyond the string table "
            "and a PDO category cut short (Decode) are covered by examples and the correspondence only, not by a quantified "
            "theorem; the per-entry bit lengths are not observable (the real Pdo stores only their sum). All former known "
            "findings of this property are repaired in /repo (u32 cursor, size in usize, find_string >=, start_at div_ceil).",
    "technique": "Lean 4 proof (loop invariants over chunk assembly; walk induction over encoded categories) + differential correspondence",
}

# checks that are registered but not yet passing end-to-end are not claimed in MANIFEST.json
NOT_READY = {}
PROPS["C01"]["harness"].append("c01d")
PROPS["C01"]["drivers"]["c01d"] = "drv_micro"
PROPS["C01"]["rule"] += (" || c01d: the same with futures of OTHER requests dropped at arbitrary points (no deadlines): a genuine first response to a "
                         "request that was not itself abandoned must be accepted; symptoms in runs where a drop hit the TX/RX window are attributed to C06's known finding")
PROPS["C02"]["lean_modules"].append("EcModel.Props.C02Micro")
MANIFEST_TEXT["C02"]["text"] += (" C02Micro: the same invariant proved DIRECTLY on the micro-step model (micro_inv_step over all 34 program counters, micro_inv_reachable "
                                 "for every schedule): micro_mutual_exclusion, micro_at_most_one_inside_claim, micro_buffer_access_by_insider, "
                                 "micro_buffer_changes_only_by_insider, micro_exactly_one_owner; counterexamples for abandonment inside the window.")
PROPS["C04"]["harness"].append("c04r")
PROPS["C04"].setdefault("drivers", {})["c04r"] = "drv_seq"
PROPS["C04"]["rule"] += (" || c04r: frames built in REUSED slots: random sequential histories over 1-2 slots (allocations, pushes, sends ok/partial/"
                         "error, responses shorter/equal/LONGER than the request, garbage, timeouts, drops, response reads) compared op by op and by "
                         "full snapshot with the storage model; monitor: every frame handed to the send closure by a live request is exactly the "
                         "encoding of that request's pushes (zero padding, zero working counters, nothing left from the slot's past)")
PROPS["C06"]["harness"].append("c06h")
PROPS["C06"]["drivers"]["c06h"] = "drv_seq"
PROPS["C06"]["rule"] += (" || c06h ('never hanging'): directed plans, retries 0-3 x fault {every send fails, TX never runs, oversize response leaves "
                         "RxBusy, all responses lost}: after exactly retries+1 expired deadlines the poll must answer Timeout(Pdu), not earlier, never pending forever")
PROPS["C01"]["lean_modules"].append("EcModel.Props.C01Idx")
MANIFEST_TEXT["C01"]["text"] += (" C01Idx: the index-window assumption made precise on ghost draw counters along histories (Window); markers_exact, "
                                 "live_idx_unique (outstanding requests have distinct first indices), owner_is_first_match, deliver_exact_reachable "
                                 "(deliver_exact for every reachable storage under Window, no uniqueness hypothesis left); window_needed_counterexample.")
# C03 under concurrency (added after seed C03b: an unconditional RxDone store in mark_received leaks a slot only when the
# request is abandoned between two steps of the receive path, which the sequential C03 histories cannot arrange)
PROPS["C03"]["harness"].append("c03m")
PROPS["C03"]["drivers"]["c03m"] = "drv_micro"
PROPS["C03"]["rule"] += (" || c03m: the schedule-controlled runs of C06 (deadlines, retries, drops at arbitrary points incl. while TX/RX are inside the "
                         "buffer, failed sends, noise) judged only by the capacity monitors: after every handle was dropped each slot is free "
                         "again, no side panicked; every step's snapshot compared with the micro-step model")

# C02 under deadlines (added after seed C02b: a retry store guarded by a stale status sample)
PROPS["C02"]["harness"].append("c02t")
PROPS["C02"].setdefault("drivers", {})["c02t"] = "drv_micro"
PROPS["C02"]["rule"] += (" || c02t: the same with deadlines (retries 0-2, final timeouts at arbitrary points; tasks parked right before "
                         "their retry / release store while RX and TX run on), judged by the buffer-exclusion, lifecycle-order "
                         "(every observed status change is an edge of the documented lifecycle) and store-over-live-state monitors")

# C20 at OS-thread granularity (added after seed C20b: a completed future releasing its slot a second time when dropped)
PROPS["C20"]["harness"].append("c20m")
PROPS["C20"].setdefault("drivers", {})["c20m"] = "drv_micro"
PROPS["C20"]["rule"] += (" || c20m: the schedule-controlled runs of the real PDU loop on OS threads (2-3 application threads, TX, RX; "
                         "deadlines, retries, drops at arbitrary points; every step = code between two shared accesses), judged by the "
                         "cross-talk monitors only: a view/iterator never shows data other than what the network returned for ITS request, "
                         "no data without an accepted response, every observed status change is an edge of the lifecycle (a slot freed or "
                         "re-queued under another task's live request is how tasks disturb each other), no panic")

# C13 appendix (builder-c08): the configuration arithmetic on EEPROM-supplied PDO bit lengths, after fix-c08-pdo-bit-length
PROPS["C13"]["lean_modules"].append("EcModel.Props.C13Config")
MANIFEST_TEXT["C13"]["text"] += (" C13Config (closes the former gap 'configure_pdos_* arithmetic not covered'): eeprom_pdos_within_types "
    "(for every memory, chunk size and build mode, SubDeviceEeprom::pdos returns at most 64 PDOs, each with bit_len <= 255 x 255 = "
    "65025), pdo_configuration_arithmetic_total (for every such list, every oversampling configuration with u16 factors and every "
    "sync manager index, the u64 bit-length sum of configure_pdos_eeprom never panics, is the exact sum and is the same in the "
    "overflow-checking and the wrapping build; the byte length derived from it is a value or Err(IntegerTypeConversion), never a "
    "panic; div_ceil(8) of any u16 bit count is at most 8192: no `+ 7` overflow in increment_byte_aligned), pdo_sum_255x255_fixed "
    "(64 PDOs x 65025 bits x oversampling 65535 = 272 730 456 000 bits computed exactly in both modes, then refused with "
    "IntegerTypeConversion; 5 x 65025 bits = 40641 bytes).")

# C06: publish-then-wake (added after seed C06c)
MANIFEST_TEXT["C06"]["text"] += (" Handing a (re-)queued frame to the transmit task: publish_then_wake_never_strands (finite model of the publishing side "
                                 "against a transmit task sleeping on its waker, ALL interleavings by kernel evaluation, state space proved closed), "
                                 "wake_then_publish_strands_counterexample, publish_wake_order_sites (T1: every site of /repo that makes a frame Sendable calls "
                                 "wake_sender() after publishing and before awaiting).")
PROPS["C06"]["modelled"] += "; the publish/wake hand-over to the transmit task (TxWake.lean) with the order of the two statements regenerated from every publishing site"

# C05 under concurrency (added after seed C05e: the marker re-check after the copy)
PROPS["C05"]["harness"].append("c05m")
PROPS["C05"].setdefault("drivers", {})["c05m"] = "drv_micro"
PROPS["C05"]["rule"] += (" || c05m: the schedule-controlled runs of the real PDU loop (requests of other tasks dropped and their slots reused between the "
                         "receive side's lookup and its claim; duplicates and noise), judged by the receive side's own clauses only: the "
                         "contents of a slot when the receive side hands its claim back (frame rejected) equal the contents at the claim; no panic")
PROPS["C05"]["assumptions"] = [a for a in PROPS["C05"]["assumptions"] if not a.startswith("sequential delivery")] + [
    "the sequential harness delivers frames between whole API calls; interleavings of receive_frame with other tasks are exercised by c05m (and C01/C02)"]

# C13: the initialisation steps built on the EEPROM queries (added after seed C13e)
PROPS["C13"]["harness"].append("c13i")
PROPS["C13"].setdefault("drivers", {})["c13i"] = "drv_c13"
PROPS["C13"]["rule"] += (" || c13i (monitor only, no model prediction): the REAL MainDevice::init + into_op against a simulated SubDevice whose EEPROM "
                         "is all ones / all zeros / noise / a well-formed image with noisy categories or boundary bytes / an unnamed device with "
                         "large identity words, 4- and 8-byte SII: a value or an error within the executor's step limit, never a panic")
