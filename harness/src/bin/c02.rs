//! C02 — schedule-quantified runs with send failures, duplicates and noise (no deadlines, no
//! abandonment: those are C06): mutual exclusion and lifecycle order. See `ecverif::microrun`.
fn main() {
    ecverif::microrun::main_for(
        ecverif::microrun::Profile { key: "c02", drops: false, timeouts: false, tx_fail: true, rx_noise: true, only: &[] },
        300,
        2000,
    );
}
