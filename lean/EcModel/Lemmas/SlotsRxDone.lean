/-
  Only `receive_frame` makes a slot `RxDone`; "the last time a predicate became true" along a history.
-/
import EcModel.Lemmas.SlotsShape

namespace Ec

theorem rxDone_setSlot {s : Sys} {k' k : Nat} {y : Slot} (h : ((s.setSlot k' y).slot k).st = .rxDone)
    (hy : y.st = .rxDone → k = k' → (s.slot k).st = .rxDone) : (s.slot k).st = .rxDone := by
  rw [slot_setSlot] at h
  split at h
  · next hk => exact hy h hk.1
  · exact h

theorem rxDone_dropReceived {s : Sys} {k' k : Nat} (h : ((dropReceived s k').1.slot k).st = .rxDone) :
    (s.slot k).st = .rxDone := by
  unfold dropReceived at h
  simp only at h
  split at h
  · exact rxDone_setSlot h (by simp)
  · next hne =>
    refine rxDone_setSlot h ?_
    intro a b; subst b; simpa using a

/-- No operation other than `receive_frame` moves a slot into `RxDone`. -/
theorem rxDone_only_by_rx (v : World) (op : Op) (k : Nat) (hn : 0 < v.1.n) (hop : ∀ b, op ≠ .rx b)
    (h : ((step v op).1.1.slot k).st = .rxDone) : (v.1.slot k).st = .rxDone := by
  cases op with
  | rx b => exact absurd rfl (hop b)
  | alloc r =>
    simp only [step] at h
    split at h
    · unfold opAlloc at h
      split at h
      · next s' i e =>
        obtain ⟨_, _, f, rfl⟩ := allocLoop_some hn e
        exact rxDone_setSlot (s := { v.1 with frameIdx := f }) h (by simp [freshSlot])
      · next s' e => obtain ⟨f, rfl⟩ := allocLoop_none e; exact h
    · exact h
  | push r c d l =>
    simp only [step] at h; unfold opPush at h
    split at h
    · simp only at h
      split at h
      · refine rxDone_setSlot (s := { v.1 with pduIdx := _ }) h ?_
        intro a b; subst b; simpa [frameSlot_st] using a
      · exact h
    · exact h
  | rest r c b =>
    simp only [step] at h; unfold opRest at h
    split at h
    · next reg k' count last e =>
      have key : ∀ (s1 : Sys) (y : Slot), s1.slots = v.1.slots → y.st = (v.1.slot k').st →
          ((s1.setSlot k' y).slot k).st = .rxDone → (v.1.slot k).st = .rxDone := by
        intro s1 y e1 ey h1
        have := rxDone_setSlot h1 (by intro a b; subst b; rw [slot_congr e1, ← ey]; exact a)
        rwa [slot_congr e1] at this
      simp only at h
      split at h
      · split at h
        · exact key _ _ rfl (frameSlot_st _ _ _) h
        · exact key _ _ rfl (frameSlot_st _ _ _) h
      · split at h <;> exact h
      · split at h <;> exact h
    · exact h
  | mark r a b =>
    simp only [step] at h; unfold opMark at h
    split at h
    · exact rxDone_setSlot h (by simp)
    · exact h
  | dropCreated r =>
    simp only [step] at h; unfold opDropCreated at h
    split at h
    · simp only at h
      split at h
      · exact rxDone_setSlot h (by simp)
      · exact h
    · exact h
  | txNext r =>
    simp only [step] at h
    rcases txNext_cases v r with e | ⟨i, _, _, _, _, e⟩
    · simp only [step] at e; rw [e] at h; exact h
    · simp only [step] at e; rw [e] at h; exact rxDone_setSlot h (by simp)
  | txSend r o =>
    simp only [step] at h; unfold opTxSend at h
    split at h
    · simp only at h
      split at h
      · exact rxDone_setSlot h (by simp only; split <;> simp)
      · exact h
    · exact h
  | poll r =>
    simp only [step] at h; unfold opPoll at h
    split at h
    · simp only at h
      repeat' split at h
      all_goals first | exact h | exact rxDone_setSlot h (by simp)
    · exact h
  | dropFut r =>
    simp only [step] at h; unfold opDropFut at h
    split at h
    · exact rxDone_setSlot h (by simp)
    · exact h
  | first r c i =>
    simp only [step] at h; unfold opFirst at h
    split at h
    · simp only at h
      repeat' split at h
      all_goals first | exact h | exact rxDone_dropReceived h
    · exact h
  | iter r m =>
    simp only [step] at h; unfold opIter at h
    split at h
    · exact rxDone_dropReceived h
    · exact h
  | dropReceived r =>
    simp only [step] at h; unfold opDropReceived at h
    split at h
    · exact rxDone_dropReceived h
    · exact h
  | viewRead r => simp only [step] at h; unfold opViewRead at h; split at h <;> exact h
  | viewTrim r ct => simp only [step] at h; unfold opViewTrim at h; split at h <;> exact h
  | dropView r =>
    simp only [step] at h; unfold opDropView at h
    split at h
    · exact rxDone_dropReceived h
    · exact h
  | advance us => exact h
  | reset =>
    simp only [step] at h
    split at h
    · unfold opReset at h
      rw [reset_slot_none] at h; cases h
    · exact h
  | snap => exact h

/-- `receive_frame` moves a slot into `RxDone` only by accepting a frame (`processed`) into a slot
    that was `Sent`. -/
theorem rxDone_by_rx (v : World) (b : List Nat) (k : Nat)
    (h : ((step v (.rx b)).1.1.slot k).st = .rxDone) (hold : (v.1.slot k).st ≠ .rxDone) :
    (step v (.rx b)).2 = "processed" ∧ (v.1.slot k).st = .sent := by
  simp only [step, opRx] at h ⊢
  rcases receiveFrame_effect v.1 b with ⟨e, _⟩ | ⟨k', hk', hst, ⟨p, e⟩ | e⟩
  · rw [e] at h; exact absurd h hold
  · rw [e] at h ⊢
    simp only at h
    rw [slot_setSlot] at h
    split at h
    · next hk => exact ⟨rfl, hk.1 ▸ hst⟩
    · exact absurd h hold
  · rw [e] at h
    simp only at h
    rw [slot_setSlot] at h
    split at h
    · simp at h
    · exact absurd h hold

/-- If `P` fails at the start of a history and holds at its end, there is a last step at which it
    became true, and it held at every point after that. -/
theorem last_change (P : World → Prop) (w : World) (ops : List Op) (h0 : ¬ P w) (h1 : P (run w ops)) :
    ∃ pre op post, ops = pre ++ op :: post ∧ ¬ P (run w pre) ∧ P (step (run w pre) op).1 ∧
      ∀ j, j ≤ post.length → P (run (step (run w pre) op).1 (post.take j)) := by
  induction hn : ops.length generalizing ops with
  | zero =>
    have : ops = [] := List.eq_nil_of_length_eq_zero hn
    subst this; exact absurd h1 h0
  | succ n ih =>
    rcases List.eq_nil_or_concat ops with rfl | ⟨L, b, rfl⟩
    · simp at hn
    · rw [List.concat_eq_append] at hn h1 ⊢
      have hL : L.length = n := by simp at hn; omega
      rw [run_append] at h1
      by_cases hp : P (run w L)
      · obtain ⟨pre, op, post, e, a1, a2, a3⟩ := ih L hp hL
        refine ⟨pre, op, post ++ [b], by rw [e]; simp, a1, a2, ?_⟩
        intro j hj
        by_cases hj' : j ≤ post.length
        · rw [List.take_append_of_le_length hj']; exact a3 j hj'
        · have : j = (post ++ [b]).length := by simp at hj ⊢; omega
          rw [this, List.take_length, run_append]
          have e' : run (step (run w pre) op).1 post = run w L := by
            rw [e, run_append, run_cons]
          rw [e']; exact h1
      · refine ⟨L, b, [], rfl, hp, h1, ?_⟩
        intro j hj
        simp at hj; subst hj
        exact h1

end Ec
