import EcModel.Drv.C10
def main : IO Unit := Ec.Drv.runDriver Ec.Drv.C10.handle
