//! C04 — frames built through the real `CreatedFrame` API, observed as the bytes handed to the
//! closure of `SendableFrame::send_blocking`.
use ecverif::rng::Rng;
use ecverif::util::{Report, dyn_storage, hex, unhex};
use core::time::Duration;
use ethercrab::verif;
use ethercrab::{Command, Reads, Writes};

#[derive(Clone, Debug)]
pub enum Cmd {
    Nop,
    /// kind, wire address, register
    Ar(&'static str, u16, u16),
    /// constructor taking a ring position (aprd/apwr), register
    Pos(&'static str, u16, u16),
    /// kind, logical address
    L(&'static str, u32),
}

impl Cmd {
    pub fn to_line(&self) -> String {
        match self {
            Cmd::Nop => "nop".into(),
            Cmd::Ar(k, a, r) => format!("{k}.{a}.{r}"),
            Cmd::Pos(k, p, r) => format!("{k}pos.{p}.{r}"),
            Cmd::L(k, a) => format!("{k}.{a}"),
        }
    }
    pub fn to_command(&self) -> Command {
        match *self {
            Cmd::Nop => Command::Nop,
            Cmd::Ar("aprd", address, register) => Command::Read(Reads::Aprd { address, register }),
            Cmd::Ar("fprd", address, register) => Command::Read(Reads::Fprd { address, register }),
            Cmd::Ar("brd", address, register) => Command::Read(Reads::Brd { address, register }),
            Cmd::Ar("frmw", address, register) => Command::Read(Reads::Frmw { address, register }),
            Cmd::Ar("bwr", address, register) => Command::Write(Writes::Bwr { address, register }),
            Cmd::Ar("apwr", address, register) => Command::Write(Writes::Apwr { address, register }),
            Cmd::Ar("fpwr", address, register) => Command::Write(Writes::Fpwr { address, register }),
            Cmd::Pos("aprd", p, r) => Command::aprd(p, r).into(),
            Cmd::Pos("apwr", p, r) => Command::apwr(p, r).into(),
            Cmd::L("lrd", address) => Command::Read(Reads::Lrd { address }),
            Cmd::L("lwr", address) => Command::Write(Writes::Lwr { address }),
            Cmd::L("lrw", address) => Command::Write(Writes::Lrw { address }),
            _ => unreachable!(),
        }
    }
    /// Independent expectation: (command code, 4 raw bytes).
    pub fn expect(&self) -> (u8, [u8; 4]) {
        fn ar(a: u16, r: u16) -> [u8; 4] {
            [a as u8, (a >> 8) as u8, r as u8, (r >> 8) as u8]
        }
        match *self {
            Cmd::Nop => (0, [0; 4]),
            Cmd::Ar(k, a, r) => (
                match k {
                    "aprd" => 1,
                    "apwr" => 2,
                    "fprd" => 4,
                    "fpwr" => 5,
                    "brd" => 7,
                    "bwr" => 8,
                    "frmw" => 14,
                    _ => unreachable!(),
                },
                ar(a, r),
            ),
            Cmd::Pos(k, p, r) => (if k == "aprd" { 1 } else { 2 }, ar(0u16.wrapping_sub(p), r)),
            Cmd::L(k, a) => (
                match k {
                    "lrd" => 10,
                    "lwr" => 11,
                    "lrw" => 12,
                    _ => unreachable!(),
                },
                a.to_le_bytes(),
            ),
        }
    }
}

pub fn gen_cmd(rng: &mut Rng) -> Cmd {
    let a = rng.edgy(0xffff) as u16;
    let r = rng.edgy(0xffff) as u16;
    match rng.below(13) {
        0 => Cmd::Nop,
        1 => Cmd::Ar("aprd", a, r),
        2 => Cmd::Ar("fprd", a, r),
        3 => Cmd::Ar("brd", a, r),
        4 => Cmd::Ar("frmw", a, r),
        5 => Cmd::Ar("bwr", a, r),
        6 => Cmd::Ar("apwr", a, r),
        7 => Cmd::Ar("fpwr", a, r),
        8 => Cmd::Pos("aprd", a, r),
        9 => Cmd::Pos("apwr", a, r),
        10 => Cmd::L("lrd", rng.edgy(0xffff_ffff) as u32),
        11 => Cmd::L("lwr", rng.edgy(0xffff_ffff) as u32),
        _ => Cmd::L("lrw", rng.edgy(0xffff_ffff) as u32),
    }
}

#[derive(Clone, Debug)]
pub enum Op {
    Push(Cmd, Vec<u8>, Option<u16>),
    Rest(Cmd, Vec<u8>),
    Can(usize),
}

impl Op {
    fn to_line(&self) -> String {
        match self {
            Op::Push(c, d, l) => format!("p,{},{},{}", c.to_line(), hex(d), l.map_or("-".to_string(), |l| l.to_string())),
            Op::Rest(c, d) => format!("r,{},{}", c.to_line(), hex(d)),
            Op::Can(n) => format!("q,{n}"),
        }
    }
}

pub struct Case {
    pub cap: usize,
    pub idx0: u8,
    pub ops: Vec<Op>,
}

impl Case {
    pub fn to_line(&self) -> String {
        format!("c04 {} {} {}", self.cap, self.idx0, self.ops.iter().map(|o| o.to_line()).collect::<Vec<_>>().join(";"))
    }
}

fn gen_case(rng: &mut Rng, cap: usize) -> Case {
    let room = cap - 16;
    let nops = rng.range(1, 6) as usize;
    let mut ops = Vec::new();
    for _ in 0..nops {
        let c = gen_cmd(rng);
        match rng.below(10) {
            0..=4 => {
                // data length: mostly small relative to room, sometimes around the boundary, sometimes beyond
                let dl = match rng.below(6) {
                    0 => 0,
                    1 => room.saturating_sub(12),
                    2 => room.saturating_sub(11),
                    3 => rng.range(0, (room + 20) as u64) as usize,
                    _ => rng.range(0, (room / 3 + 1) as u64) as usize,
                };
                let data = rng.bytes(dl);
                let lo = match rng.below(5) {
                    0 => Some(rng.range(0, dl as u64 + 1) as u16),                 // below / equal
                    1 => Some(dl as u16),                                        // equal
                    2 => Some((dl as u64 + rng.range(1, 40)) as u16),            // above
                    3 => Some(rng.edgy((room + 30) as u64) as u16),
                    _ => None,
                };
                ops.push(Op::Push(c, data, lo));
            }
            5..=7 => {
                let dl = rng.edgy(2 * cap as u64) as usize;
                ops.push(Op::Rest(c, rng.bytes(dl)));
            }
            _ => ops.push(Op::Can(rng.edgy((room + 5) as u64) as usize)),
        }
    }
    Case { cap, idx0: rng.byte(), ops }
}

/// Independent decoder: checks the transmitted bytes against what was accepted.
fn monitor(bytes: &[u8], cap: usize, accepted: &[(Cmd, u8, usize, Vec<u8>)]) -> Result<(), String> {
    if bytes.len() > cap {
        return Err(format!("frame of {} bytes exceeds frame size {}", bytes.len(), cap));
    }
    if bytes.len() < 16 {
        return Err("shorter than headers".into());
    }
    if bytes[0..6] != [0xff; 6] {
        return Err("destination not broadcast".into());
    }
    if bytes[6..12] != [0x10; 6] {
        return Err("source not MainDevice address".into());
    }
    if bytes[12..14] != [0x88, 0xa4] {
        return Err("ethertype".into());
    }
    let h = u16::from_le_bytes([bytes[14], bytes[15]]);
    if h >> 12 != 1 {
        return Err("protocol type".into());
    }
    if (h & 0x7ff) as usize != bytes.len() - 16 {
        return Err(format!("length field {} != datagram bytes {}", h & 0x7ff, bytes.len() - 16));
    }
    let mut p = 16;
    for (i, (cmd, idx, len, data)) in accepted.iter().enumerate() {
        let (code, raw) = cmd.expect();
        if p + 12 + len > bytes.len() {
            return Err(format!("datagram {i} truncated"));
        }
        let d = &bytes[p..p + 12 + len];
        if d[0] != code {
            return Err(format!("datagram {i} command code {} != {}", d[0], code));
        }
        if d[1] != *idx {
            return Err(format!("datagram {i} index"));
        }
        if d[2..6] != raw {
            return Err(format!("datagram {i} address {:02x?} != {:02x?}", &d[2..6], raw));
        }
        let fl = u16::from_le_bytes([d[6], d[7]]);
        if (fl & 0x7ff) as usize != *len {
            return Err(format!("datagram {i} length {} != {}", fl & 0x7ff, len));
        }
        if fl & 0x4000 != 0 || fl & 0x3800 != 0 {
            return Err(format!("datagram {i} reserved/circulating bits"));
        }
        let more = fl & 0x8000 != 0;
        if more != (i + 1 < accepted.len()) {
            return Err(format!("datagram {i} more-follows flag {more}"));
        }
        if d[8..10] != [0, 0] {
            return Err(format!("datagram {i} irq"));
        }
        if d[10..10 + data.len()] != data[..] {
            return Err(format!("datagram {i} data"));
        }
        if d[10 + data.len()..10 + len].iter().any(|b| *b != 0) {
            return Err(format!("datagram {i} padding not zero"));
        }
        if d[10 + len..12 + len] != [0, 0] {
            return Err(format!("datagram {i} working counter not zero"));
        }
        p += 12 + len;
    }
    if p != bytes.len() {
        return Err(format!("{} trailing bytes after last datagram", bytes.len() - p));
    }
    Ok(())
}

pub fn run_case(case: &Case, rep: &mut Report) {
    // a push / mark / send that panics is reported with the case instead of killing the run
    let r = std::panic::catch_unwind(std::panic::AssertUnwindSafe(|| run_case_inner(case, rep)));
    if r.is_err() {
        let line = case.to_line();
        rep.fail("c04/panic", "building or sending the frame panicked", &line);
        rep.case(line, "panic".into());
    }
}

fn run_case_inner(case: &Case, rep: &mut Report) {
    let line = case.to_line();
    let st = dyn_storage(1, case.cap);
    st.set_counters(0, case.idx0);
    let (mut tx, _rx, pdu_loop) = st.split();
    let pdu_loop: &'static _ = Box::leak(Box::new(pdu_loop));
    let mut frame = verif::alloc_frame(pdu_loop).expect("alloc");
    let mut results = Vec::new();
    let mut accepted: Vec<(Cmd, u8, usize, Vec<u8>)> = Vec::new();
    let room = case.cap - 16;
    let mut used = 0usize;
    for op in &case.ops {
        match op {
            Op::Push(c, data, lo) => {
                let want = lo.map_or(data.len(), |l| (l as usize).max(data.len()));
                match frame.push_pdu(c.to_command(), &data[..], *lo) {
                    Ok(h) => {
                        results.push(format!("ok.{}.{}.{}.{}", h.index_in_frame, h.pdu_idx, h.command_code, h.alloc_size));
                        accepted.push((c.clone(), h.pdu_idx, want, data.clone()));
                        if used + want + 12 > room {
                            rep.fail("c04/accepted-oversize", "push accepted although it does not fit", &line);
                        }
                        used += want + 12;
                        rep.hit("push_ok");
                    }
                    Err(_) => {
                        results.push("toolong".into());
                        if used + want + 12 <= room {
                            rep.fail("c04/refused-fitting", "push refused although it fits", &line);
                        }
                        rep.hit("push_toolong");
                    }
                }
            }
            Op::Rest(c, data) => match verif::push_pdu_slice_rest(&mut frame, c.to_command(), data) {
                Ok(Some((k, h))) => {
                    results.push(format!("some.{}.{}.{}.{}.{}", k, h.index_in_frame, h.pdu_idx, h.command_code, h.alloc_size));
                    let expect_k = (room - used).saturating_sub(12).min(data.len());
                    if k != expect_k {
                        rep.fail("c04/rest-count", &format!("fill-the-rest took {k}, expected {expect_k}"), &line);
                    }
                    accepted.push((c.clone(), h.pdu_idx, k, data[..k.min(data.len())].to_vec()));
                    used += k + 12;
                    rep.hit("rest_some");
                }
                Ok(None) => {
                    results.push("none".into());
                    if !data.is_empty() && room - used > 12 {
                        rep.fail("c04/rest-none", "fill-the-rest pushed nothing although room remains", &line);
                    }
                    rep.hit("rest_none");
                }
                Err(_) => {
                    results.push("toolong".into());
                    rep.fail("c04/rest-err", "fill-the-rest returned an error", &line);
                }
            },
            Op::Can(n) => {
                let can = verif::can_push_pdu_payload(&frame, *n);
                results.push(format!("can.{}", can as u8));
                if can != (used + n + 12 <= room) {
                    rep.fail("c04/can-push", "can_push_pdu_payload disagrees with the room left", &line);
                }
            }
        }
    }
    let fut = verif::mark_sendable(frame, pdu_loop, Duration::from_secs(1000), 0);
    let mut sent = Vec::new();
    let sf = tx.next_sendable_frame().expect("sendable");
    sf.send_blocking(|b| {
        sent = b.to_vec();
        Ok(b.len())
    })
    .expect("send");
    drop(fut);
    if let Err(e) = monitor(&sent, case.cap, &accepted) {
        rep.fail("c04/malformed", &e, &line);
    }
    rep.hit(&format!("dgrams={}", accepted.len().min(4)));
    if accepted.len() >= 2 {
        rep.nontrivial.insert(line.clone());
    }
    rep.case(line, format!("{}|{}", results.join(";"), hex(&sent)));
}

fn parse_cmd(s: &str) -> Cmd {
    let p: Vec<&str> = s.split('.').collect();
    let n = |i: usize| p[i].parse::<u64>().unwrap();
    match p[0] {
        "nop" => Cmd::Nop,
        "aprdpos" => Cmd::Pos("aprd", n(1) as u16, n(2) as u16),
        "apwrpos" => Cmd::Pos("apwr", n(1) as u16, n(2) as u16),
        "lrd" => Cmd::L("lrd", n(1) as u32),
        "lwr" => Cmd::L("lwr", n(1) as u32),
        "lrw" => Cmd::L("lrw", n(1) as u32),
        k => {
            let k: &'static str = ["aprd", "fprd", "brd", "frmw", "bwr", "apwr", "fpwr"].into_iter().find(|x| *x == k).unwrap();
            Cmd::Ar(k, n(1) as u16, n(2) as u16)
        }
    }
}

pub fn parse_case(line: &str) -> Case {
    let t: Vec<&str> = line.split(' ').collect();
    let ops = t[3]
        .split(';')
        .map(|o| {
            let f: Vec<&str> = o.split(',').collect();
            match f[0] {
                "p" => Op::Push(parse_cmd(f[1]), unhex(f[2]), if f[3] == "-" { None } else { Some(f[3].parse().unwrap()) }),
                "r" => Op::Rest(parse_cmd(f[1]), unhex(f[2])),
                _ => Op::Can(f[1].parse().unwrap()),
            }
        })
        .collect();
    Case { cap: t[1].parse().unwrap(), idx0: t[2].parse().unwrap(), ops }
}

fn main() {
    let args = ecverif::parse_args();
    let mut rep = Report::default();
    if let Some(cases) = ecverif::replay_cases(&args) {
        for c in cases.iter().filter(|c| c.starts_with("c04 ")) {
            run_case(&parse_case(c), &mut rep);
        }
    } else {
        run(&args.tier, args.seed, &mut rep);
    }
    rep.write(&args.out, "c04");
}

pub fn run(tier: &str, seed: u64, rep: &mut Report) {
    let mut rng = Rng::new(seed ^ 0xc04);
    // corpus: boundary programs
    let corpus = vec![
        Case { cap: 28, idx0: 0, ops: vec![Op::Push(Cmd::Nop, vec![], None)] },
        Case { cap: 28, idx0: 255, ops: vec![Op::Push(Cmd::Nop, vec![1], None), Op::Rest(Cmd::L("lrw", 0), vec![1, 2, 3])] },
        Case {
            cap: 60,
            idx0: 7,
            ops: vec![
                Op::Push(Cmd::Ar("fpwr", 0x1000, 0x0120), vec![8, 0], None),
                Op::Push(Cmd::Ar("brd", 0, 0), vec![], Some(100)),
                Op::Rest(Cmd::L("lrw", 0), (1..=20).collect()),
            ],
        },
        Case { cap: 1514, idx0: 254, ops: vec![Op::Push(Cmd::Pos("aprd", 3, 0x10), vec![], Some(2)), Op::Push(Cmd::Pos("apwr", 0, 0x10), vec![0xaa, 0xbb], None), Op::Rest(Cmd::L("lrw", 0x10000), vec![0x55; 3000])] },
    ];
    for c in &corpus {
        run_case(c, rep);
    }
    let (caps, per): (Vec<usize>, usize) = if tier == "thorough" {
        ((28..=1514).collect(), 12)
    } else {
        let mut v: Vec<usize> = (28..=64).collect();
        v.extend((65..=1514).step_by(37));
        v.extend([1513, 1514]);
        (v, 6)
    };
    for cap in caps {
        for _ in 0..per {
            let c = gen_case(&mut rng, cap);
            run_case(&c, rep);
        }
    }
}
