/- Shared parsing helpers for the line-protocol driver. Import-free apart from the models. -/
import EcModel.Basic

namespace Ec.Drv

def splitOn (s : String) (sep : String) : List String := s.splitOn sep

def nat! (s : String) : Nat := s.toNat?.getD 0

def optNat (s : String) : Option Nat := if s = "-" then none else s.toNat?

def hex! (s : String) : List Nat := (parseHex s).getD []

def joinWith (sep : String) (l : List String) : String := String.intercalate sep l

end Ec.Drv
