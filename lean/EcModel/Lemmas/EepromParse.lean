/-
  Parser round-trip lemmas (C12): items of a category, fixed header fields.
-/
import EcModel.Lemmas.EepromWalk

namespace Ec.Eeprom
open Ec Ec.EepromSpec

theorem encCats_append (a b : List Cat) : encCats (a ++ b) = encCats a ++ encCats b := by
  induction a with
  | nil => rfl
  | cons c a ih => simp [encCats, ih]

theorem empties_append (a b : List Cat) : empties (a ++ b) = empties a + empties b := by
  induction a with
  | nil => simp [empties]
  | cons c a ih => simp [empties, ih]; omega

/-- `category` on a memory that holds a well-formed image: the category is found with its exact extent. -/
theorem category_found_at (m : Mode) (p : Prov) (hcs : 4 ≤ p.cs) (pre : List Cat) (c : Cat) (rest : List Nat)
    (hh : Holds p.rd 128 (encCats pre ++ (encCat c ++ rest)))
    (hpre : ∀ x ∈ pre, x.WF ∧ catOf x.type ≠ catOf c.type ∧ catOf x.type ≠ Gen.Eeprom.CAT_END)
    (hc : c.WF) (hne : empties pre + (if c.body.length / 2 = 0 then 1 else 0) < 32)
    (hsize : 128 + (encCats pre).length + 4 + c.body.length ≤ 131072)
    (hstart : 128 + (encCats pre).length + 4 < 131072) :
    (category m p (catOf c.type)).1
      = .ok (some ⟨128 + (encCats pre).length + 4, 128 + (encCats pre).length + 4 + c.body.length⟩) := by
  unfold category
  have hlen := encCats_length_ge pre
  have hev := encCats_length_even pre (fun x hx => (hpre x hx).1)
  obtain ⟨f, hf⟩ : ∃ f, catFuel = (f + 1) + pre.length := ⟨catFuel - 1 - pre.length, by unfold catFuel; omega⟩
  rw [hf]
  show (catLoop m p (catOf c.type) (f + 1 + pre.length) 64 0 0).1 = _
  rw [catLoop_walk m p hcs (catOf c.type) pre _ (f + 1) 64 0 0 hpre hh (by omega) (by omega)]
  have hh2 : Holds p.rd (2 * (64 + (encCats pre).length / 2)) (encCat c ++ rest) := by
    have := hh.append.2
    rw [show 2 * (64 + (encCats pre).length / 2) = 128 + (encCats pre).length by omega]
    exact this
  rw [catLoop_found m p hcs (catOf c.type) f _ _ _ c hc rest hh2 (by omega) rfl (by omega) (by omega)]
  simp only
  congr 3 <;> omega

/-- ... and a category type that does not occur is reported absent when the End marker is reached. -/
theorem category_absent_at (m : Mode) (p : Prov) (hcs : 4 ≤ p.cs) (cats : List Cat) (cat : Nat) (rest : List Nat)
    (hh : Holds p.rd 128 (encCats cats ++ ([0xff, 0xff] ++ rest)))
    (hall : ∀ x ∈ cats, x.WF ∧ catOf x.type ≠ cat ∧ catOf x.type ≠ Gen.Eeprom.CAT_END)
    (hcat : cat ≠ Gen.Eeprom.CAT_END) (hne : empties cats < 32)
    (hsize : 128 + (encCats cats).length + 4 < 131072) :
    (category m p cat).1 = .ok none := by
  unfold category
  have hlen := encCats_length_ge cats
  have hev := encCats_length_even cats (fun x hx => (hall x hx).1)
  obtain ⟨f, hf⟩ : ∃ f, catFuel = (f + 1) + cats.length := ⟨catFuel - 1 - cats.length, by unfold catFuel; omega⟩
  rw [hf]
  show (catLoop m p cat (f + 1 + cats.length) 64 0 0).1 = _
  rw [catLoop_walk m p hcs cat cats _ (f + 1) 64 0 0 hall hh (by omega) (by omega)]
  have hh2 : Holds p.rd (2 * (64 + (encCats cats).length / 2)) [0xff, 0xff] := by
    have := hh.append.2.append.1
    rw [show 2 * (64 + (encCats cats).length / 2) = 128 + (encCats cats).length by omega]
    exact this
  exact catLoop_end m p hcs cat f _ _ _ hh2 hcat (by omega)

/-! ### items -/

theorem nextItem_some {α : Type} (m : Mode) (p : Prov) (hcs : 2 ≤ p.cs) (r : Range) (sz : Nat)
    (parse : List Nat → M α) (a : α) (he : r.endp ≤ 131072) (hfit : r.pos + sz ≤ r.endp)
    (hparse : parse (slice p.rd r.pos sz) = ret a) :
    (nextItem m p r sz parse).1 = .ok (some a, { r with pos := r.pos + sz }) := by
  unfold nextItem
  have h := readExact_ok m p hcs r sz he hfit
  generalize Range.readExact m p r sz = x at h
  obtain ⟨o, c⟩ := x
  simp only at h
  rw [h.1]
  simp only [addCost, hparse, bind_ret]
  rfl

theorem nextItem_none {α : Type} (m : Mode) (p : Prov) (hcs : 2 ≤ p.cs) (r : Range) (sz : Nat)
    (parse : List Nat → M α) (he : r.endp ≤ 131072) (hsz : 0 < sz) (hfit : ¬ r.pos + sz ≤ r.endp) :
    (nextItem m p r sz parse).1 = .ok (none, r) := by
  unfold nextItem
  have h := readExact_eof m p hcs r sz he hsz hfit
  generalize Range.readExact m p r sz = x at h
  obtain ⟨o, c⟩ := x
  simp only at h
  rw [h.1]

/-- The collecting loop over a category that holds the encodings of `items` followed by `slack < sz` bytes of
    padding. -/
theorem collectLoop_items {α β : Type} (m : Mode) (p : Prov) (hcs : 2 ≤ p.cs) (sz cap capItem : Nat)
    (parse : List Nat → M α) (enc : β → List Nat) (dec : β → α) (slack : Nat) (hslack : slack < sz) :
    ∀ (items : List β) (r : Range) (acc : List α) (fuel : Nat),
      (∀ b ∈ items, (enc b).length = sz ∧ parse (enc b) = ret (dec b)) →
      Holds p.rd r.pos (items.flatMap enc) → r.endp = r.pos + (items.flatMap enc).length + slack →
      r.endp ≤ 131072 → acc.length + items.length ≤ cap → items.length < fuel →
      (collectLoop m p sz cap capItem parse fuel r acc).1 = .ok (acc ++ items.map dec) := by
  intro items
  induction items with
  | nil =>
    intro r acc fuel _ _ hend he _ hfuel
    obtain ⟨f, rfl⟩ : ∃ f, fuel = f + 1 := ⟨fuel - 1, by omega⟩
    unfold collectLoop
    simp only [List.flatMap_nil, List.length_nil, Nat.add_zero] at hend
    rw [bind_fst_ok _ (nextItem_none m p hcs r sz parse he (by omega) (by omega))]
    simp
  | cons b items ih =>
    intro r acc fuel henc hh hend he hcap hfuel
    obtain ⟨f, rfl⟩ : ∃ f, fuel = f + 1 := ⟨fuel - 1, by omega⟩
    have hb := henc b (by simp)
    simp only [List.flatMap_cons] at hh hend
    have hslice : slice p.rd r.pos sz = enc b := by
      have := hh.append.1
      unfold Holds at this
      rw [hb.1] at this; exact this
    unfold collectLoop
    rw [bind_fst_ok _ (nextItem_some m p hcs r sz parse (dec b) he
      (by rw [hend, List.length_append, hb.1]; omega) (by rw [hslice]; exact hb.2))]
    simp only
    simp only [List.length_cons] at hcap hfuel
    rw [if_neg (by omega)]
    have := ih { r with pos := r.pos + sz } (acc ++ [dec b]) f (fun b' hb' => henc b' (by simp [hb']))
      (by have := hh.append.2; rw [hb.1] at this; exact this)
      (by simp only; rw [hend, List.length_append, hb.1]; omega) he (by simp; omega) (by omega)
    rw [this]
    simp

/-- A found category: its window and the fact that the memory there holds its body. -/
theorem category_found_body (m : Mode) (p : Prov) (hcs : 4 ≤ p.cs) (pre : List Cat) (c : Cat) (rest : List Nat)
    (hh : Holds p.rd 128 (encCats pre ++ (encCat c ++ rest)))
    (hpre : ∀ x ∈ pre, x.WF ∧ catOf x.type ≠ catOf c.type ∧ catOf x.type ≠ Gen.Eeprom.CAT_END)
    (hc : c.WF) (hne : empties pre + (if c.body.length / 2 = 0 then 1 else 0) < 32)
    (hsize : 128 + (encCats pre).length + 4 + c.body.length ≤ 131072)
    (hstart : 128 + (encCats pre).length + 4 < 131072) :
    (category m p (catOf c.type)).1
      = .ok (some ⟨128 + (encCats pre).length + 4, 128 + (encCats pre).length + 4 + c.body.length⟩) ∧
    Holds p.rd (128 + (encCats pre).length + 4) c.body := by
  refine ⟨category_found_at m p hcs pre c rest hh hpre hc hne hsize hstart, ?_⟩
  have h1 := hh.append.2
  unfold encCat at h1
  simp only [List.append_assoc] at h1
  have h2 := h1.append.2.append.2.append.1
  simp only [le16_length] at h2
  rw [show 128 + (encCats pre).length + 4 = 128 + (encCats pre).length + 2 + 2 by omega]
  exact h2

/-! ### bytes and strings -/

theorem readByte_ok (m : Mode) (p : Prov) (hcs : 2 ≤ p.cs) (r : Range) (h : r.pos < r.endp)
    (he : r.endp ≤ 131072) :
    (Range.readByte m p r).1 = .ok (p.rd r.pos, { r with pos := r.pos + 1 }) := by
  unfold Range.readByte
  rw [if_neg (by omega), wordPos_ok r.pos (by omega)]
  unfold clearErrors readChunk
  simp only [bind_call, bind_ret]
  have hget : (chunkAt p (r.pos / 2))[r.pos % 2]? = some (p.rd r.pos) := by
    unfold chunkAt
    rw [slice_getElem?, if_pos (by omega)]
    congr 2; omega
  rw [hget]
  rfl

theorem skip_ok (m : Mode) (r : Range) (k : Nat) (h : r.pos + k < r.endp) :
    (Range.skip m r k).1 = .ok { r with pos := r.pos + k } := by
  unfold Range.skip
  rw [if_neg (by omega)]
  rfl

/-- One string of the Strings category: length byte, then the bytes. -/
def encStr (x : List Nat) : List Nat := x.length :: x

/-- Skipping the strings in front of the one wanted. -/
theorem skipStrings_enc (m : Mode) (p : Prov) (hcs : 2 ≤ p.cs) :
    ∀ (skipped : List (List Nat)) (r : Range) (rest : List Nat),
      Holds p.rd r.pos (skipped.flatMap encStr ++ rest) → 1 ≤ rest.length →
      r.pos + (skipped.flatMap encStr).length + rest.length ≤ r.endp → r.endp ≤ 131072 →
      (skipStrings m p skipped.length r).1 = .ok { r with pos := r.pos + (skipped.flatMap encStr).length } := by
  intro skipped
  induction skipped with
  | nil => intro r rest _ _ _ _; simp [skipStrings]
  | cons x xs ih =>
    intro r rest hh hrest hfit he
    simp only [List.flatMap_cons, List.length_append, List.append_assoc] at hh hfit
    have hx : (encStr x).length = x.length + 1 := by simp [encStr]
    rw [hx] at hfit
    simp only [List.length_cons]
    unfold skipStrings
    rw [bind_fst_ok _ (readByte_ok m p hcs r (by omega) he)]
    have hlenbyte : p.rd r.pos = x.length := by
      have := hh.append.1.get 0 (by simp [encStr])
      simpa [encStr] using this
    simp only [hlenbyte]
    rw [bind_fst_ok _ (skip_ok m { r with pos := r.pos + 1 } x.length (by simp only; omega))]
    have hh2 : Holds p.rd (r.pos + 1 + x.length) (xs.flatMap encStr ++ rest) := by
      have := hh.append.2
      rw [hx] at this
      rw [show r.pos + 1 + x.length = r.pos + (x.length + 1) by omega]
      exact this
    have := ih { r with pos := r.pos + 1 + x.length } rest hh2 hrest (by simp only; omega) he
    rw [this]
    simp only [List.flatMap_cons, List.length_append, hx]
    congr 2
    omega

end Ec.Eeprom
