/-
  C12 — EEPROM reads return exactly the stored bytes and parse to what they encode.
  Property theorems only; helper lemmas live in EcModel/Lemmas.
-/
import EcModel.Lemmas.EepromParse

namespace Ec.C12
open Ec Ec.Eeprom Ec.EepromSpec

/-! ## Range reads -/

/-- Any sequence of `read` calls on one `EepromRange`, with buffer sizes `ns`; stops at the first failure. -/
def readSeq (m : Mode) (p : Prov) : Range → List Nat → M (List (List Nat) × Range)
  | r, [] => ret ([], r)
  | r, n :: ns =>
    bind (Range.read m p r n) fun res =>
    bind (readSeq m p res.2 ns) fun rest => ret (res.1 :: rest.1, rest.2)

/-- What the property demands of such a sequence: each call returns the stored bytes at the cursor, as many as
    requested but not beyond `endp`, and the cursor advances by that number. -/
def specSeq (rd : Nat → Nat) (endp : Nat) : Nat → List Nat → List (List Nat) × Nat
  | pos, [] => ([], pos)
  | pos, n :: ns =>
    let k := min n (endp - pos)
    let rest := specSeq rd endp (pos + k) ns
    (slice rd pos k :: rest.1, rest.2)

/-- **Range reads are exact.** For every memory, chunk size ≥ 2 (devices serve 4 or 8), build mode, window
    (any cursor, odd or even; any end below 64 KiB) and any sequence of partial reads of any sizes: every call
    returns exactly the stored bytes `[pos, pos + k)` with `k = min(requested, end − pos)`, never a byte from
    `end` on, never an error, never a panic. -/
theorem range_read_exact (m : Mode) (p : Prov) (hcs : 2 ≤ p.cs) (endp : Nat) (he : endp < 65536) :
    ∀ (ns : List Nat) (pos : Nat),
      (readSeq m p ⟨pos, endp⟩ ns).1
        = .ok ((specSeq p.rd endp pos ns).1, ⟨(specSeq p.rd endp pos ns).2, endp⟩) := by
  intro ns
  induction ns with
  | nil => intro pos; rfl
  | cons n ns ih =>
    intro pos
    unfold readSeq
    have hr := read_ok m p hcs ⟨pos, endp⟩ n he
    rw [bind_fst_ok _ hr.1, bind_fst_ok _ (ih _)]
    rfl

/-- Taken together the calls return one contiguous piece of the window, starting at the cursor: never
    anything from beyond the end, and all of the window once enough bytes were requested. -/
theorem range_read_contiguous (rd : Nat → Nat) (endp : Nat) :
    ∀ (ns : List Nat) (pos : Nat),
      (specSeq rd endp pos ns).1.flatten = slice rd pos (min ns.sum (endp - pos)) ∧
      (specSeq rd endp pos ns).2 = pos + min ns.sum (endp - pos) := by
  intro ns
  induction ns with
  | nil => intro pos; simp [specSeq]
  | cons n ns ih =>
    intro pos
    simp only [specSeq, List.flatten_cons, List.sum_cons]
    have := ih (pos + min n (endp - pos))
    rw [this.1, this.2, slice_append]
    constructor
    · congr 1; omega
    · omega

/-- `EepromRange::new(start_word, len_words)`, PARTIAL: when the byte addresses fit the 16-bit cursor the
    window is exactly the bytes of the words asked for. -/
theorem range_window_partial (m : Mode) (w n : Nat) (h : 2 * w + 2 * n < 65536) :
    Range.new m w n = ret ⟨2 * w, 2 * w + 2 * n⟩ := by
  unfold Range.new
  rw [mul16_ok _ _ _ _ (by omega), mul16_ok _ _ _ _ (by omega)]
  simp only [bind_ret]
  rw [add16_ok _ _ _ _ (by omega)]
  simp only [bind_ret]
  congr 2 <;> omega

/-- The full statement ("any start word, any length") is FALSE of the code: the byte cursor is a `u16`, so
    words from 0x8000 up (EEPROMs larger than 64 KiB: the property's 1 Mbit .. 4 Mbit sizes) panic in checked
    builds and are read from the wrong place in wrapping builds (word 0x8000 reads word 0). -/
theorem range_window_counterexample :
    (Range.new .checked 0x8000 4).1 = .panic "new:mul" ∧
    (Range.new .wrapping 0x8000 4).1 = .ok ⟨0, 8⟩ ∧
    (Range.new .checked 0x7ffe 2).1 = .panic "new:add" := by
  decide

/-- `SubDevice::eeprom_read_raw(start_word, buf)` = `start_at(start_word, buf.len()).read(buf)`, PARTIAL: an
    even number of bytes inside the first 64 KiB is returned exactly. -/
theorem read_raw_exact_partial (m : Mode) (p : Prov) (hcs : 2 ≤ p.cs) (w n : Nat)
    (hn : n % 2 = 0) (h : 2 * w + n < 65536) :
    (bind (startAt m w n) fun r => Range.read m p r n).1
      = .ok (slice p.rd (2 * w) n, ⟨2 * w + n, 2 * w + n⟩) := by
  unfold startAt
  rw [range_window_partial m w (n / 2) (by omega)]
  simp only [bind_ret]
  have hr := read_ok m p hcs ⟨2 * w, 2 * w + 2 * (n / 2)⟩ n (by simp only; omega)
  rw [hr.1]
  have : min n (2 * w + 2 * (n / 2) - 2 * w) = n := by omega
  simp only [this]
  congr 3 <;> omega

/-- FALSE for odd lengths: `start_at` turns the byte length into `len_bytes / 2` words, so the last byte is
    cut off — `eeprom_read_raw` into a 3-byte buffer returns 2 bytes, into a 1-byte buffer returns 0 bytes, and
    `eeprom_read::<u8>` (a `read_exact` of 1 byte) fails with `SectionOverrun`. -/
theorem read_raw_odd_counterexample :
    let p : Prov := ⟨fun a => a + 1, 4⟩
    (bind (startAt .checked 4 3) fun r => Range.read .checked p r 3).1 = .ok ([9, 10], ⟨10, 10⟩) ∧
    (bind (startAt .checked 4 1) fun r => Range.read .checked p r 1).1 = .ok ([], ⟨8, 8⟩) ∧
    (bind (startAt .checked 4 1) fun r => eofToOverrun (Range.readExact .checked p r 1)).1 = .err .overrun := by
  decide

/-! ## Categories of a well-formed image -/

/-- The memory `p.rd` holds the image from byte 0 (whatever lies behind it). -/
def HoldsImage (p : Prov) (img : List Nat) : Prop := Holds p.rd 0 img

theorem holdsImage_imgRd (img : List Nat) (fill cs : Nat) : HoldsImage ⟨imgRd img fill, cs⟩ img := by
  have := holds_imgRd [] img [] fill
  simpa [HoldsImage] using this

theorem holds_cats {p : Prov} {hdr : List Nat} {cats : List Cat} (h : HoldsImage p (encodeSii hdr cats))
    (hhdr : hdr.length = 128) : Holds p.rd 128 (encCats cats ++ [0xff, 0xff]) := by
  unfold HoldsImage encodeSii at h
  rw [List.append_assoc] at h
  have := h.append.2
  rw [hhdr] at this
  simpa using this

/-- **Every present category is found with its exact extent.** For any image
    `header ++ pre ++ [c] ++ post ++ End` in memory (any chunk size ≥ 4, any build mode), where no category
    in `pre` has the type searched for (unknown vendor types are fine: they all map to `Nop`), fewer than 32
    empty categories come first, and the category ends below byte 65536: the search returns the byte window
    of `c`'s body, exactly. -/
theorem category_found (m : Mode) (p : Prov) (hcs : 4 ≤ p.cs) (hdr : List Nat) (pre : List Cat) (c : Cat)
    (post : List Cat) (himg : HoldsImage p (encodeSii hdr (pre ++ c :: post))) (hhdr : hdr.length = 128)
    (hpre : ∀ x ∈ pre, x.WF ∧ catOf x.type ≠ catOf c.type ∧ catOf x.type ≠ Gen.Eeprom.CAT_END)
    (hc : c.WF) (hne : empties pre + (if c.body.length / 2 = 0 then 1 else 0) < 32)
    (hsize : 128 + (encCats pre).length + 4 + c.body.length < 65536) :
    (category m p (catOf c.type)).1
      = .ok (some ⟨128 + (encCats pre).length + 4, 128 + (encCats pre).length + 4 + c.body.length⟩) := by
  have hh := holds_cats himg hhdr
  rw [encCats_append] at hh
  simp only [encCats, List.append_assoc] at hh
  exact category_found_at m p hcs pre c _ hh hpre hc hne hsize

/-- **An absent category is reported absent**: no category of that type before the End marker ⇒ `None`. -/
theorem category_absent (m : Mode) (p : Prov) (hcs : 4 ≤ p.cs) (hdr : List Nat) (cats : List Cat) (cat : Nat)
    (himg : HoldsImage p (encodeSii hdr cats)) (hhdr : hdr.length = 128)
    (hall : ∀ x ∈ cats, x.WF ∧ catOf x.type ≠ cat ∧ catOf x.type ≠ Gen.Eeprom.CAT_END)
    (hcat : cat ≠ Gen.Eeprom.CAT_END) (hne : empties cats < 32)
    (hsize : 128 + (encCats cats).length + 4 < 65536) :
    (category m p cat).1 = .ok none := by
  have hh := holds_cats himg hhdr
  exact category_absent_at m p hcs cats cat [] (by simpa using hh) hall hcat hne hsize

/-- The full statement (any well-formed image) is FALSE of the code: 32 empty categories in front make the
    search give up (the blank-EEPROM heuristic), and categories beyond byte 65532 are out of reach of the `u16`
    cursor (`C13.category_beyond_32k_counterexample`). Here: 32 empty vendor categories, then FMMU. -/
theorem category_found_counterexample :
    let cats := (List.replicate 32 (⟨0x2000, []⟩ : Cat)) ++ [⟨40, [1, 2]⟩]
    (category .checked ⟨imgRd (encodeSii (List.replicate 128 0) cats) 255, 4⟩ 40).1 = .ok none := by
  decide

/-! ## Parsers return what the image encodes -/

/-- What the sync manager parser stores for a description (control re-packed from its parsed fields). -/
def smOf (d : SmDesc) : Sm := ⟨d.start, d.len, controlOf d.control, d.enable, d.usage⟩

theorem parseSm_enc (d : SmDesc) (hd : d.WF) : parseSm (encSm d) = ret (smOf d) := by
  obtain ⟨h1, h2, _, _, h5, h6⟩ := hd
  have he : fromBits Gen.Eeprom.SM_ENABLE_MASK d.enable = some d.enable := by
    have : ∀ e, e ≤ 15 → fromBits Gen.Eeprom.SM_ENABLE_MASK e = some e := by decide
    exact this _ h5
  have hu : enumOf Gen.Eeprom.syncManagerTypeTable Gen.Eeprom.syncManagerTypeDefault d.usage = some d.usage := by
    have : ∀ u, u ≤ 4 → enumOf Gen.Eeprom.syncManagerTypeTable Gen.Eeprom.syncManagerTypeDefault u = some u := by
      decide
    exact this _ h6
  unfold parseSm
  have g6 : (encSm d).getD 6 0 = d.enable := by simp [encSm, le16]
  have g7 : (encSm d).getD 7 0 = d.usage := by simp [encSm, le16]
  have g4 : (encSm d).getD 4 0 = d.control := by simp [encSm, le16]
  have r0 : rd16 (encSm d) = d.start := by simp [encSm, le16, rd16]; omega
  have r2 : rd16 ((encSm d).drop 2) = d.len := by simp [encSm, le16, rd16]; omega
  rw [g6, g7, he, hu, g4, r0, r2]
  rfl

theorem flatMap_length_const {β : Type} (enc : β → List Nat) (sz : Nat) :
    ∀ (l : List β), (∀ b ∈ l, (enc b).length = sz) → (l.flatMap enc).length = sz * l.length := by
  intro l
  induction l with
  | nil => intro _; simp
  | cons b l ih =>
    intro h
    simp only [List.flatMap_cons, List.length_append, List.length_cons]
    rw [h b (by simp), ih (fun b' hb' => h b' (by simp [hb']))]
    rw [Nat.mul_succ]; omega

/-- **Sync managers.** An image whose SyncManager category (type 41) holds the 8-byte encodings of up to 8
    well-formed sync managers parses to exactly those sync managers, in order. -/
theorem sync_managers_roundtrip (m : Mode) (p : Prov) (hcs : 4 ≤ p.cs) (hdr : List Nat) (pre post : List Cat)
    (sms : List SmDesc)
    (himg : HoldsImage p (encodeSii hdr (pre ++ ⟨41, sms.flatMap encSm⟩ :: post))) (hhdr : hdr.length = 128)
    (hpre : ∀ x ∈ pre, x.WF ∧ catOf x.type ≠ 41 ∧ catOf x.type ≠ Gen.Eeprom.CAT_END)
    (hsms : ∀ s ∈ sms, s.WF) (hn : sms.length ≤ 8)
    (hne : empties pre + (if sms.length = 0 then 1 else 0) < 32)
    (hsize : 128 + (encCats pre).length + 4 + 8 * sms.length < 65536) :
    (syncManagers m p).1 = .ok (sms.map smOf) := by
  have hlen : (sms.flatMap encSm).length = 8 * sms.length :=
    flatMap_length_const encSm 8 sms (fun s _ => by simp [encSm, le16])
  have hc41 : catOf 41 = 41 := by decide
  have hcat := category_found m p hcs hdr pre ⟨41, sms.flatMap encSm⟩ post himg hhdr
    (by simp only [hc41]; exact hpre) ⟨by simp, by simp only [hlen]; omega, by simp only [hlen]; omega⟩
    (by simp only [hlen]; have : 8 * sms.length / 2 = 0 ↔ sms.length = 0 := by omega
        simp only [this]; exact hne)
    (by simp only [hlen]; omega)
  simp only [hc41, hlen] at hcat
  unfold syncManagers items
  simp only [Gen.Eeprom.CAT_SYNC_MANAGER]
  rw [bind_fst_ok _ (bind_fst_ok _ hcat |>.trans rfl)]
  have hh := holds_cats himg hhdr
  rw [encCats_append] at hh
  simp only [encCats, List.append_assoc] at hh
  have hbody : Holds p.rd (128 + (encCats pre).length + 4) (sms.flatMap encSm) := by
    have h1 := hh.append.2
    unfold encCat at h1
    simp only [List.append_assoc] at h1
    have h2 := h1.append.2.append.2.append.1
    simp only [le16_length] at h2
    rw [show 128 + (encCats pre).length + 4 = 128 + (encCats pre).length + 2 + 2 by omega]
    exact h2
  have := collectLoop_items m p (by omega) 8 Gen.Eeprom.CAP_SYNC_MANAGERS 0 parseSm encSm smOf (by omega)
    sms ⟨128 + (encCats pre).length + 4, 128 + (encCats pre).length + 4 + 8 * sms.length⟩ []
    (Gen.Eeprom.CAP_SYNC_MANAGERS + 2)
    (fun s hs => ⟨by simp [encSm, le16], parseSm_enc s (hsms s hs)⟩) hbody (by simp only [hlen])
    (by simp only; omega) (by simpa [Gen.Eeprom.CAP_SYNC_MANAGERS] using hn)
    (by simp only [Gen.Eeprom.CAP_SYNC_MANAGERS]; omega)
  simpa using this

/-! ### non-vacuity -/

example : (readSeq .checked ⟨fun a => a, 4⟩ ⟨3, 10⟩ [2, 0, 4, 9, 1]).1
    = .ok ([[3, 4], [], [5, 6, 7, 8], [9], []], ⟨10, 10⟩) := by decide

example : (readSeq .wrapping ⟨fun a => 2 * a, 8⟩ ⟨65530, 65535⟩ [3, 3]).1
    = .ok ([[131060, 131062, 131064], [131066, 131068]], ⟨65535, 65535⟩) := by decide

end Ec.C12
