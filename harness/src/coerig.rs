//! Shared rig of the C15 / C16 binaries: one simulated CoE SubDevice behind the real MainDevice, the
//! case-line protocol of `lean/EcModel/Drv/Coe.lean`, canonical outcomes, per-case `catch_unwind`.
//!
//! A rig is initialised once per (read mailbox, write mailbox) size pair through the real
//! `MainDevice::init_single_group`; the PRE-OP group is then reused for many cases (the client's
//! mailbox counter keeps running, which is part of what is compared). After a panic or a stuck
//! executor the rig is thrown away.
use crate::exec::{Net, Stuck, run};
use crate::sim::{CoeServer, DeviceDesc, Segment};
use crate::util::{hex, unhex};
use ethercrab::error::{Error, MailboxError, PduError};
use ethercrab::{EtherCrabWireReadSized, MainDevice, MainDeviceConfig, SubDeviceGroup, SubIndex, Timeouts};
use std::panic::{AssertUnwindSafe, catch_unwind};
use std::sync::Mutex;
use std::time::Duration;

pub type Group = SubDeviceGroup<2, 8>;

/// Last panic message + location (set by [`install_panic_recorder`]).
pub static LAST_PANIC: Mutex<String> = Mutex::new(String::new());

pub fn install_panic_recorder() {
    std::panic::set_hook(Box::new(|info| {
        let loc = info.location().map(|l| format!("{}:{}", l.file(), l.line())).unwrap_or_default();
        let msg = if let Some(s) = info.payload().downcast_ref::<&str>() {
            s.to_string()
        } else if let Some(s) = info.payload().downcast_ref::<String>() {
            s.clone()
        } else {
            String::new()
        };
        *LAST_PANIC.lock().unwrap() = format!("{loc}: {}", msg.replace('\n', " "));
    }));
}

/// `cfg!(overflow_checks)` of this build = the model's `Mode`.
pub fn mode_token() -> &'static str {
    if overflow_checks() { "c" } else { "w" }
}

/// Does this build panic on integer overflow? (`cfg(overflow_checks)` is unstable: probe it.)
pub fn overflow_checks() -> bool {
    static PROBE: std::sync::OnceLock<bool> = std::sync::OnceLock::new();
    *PROBE.get_or_init(|| {
        std::panic::catch_unwind(|| {
            let x: u8 = std::hint::black_box(255);
            std::hint::black_box(x + std::hint::black_box(1))
        })
        .is_err()
    })
}

#[derive(Clone, Debug, PartialEq, Eq)]
pub enum Dest {
    U8,
    U16,
    U32,
    U64,
    /// `[u8; N]`
    Arr(usize),
    /// `[u16; N]`
    Warr(usize),
    /// `heapless::String<N>`
    Str(usize),
    /// `heapless::Vec<u8, N>`
    Vecb(usize),
}

pub const ARR_SIZES: &[usize] = &[0, 1, 2, 3, 4, 5, 6, 7, 8, 12, 16, 32, 64, 100, 128, 255, 256, 512];
pub const WARR_SIZES: &[usize] = &[1, 2, 3, 4, 8];
pub const STR_SIZES: &[usize] = &[1, 4, 8, 16, 64, 128, 512];
pub const VEC_SIZES: &[usize] = &[1, 4, 8, 16, 64, 128, 512, 1024];

impl Dest {
    pub fn token(&self) -> String {
        match self {
            Dest::U8 => "u8".into(),
            Dest::U16 => "u16".into(),
            Dest::U32 => "u32".into(),
            Dest::U64 => "u64".into(),
            Dest::Arr(n) => format!("a{n}"),
            Dest::Warr(n) => format!("w{n}"),
            Dest::Str(n) => format!("s{n}"),
            Dest::Vecb(n) => format!("v{n}"),
        }
    }
    pub fn parse(t: &str) -> Option<Dest> {
        Some(match t {
            "u8" => Dest::U8,
            "u16" => Dest::U16,
            "u32" => Dest::U32,
            "u64" => Dest::U64,
            _ => {
                let n: usize = t.get(1..)?.parse().ok()?;
                match t.as_bytes()[0] {
                    b'a' if ARR_SIZES.contains(&n) => Dest::Arr(n),
                    b'w' if WARR_SIZES.contains(&n) => Dest::Warr(n),
                    b's' if STR_SIZES.contains(&n) => Dest::Str(n),
                    b'v' if VEC_SIZES.contains(&n) => Dest::Vecb(n),
                    _ => return None,
                }
            }
        })
    }
    /// `T::buffer().len()` as ethercrab-wire defines it (independent restatement for the monitors).
    pub fn buf_len(&self) -> usize {
        match self {
            Dest::U8 => 1,
            Dest::U16 => 2,
            Dest::U32 => 4,
            Dest::U64 => 8,
            Dest::Arr(n) | Dest::Warr(n) | Dest::Str(n) | Dest::Vecb(n) => *n,
        }
    }
}

#[derive(Clone, Debug, PartialEq, Eq)]
pub enum Access {
    Complete,
    Index(u8),
}

impl Access {
    pub fn token(&self) -> String {
        match self {
            Access::Complete => "C".into(),
            Access::Index(i) => i.to_string(),
        }
    }
    pub fn parse(s: &str) -> Option<Access> {
        if s == "C" { Some(Access::Complete) } else { s.parse().ok().map(Access::Index) }
    }
    fn sub(&self) -> SubIndex {
        match self {
            Access::Complete => SubIndex::Complete,
            Access::Index(i) => SubIndex::Index(*i),
        }
    }
}

#[derive(Clone, Debug, PartialEq, Eq)]
pub enum Op {
    Read(Dest, u16, Access),
    ReadX(u16, Access),
    /// value bytes: written as `[u8; N]`
    Write(u16, Access, Vec<u8>),
    /// element type (U8/U16/U32), MAX_ENTRIES (4, 8, 255), index
    ReadArr(Dest, usize, u16),
    /// element width (1, 2, 4) is the length of each value
    WriteArr(u16, Vec<Vec<u8>>),
    List(u8),
    Quant,
}

pub const MAX_ENTRIES: &[usize] = &[4, 8, 255];

impl Op {
    pub fn token(&self) -> String {
        match self {
            Op::Read(d, i, a) => format!("read:{}:{}:{}", d.token(), i, a.token()),
            Op::ReadX(i, a) => format!("readx:{}:{}", i, a.token()),
            Op::Write(i, a, v) => format!("write:{}:{}:{}", i, a.token(), hex(v)),
            Op::ReadArr(d, m, i) => format!("readarr:{}:{}:{}", d.token(), m, i),
            Op::WriteArr(i, vs) => {
                format!("writearr:{}:{}", i, if vs.is_empty() { "_".to_string() } else { vs.iter().map(|v| hex(v)).collect::<Vec<_>>().join(",") })
            }
            Op::List(t) => format!("list:{t}"),
            Op::Quant => "quant".into(),
        }
    }
    pub fn parse(s: &str) -> Option<Op> {
        let p: Vec<&str> = s.split(':').collect();
        Some(match p.as_slice() {
            ["read", t, i, a] => Op::Read(Dest::parse(t)?, i.parse().ok()?, Access::parse(a)?),
            ["readx", i, a] => Op::ReadX(i.parse().ok()?, Access::parse(a)?),
            ["write", i, a, v] => Op::Write(i.parse().ok()?, Access::parse(a)?, unhex(v)),
            ["readarr", t, m, i] => Op::ReadArr(Dest::parse(t)?, m.parse().ok()?, i.parse().ok()?),
            ["writearr", i, vs] => Op::WriteArr(i.parse().ok()?, if *vs == "_" { vec![] } else { vs.split(',').map(unhex).collect() }),
            ["list", t] => Op::List(t.parse().ok()?),
            ["quant"] => Op::Quant,
            _ => return None,
        })
    }
    pub fn kind(&self) -> &'static str {
        match self {
            Op::Read(..) => "read",
            Op::ReadX(..) => "readx",
            Op::Write(..) => "write",
            Op::ReadArr(..) => "readarr",
            Op::WriteArr(..) => "writearr",
            Op::List(_) => "list",
            Op::Quant => "quant",
        }
    }
}

/// `m,m,...` with runs of identical messages compacted to `<n>*<hex>`; `_` = none.
pub fn msgs_token(ms: &[Vec<u8>]) -> String {
    if ms.is_empty() {
        return "_".into();
    }
    let mut out = Vec::new();
    let mut i = 0;
    while i < ms.len() {
        let mut j = i;
        while j < ms.len() && ms[j] == ms[i] {
            j += 1;
        }
        if j - i > 1 { out.push(format!("{}*{}", j - i, hex(&ms[i]))) } else { out.push(hex(&ms[i])) }
        i = j;
    }
    out.join(",")
}

pub fn parse_msgs(s: &str) -> Vec<Vec<u8>> {
    if s == "_" || s.is_empty() {
        return vec![];
    }
    let mut out = Vec::new();
    for part in s.split(',') {
        if let Some((n, h)) = part.split_once('*') {
            let m = unhex(h);
            for _ in 0..n.parse::<usize>().unwrap_or(0) {
                out.push(m.clone());
            }
        } else {
            out.push(unhex(part));
        }
    }
    out
}

pub fn script_token(sc: &[Vec<Vec<u8>>]) -> String {
    sc.iter().map(|e| msgs_token(e)).collect::<Vec<_>>().join(";")
}

pub fn parse_script(s: &str) -> Vec<Vec<Vec<u8>>> {
    if s.is_empty() { vec![] } else { s.split(';').map(parse_msgs).collect() }
}

/// Canonical error token (same names as `showErr` in Drv/Coe.lean).
pub fn err_token(e: &Error) -> String {
    use ethercrab::error::TimeoutError;
    use ethercrab_wire::WireError;
    match e {
        Error::Wire(WireError::ReadBufferTooShort) => "WireShort".into(),
        Error::Wire(WireError::InvalidValue) => "WireInvalid".into(),
        Error::Timeout(TimeoutError::MailboxResponse) => "Timeout".into(),
        Error::Mailbox(MailboxError::NoReadMailbox) | Error::Mailbox(MailboxError::NoWriteMailbox) => "NoMailbox".into(),
        Error::Mailbox(MailboxError::Emergency { error_code, error_register }) => format!("Emergency({error_code},{error_register})"),
        Error::Mailbox(MailboxError::Aborted { code, address, sub_index }) => format!("Aborted({},{},{})", u32::from(*code), address, sub_index),
        Error::Mailbox(MailboxError::SdoResponseInvalid { address, sub_index }) => format!("ResponseInvalid({address},{sub_index})"),
        Error::Mailbox(MailboxError::TooLong { address, sub_index }) => format!("TooLong({address},{sub_index})"),
        Error::Internal => "Internal".into(),
        Error::Pdu(PduError::Decode) => "Decode".into(),
        Error::Capacity(ethercrab::error::Item::SdoSubIndex) => "Capacity".into(),
        other => format!("Other({other:?})").replace(' ', ""),
    }
}

/// What one case did, as observed on the real code and on the simulated device.
#[derive(Clone, Debug, Default)]
pub struct Observed {
    /// `ok...` / `err:...` / `panic` / `stuck`
    pub result: String,
    pub ctr_before: u8,
    pub ctr_after: u8,
    /// mailbox images the MainDevice read during the case
    pub read_images: Vec<Vec<u8>>,
    /// messages still queued in the device afterwards
    pub left: usize,
    /// IN mailbox images written during the case
    pub reqs: Vec<Vec<u8>>,
    pub steps: u64,
    pub panic_info: Option<String>,
    /// ok payload bytes (reads, lists)
    pub ok_bytes: Option<Vec<u8>>,
}

impl Observed {
    pub fn answer(&self) -> String {
        format!(
            "{} ctr={} reads={} left={} reqs={}",
            self.result,
            self.ctr_after,
            self.read_images.len(),
            self.left,
            if self.reqs.is_empty() { "_".to_string() } else { self.reqs.iter().map(|r| if r.is_empty() { String::new() } else { hex(r) }).collect::<Vec<_>>().join(",") }
        )
    }
}

pub struct Rig {
    pub net: Net,
    pub md: &'static MainDevice<'static>,
    pub group: Group,
    pub rmbx: u16,
    pub wmbx: u16,
    pub has_mbx: bool,
    pub dead: bool,
}

fn ok_hex(b: &[u8]) -> String {
    format!("ok:{}", hex(b))
}

macro_rules! by_size {
    ($n:expr, [$($k:literal),*], $f:ident, $args:tt) => {
        match $n {
            $($k => $f::<$k> $args .await,)*
            _ => Err(Error::Internal),
        }
    };
}

type Sd<'a> = ethercrab::SubDeviceRef<'static, &'a ethercrab::SubDevice>;

async fn rd_arr<const N: usize>(sd: &Sd<'_>, i: u16, a: SubIndex) -> Result<Vec<u8>, Error> {
    sd.sdo_read::<[u8; N]>(i, a).await.map(|v| v.to_vec())
}
async fn rd_warr<const N: usize>(sd: &Sd<'_>, i: u16, a: SubIndex) -> Result<Vec<u8>, Error> {
    sd.sdo_read::<[u16; N]>(i, a).await.map(|v| v.iter().flat_map(|x| x.to_le_bytes()).collect())
}
async fn rd_str<const N: usize>(sd: &Sd<'_>, i: u16, a: SubIndex) -> Result<Vec<u8>, Error> {
    sd.sdo_read::<heapless::String<N>>(i, a).await.map(|v| v.as_bytes().to_vec())
}
async fn rd_vec<const N: usize>(sd: &Sd<'_>, i: u16, a: SubIndex) -> Result<Vec<u8>, Error> {
    sd.sdo_read::<heapless::Vec<u8, N>>(i, a).await.map(|v| v.to_vec())
}
async fn wr_arr<const N: usize>(sd: &Sd<'_>, i: u16, a: SubIndex, v: &[u8]) -> Result<(), Error> {
    let mut x = [0u8; N];
    x.copy_from_slice(v);
    sd.sdo_write(i, a, x).await
}
async fn rd_array_of<T: EtherCrabWireReadSized, const M: usize>(sd: &Sd<'_>, i: u16, f: impl Fn(&T) -> Vec<u8>) -> Result<(usize, Vec<u8>), Error> {
    sd.sdo_read_array::<T, M>(i).await.map(|v| (v.len(), v.iter().flat_map(|x| f(x)).collect()))
}

async fn read_dest(sd: &Sd<'_>, d: &Dest, i: u16, a: SubIndex) -> Result<Vec<u8>, Error> {
    match d {
        Dest::U8 => sd.sdo_read::<u8>(i, a).await.map(|v| vec![v]),
        Dest::U16 => sd.sdo_read::<u16>(i, a).await.map(|v| v.to_le_bytes().to_vec()),
        Dest::U32 => sd.sdo_read::<u32>(i, a).await.map(|v| v.to_le_bytes().to_vec()),
        Dest::U64 => sd.sdo_read::<u64>(i, a).await.map(|v| v.to_le_bytes().to_vec()),
        Dest::Arr(n) => by_size!(*n, [0, 1, 2, 3, 4, 5, 6, 7, 8, 12, 16, 32, 64, 100, 128, 255, 256, 512], rd_arr, (sd, i, a)),
        Dest::Warr(n) => by_size!(*n, [1, 2, 3, 4, 8], rd_warr, (sd, i, a)),
        Dest::Str(n) => by_size!(*n, [1, 4, 8, 16, 64, 128, 512], rd_str, (sd, i, a)),
        Dest::Vecb(n) => by_size!(*n, [1, 4, 8, 16, 64, 128, 512, 1024], rd_vec, (sd, i, a)),
    }
}

async fn read_array(sd: &Sd<'_>, d: &Dest, max: usize, i: u16) -> Result<(usize, Vec<u8>), Error> {
    match (d, max) {
        (Dest::U8, 4) => rd_array_of::<u8, 4>(sd, i, |x| vec![*x]).await,
        (Dest::U8, 8) => rd_array_of::<u8, 8>(sd, i, |x| vec![*x]).await,
        (Dest::U8, 255) => rd_array_of::<u8, 255>(sd, i, |x| vec![*x]).await,
        (Dest::U16, 4) => rd_array_of::<u16, 4>(sd, i, |x| x.to_le_bytes().to_vec()).await,
        (Dest::U16, 8) => rd_array_of::<u16, 8>(sd, i, |x| x.to_le_bytes().to_vec()).await,
        (Dest::U16, 255) => rd_array_of::<u16, 255>(sd, i, |x| x.to_le_bytes().to_vec()).await,
        (Dest::U32, 4) => rd_array_of::<u32, 4>(sd, i, |x| x.to_le_bytes().to_vec()).await,
        (Dest::U32, 8) => rd_array_of::<u32, 8>(sd, i, |x| x.to_le_bytes().to_vec()).await,
        (Dest::U32, 255) => rd_array_of::<u32, 255>(sd, i, |x| x.to_le_bytes().to_vec()).await,
        _ => Err(Error::Internal),
    }
}

async fn write_array(sd: &Sd<'_>, i: u16, vs: &[Vec<u8>]) -> Result<(), Error> {
    let w = vs.first().map(|v| v.len()).unwrap_or(1);
    match w {
        1 => sd.sdo_write_array(i, vs.iter().map(|v| v[0]).collect::<Vec<u8>>()).await,
        2 => sd.sdo_write_array(i, vs.iter().map(|v| u16::from_le_bytes([v[0], v[1]])).collect::<Vec<u16>>()).await,
        4 => sd.sdo_write_array(i, vs.iter().map(|v| u32::from_le_bytes([v[0], v[1], v[2], v[3]])).collect::<Vec<u32>>()).await,
        _ => Err(Error::Internal),
    }
}

async fn run_op(sd: &Sd<'_>, op: &Op) -> (String, Option<Vec<u8>>) {
    fn fin(r: Result<Vec<u8>, Error>) -> (String, Option<Vec<u8>>) {
        match r {
            Ok(b) => (ok_hex(&b), Some(b)),
            Err(e) => (format!("err:{}", err_token(&e)), None),
        }
    }
    fn unit(r: Result<(), Error>) -> (String, Option<Vec<u8>>) {
        match r {
            Ok(()) => ("ok".to_string(), None),
            Err(e) => (format!("err:{}", err_token(&e)), None),
        }
    }
    match op {
        Op::Read(d, i, a) => fin(read_dest(sd, d, *i, a.sub()).await),
        Op::ReadX(i, a) => fin(ethercrab::verif::coe::sdo_read_expedited_u32(sd, *i, a.sub()).await.map(|v| v.to_le_bytes().to_vec())),
        Op::Write(i, a, v) => unit(by_size!(v.len(), [0, 1, 2, 3, 4, 5, 6, 7, 8], wr_arr, (sd, *i, a.sub(), v))),
        Op::ReadArr(d, m, i) => match read_array(sd, d, *m, *i).await {
            Ok((n, b)) => (format!("ok:{}:{}", n, hex(&b)), Some(b)),
            Err(e) => (format!("err:{}", err_token(&e)), None),
        },
        Op::WriteArr(i, vs) => unit(write_array(sd, *i, vs).await),
        Op::List(t) => {
            use ethercrab::ObjectDescriptionListQuery as Q;
            let q = match t {
                1 => Q::All,
                2 => Q::RxPdoMappable,
                3 => Q::TxPdoMappable,
                4 => Q::StoredForDeviceReplacement,
                _ => Q::StartupParameters,
            };
            match sd.sdo_info_object_description_list(q).await {
                Ok(None) => ("ok:none".to_string(), None),
                Ok(Some(v)) => fin(Ok(v.iter().flat_map(|x| x.to_le_bytes()).collect())),
                Err(e) => fin(Err(e)),
            }
        }
        Op::Quant => match sd.sdo_info_object_quantities().await {
            Ok(None) => ("ok:none".to_string(), None),
            Ok(Some(c)) => fin(Ok([c.all, c.rx_pdo_mappable, c.tx_pdo_mappable, c.stored_for_device_replacement, c.startup_parameters].iter().flat_map(|x| x.to_le_bytes()).collect())),
            Err(e) => fin(Err(e)),
        },
    }
}

impl Rig {
    /// Device description: CoE device with an IN mailbox of `wmbx` bytes at 0x1000 and an OUT mailbox
    /// of `rmbx` bytes at 0x1400, no process data; or (no mailbox) a plain digital input terminal.
    pub fn desc(rmbx: u16, wmbx: u16, has_mbx: bool) -> DeviceDesc {
        if !has_mbx {
            return DeviceDesc::digital_in("DI", 8);
        }
        let mut d = DeviceDesc::coe_io("COE", 0, 0, 64);
        if let Some(m) = d.mailbox.as_mut() {
            m.rx_size = wmbx;
            m.tx_size = rmbx;
        }
        d.sms[0].len = wmbx;
        d.sms[1].len = rmbx;
        d.sms.truncate(2);
        d.fmmus = vec![3];
        d
    }

    pub fn new(rmbx: u16, wmbx: u16, has_mbx: bool) -> Result<Rig, String> {
        let seg = Segment::from_descs(&[Rig::desc(rmbx, wmbx, has_mbx)]);
        let t = Timeouts {
            wait_loop_delay: Duration::from_millis(1),
            mailbox_response: Duration::from_millis(20),
            mailbox_echo: Duration::from_millis(20),
            pdu: Duration::from_millis(2),
            ..Timeouts::default()
        };
        let (mut net, md) = Net::new(seg, 8, 1128, t, MainDeviceConfig { dc_static_sync_iterations: 0, ..Default::default() });
        // every frame takes 20 µs of virtual time, so that timers of finished waits expire and the clock's
        // waker list stays short even in cases with 100 000+ mailbox reads
        net.latency_us = 20;
        let group = match run(&mut net, async { md.init_single_group::<2, 8>(|| crate::clock::now() * 1000).await }) {
            Ok(Ok(g)) => g,
            Ok(Err(e)) => return Err(format!("init rmbx={rmbx} wmbx={wmbx}: {e:?}")),
            Err(s) => return Err(format!("init rmbx={rmbx} wmbx={wmbx}: executor {s:?}")),
        };
        Ok(Rig { net, md, group, rmbx, wmbx, has_mbx, dead: false })
    }

    pub fn coe(&mut self) -> Option<&mut CoeServer> {
        self.net.seg.devices[0].coe.as_mut()
    }

    pub fn peek_counter(&self) -> u8 {
        let sd = self.group.subdevice(self.md, 0).expect("subdevice 0");
        ethercrab::verif::coe::peek_mailbox_counter(&sd)
    }

    pub fn set_counter(&self, v: u8) {
        let sd = self.group.subdevice(self.md, 0).expect("subdevice 0");
        ethercrab::verif::coe::set_mailbox_counter(&sd, v);
    }

    /// Empty both mailboxes and the device's queue (between cases).
    pub fn clear_mailboxes(&mut self) {
        let d = &mut self.net.seg.devices[0];
        d.mbx.out_queue.clear();
        d.mbx.out_full = false;
        d.mbx.in_full = false;
        if let Some(c) = d.coe.as_mut() {
            c.raw_replies.clear();
            c.emergencies.clear();
        }
    }

    /// Run one operation on the real code. The caller has prepared the device (script / dictionary);
    /// `stale` messages are queued for the OUT mailbox first.
    pub fn run_case(&mut self, op: &Op, stale: &[Vec<u8>], step_limit: u64) -> Observed {
        let mut o = Observed { ctr_before: self.peek_counter(), ..Default::default() };
        for m in stale {
            self.net.seg.devices[0].push_mailbox_message(m.clone());
        }
        let w0 = self.net.seg.devices[0].mbx.written.len();
        let r0 = self.net.seg.devices[0].mbx.read.len();
        let s0 = self.net.stats.steps;
        self.net.step_limit = step_limit;
        LAST_PANIC.lock().unwrap().clear();
        let (net, group, md) = (&mut self.net, &self.group, self.md);
        let res = catch_unwind(AssertUnwindSafe(|| {
            run(net, async {
                let sd = group.subdevice(md, 0).expect("subdevice 0");
                run_op(&sd, op).await
            })
        }));
        match res {
            Ok(Ok((s, b))) => {
                o.result = s;
                o.ok_bytes = b;
            }
            Ok(Err(Stuck::StepLimit)) => {
                o.result = "stuck".into();
                self.dead = true;
            }
            Ok(Err(Stuck::Deadlock)) => {
                o.result = "deadlock".into();
                self.dead = true;
            }
            Err(_) => {
                o.result = "panic".into();
                o.panic_info = Some(LAST_PANIC.lock().unwrap().clone());
                self.dead = true;
            }
        }
        o.ctr_after = self.peek_counter();
        let d = &self.net.seg.devices[0];
        o.read_images = d.mbx.read[r0..].to_vec();
        o.reqs = d.mbx.written[w0..].to_vec();
        o.left = d.mbx.out_queue.len() + d.mbx.out_full as usize;
        o.steps = self.net.stats.steps - s0;
        o
    }
}

/// A pool of rigs keyed by mailbox configuration.
#[derive(Default)]
pub struct Rigs {
    pool: std::collections::BTreeMap<(u16, u16, bool), Rig>,
    pub inits: u64,
}

impl Rigs {
    pub fn get(&mut self, rmbx: u16, wmbx: u16, has_mbx: bool) -> &mut Rig {
        let key = (rmbx, wmbx, has_mbx);
        let stale = self.pool.get(&key).map(|r| r.dead).unwrap_or(true);
        if stale {
            if let Some(old) = self.pool.remove(&key) {
                // frame memory of a dead rig is not recycled: a panicking future may still have held a slot
                std::mem::forget(old);
            }
            // keep the pool small: give the frame memory of idle rigs back
            if self.pool.len() >= 8 {
                for (_, r) in std::mem::take(&mut self.pool) {
                    if r.dead {
                        std::mem::forget(r);
                    } else {
                        let Rig { net, group, .. } = r;
                        drop(group);
                        unsafe { net.recycle() };
                    }
                }
            }
            self.inits += 1;
            self.pool.insert(key, Rig::new(rmbx, wmbx, has_mbx).expect("rig"));
        }
        self.pool.get_mut(&key).unwrap()
    }
}

/// `key=value` lookup in a case line.
pub fn field<'a>(line: &'a str, key: &str) -> Option<&'a str> {
    line.split(' ').find_map(|t| t.strip_prefix(key).and_then(|r| r.strip_prefix('=')))
}
