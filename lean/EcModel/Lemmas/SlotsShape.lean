/-
  Shape of every operation's effect (no invariant needed), the frame lemma that follows from it
  under `J`, and the catalogue of slot-state transitions. Used by C06 (and available to C01/C02).
-/
import EcModel.Lemmas.SlotsInv

namespace Ec

/-- The register an operation on an owner handle names. -/
def Op.ownerReg : Op → Option Nat
  | .alloc r => some r
  | .push r _ _ _ => some r
  | .rest r _ _ => some r
  | .mark r _ _ => some r
  | .dropCreated r => some r
  | .poll r => some r
  | .dropFut r => some r
  | .first r _ _ => some r
  | .iter r _ => some r
  | .dropReceived r => some r
  | .viewRead r => some r
  | .viewTrim r _ => some r
  | .dropView r => some r
  | _ => none

/-- What an operation on the owner handle in register `r` can do to the world. -/
inductive OwnerShape (v : World) (r : Nat) : World → Prop
  | same (v' : World) : v'.1.slots = v.1.slots → v'.2 = v.2 → OwnerShape v r v'
  | upd (v' : World) (h : Hd) (K : HK) (y : Slot) : getH v.2 r = some h → h.kind.cls ≠ 4 → K.cls ≠ 4 →
      v'.1.slots = (v.1.setSlot h.slot y).slots → v'.2 = putH v.2 ⟨r, h.slot, K⟩ → OwnerShape v r v'
  | del (v' : World) (h : Hd) (y : Slot) : getH v.2 r = some h → h.kind.cls ≠ 4 →
      v'.1.slots = (v.1.setSlot h.slot y).slots → v'.2 = delH v.2 r → OwnerShape v r v'
  | new (v' : World) (i : Nat) (y : Slot) : (∀ h ∈ v.2, h.reg ≠ r) → i < v.1.n → (v.1.slot i).st = .none →
      v'.1.slots = (v.1.setSlot i y).slots → v'.2 = putH v.2 ⟨r, i, .created 0 none⟩ → OwnerShape v r v'

theorem dropReceived_slots (s : Sys) (k : Nat) : ∃ y, (dropReceived s k).1 = s.setSlot k y := by
  unfold dropReceived; simp only; split <;> exact ⟨_, rfl⟩

theorem shape_alloc (v : World) (r : Nat) (hn : 0 < v.1.n) : OwnerShape v r (step v (.alloc r)).1 := by
  simp only [step]
  split
  · next hfree =>
    unfold opAlloc
    split
    · next s' i e =>
      obtain ⟨hi, hnone, f, rfl⟩ := allocLoop_some hn e
      exact .new _ i _ (getH_isNone hfree) hi hnone rfl rfl
    · next s' e =>
      obtain ⟨f, rfl⟩ := allocLoop_none e
      exact .same _ rfl rfl
  · exact .same _ rfl rfl

theorem shape_push (v : World) (r : Nat) (c : Cmd) (d : List Nat) (l : Option Nat) :
    OwnerShape v r (step v (.push r c d l)).1 := by
  simp only [step]; unfold opPush
  split
  · next reg k count last e =>
    simp only
    split
    · exact .upd _ _ (.created _ _) _ e (by simp [HK.cls]) (by simp [HK.cls]) rfl rfl
    · exact .same _ rfl rfl
  · exact .same _ rfl rfl

theorem shape_rest (v : World) (r : Nat) (c : Cmd) (b : List Nat) :
    OwnerShape v r (step v (.rest r c b)).1 := by
  simp only [step]; unfold opRest
  split
  · next reg k count last e =>
    simp only
    split
    · refine .upd _ _ (.created _ _)
        (frameSlot (v.1.slot k) ((slotFrame v.1 (v.1.slot k) count last).pushRest c b v.1.pduIdx).1 (some v.1.pduIdx))
        e (by simp [HK.cls]) (by simp [HK.cls]) ?_ rfl
      split <;> rfl
    · refine .same _ ?_ rfl; split <;> rfl
    · refine .same _ ?_ rfl; split <;> rfl
  · exact .same _ rfl rfl

theorem shape_mark (v : World) (r a b : Nat) : OwnerShape v r (step v (.mark r a b)).1 := by
  simp only [step]; unfold opMark
  split
  · next reg k count last e =>
    exact .upd _ _ (.fut _ _ _ _) _ e (by simp [HK.cls]) (by simp [HK.cls]) rfl rfl
  · exact .same _ rfl rfl

theorem shape_dropCreated (v : World) (r : Nat) : OwnerShape v r (step v (.dropCreated r)).1 := by
  simp only [step]; unfold opDropCreated
  split
  · next reg k count last e =>
    simp only
    split
    · exact .del _ _ _ e (by simp [HK.cls]) rfl rfl
    · refine .del _ _ (v.1.slot k) e (by simp [HK.cls]) ?_ rfl
      simp only; rw [setSlot_self]
  · exact .same _ rfl rfl

theorem shape_poll (v : World) (r : Nat) : OwnerShape v r (step v (.poll r)).1 := by
  simp only [step]; unfold opPoll
  split
  · next reg k retries deadline timeout armed e =>
    simp only
    have keep : ∀ K : HK, K.cls ≠ 4 → OwnerShape v r (v.1, putH v.2 ⟨r, k, K⟩) := by
      intro K hK
      refine .upd _ _ K (v.1.slot k) e (by simp [HK.cls]) hK ?_ rfl
      simp only; rw [setSlot_self]
    have gone : OwnerShape v r (v.1, delH v.2 r) := by
      refine .del _ _ (v.1.slot k) e (by simp [HK.cls]) ?_ rfl
      simp only; rw [setSlot_self]
    split
    · exact .upd _ _ .received _ e (by simp [HK.cls]) (by simp [HK.cls]) rfl rfl
    · split
      · split
        · exact .del _ _ _ e (by simp [HK.cls]) rfl rfl
        · have hsl : ∃ y : Slot, (if (v.1.slot k).st = .sent then
              v.1.setSlot k { v.1.slot k with st := .sendable } else v.1).slots = (v.1.setSlot k y).slots := by
            by_cases hs : (v.1.slot k).st = .sent
            · exact ⟨_, by rw [if_pos hs]⟩
            · exact ⟨v.1.slot k, by rw [if_neg hs, setSlot_self]⟩
          obtain ⟨y, hy⟩ := hsl
          split
          · exact .upd _ _ (.fut _ _ _ _) y e (by simp [HK.cls]) (by simp [HK.cls]) hy rfl
          · exact .del _ _ y e (by simp [HK.cls]) hy rfl
      · split
        · exact keep _ (by simp [HK.cls])
        · exact gone
  · exact .same _ rfl rfl

theorem shape_dropFut (v : World) (r : Nat) : OwnerShape v r (step v (.dropFut r)).1 := by
  simp only [step]; unfold opDropFut
  split
  · next reg k a b c d e => exact .del _ _ _ e (by simp [HK.cls]) rfl rfl
  · exact .same _ rfl rfl

theorem shape_dropReceived_aux (v : World) (r : Nat) (h : Hd) (e : getH v.2 r = some h) (ho : h.kind.cls ≠ 4) :
    OwnerShape v r ((dropReceived v.1 h.slot).1, delH v.2 r) := by
  obtain ⟨y, hy⟩ := dropReceived_slots v.1 h.slot
  exact .del _ h y e ho (by simp only; rw [hy]) rfl

theorem shape_first (v : World) (r code idx : Nat) : OwnerShape v r (step v (.first r code idx)).1 := by
  simp only [step]; unfold opFirst
  split
  · next reg k e =>
    have hd := shape_dropReceived_aux v r _ e (by simp [HK.cls])
    simp only at hd ⊢
    split
    · exact hd
    · exact hd
    · exact hd
    · split
      · exact hd
      · split
        · exact hd
        · refine .upd _ _ (.view _ _ _) (v.1.slot k) e (by simp [HK.cls]) (by simp [HK.cls]) ?_ rfl
          simp only; rw [setSlot_self]
  · exact .same _ rfl rfl

theorem shape_iter (v : World) (r m : Nat) : OwnerShape v r (step v (.iter r m)).1 := by
  simp only [step]; unfold opIter
  split
  · next reg k e => exact shape_dropReceived_aux v r _ e (by simp [HK.cls])
  · exact .same _ rfl rfl

theorem shape_dropReceived (v : World) (r : Nat) : OwnerShape v r (step v (.dropReceived r)).1 := by
  simp only [step]; unfold opDropReceived
  split
  · next reg k e => exact shape_dropReceived_aux v r _ e (by simp [HK.cls])
  · exact .same _ rfl rfl

theorem shape_dropView (v : World) (r : Nat) : OwnerShape v r (step v (.dropView r)).1 := by
  simp only [step]; unfold opDropView
  split
  · next reg k a b c e => exact shape_dropReceived_aux v r _ e (by simp [HK.cls])
  · exact .same _ rfl rfl

theorem shape_viewRead (v : World) (r : Nat) : OwnerShape v r (step v (.viewRead r)).1 := by
  simp only [step]; unfold opViewRead
  split <;> exact .same _ rfl rfl

theorem shape_viewTrim (v : World) (r ct : Nat) : OwnerShape v r (step v (.viewTrim r ct)).1 := by
  simp only [step]; unfold opViewTrim
  split
  · next reg k a b c e =>
    refine .upd _ _ (.view _ _ _) (v.1.slot k) e (by simp [HK.cls]) (by simp [HK.cls]) ?_ rfl
    simp only; rw [setSlot_self]
  · exact .same _ rfl rfl

/-- Every operation on an owner handle has one of the four shapes. -/
theorem shape (v : World) (op : Op) (r : Nat) (hn : 0 < v.1.n) (h : op.ownerReg = some r) :
    OwnerShape v r (step v op).1 := by
  cases op <;> simp only [Op.ownerReg, Option.some.injEq, reduceCtorEq] at h <;> subst h
  · exact shape_alloc v _ hn
  · exact shape_push v _ _ _ _
  · exact shape_rest v _ _ _
  · exact shape_mark v _ _ _
  · exact shape_dropCreated v _
  · exact shape_poll v _
  · exact shape_dropFut v _
  · exact shape_first v _ _ _
  · exact shape_iter v _ _
  · exact shape_dropReceived v _
  · exact shape_viewRead v _
  · exact shape_viewTrim v _ _
  · exact shape_dropView v _

/-! ## frame lemma -/

/-- An operation on the owner handle in register `r'` leaves every other owner's slot and handle
    alone and neither adds nor removes a TX-side handle. -/
theorem OwnerShape.frame {v v' : World} {r' : Nat} (hs : OwnerShape v r' v') (hJ : J v.1 v.2)
    {h : Hd} (hm : h ∈ v.2) (ho : h.kind.cls ≠ 4) (hne : h.reg ≠ r') :
    v'.1.slot h.slot = v.1.slot h.slot ∧ h ∈ v'.2 ∧
    (∀ x : Hd, x.kind = .sendable → (x ∈ v'.2 ↔ x ∈ v.2)) := by
  cases hs with
  | same e1 e2 => exact ⟨slot_congr e1 _, e2 ▸ hm, fun x _ => by rw [e2]⟩
  | upd h' K y e ho' hK e1 e2 =>
    obtain ⟨hm', hr'⟩ := getH_some e
    have hsl : h.slot ≠ h'.slot := by
      intro es
      have := hJ.distinct h hm h' hm' ho ho' es
      exact hne (this ▸ hr')
    refine ⟨by rw [slot_congr e1, slot_setSlot_ne _ _ _ _ hsl], ?_, ?_⟩
    · rw [e2]; exact mem_putH.mpr (Or.inr ⟨hm, hne⟩)
    · intro x hx
      rw [e2, mem_putH]
      constructor
      · rintro (rfl | ⟨a, _⟩)
        · simp only at hx; rw [hx] at hK; simp [HK.cls] at hK
        · exact a
      · intro hxm
        right; refine ⟨hxm, ?_⟩
        intro hxr
        have : x = h' := regs_inj hJ.regs hxm hm' (hxr.trans hr'.symm)
        subst this
        rw [hx] at ho'; simp [HK.cls] at ho'
  | del h' y e ho' e1 e2 =>
    obtain ⟨hm', hr'⟩ := getH_some e
    have hsl : h.slot ≠ h'.slot := by
      intro es
      have := hJ.distinct h hm h' hm' ho ho' es
      exact hne (this ▸ hr')
    refine ⟨by rw [slot_congr e1, slot_setSlot_ne _ _ _ _ hsl], ?_, ?_⟩
    · rw [e2]; exact mem_delH.mpr ⟨hm, hne⟩
    · intro x hx
      rw [e2, mem_delH]
      constructor
      · exact fun a => a.1
      · intro hxm
        refine ⟨hxm, ?_⟩
        intro hxr
        have : x = h' := regs_inj hJ.regs hxm hm' (hxr.trans hr'.symm)
        subst this
        rw [hx] at ho'; simp [HK.cls] at ho'
  | new i y hfree hi hnone e1 e2 =>
    have hsl : h.slot ≠ i := by
      intro es
      have := hJ.compat h hm ho
      rw [es, hnone] at this
      have := h.kind.cls_pos
      simp [St.cls] at *
      omega
    refine ⟨by rw [slot_congr e1, slot_setSlot_ne _ _ _ _ hsl], ?_, ?_⟩
    · rw [e2]; exact mem_putH.mpr (Or.inr ⟨hm, hne⟩)
    · intro x hx
      rw [e2, mem_putH]
      constructor
      · rintro (rfl | ⟨a, _⟩)
        · cases hx
        · exact a
      · intro hxm; exact Or.inr ⟨hxm, hfree x hxm⟩

/-- ... and leaves every other register as it was. -/
theorem OwnerShape.getH_other {v v' : World} {r' : Nat} (hs : OwnerShape v r' v') (hJ : J v.1 v.2)
    {r : Nat} (hne : r ≠ r') : getH v'.2 r = getH v.2 r := by
  have key : ∀ hs' : List Hd, (∀ x : Hd, x.reg ≠ r' → (x ∈ hs' ↔ x ∈ v.2)) → Regs hs' →
      getH hs' r = getH v.2 r := by
    intro hs' hmem hregs
    cases e : getH v.2 r with
    | none =>
      cases e' : getH hs' r with
      | none => rfl
      | some x =>
        obtain ⟨hx, hxr⟩ := getH_some e'
        exact absurd hxr (getH_none e x ((hmem x (by rw [hxr]; exact hne)).mp hx))
    | some x =>
      obtain ⟨hx, hxr⟩ := getH_some e
      have : x ∈ hs' := (hmem x (by rw [hxr]; exact hne)).mpr hx
      rw [← hxr]; exact getH_of_mem hregs this
  have hput : ∀ y : Hd, y.reg = r' → ∀ x : Hd, x.reg ≠ r' → (x ∈ putH v.2 y ↔ x ∈ v.2) := by
    intro y hy x hx
    rw [mem_putH]
    constructor
    · rintro (rfl | a)
      · exact absurd hy hx
      · exact a.1
    · intro a; exact Or.inr ⟨a, by rw [hy]; exact hx⟩
  cases hs with
  | same e1 e2 => rw [e2]
  | upd h' K y e ho' hK e1 e2 => rw [e2]; exact key _ (hput _ rfl) (regs_putH hJ.regs _)
  | del h' y e ho' e1 e2 =>
    rw [e2]
    refine key _ ?_ (regs_delH hJ.regs _)
    intro x hx; rw [mem_delH]
    exact ⟨fun a => a.1, fun a => ⟨a, hx⟩⟩
  | new i y hfree hi hnone e1 e2 => rw [e2]; exact key _ (hput _ rfl) (regs_putH hJ.regs _)

/-! ## the transmit side -/

/-- `next_sendable_frame`: nothing, or the first `Sendable` slot is claimed into a free register. -/
theorem txNext_cases (v : World) (τ : Nat) :
    (step v (.txNext τ)).1 = v ∨
    ∃ i, (∀ h ∈ v.2, h.reg ≠ τ) ∧ i < v.1.n ∧ (v.1.slot i).st = .sendable ∧
      (∀ j, j < i → (v.1.slot j).st ≠ .sendable) ∧
      (step v (.txNext τ)).1 = (v.1.setSlot i { v.1.slot i with st := .sending }, putH v.2 ⟨τ, i, .sendable⟩) := by
  simp only [step]
  split
  · next hfree =>
    unfold opTxNext
    split
    · left; rfl
    · split
      · next i hi =>
        obtain ⟨hin, hp, hprev⟩ := findIdx_some_slot hi
        right
        refine ⟨i, getH_isNone hfree, hin, by simpa using hp, ?_, rfl⟩
        intro j hj; simpa using hprev j hj
      · left; rfl
  · left; rfl

/-- `send_blocking`: the handle is consumed; the slot moves on only if it is still `Sending`. -/
theorem txSend_cases (v : World) (τ o : Nat) :
    ((∀ reg k', getH v.2 τ ≠ some ⟨reg, k', .sendable⟩) ∧ (step v (.txSend τ o)).1 = v) ∨
    ∃ k', getH v.2 τ = some ⟨τ, k', .sendable⟩ ∧
      (((v.1.slot k').st = .sending ∧ (step v (.txSend τ o)).1 =
          (v.1.setSlot k' { v.1.slot k' with st := if o = 0 then St.sent else St.sendable }, delH v.2 τ)) ∨
       ((v.1.slot k').st ≠ .sending ∧ (step v (.txSend τ o)).1 = (v.1, delH v.2 τ))) := by
  simp only [step]
  unfold opTxSend
  split
  · next reg k' e =>
    right
    have hr : reg = τ := (getH_some e).2
    subst hr
    refine ⟨k', e, ?_⟩
    simp only
    split
    · next hs => left; exact ⟨hs, rfl⟩
    · next hs => right; exact ⟨hs, rfl⟩
  · next hne =>
    left
    exact ⟨fun reg k' e => hne reg k' e, rfl⟩


end Ec
