/-
  Frame lemma for every operation that does not act on a given owner's register (used by C01View):
  under `J` the owner's slot is bit-identical afterwards and its handle stays where it is.
-/
import EcModel.Lemmas.SlotsShape

namespace Ec

/-- The register an operation acts on (`none` for `rx`, `advance`, `reset`, `snap`). -/
def Op.reg : Op → Option Nat
  | .txNext r => some r
  | .txSend r _ => some r
  | op => op.ownerReg

theorem Op.reg_of_ownerReg {op : Op} {r : Nat} (h : op.ownerReg = some r) : op.reg = some r := by
  cases op <;> simp [Op.ownerReg] at h <;> simp [Op.reg, Op.ownerReg, h]

/-- **Owner frame lemma**: in a world satisfying `J`, an operation that does not act on the register
    of an owner handle `h` leaves `h`'s slot (state, marker, length, every byte) and `h` itself
    untouched — provided the slot is not one the TX or RX side may move (`Sendable`, `Sending`,
    `Sent`), which is the case for `Created` and `RxProcessing` slots. -/
theorem step_frame_owner {v : World} (hJ : J v.1 v.2) {h : Hd} (hm : h ∈ v.2) (ho : h.kind.cls ≠ 4)
    (hq : (v.1.slot h.slot).st ≠ .sendable ∧ (v.1.slot h.slot).st ≠ .sending ∧ (v.1.slot h.slot).st ≠ .sent)
    (op : Op) (hop : op.reg ≠ some h.reg) :
    (step v op).1.1.slot h.slot = v.1.slot h.slot ∧ getH (step v op).1.2 h.reg = some h := by
  have hg : getH v.2 h.reg = some h := getH_of_mem hJ.regs hm
  cases ho' : op.ownerReg with
  | some r' =>
    have hne : h.reg ≠ r' := fun e => hop (by rw [Op.reg_of_ownerReg ho', e])
    have hsh := shape v op r' hJ.pos ho'
    exact ⟨(hsh.frame hJ hm ho hne).1, by rw [hsh.getH_other hJ hne]; exact hg⟩
  | none =>
    cases op <;> simp [Op.ownerReg] at ho'
    · -- txNext
      next τ =>
      have hτ : h.reg ≠ τ := fun e => hop (by simp [Op.reg, e])
      rcases txNext_cases v τ with e | ⟨i, _, _, hsi, _, e⟩
      · rw [e]; exact ⟨rfl, hg⟩
      · rw [e]
        have hik : h.slot ≠ i := fun e' => hq.1 (e' ▸ hsi)
        exact ⟨slot_setSlot_ne _ _ _ _ hik, by
          simp only; rw [getH_putH_other hJ.regs _ (by simpa using hτ)]; exact hg⟩
    · -- txSend
      next τ o =>
      have hτ : h.reg ≠ τ := fun e => hop (by simp [Op.reg, e])
      rcases txSend_cases v τ o with ⟨_, e⟩ | ⟨k', _, ⟨hs, e⟩ | ⟨_, e⟩⟩
      · rw [e]; exact ⟨rfl, hg⟩
      · rw [e]
        have hik : h.slot ≠ k' := fun e' => hq.2.1 (e' ▸ hs)
        exact ⟨slot_setSlot_ne _ _ _ _ hik, by simp only; rw [getH_delH_other hJ.regs hτ]; exact hg⟩
      · rw [e]
        exact ⟨rfl, by simp only; rw [getH_delH_other hJ.regs hτ]; exact hg⟩
    · -- rx
      next b =>
      simp only [step, opRx]
      refine ⟨?_, hg⟩
      rcases receiveFrame_effect v.1 b with ⟨e, _⟩ | ⟨k', _, hst, ⟨p, e⟩ | e⟩
      · rw [e]
      · rw [e]; exact slot_setSlot_ne _ _ _ _ (fun e' => hq.2.2 (e' ▸ hst))
      · rw [e]; exact slot_setSlot_ne _ _ _ _ (fun e' => hq.2.2 (e' ▸ hst))
    · exact ⟨rfl, hg⟩
    · -- reset is disabled while a handle is alive
      have : v.2 ≠ [] := fun e' => by rw [e'] at hm; cases hm
      simp [step, this]; exact hg
    · exact ⟨rfl, hg⟩

end Ec
