/-
  C19 — derived wire encodings match their declared layout and round-trip.
  Property theorems only; the model is EcModel/Wire.lean, helper lemmas live in EcModel/Lemmas/Wire*.lean.

  Reading guide. `parseStruct d = .ok m` is "the derive macro accepts the struct declaration `d`" (m = its StructMeta).
  `structCodecOfMeta m` is the triple of impls the macro generates: `.pack` = `pack()`, `.packToSlice` = `pack_to_slice`,
  `.packU` = `pack_to_slice_unchecked`, `.dec` = `unpack_from_slice`, `.len` = `PACKED_LEN`.
  `bitAt buf k` is bit `k` of a byte string in little-endian bit order (byte k/8, bit k%8 from the LSB; `testBit_leVal`
  in Lemmas/WireBits shows it is bit k of the little-endian number). A struct value is `.seq vs`, one value per field.

  Hypotheses that appear:
  * `Accepted d m`  — the macro's own validator accepts `d`, and every non-skipped field is at least 1 bit wide
                      (the property quantifies over widths 1..64; `bits = 0` fields are accepted by the macro and are
                      degenerate: see the note at the end);
  * `WellTyped m`   — what rustc and the user guarantee and the macro cannot see: field codecs obey the trait laws
                      (`Lawful`, proved for the primitives in Lemmas/WireCodecs and closed under nesting by
                      `nested_struct_lawful`), the field's type is not longer than its slot (`slotFits`), the write half of
                      the derive compiles (`deriveWriteOk`);
  * `validVals`     — the value is representable: a `u8` in a 3-bit field is < 8, skipped fields hold their default, …
-/
import EcModel.Lemmas.WireEnum
import EcModel.Generated.Layouts
import EcModel.Generated.LayoutsLawful

namespace Ec.C19
open Ec Ec.Wire

/-- The derive macro accepts the declaration; widths are ≥ 1. -/
structure Accepted (d : StructDecl) (m : StructMeta) : Prop where
  parsed : parseStruct d = .ok m
  pos : ∀ f ∈ m.fields, f.skip = false → 0 < f.bitsLen

/-- Facts about the field types that are outside the macro's view. -/
structure WellTyped (m : StructMeta) : Prop where
  lawful : ∀ f ∈ m.fields, Lawful f.codec
  fits : ∀ f ∈ m.fields, f.slotFits = true
  gen : deriveWriteOk m = true

theorem good_of {d : StructDecl} {m : StructMeta} (ha : Accepted d m) (hw : WellTyped m) : StructGood m :=
  ⟨parseStruct_chain ha.parsed, ha.pos, hw.lawful, hw.fits, hw.gen⟩

/-- `pack()` returns what `pack_to_slice_unchecked` stores. -/
theorem pack_eq_ok (c : Codec) (v : Val) (bs : List Nat) : c.pack v = .ok bs ↔ c.enc v = .ok bs := by
  simp only [Codec.pack, Codec.packU, zeros, List.length_replicate, Nat.lt_irrefl, if_false]
  constructor
  · intro h
    obtain ⟨a, ha, h2⟩ := bindO_eq_ok.mp h
    simp at h2
    rw [ha, h2]
  · intro h
    simp [h, bindO]

/-! ## Structs -/

/-- Packing a representable value never panics and yields exactly `PACKED_LEN` bytes. -/
theorem pack_never_panics {d : StructDecl} {m : StructMeta} (ha : Accepted d m) (hw : WellTyped m)
    (vs : List Val) (hv : validVals m.fields vs) :
    ∃ bs, (structCodecOfMeta m).pack (.seq vs) = .ok bs ∧ bs.length = m.sizeBytes ∧ AllBytes bs := by
  have hg := good_of ha hw
  obtain ⟨bs, hbs⟩ := (structCodec_lawful hg).enc_ok (.seq vs) ⟨vs, rfl, hv⟩
  obtain ⟨h1, h2⟩ := (structCodec_lawful hg).enc_len _ _ hbs
  exact ⟨bs, (pack_eq_ok _ _ _).mpr hbs, h1, h2⟩

/-- The whole image, bit by bit: bit `k` of `pack v` is set iff `k` lies in the declared range of a non-skipped field
    and the corresponding bit of that field's own encoding is set. -/
theorem pack_is_the_declared_layout {d : StructDecl} {m : StructMeta} (ha : Accepted d m) (hw : WellTyped m)
    {vs : List Val} {bs : List Nat} (hp : (structCodecOfMeta m).pack (.seq vs) = .ok bs) (k : Nat) :
    bitAt bs k = fieldsBit m.fields vs k :=
  (structEnc_spec (good_of ha hw) ((pack_eq_ok _ _ _).mp hp)).2.2 k

/-- **field_at_declared_bits.** Bits `[bit_start, bit_start + w)` of `pack v`, little-endian, hold the encoding of the
    field (`self.f as u8` for u8/bool fields, the field type's own packing otherwise). -/
theorem field_at_declared_bits {d : StructDecl} {m : StructMeta} (ha : Accepted d m) (hw : WellTyped m)
    {vs : List Val} {bs : List Nat} (hp : (structCodecOfMeta m).pack (.seq vs) = .ok bs)
    (i : Nat) (hi : i < m.fields.length) (hs : m.fields[i].skip = false) (v : Val) (hv : vs[i]? = some v)
    (j : Nat) (hj : j < m.fields[i].bitsLen) :
    bitAt bs (m.fields[i].bitStart + j) = bitAt (fieldEnc m.fields[i] v) j := by
  have hg := good_of ha hw
  have henc := (pack_eq_ok _ _ _).mp hp
  have hl : vs.length = m.fields.length := writeFields_length _ _ _ _ (by simpa [structCodecOfMeta, structEnc] using henc)
  rw [pack_is_the_declared_layout ha hw hp, fieldsBit_at_field m.fields vs 0 m.widthBits hg.chain hl i hi hs j hj]
  have : vs[i]'(by omega) = v := by
    rw [List.getElem?_eq_getElem (by omega)] at hv
    exact Option.some.inj hv
  rw [this]

/-- **undeclared_bits_zero.** Every bit that belongs to no non-skipped field (skips, padding up to the byte boundary,
    anything past the end) is zero. -/
theorem undeclared_bits_zero {d : StructDecl} {m : StructMeta} (ha : Accepted d m) (hw : WellTyped m)
    {vs : List Val} {bs : List Nat} (hp : (structCodecOfMeta m).pack (.seq vs) = .ok bs) (k : Nat)
    (hk : ∀ f ∈ m.fields, f.skip = false → ¬ (f.bitStart ≤ k ∧ k < f.bitEnd)) :
    bitAt bs k = false := by
  rw [pack_is_the_declared_layout ha hw hp, fieldsBit_undeclared _ _ _ hk]

/-- The declared ranges are what `parse_struct` computed from the attributes: consecutive fields do not overlap and stay
    inside the declared struct width (so the two theorems above describe disjoint regions that tile the image). -/
theorem declared_ranges_disjoint {d : StructDecl} {m : StructMeta} (ha : Accepted d m) :
    Chain m.fields 0 m.widthBits ∧ m.widthBits ≤ 8 * m.sizeBytes :=
  ⟨parseStruct_chain ha.parsed, m.width_le⟩

/-- **unpack_reads_declared_bits.** For any buffer of at least the packed length, `unpack_from_slice` decodes every
    non-skipped field from bits `[bit_start, bit_start + w)` of the buffer (`extractBits`, zero-extended to whole bytes;
    `extractBits_bits` says which bits those are) and nothing else; the first failing field's error is returned.
    No assumption on the field types. -/
theorem unpack_reads_declared_bits {d : StructDecl} {m : StructMeta} (ha : Accepted d m)
    (buf : List Nat) (hb : AllBytes buf) (hl : m.sizeBytes ≤ buf.length) :
    structRead m buf = bindO (readFieldsSpec m.fields buf) fun vs => .ok (.seq vs) := by
  have hch := parseStruct_chain ha.parsed
  have h1 : ¬ buf.length < m.sizeBytes := by omega
  simp only [structRead, h1, if_false]
  rw [readFields_spec m.fields _ 0 m.widthBits hch ha.pos (by simp; have := m.width_le; omega) (allBytes_take _ hb)]
  congr 1
  -- the bits of the first PACKED_LEN bytes are the bits of the buffer
  apply readFieldsSpec_congr (allBytes_take _ hb) hb
  intro f hf hs k _ hk2
  obtain ⟨_, h2, h3, _⟩ := hch.mem_bounds f hf hs
  have hk : k < 8 * m.sizeBytes := by
    have := m.width_le
    simp only [FieldMeta.bitsLen] at hk2
    omega
  simp [bitAt_take, hk]

/-- Consequence: two buffers that agree on the declared bits unpack to the same result — undeclared bits (skips, padding,
    trailing bytes) are never looked at. -/
theorem unpack_ignores_undeclared_bits {d : StructDecl} {m : StructMeta} (ha : Accepted d m)
    (b1 b2 : List Nat) (h1 : AllBytes b1) (h2 : AllBytes b2) (l1 : m.sizeBytes ≤ b1.length) (l2 : m.sizeBytes ≤ b2.length)
    (h : ∀ f ∈ m.fields, f.skip = false → ∀ k, f.bitStart ≤ k → k < f.bitEnd → bitAt b1 k = bitAt b2 k) :
    structRead m b1 = structRead m b2 := by
  rw [unpack_reads_declared_bits ha b1 h1 l1, unpack_reads_declared_bits ha b2 h2 l2]
  congr 1
  apply readFieldsSpec_congr h1 h2
  intro f hf hs k hk1 hk2
  obtain ⟨_, hle, _, _⟩ := (parseStruct_chain ha.parsed).mem_bounds f hf hs
  exact h f hf hs k hk1 (by simp only [FieldMeta.bitsLen] at hk2; omega)

/-- **unpack_pack.** Unpacking what was packed gives the value back — also when more bytes follow the image. -/
theorem unpack_pack {d : StructDecl} {m : StructMeta} (ha : Accepted d m) (hw : WellTyped m)
    (vs : List Val) (hv : validVals m.fields vs) {bs : List Nat}
    (hp : (structCodecOfMeta m).pack (.seq vs) = .ok bs) (extra : List Nat) :
    (structCodecOfMeta m).dec (bs ++ extra) = .ok (.seq vs) := by
  have hl := structCodec_lawful (good_of ha hw)
  have henc := (pack_eq_ok _ _ _).mp hp
  obtain ⟨hlen, _⟩ := hl.enc_len _ _ henc
  rw [hl.dec_prefix _ (by simp; omega), ← hlen, List.take_left' rfl]
  exact hl.roundtrip _ _ ⟨vs, rfl, hv⟩ henc

/-- **short_buffer_error.** A buffer shorter than `PACKED_LEN` is `Err(ReadBufferTooShort)`, for every declaration the
    macro accepts and every field type (no hypothesis at all). -/
theorem short_buffer_error (m : StructMeta) (buf : List Nat) (h : buf.length < m.sizeBytes) :
    (structCodecOfMeta m).dec buf = .err .readBufferTooShort := by
  simp [structCodecOfMeta, structRead, h]

/-- Decoding never panics, whatever the bytes, as long as the field types' own decoders do not. -/
theorem unpack_never_panics (m : StructMeta) (hlaw : ∀ f ∈ m.fields, Lawful f.codec) (buf : List Nat) (why : String) :
    (structCodecOfMeta m).dec buf ≠ .panic why := by
  intro h
  simp only [structCodecOfMeta, structRead] at h
  split at h
  · cases h
  · cases hr : readFields m.fields (List.take m.sizeBytes buf) with
    | panic w => exact readFields_total _ _ _ hlaw hr
    | err e => simp [hr, bindO] at h
    | ok vs => simp [hr, bindO] at h

/-- **pack_to_slice_refuses_short.** The checked `pack_to_slice` returns `Err(WriteBufferTooShort)` for a destination
    shorter than `PACKED_LEN`, for every codec (derived or primitive) and every value. -/
theorem pack_to_slice_refuses_short (c : Codec) (v : Val) (dst : List Nat) (h : dst.length < c.len) :
    c.packToSlice v dst = .err .writeBufferTooShort := by
  simp [Codec.packToSlice, h]

/-- With a long enough destination `pack_to_slice` stores the image in front (overwriting whatever was there, i.e. the
    generated code zeroes its range first) and leaves the bytes behind it alone. -/
theorem pack_to_slice_long (c : Codec) (v : Val) (dst bs : List Nat) (h : c.len ≤ dst.length) (hp : c.pack v = .ok bs) :
    c.packToSlice v dst = .ok (bs ++ dst.drop c.len) := by
  have h1 : ¬ dst.length < c.len := by omega
  simp [Codec.packToSlice, Codec.packU, h1, (pack_eq_ok _ _ _).mp hp, bindO]

/-- A derived struct over lawful field types is itself lawful: all of the above composes over nested structs. -/
theorem nested_struct_lawful {d : StructDecl} {m : StructMeta} (ha : Accepted d m) (hw : WellTyped m) :
    Lawful (structCodecOfMeta m) :=
  structCodec_lawful (good_of ha hw)

/-- The primitive impls of impls.rs obey the laws. -/
theorem primitives_lawful : (∀ n, Lawful (Codec.uN n)) ∧ (∀ n, Lawful (Codec.iN n)) ∧ Lawful Codec.bool :=
  ⟨lawful_uN, lawful_iN, lawful_bool⟩

/-- Observation on the validator itself: its check "Fields smaller than 8 bits may not cross byte boundaries" can never be
    the reported error — a field crossing a byte boundary is always refused by the alignment check in front of it. (The
    harness never sees that message either.) -/
theorem small_crosses_unreachable (d : StructDecl) : parseStruct d ≠ .error .smallCrosses := by
  intro h
  unfold parseStruct at h
  split at h
  · rename_i e he
    simp only [bitWidthAttr] at he
    split at he
    · simp only [Except.error.injEq] at he h
      subst he
      cases h
    · cases he
  · cases h
  · split at h
    · cases h
    · split at h
      · rename_i e he
        simp only [Except.error.injEq] at h
        subst h
        exact parseFields_not_smallCrosses _ _ he
      · split at h <;> cases h

/-! ## Enums -/

/-- **enum_roundtrip (full statement).** Every unit variant of the enum packs to bytes that unpack to the same variant. -/
def EnumRoundtrips (e : EnumDecl) : Prop :=
  ∀ m size, parseEnum e = .ok m → e.repr.size = some size →
    ∀ idx d, e.variants[idx]? = some d → d.catchAll = false →
      ∃ bs, enumWrite m size (.unit idx) = .ok bs ∧ bs.length = size ∧ enumRead m size bs = .ok (.unit idx)

/-- One variant: `x` is the discriminant rustc gives it (`E::V as repr`: explicit value, else previous + 1, first 0), a
    value of the repr (rustc refuses anything else). If the values the read side matches on — discriminants and
    alternatives — are pairwise distinct, the variant round-trips: explicit or implicit discriminant, with or without
    catch-all / default / alternatives elsewhere in the enum. (`macro_numbering_is_rustc`: since the fix of parse_enum the
    macro's numbering, used by the read side and by the write side of catch-all enums, is rustc's.) -/
theorem enum_variant_roundtrip {e : EnumDecl} {m : EnumMeta} {size : Nat}
    (hp : parseEnum e = .ok m)
    (hnd : ((m.variants.filter fun b => !b.catchAll).map (·.discriminant)).Nodup)
    (idx : Nat) (d : VariantDecl) (x : Int) (hd : e.variants[idx]? = some d) (hc : d.catchAll = false)
    (hx : (rustDiscsFrom e.variants 0)[idx]? = some x) (hr : reprInRange e.repr.signed size x) :
    ∃ bs, enumWrite m size (.unit idx) = .ok bs ∧ bs.length = size ∧ enumRead m size bs = .ok (.unit idx) := by
  have hi : idx < e.variants.length := by
    by_cases h : idx < e.variants.length
    · exact h
    · rw [List.getElem?_eq_none (by omega)] at hd; cases hd
  have hdi : e.variants[idx] = d := by
    rw [List.getElem?_eq_getElem hi] at hd; exact Option.some.inj hd
  obtain ⟨bs, h1, h2, _, h3⟩ := enum_unit_roundtrip hp hnd idx hi (by rw [hdi]; exact hc) x
    (by rw [macro_numbering_is_rustc]; exact hx) (Or.inr hx) hr
  exact ⟨bs, h1, h2, h3⟩

/-- **enum_roundtrip.** The full statement holds for every enum whose read arms (discriminants and alternatives) are
    pairwise distinct and whose discriminants are values of the repr. Both hypotheses are needed: rustc only enforces
    them for the discriminants, not for `alternatives` (see `enum_roundtrip_needs_distinct_arms`). -/
theorem enum_roundtrip (e : EnumDecl)
    (hnd : ∀ m, parseEnum e = .ok m → ((m.variants.filter fun b => !b.catchAll).map (·.discriminant)).Nodup)
    (hr : ∀ size, e.repr.size = some size → ∀ x ∈ rustDiscsFrom e.variants 0, reprInRange e.repr.signed size x) :
    EnumRoundtrips e := by
  intro m size hp hs idx d hd hc
  have hi : idx < (rustDiscsFrom e.variants 0).length := by
    rw [rustDiscsFrom_length]
    by_cases h : idx < e.variants.length
    · exact h
    · rw [List.getElem?_eq_none (by omega)] at hd; cases hd
  exact enum_variant_roundtrip hp (hnd m hp) idx d _ hd hc (List.getElem?_eq_getElem hi)
    (hr size hs _ (List.getElem_mem hi))

/-- The distinct-arms hypothesis is genuine: `#[repr(u8)] enum E { #[wire(alternatives = [2])] A = 1, B = 2 }` compiles
    (rustc only warns about the unreachable match arm); B packs to 2 and 2 decodes as A, because the first arm wins. -/
theorem enum_roundtrip_needs_distinct_arms :
    ¬ EnumRoundtrips { repr := .u8, variants := [{ disc := some 1, alternatives := [2] }, { disc := some 2 }] } := by
  intro h
  have w : ∃ m, parseEnum { repr := .u8, variants := [{ disc := some 1, alternatives := [2] }, { disc := some 2 }] } = .ok m ∧
      enumWrite m 1 (.unit 1) = .ok [2] ∧ enumRead m 1 [2] = .ok (.unit 0) := ⟨_, rfl, rfl, rfl⟩
  obtain ⟨m, hm, hw, hr⟩ := w
  obtain ⟨bs, h1, _, h2⟩ := h m 1 hm rfl 1 { disc := some 2 } rfl rfl
  rw [hw] at h1
  have e1 : bs = [2] := (Outcome.ok.inj h1).symm
  subst e1
  rw [hr] at h2
  cases h2

/-- The former witnesses of the implicit-discriminant defect (fixed in parse_enum.rs: the accumulator started at 0 and
    alternatives advanced it) now round-trip: `#[repr(u8)] enum E { A, B, C }` — A packs to 0x00 and 0x00 unpacks to A,
    B packs to 0x01 and unpacks to B. -/
theorem implicit_discriminants_roundtrip_witness :
    let e : EnumDecl := { repr := .u8, variants := [{}, {}, {}] }
    ∃ m, parseEnum e = .ok m ∧
      enumWrite m 1 (.unit 0) = .ok [0] ∧ enumRead m 1 [0] = .ok (.unit 0) ∧
      enumWrite m 1 (.unit 1) = .ok [1] ∧ enumRead m 1 [1] = .ok (.unit 1) ∧
      enumRead m 1 [3] = .err .invalidValue :=
  ⟨_, rfl, rfl, rfl, rfl, rfl, rfl⟩

/-- `#[repr(u8)] enum E { #[wire(alternatives = [5, 6])] A = 1, B }`: B packs to 2 and 2 unpacks to B; 5 and 6 unpack to
    A; 7 (what the read side expected for B before the fix) is undefined. -/
theorem implicit_after_alternatives_witness :
    let e : EnumDecl := { repr := .u8, variants := [{ disc := some 1, alternatives := [5, 6] }, {}] }
    ∃ m, parseEnum e = .ok m ∧ enumWrite m 1 (.unit 1) = .ok [2] ∧ enumRead m 1 [2] = .ok (.unit 1) ∧
      enumRead m 1 [5] = .ok (.unit 0) ∧ enumRead m 1 [7] = .err .invalidValue :=
  ⟨_, rfl, rfl, rfl, rfl, rfl⟩

/-- The catch-all payload round-trips when it is not one of the declared values (a payload equal to a declared
    discriminant reads back as that variant: the value is not canonical). -/
theorem enum_catch_all_roundtrip {e : EnumDecl} {m : EnumMeta} {size : Nat}
    (hp : parseEnum e = .ok m) (hca : m.catchAll.isSome = true) (raw : Int)
    (hr : reprInRange e.repr.signed size raw) (hcanon : matchReadArms m.variants raw = none) :
    ∃ bs, enumWrite m size (.catchAll raw) = .ok bs ∧ bs.length = size ∧ enumRead m size bs = .ok (.catchAll raw) := by
  obtain ⟨_, hrepr, _, hex⟩ := parseEnum_arms hp
  have hw : enumWriteValue m (.catchAll raw) = some raw := by
    simp only [enumWriteValue, hca, if_true]
    exact matchWriteArms_catchAll raw _ (hex hca)
  refine ⟨leBytes size (raw % ((256 ^ size : Nat) : Int)).toNat, by simp [enumWrite, hw], leBytes_length _ _, ?_⟩
  have hlen : ¬ (leBytes size (raw % ((256 ^ size : Nat) : Int)).toNat).length < size := by simp [leBytes_length]
  have hraw := raw_roundtrip e.repr.signed size raw hr
  simp only at hraw
  simp only [enumRead, hlen, if_false, hrepr, hraw, hcanon]
  cases hc : m.catchAll with
  | none => rw [hc] at hca; cases hca
  | some _ => rfl

/-- **undefined_value_error_or_fallback.** Whatever `size` bytes arrive: a value that matches no declared discriminant or
    alternative is the catch-all variant carrying it, else the `#[default]` variant, else `Err(InvalidValue)`;
    a short buffer is `Err(ReadBufferTooShort)`; nothing panics. -/
theorem undefined_value_error_or_fallback (m : EnumMeta) (size : Nat) (buf : List Nat) :
    (buf.length < size → enumRead m size buf = .err .readBufferTooShort) ∧
    (size ≤ buf.length →
      let u := leVal (buf.take size)
      let raw : Int := if m.repr.signed then toSigned size u else (u : Int)
      matchReadArms m.variants raw = none →
        enumRead m size buf =
          match m.catchAll, m.default with
          | some _, _ => .ok (.catchAll raw)
          | none, some dflt => .ok (.unit dflt)
          | none, none => .err .invalidValue) ∧
    (∀ why, enumRead m size buf ≠ .panic why) := by
  refine ⟨fun h => by simp [enumRead, h], ?_, ?_⟩
  · intro h u raw hm
    have h1 : ¬ buf.length < size := by omega
    simp only [enumRead, h1, if_false]
    simp only [u, raw] at hm
    rw [hm]
    cases m.catchAll <;> cases m.default <;> rfl
  · intro why h
    unfold enumRead at h
    split at h
    · cases h
    · simp only at h
      split at h
      · cases h
      · split at h
        · cases h
        · split at h <;> cases h

/-! ## T1: the layouts of /repo as they are now -/

/-- Every `#[derive(EtherCrabWire…)]` struct of /repo/src (regenerated into Generated/Layouts.lean on every run) is
    accepted by the model of `parse_struct`, so the theorems above speak about PduHeader, AlControl, Fmmu,
    SyncManagerChannel, the mailbox/CoE headers, the SII structs, … as declared in the current tree. -/
theorem layouts_accepted :
    ∀ x ∈ Gen.Layouts.structs, (match parseStruct x.2.2 with | .ok _ => true | .error _ => false) = true := by
  decide

/-- …with every non-skipped field at least one bit wide, every field type no longer than its slot, and the write half
    of the derive well-formed (no u8/bool field of 16 or more bits). -/
theorem layouts_well_formed :
    ∀ x ∈ Gen.Layouts.structs,
      (match parseStruct x.2.2 with
        | .ok m => m.fields.all (fun f => f.skip || decide (0 < f.bitsLen)) && m.fields.all (·.slotFits) && deriveWriteOk m
        | .error _ => false) = true := by
  decide

/-- Every derived enum of /repo/src is accepted by the model of `parse_enum`, has a supported repr, and its
    non-catch-all variants all carry explicit discriminants (so no in-crate enum was ever affected by the former
    implicit-discriminant defect). -/
theorem layouts_enums_explicit :
    ∀ x ∈ Gen.Layouts.enums,
      (match parseEnum x.2.2 with
        | .ok _ => x.2.2.repr.size.isSome && x.2.2.variants.all (fun v => v.catchAll || v.disc.isSome)
        | .error _ => false) = true := by
  decide

/-- Every derived type of /repo/src all of whose parts are modelled (i.e. without a hand-written impl inside) satisfies ALL
    hypotheses of the theorems above — accepted, widths ≥ 1, slots fit, write half well-formed, field types lawful down to
    the primitives, enum discriminants distinct / in range / consistently numbered — hence is itself a lawful codec: it
    packs to its declared layout, ignores undeclared bits and round-trips. The proofs are regenerated with the layouts
    (Generated/LayoutsLawful.lean: `decide` for the side conditions, composition for nesting). -/
theorem in_crate_types_lawful : ∀ x ∈ Gen.Layouts.lawfulTable, Lawful x.2.val :=
  fun x _ => x.2.property

/-- Coverage of the table: every extracted struct and enum is in it, except the structs listed as opaque
    (a field with a hand-written impl: bitflags wrappers, PduFlags). -/
theorem in_crate_types_covered :
    ∀ n ∈ Gen.Layouts.structs.map (·.1) ++ Gen.Layouts.enums.map (·.1),
      (Gen.Layouts.opaqueStructs.contains n || (Gen.Layouts.lawfulTable.map (·.1)).contains n) = true := by
  decide

/-! ## Non-vacuity: the hypotheses are satisfiable by a non-trivial declaration -/

/-- `#[repr(u8)] enum { A = 1, B = 2 }` -/
def exEnum : EnumDecl := { repr := .u8, variants := [{ disc := some 1 }, { disc := some 2 }] }

/-- `#[wire(bytes = 4)] struct { #[wire(pre_skip = 5, bits = 3)] a: u8, #[wire(bits = 1)] b: bool,
     #[wire(bits = 2, post_skip = 5)] c: exEnum, d: u16 }` — a 3-bit field at bit offset 5 after a skip. -/
def exDecl : StructDecl := { bytes := some 4, fields := [
  { ty := .u8, codec := Codec.uN 1, bits := some 3, preSkip := some 5 },
  { ty := .bool, codec := Codec.bool, bits := some 1 },
  { ty := .other, codec := enumCodec exEnum, bits := some 2, postSkip := some 5 },
  { ty := .u16, codec := Codec.uN 2 } ] }

def exVal : Val := .seq [.int 5, .bool true, .unit 1, .int 0x1234]

example : Lawful (structCodec exDecl) :=
  structCodec_lawful_of_decl _ (by decide) ⟨lawful_uN _, lawful_bool, enumCodec_lawful exEnum (by decide), lawful_uN _, trivial⟩
example : (structCodec exDecl).pack exVal = .ok [0xa0, 0x05, 0x34, 0x12] := by decide
example : (structCodec exDecl).dec [0xa0, 0x05, 0x34, 0x12, 0xff] = .ok exVal := by rfl
example : (structCodec exDecl).dec [0xa0, 0x05, 0x34] = .err .readBufferTooShort := by rfl
example : (structCodec exDecl).valid exVal :=
  ⟨_, rfl, ⟨5, rfl, by decide⟩, ⟨true, rfl⟩, ⟨⟨_, rfl, rfl⟩, 2, rfl, by decide⟩, ⟨0x1234, rfl, by decide⟩, trivial⟩

/-- The hypothesis bundles of the struct theorems hold for it. -/
example : ∃ m, Accepted exDecl m ∧ WellTyped m ∧ validVals m.fields [.int 5, .bool true, .unit 1, .int 0x1234] := by
  have hgood : structDeclGood exDecl = true := by decide
  cases hp : parseStruct exDecl with
  | error e => simp [structDeclGood, hp] at hgood
  | ok m =>
    have g := structGood_of_decl hp hgood
      ⟨lawful_uN _, lawful_bool, enumCodec_lawful exEnum (by decide), lawful_uN _, trivial⟩
    have hv : (structCodec exDecl).valid exVal :=
      ⟨_, rfl, ⟨5, rfl, by decide⟩, ⟨true, rfl⟩, ⟨⟨_, rfl, rfl⟩, 2, rfl, by decide⟩, ⟨0x1234, rfl, by decide⟩, trivial⟩
    simp only [structCodec, hp, structCodecOfMeta, exVal] at hv
    obtain ⟨vs, hvs, hvv⟩ := hv
    cases hvs
    exact ⟨m, ⟨hp, g.pos⟩, ⟨g.lawful, g.fits, g.gen⟩, hvv⟩

/-- `enum_variant_roundtrip` / `enum_roundtrip` are not vacuous: distinct, in-range discriminants. -/
example : ∃ m, parseEnum exEnum = .ok m ∧
    ((m.variants.filter fun b => !b.catchAll).map (·.discriminant)).Nodup ∧ reprInRange exEnum.repr.signed 1 2 :=
  ⟨_, rfl, by decide, by simp [reprInRange, exEnum, ReprTy.signed]⟩

/-
  Note on `bits = 0`. parse_struct accepts zero-width fields (`Accepted.pos` excludes them). They are degenerate in the
  generated code: a zero-width `u8`/`bool` field placed at the very end of a struct whose width is a multiple of 8 makes
  `pack` index one byte past the buffer (panic) and makes `unpack_from_slice` return ReadBufferTooShort for every input.
-/
example :
    let d : StructDecl := { bytes := some 1, fields := [{ ty := .u8, codec := Codec.uN 1, bits := some 8 },
                                                         { ty := .u8, codec := Codec.uN 1, bits := some 0 }] }
    (structCodec d).pack (.seq [.int 1, .int 0]) = .panic "index out of bounds" ∧
      (structCodec d).dec [1] = .err .readBufferTooShort :=
  ⟨by decide, by rfl⟩

end Ec.C19
