/- Line protocol shared by C12/C13/C14 (the EEPROM machine).

   `<key> <mode:c|w> <cs> <fill:ff|00|wrap> <imagehex> <query>;<query>;...`  ->  `<answer>;<answer>;...`
   `<key> proto <e0e1e2...>` (one `0|1` per attempt: command_error after that attempt) -> `attempts=<n>`

   Queries run in order on one device (writes persist). Every answer ends in `#<provider calls>`.
   See harness/src/eeprom_gen.rs for the implementation side of the same protocol. -/
import EcModel.Eeprom
import EcModel.Drv.Util

namespace Ec.Drv.Eeprom
open Ec Ec.Drv Ec.Eeprom

def showErr : Err → String
  | .decode => "E:decode"
  | .overrun => "E:overrun"
  | .noCategory => "E:nocat"
  | .underrun => "E:underrun"
  | .clearErrors => "E:clearerrors"
  | .capacity i => s!"E:cap.{i}"
  | .stringTooLong a b => s!"E:toolong.{a}.{b}"
  | .wireInvalid => "E:wire-invalid"
  | .wireShort => "E:wire-short"
  | .internal => "E:internal"
  | .timeout => "E:timeout"
  | .eof => "eof"
  | .fuel => "hang"

/-- Render an outcome; `hang` carries no call count (the implementation stops at its own cap). -/
def showM {α : Type} (x : M α) (f : α → String) : String :=
  match x.1 with
  | .ok a => f a ++ s!"#{x.2}"
  | .err .fuel => "hang"
  | .err e => showErr e ++ s!"#{x.2}"
  | .panic w => "!" ++ w ++ s!"#{x.2}"

def dots (l : List Nat) : String := joinWith "." (l.map toString)

def showLog (log : List (Nat × Nat × Nat)) : String :=
  if log.isEmpty then "-" else joinWith "+" (log.map fun (w, b0, b1) => s!"{w}." ++ hexBytes [b0, b1])

def hexOrDash (l : List Nat) : String := if l.isEmpty then "-" else hexBytes l

/-- State of a range-op sequence. -/
structure RS where
  d : Dev
  r : Range
  out : List String      -- reversed
  calls : Nat
  dead : Bool

def rsFin {α : Type} (s : RS) (op : String) (x : M α) (ok : α → RS) : RS :=
  match x.1 with
  | .ok a => let s' := ok a; { s' with calls := s.calls + x.2 }
  | .err .fuel => { s with out := "hang" :: s.out, calls := s.calls + x.2, dead := true }
  -- after an error the real range may have advanced part-way: only `skip` leaves it untouched
  | .err e => { s with out := ((op.take 1).toString ++ "=" ++ showErr e) :: s.out, calls := s.calls + x.2,
                       dead := (op.take 1).toString != "s" }
  | .panic w => { s with out := ("!" ++ w) :: s.out, calls := s.calls + x.2, dead := true }

def rsStep (m : Mode) (s : RS) (op : String) : RS :=
  if s.dead then s else
  let arg := (op.drop 1).toString
  match (op.take 1).toString with
  | "r" => rsFin s op (Range.read m s.d.prov s.r (nat! arg)) fun res =>
      { s with r := res.2, out := ("r=" ++ hexOrDash res.1) :: s.out }
  | "x" => rsFin s op (Range.readExact m s.d.prov s.r (nat! arg)) fun res =>
      { s with r := res.2, out := ("x=" ++ hexOrDash res.1) :: s.out }
  | "b" => rsFin s op (Range.readByte m s.d.prov s.r) fun res =>
      { s with r := res.2, out := ("b=" ++ hexBytes [res.1]) :: s.out }
  | "s" => rsFin s op (Range.skip m s.r (nat! arg)) fun r' => { s with r := r', out := "s=ok" :: s.out }
  | "w" =>
    let x := Range.write m s.d s.r (hex! arg)
    let s := { s with d := x.2 }
    rsFin s op x.1 fun res => { s with r := res.2, out := s!"w={res.1}" :: s.out }
  | "a" =>
    let x := Range.writeAll m s.d s.r (hex! arg)
    let s := { s with d := x.2 }
    rsFin s op x.1 fun r' => { s with r := r', out := "a=ok" :: s.out }
  | "p" => { s with out := s!"p={s.r.pos}.{s.r.endp}" :: s.out }
  | _ => { s with out := "bad-op" :: s.out }

/-- A range-op query: `EepromRange::new(start, len)` or `start_at(word, len_bytes)`, then the ops; the write
    log of this query is appended. Returns the answer and the device afterwards. -/
def runRange (m : Mode) (d : Dev) (viaStartAt : Bool) (a b : Nat) (ops : String) : String × Dev :=
  let d0 := { d with log := [] }
  let r0 := if viaStartAt then startAt m a b else Range.new m a b
  match r0.1 with
  | .ok r =>
    let s := (splitOn ops ",").foldl (rsStep m) ⟨d0, r, [], r0.2, false⟩
    let fin := if s.dead then "" else s!",p={s.r.pos}.{s.r.endp}"
    (joinWith "," s.out.reverse ++ fin ++ "|W" ++ showLog s.d.log ++ s!"#{s.calls}", s.d)
  | .err e => (showErr e ++ s!"#{r0.2}", d)
  | .panic w => ("!" ++ w ++ s!"#{r0.2}", d)

def showOptRange : Option Range → String
  | none => "none"
  | some r => s!"some.{r.pos}.{r.endp}"

def showSm (s : Sm) : String := dots [s.start, s.len, s.control, s.enable, s.usage, s.usageRecovered]
def showPdo (p : Pdo) : String := dots [p.index, p.numEntries, p.sm, p.bitLen]
def showStr : Option (List Nat) → String
  | none => "none"
  | some b => "s." ++ hexOrDash b
def b2n (b : Bool) : Nat := if b then 1 else 0

def runQuery (m : Mode) (d : Dev) (q : String) : String × Dev :=
  let p := d.prov
  match splitOn q ":" with
  | ["rg", a, b, ops] => runRange m d false (nat! a) (nat! b) ops
  | ["sa", a, b, ops] => runRange m d true (nat! a) (nat! b) ops
  | ["cat", n] => (showM (category m p (catOf (nat! n))) showOptRange, d)
  | ["alias"] => (showM (stationAlias m p) fun v => s!"v.{v}", d)
  | ["setalias", v] =>
    let x := setStationAlias m { d with log := [] } (nat! v)
    match x.1.1 with
    | .ok _ => ("ok|W" ++ showLog x.2.log ++ s!"#{x.1.2}", x.2)
    | _ => (showM x.1 (fun _ => "") , x.2)
  | ["size"] => (showM (size m p) fun v => s!"v.{v}", d)
  | ["id"] => (showM (identity m p) fun (a, b, c, e) => "v." ++ dots [a, b, c, e], d)
  | ["mbox"] => (showM (mailboxConfig m p) fun mb =>
      "v." ++ dots [mb.rxOff, mb.rxSize, mb.txOff, mb.txSize, mb.protocols, b2n mb.hasMailbox], d)
  | ["gen"] => (showM (general m p) fun g =>
      "v." ++ dots ([g.groupIdx, g.imageIdx, g.orderIdx, g.nameIdx, g.coeDetails, b2n g.foe, b2n g.eoe, g.flags,
                     g.ebusCurrent] ++ g.ports ++ [g.physAddr]), d)
  | ["sms"] => (showM (syncManagers m p) fun l => "v." ++ joinWith "/" (l.map showSm), d)
  | ["fmmus"] => (showM (fmmus m p) fun l => "v." ++ dots l, d)
  | ["fmmuex"] => (showM (fmmuMappings m p) fun l => "v." ++ dots l, d)
  | ["pdos", dir] =>
    let cat := if dir = "t" then Gen.Eeprom.CAT_TX_PDO else Gen.Eeprom.CAT_RX_PDO
    (showM (pdos m p cat) fun l => "v." ++ joinWith "/" (l.map showPdo), d)
  | ["str", n, i] => (showM (findString m p (nat! n) (nat! i)) showStr, d)
  | ["name", n] => (showM (deviceName m p (nat! n)) showStr, d)
  | ["desc", n] => (showM (deviceDescription m p (nat! n)) showStr, d)
  | _ => ("bad-query", d)

/-- Device memory from an image and a fill rule (`code`: 0 = `ff`, 1 = `00`, 2 = wrap): bytes past the image
    read as `ff`/`00`, or the image repeats. -/
def rdOf (img : Array Nat) (code : Nat) (a : Nat) : Nat :=
  if code = 2 then (if img.size = 0 then 255 else img.getD (a % img.size) 0)
  else img.getD a (if code = 1 then 0 else 255)

def fillCode (fill : String) : Nat := if fill = "wrap" then 2 else if fill = "00" then 1 else 0

def handle (args : List String) : String :=
  match args with
  | ["proto", script] =>
    let bits : List Bool := script.toList.map fun c => c == '1'
    s!"attempts={writeWordProto fun i => bits.getD i false}"
  | [mode, cs, fill, img, qs] =>
    let m := if mode = "w" then Mode.wrapping else Mode.checked
    let d0 : Dev := ⟨rdOf (hex! img).toArray (fillCode fill), nat! cs, []⟩
    let st := (splitOn qs ";").foldl (fun (st : List String × Dev) q =>
      let r := runQuery m st.2 q
      (r.1 :: st.1, r.2)) ([], d0)
    joinWith ";" st.1.reverse
  | _ => "bad-case"

end Ec.Drv.Eeprom
