/-
  Helper lemmas for `EepromRange::write` / `write_all` (C14).
-/
import EcModel.Lemmas.EepromBasic
import EcModel.EepromSpec

namespace Ec.Eeprom
open Ec Ec.EepromSpec

theorem storeAt_nil (rd : Nat → Nat) (a : Nat) : storeAt rd a [] = rd := by
  funext x; simp [storeAt]; omega

theorem storeAt_cons2 (rd : Nat → Nat) (w b0 b1 : Nat) (rest : List Nat) :
    storeAt (wrMem rd w b0 b1) (2 * w + 2) rest = storeAt rd (2 * w) (b0 :: b1 :: rest) := by
  funext x
  simp only [storeAt, wrMem, List.length_cons]
  by_cases h1 : 2 * w + 2 ≤ x ∧ x < 2 * w + 2 + rest.length
  · have h2 : 2 * w ≤ x ∧ x < 2 * w + (rest.length + 1 + 1) := by omega
    rw [if_pos h1, if_pos h2]
    obtain ⟨j, hj⟩ : ∃ j, x - 2 * w = j + 2 := ⟨x - 2 * w - 2, by omega⟩
    rw [hj, show x - (2 * w + 2) = j by omega]
    simp [List.getD]
  · rw [if_neg h1]
    by_cases h3 : x = 2 * w
    · subst h3; simp
    · by_cases h4 : x = 2 * w + 1
      · subst h4; simp
      · rw [if_neg h3, if_neg h4, if_neg (by omega)]

theorem take_succ_succ {α : Type} (a b : α) (l : List α) (n : Nat) :
    (a :: b :: l).take (n + 2) = a :: b :: l.take n := by simp [List.take]

/-- The write loop on a word-aligned window inside the address space: it stores `k = min ⌈len/2⌉ (room/2)` words
    taken from the (zero-padded) buffer at consecutive word addresses, reports the `min len (2k)` buffer bytes
    it consumed, advances by `2k`, makes `k` provider calls, and never panics. -/
theorem writeLoop_spec (m : Mode) :
    ∀ (fuel : Nat) (d : Dev) (r : Range) (buf : List Nat) (written : Nat),
      buf.length < fuel → r.pos % 2 = 0 → r.endp % 2 = 0 → r.pos ≤ r.endp → r.endp ≤ 131072 →
      writeLoop m fuel d r buf written =
        ((.ok (written + min buf.length (2 * min ((buf.length + 1) / 2) ((r.endp - r.pos) / 2)),
              { r with pos := r.pos + 2 * min ((buf.length + 1) / 2) ((r.endp - r.pos) / 2) }),
          min ((buf.length + 1) / 2) ((r.endp - r.pos) / 2)),
         { d with
            rd := storeAt d.rd r.pos ((padEven buf).take (2 * min ((buf.length + 1) / 2) ((r.endp - r.pos) / 2))),
            log := d.log ++ wordsAt (r.pos / 2)
              ((padEven buf).take (2 * min ((buf.length + 1) / 2) ((r.endp - r.pos) / 2))) }) := by
  intro fuel
  induction fuel with
  | zero => intro d r buf written h; omega
  | succ fuel ih =>
    intro d r buf written hf hp he hle hlt
    unfold writeLoop
    by_cases hz : r.endp - r.pos = 0
    · rw [if_pos hz]
      simp [hz, liftW, ret, storeAt_nil, wordsAt]
    · rw [if_neg hz]
      have hroom : 1 ≤ (r.endp - r.pos) / 2 := by omega
      match buf, hf with
      | [], _ => simp [liftW, ret, storeAt_nil, wordsAt, padEven]
      | [b0], hf1 =>
        have hk : min (([b0].length + 1) / 2) ((r.endp - r.pos) / 2) = 1 := by simp; omega
        rw [hk, wordPos_ok r.pos (by omega)]
        simp only [bindW, writeWord, call, liftW, ret]
        have hrec := ih { d with rd := wrMem d.rd (r.pos / 2) b0 0, log := d.log ++ [(r.pos / 2, b0, 0)] }
          { r with pos := r.pos + 2 } [] (written + 1) (by simp at hf1 ⊢; omega) (by simp; omega) he (by simp; omega) hlt
        simp only [List.length_nil, Nat.zero_add, Nat.reduceDiv, Nat.zero_min, Nat.mul_zero, Nat.add_zero,
          List.take_zero, storeAt_nil, wordsAt, List.append_nil] at hrec
        rw [hrec]
        have hpos : 2 * (r.pos / 2) = r.pos := by omega
        simp only [padEven, List.length_singleton, if_true, List.singleton_append, Nat.mul_one,
          List.take_succ_cons, List.take_zero, wordsAt]
        have hs := storeAt_cons2 d.rd (r.pos / 2) b0 0 []
        rw [storeAt_nil, hpos] at hs
        simp [hs]
      | b0 :: b1 :: rest, hf' =>
        rw [wordPos_ok r.pos (by omega)]
        simp only [bindW, writeWord, call, liftW, ret]
        have hrec := ih { d with rd := wrMem d.rd (r.pos / 2) b0 b1, log := d.log ++ [(r.pos / 2, b0, b1)] }
          { r with pos := r.pos + 2 } rest (written + 2) (by simp at hf'; omega) (by simp; omega) he
          (by simp; omega) hlt
        rw [hrec]
        have hpos : 2 * (r.pos / 2) = r.pos := by omega
        have hk : min (((b0 :: b1 :: rest).length + 1) / 2) ((r.endp - r.pos) / 2)
            = min ((rest.length + 1) / 2) ((r.endp - (r.pos + 2)) / 2) + 1 := by
          simp only [List.length_cons]; omega
        rw [hk]
        have hpad : padEven (b0 :: b1 :: rest) = b0 :: b1 :: padEven rest := by
          unfold padEven; simp only [List.length_cons]
          by_cases hodd : rest.length % 2 = 1
          · rw [if_pos (by omega), if_pos hodd]; rfl
          · rw [if_neg (by omega), if_neg hodd]
        rw [hpad]
        generalize min ((rest.length + 1) / 2) ((r.endp - (r.pos + 2)) / 2) = k
        rw [show 2 * (k + 1) = 2 * k + 2 by omega, take_succ_succ]
        have hs := storeAt_cons2 d.rd (r.pos / 2) b0 b1 ((padEven rest).take (2 * k))
        rw [hpos] at hs
        simp only [wordsAt]
        rw [show (r.pos + 2) / 2 = r.pos / 2 + 1 by omega]
        simp [hs, Nat.add_assoc]
        omega

/-- `Range.write` when the range is not exhausted (or there is nothing to write) is the loop with enough fuel. -/
theorem write_spec (m : Mode) (d : Dev) (r : Range) (buf : List Nat)
    (hp : r.pos % 2 = 0) (he : r.endp % 2 = 0) (hle : r.pos ≤ r.endp) (hlt : r.endp ≤ 131072)
    (hroom : buf.length = 0 ∨ r.pos < r.endp) :
    Range.write m d r buf =
      ((.ok (min buf.length (2 * min ((buf.length + 1) / 2) ((r.endp - r.pos) / 2)),
            { r with pos := r.pos + 2 * min ((buf.length + 1) / 2) ((r.endp - r.pos) / 2) }),
        min ((buf.length + 1) / 2) ((r.endp - r.pos) / 2)),
       { d with
          rd := storeAt d.rd r.pos ((padEven buf).take (2 * min ((buf.length + 1) / 2) ((r.endp - r.pos) / 2))),
          log := d.log ++ wordsAt (r.pos / 2)
            ((padEven buf).take (2 * min ((buf.length + 1) / 2) ((r.endp - r.pos) / 2))) }) := by
  unfold Range.write
  rw [if_neg (by omega)]
  rw [writeLoop_spec m _ d r buf 0 (by omega) hp he hle hlt]
  simp

/-- A non-empty buffer on an exhausted range: `Err(SectionOverrun)`, nothing written. -/
theorem write_overrun (m : Mode) (d : Dev) (r : Range) (buf : List Nat) (hne : buf.length ≠ 0)
    (hfull : r.endp - r.pos = 0) : Range.write m d r buf = ((.err .overrun, 0), d) := by
  unfold Range.write
  rw [if_pos ⟨hne, hfull⟩]
  rfl

theorem padEven_length (buf : List Nat) : (padEven buf).length = 2 * ((buf.length + 1) / 2) := by
  unfold padEven; split
  · simp; omega
  · omega

/-- **`write_all`, payload fits** (any length, odd or even): one `write` call stores the zero-padded payload and
    `Ok(())` is returned. -/
theorem writeAll_fits (m : Mode) (d : Dev) (r : Range) (buf : List Nat)
    (hp : r.pos % 2 = 0) (he : r.endp % 2 = 0) (hlt : r.endp ≤ 131072)
    (hfit : r.pos + 2 * ((buf.length + 1) / 2) ≤ r.endp) :
    Range.writeAll m d r buf =
      ((.ok { r with pos := r.pos + 2 * ((buf.length + 1) / 2) }, (buf.length + 1) / 2),
       { d with rd := storeAt d.rd r.pos (padEven buf), log := d.log ++ wordsAt (r.pos / 2) (padEven buf) }) := by
  unfold Range.writeAll
  by_cases h0 : buf.length = 0
  · have : buf = [] := List.eq_nil_of_length_eq_zero h0
    subst this
    simp [writeAllLoop, liftW, ret, storeAt_nil, wordsAt, padEven]
  · obtain ⟨f, hf⟩ : ∃ f, buf.length + 1 = f + 2 := ⟨buf.length - 1, by omega⟩
    rw [hf]
    unfold writeAllLoop
    rw [if_neg h0, write_spec m d r buf hp he (by omega) hlt (Or.inr (by omega))]
    have hk : min ((buf.length + 1) / 2) ((r.endp - r.pos) / 2) = (buf.length + 1) / 2 := by omega
    have hmin : min buf.length (2 * ((buf.length + 1) / 2)) = buf.length := by omega
    rw [hk, hmin]
    have htake : (padEven buf).take (2 * ((buf.length + 1) / 2)) = padEven buf := by
      rw [← padEven_length, List.take_length]
    rw [htake]
    simp only [bindW]
    rw [if_neg h0, if_neg (by omega), List.drop_length]
    unfold writeAllLoop
    simp [liftW, ret]
    omega

/-- **`write_all`, payload longer than the window**: the words that fit are stored, then the call returns
    `Err(SectionOverrun)` — no panic, nothing outside the window touched. -/
theorem writeAll_overrun (m : Mode) (d : Dev) (r : Range) (buf : List Nat)
    (hp : r.pos % 2 = 0) (he : r.endp % 2 = 0) (hle : r.pos ≤ r.endp) (hlt : r.endp ≤ 131072)
    (hnofit : r.endp < r.pos + 2 * ((buf.length + 1) / 2)) :
    (Range.writeAll m d r buf).1.1 = .err .overrun ∧
    (Range.writeAll m d r buf).2 =
      { d with rd := storeAt d.rd r.pos ((padEven buf).take (r.endp - r.pos)),
               log := d.log ++ wordsAt (r.pos / 2) ((padEven buf).take (r.endp - r.pos)) } := by
  unfold Range.writeAll
  have h0 : buf.length ≠ 0 := by omega
  obtain ⟨f, hf⟩ : ∃ f, buf.length + 1 = f + 2 := ⟨buf.length - 1, by omega⟩
  rw [hf]
  unfold writeAllLoop
  rw [if_neg h0]
  by_cases hroom : r.endp - r.pos = 0
  · rw [write_overrun m d r buf h0 hroom]
    simp only [bindW, hroom, List.take_zero, storeAt_nil, wordsAt, List.append_nil]
    exact ⟨trivial, trivial⟩
  · rw [write_spec m d r buf hp he hle hlt (Or.inr (by omega))]
    have hk : min ((buf.length + 1) / 2) ((r.endp - r.pos) / 2) = (r.endp - r.pos) / 2 := by omega
    have h2k : 2 * ((r.endp - r.pos) / 2) = r.endp - r.pos := by omega
    have hmin : min buf.length (r.endp - r.pos) = r.endp - r.pos := by omega
    rw [hk, h2k, hmin]
    simp only [bindW]
    rw [if_neg hroom, if_neg (by omega)]
    obtain ⟨g, hg⟩ : ∃ g, f = g + 1 := ⟨f - 1, by omega⟩
    rw [hg]
    unfold writeAllLoop
    rw [if_neg (by simp only [List.length_drop]; omega)]
    rw [write_overrun m _ _ _ (by simp only [List.length_drop]; omega) (by simp only; omega)]
    exact ⟨rfl, rfl⟩

/-! ### `DeviceEeprom::write_word` retry loop -/

theorem writeWordAttempts_bound (errs : Nat → Bool) :
    ∀ fuel retry attempts, retry + fuel = Gen.Eeprom.WRITE_RETRY_LIMIT + 1 →
      writeWordAttempts errs fuel retry attempts ≤ attempts + fuel := by
  intro fuel
  induction fuel with
  | zero => intro r a _; simp [writeWordAttempts]
  | succ fuel ih =>
    intro r a h
    unfold writeWordAttempts
    split
    · have := ih (r + 1) (a + 1) (by omega); omega
    · omega

/-- While every attempt so far was refused and retries remain, the loop goes on; it stops at the first accepted
    attempt `k ≤ 20` with `k + 1` attempts. -/
theorem writeWordAttempts_stop (errs : Nat → Bool) :
    ∀ fuel a k, a ≤ k → k ≤ Gen.Eeprom.WRITE_RETRY_LIMIT → a + fuel = Gen.Eeprom.WRITE_RETRY_LIMIT + 1 →
      (∀ i, a ≤ i → i < k → errs i = true) → (errs k = false ∨ k = Gen.Eeprom.WRITE_RETRY_LIMIT) →
      writeWordAttempts errs fuel a a = k + 1 := by
  intro fuel
  induction fuel with
  | zero => intro a k h1 h2 h3; omega
  | succ fuel ih =>
    intro a k h1 h2 h3 herr hstop
    unfold writeWordAttempts
    by_cases hak : a = k
    · subst hak
      rcases hstop with h | h
      · simp [h]
      · have : ¬ a < Gen.Eeprom.WRITE_RETRY_LIMIT := by omega
        simp [this]
    · have he : errs a = true := herr a (Nat.le_refl _) (by omega)
      have hlt : a < Gen.Eeprom.WRITE_RETRY_LIMIT := by omega
      simp only [he, hlt, Bool.true_and, decide_true, if_true]
      exact ih (a + 1) k (by omega) h2 (by omega) (fun i hi hik => herr i (by omega) hik) hstop
