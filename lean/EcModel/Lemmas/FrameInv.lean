/-
  The frame-building invariant and its preservation by `commit` (C04).
-/
import EcModel.Lemmas.FrameLemmas

namespace Ec

/-- Writing a header and data at `used` into a buffer whose tail is still zero. -/
theorem write_dgram (P : List Nat) (R : Nat) (hdr bytes : List Nat) (dl : Nat)
    (hh : hdr.length = 10) (hb : bytes.length ≤ dl) (hfit : dl + 12 ≤ R) :
    setRange (setRange (P ++ zeros R) P.length hdr) (P.length + 10) bytes
      = P ++ (hdr ++ bytes ++ zeros (dl - bytes.length) ++ [0, 0]) ++ zeros (R - (dl + 12)) := by
  have e1 : zeros R = zeros 10 ++ zeros (R - 10) := zeros_split R 10 (by omega)
  have s1 : setRange (P ++ zeros R) P.length hdr = P ++ hdr ++ zeros (R - 10) := by
    rw [e1, ← List.append_assoc]
    exact setRange_mid P (zeros 10) (zeros (R - 10)) hdr (by simp [zeros_length, hh])
  rw [s1]
  have e2 : zeros (R - 10) = zeros bytes.length ++ zeros (R - 10 - bytes.length) :=
    zeros_split _ _ (by omega)
  have s2 : setRange (P ++ hdr ++ zeros (R - 10)) (P.length + 10) bytes
      = (P ++ hdr) ++ bytes ++ zeros (R - 10 - bytes.length) := by
    rw [e2, ← List.append_assoc]
    exact setRange_mid' (P ++ hdr) (zeros bytes.length) _ bytes _ (by simp [hh]) (by simp [zeros_length])
  rw [s2]
  have e3 : zeros (R - 10 - bytes.length)
      = zeros (dl - bytes.length) ++ (zeros 2 ++ zeros (R - (dl + 12))) := by
    rw [← zeros_add, ← zeros_add]; congr 1; omega
  rw [e3]
  have z2 : zeros 2 = [0, 0] := rfl
  rw [z2]
  simp [List.append_assoc]

theorem patchMore_spec (A pre B : List Nat) (l : Nat) (hp : pre.length = 6) (hl : l < 2048) :
    patchMore (A ++ pre ++ flagsPack l false false ++ B) A.length
      = A ++ pre ++ flagsPack l false true ++ B := by
  unfold patchMore
  have hd : (A ++ pre ++ flagsPack l false false ++ B).drop (A.length + 6)
      = flagsPack l false false ++ B := by
    have : A.length + 6 = (A ++ pre).length := by simp [hp]
    rw [this, List.append_assoc (A ++ pre), List.drop_left]
  rw [hd, flagsUnpack_pack l hl B]
  simp only
  have := setRange_mid' (A ++ pre) (flagsPack l false false) B (flagsPack l false true)
    (A.length + 6) (by simp [hp]) rfl
  simpa [List.append_assoc] using this

/-- Invariant relating a frame under construction to the list of accepted datagrams. -/
structure FInv (f : CFrame) (acc : List Dgram) : Prop where
  eth : f.eth = ethHeader
  plen : f.pdu.length = f.cap - 16
  used : f.used = dgramsSize acc
  fits : f.used ≤ f.cap - 16
  wf : ∀ d ∈ acc, d.data.length ≤ d.len
  small : ∀ d ∈ acc, d.len < 2048
  count : f.count = acc.length
  shape : (acc = [] ∧ f.last = none ∧ f.pdu = zeros (f.cap - 16)) ∨
          (∃ ds d, acc = ds ++ [d] ∧ f.last = some (dgramsSize ds) ∧
             f.pdu = encMore ds ++ d.encode false ++ zeros (f.cap - 16 - f.used))

theorem FInv.init (cap : Nat) : FInv (CFrame.init cap) [] := by
  refine ⟨rfl, by simp [CFrame.init, zeros_length], rfl, by simp [CFrame.init], by simp, by simp,
    rfl, Or.inl ⟨rfl, rfl, by simp [CFrame.init]⟩⟩

theorem commit_cap (f : CFrame) (c : Cmd) (idx dl : Nat) (bytes : List Nat) :
    (f.commit c idx dl bytes).1.cap = f.cap := by simp [CFrame.commit]

theorem FInv.commit {f : CFrame} {acc : List Dgram} (h : FInv f acc) (c : Cmd) (idx dl : Nat)
    (bytes : List Nat) (hb : bytes.length ≤ dl) (hfit' : f.used + (dl + PDU_OVERHEAD) ≤ f.pdu.length)
    (hcap : f.cap ≤ 2063) :
    FInv (f.commit c idx dl bytes).1 (acc ++ [⟨c, idx, dl, bytes⟩]) := by
  have hfit : f.used + (dl + 12) ≤ f.cap - 16 := by
    have := h.plen; simp [PDU_OVERHEAD] at hfit'; omega
  clear hfit'
  have hdl : dl < 2048 := by omega
  let d : Dgram := ⟨c, idx, dl, bytes⟩
  have hwf : ∀ x ∈ acc ++ [d], x.data.length ≤ x.len := by
    intro x hx; rcases List.mem_append.1 hx with hx | hx
    · exact h.wf x hx
    · simp at hx; subst hx; exact hb
  have hsm : ∀ x ∈ acc ++ [d], x.len < 2048 := by
    intro x hx; rcases List.mem_append.1 hx with hx | hx
    · exact h.small x hx
    · simp at hx; subst hx; exact hdl
  have hused : (f.commit c idx dl bytes).1.used = dgramsSize (acc ++ [d]) := by
    simp [CFrame.commit, dgramsSize_snoc, h.used, Dgram.size, d]
  have hused' : (f.commit c idx dl bytes).1.used = f.used + (dl + 12) := by
    simp [CFrame.commit, PDU_OVERHEAD]
  have hcap' := commit_cap f c idx dl bytes
  rcases h.shape with ⟨hacc, hlast, hpdu⟩ | ⟨ds, dprev, hacc, hlast, hpdu⟩
  · -- first datagram
    subst hacc
    have hu0 : f.used = 0 := by simpa [dgramsSize_nil] using h.used
    have key := write_dgram [] (f.cap - 16) (pduHeader c idx dl false) bytes dl
      (pduHeader_length _ _ _ _) hb (by omega)
    simp only [List.nil_append, List.length_nil, Nat.zero_add] at key
    have hp : (f.commit c idx dl bytes).1.pdu
        = encMore [] ++ d.encode false ++ zeros (f.cap - 16 - (dl + 12)) := by
      simp only [CFrame.commit, hlast, hu0, Nat.zero_add]
      rw [hpdu, key]; simp [Dgram.encode, d, encMore]
    refine ⟨by simp [CFrame.commit, h.eth], ?_, hused, ?_, hwf, hsm, by simp [CFrame.commit, h.count],
      Or.inr ⟨[], d, rfl, by simp [CFrame.commit, hlast, dgramsSize_nil], ?_⟩⟩
    · rw [hp, hcap']
      simp [encMore, Dgram.encode_length d false hb, Dgram.size, zeros_length, PDU_OVERHEAD, d]
      omega
    · rw [hused', hcap']; omega
    · rw [hp, hused', hcap', hu0]; simp
  · -- a previous datagram exists: its flags get patched
    subst hacc
    have hwfp : ∀ x ∈ ds, x.data.length ≤ x.len := fun x hx => h.wf x (by simp [hx])
    have hprev : dprev.data.length ≤ dprev.len := h.wf dprev (by simp)
    have hprevs : dprev.len < 2048 := h.small dprev (by simp)
    have hlds : (encMore ds).length = dgramsSize ds := encMore_length ds hwfp
    let P := encMore ds ++ dprev.encode false
    have hPlen : P.length = f.used := by
      simp [P, hlds, Dgram.encode_length dprev false hprev, h.used, dgramsSize_snoc]
    have key := write_dgram P (f.cap - 16 - f.used) (pduHeader c idx dl false) bytes dl
      (pduHeader_length _ _ _ _) hb (by omega)
    rw [hPlen] at key
    have hpatch := patchMore_spec (encMore ds) dprev.pre
      (dprev.post ++ (d.encode false ++ zeros (f.cap - 16 - f.used - (dl + 12)))) dprev.len
      dprev.pre_length hprevs
    have hp : (f.commit c idx dl bytes).1.pdu
        = encMore (ds ++ [dprev]) ++ d.encode false ++ zeros (f.cap - 16 - f.used - (dl + 12)) := by
      simp only [CFrame.commit, hlast]
      rw [hpdu, key, ← hlds]
      have e : P ++ (pduHeader c idx dl false ++ bytes ++ zeros (dl - bytes.length) ++ [0, 0]) ++
          zeros (f.cap - 16 - f.used - (dl + 12))
          = encMore ds ++ dprev.pre ++ flagsPack dprev.len false false ++
            (dprev.post ++ (d.encode false ++ zeros (f.cap - 16 - f.used - (dl + 12)))) := by
        simp only [P, Dgram.encode_split dprev false]
        simp [Dgram.encode, d, List.append_assoc]
      rw [e, hpatch, encMore_snoc, Dgram.encode_split dprev true]
      simp [List.append_assoc]
    refine ⟨by simp [CFrame.commit, h.eth], ?_, hused, ?_, hwf, hsm, by simp [CFrame.commit, h.count],
      Or.inr ⟨ds ++ [dprev], d, rfl, by simp [CFrame.commit, hlast, h.used], ?_⟩⟩
    · rw [hp, hcap']
      have hw2 : ∀ x ∈ ds ++ [dprev], x.data.length ≤ x.len := h.wf
      simp only [List.length_append, encMore_length _ hw2, Dgram.encode_length d false hb,
        zeros_length, ← h.used]
      simp [Dgram.size, PDU_OVERHEAD, d]; omega
    · rw [hused', hcap']; omega
    · rw [hp, hused', hcap']; congr 2; omega

end Ec
