/-
  EcModel.Eeprom — hand translation of the EEPROM (SII) code of ethercrab.

  Translated, function by function (Rust name in each doc comment):
    src/eeprom/mod.rs            EepromRange::{new, skip_ahead_bytes, read_byte}, Read::read, Write::write
    embedded-io-async 0.6.1      Read::read_exact, Write::write_all (default methods used by the code)
    src/eeprom/device_provider.rs DeviceEeprom::{wait_while_busy, write_word, clear_errors, read_chunk} (protocol level)
    src/subdevice/eeprom.rs      SubDeviceEeprom::{start_at, category, station_alias, set_station_alias, size,
                                 mailbox_config, general, identity, sync_managers, fmmus, fmmu_mappings, pdos,
                                 find_string, device_name, device_description, items}, CategoryIterator::{next, next_sub_item}
    src/eeprom/types.rs          wire layouts of SyncManager, Pdo, PdoEntry, FmmuEx, DefaultMailbox, SiiGeneral, enums, bitflags
    crc 3.x                      Crc::<u8>::checksum for the non-reflected CRC-8 (bitwise definition)

  Conventions: bytes are `Nat`s, the device memory is a total function `rd : Nat → Nat` on BYTE addresses, a
  provider serves `cs` bytes per `read_chunk` (4 or 8 on real hardware). Every function returns `M α`, a writer
  monad: the outcome (`ok | err | panic site`) and the number of provider calls made (`read_chunk`,
  `write_word`, `clear_errors` each count 1). `u16` arithmetic that the Rust code performs with unchecked
  `+`/`*` goes through `add16`/`mul16`, parameterised by the build mode: `checked` (debug: overflow ⇒
  `panic "<fn>:<add|mul>"`) and `wrapping` (release: mod 2^16); after the repairs of the category walk, `size`
  and the `EepromRange` cursor the only such site left is the PDO bit-length sum (which cannot overflow).

  Build configuration modelled: the `no_std` configuration without `log`/`defmt` that the harness builds, in
  which `fmt::trace!(..)` EVALUATES its arguments (`let _ = (&a, &b)`). After the repairs no trace argument
  contains arithmetic that can overflow (`u32::from(word_addr) * 2`, a precomputed `new_pos`).
  Import-free apart from Basic/Generated: links into the native drivers.
-/
import EcModel.Basic
import EcModel.Generated.Eeprom

namespace Ec.Eeprom
open Ec

/-! ## Errors, the cost-counting monad, u16 arithmetic -/

/-- The `ethercrab::error::Error` values these functions can produce, plus `fuel`: the model's own marker for
    "the loop did not finish within the fuel" (non-termination of the Rust loop; never a value of the code). -/
inductive Err where
  | decode | overrun | noCategory | underrun | clearErrors      -- Error::Eeprom(_)
  | capacity (item : Nat)                                        -- Error::Capacity: 0 SyncManager, 1 FmmuEx, 2 Pdo
  | stringTooLong (max len : Nat)
  | wireInvalid | wireShort                                      -- Error::Wire(_)
  | internal
  | timeout                                                      -- Error::Timeout(Eeprom) (device provider only)
  | eof                                                          -- ReadExactError::UnexpectedEof (before `From`)
  | fuel
  deriving Repr, DecidableEq

/-- Outcome and number of provider calls. -/
abbrev M (α : Type) : Type := Outcome Err α × Nat

@[inline] def ret {α : Type} (a : α) : M α := (.ok a, 0)
@[inline] def fail {α : Type} (e : Err) : M α := (.err e, 0)
@[inline] def panicAt {α : Type} (site : String) : M α := (.panic site, 0)
/-- One provider call returning `a`. -/
@[inline] def call {α : Type} (a : α) : M α := (.ok a, 1)

@[inline] def bind {α β : Type} (x : M α) (f : α → M β) : M β :=
  match x.1 with
  | .ok a => ((f a).1, x.2 + (f a).2)
  | .err e => (.err e, x.2)
  | .panic w => (.panic w, x.2)

/-- Add `n` provider calls to a computation's count (used by accumulator-style loops). -/
@[inline] def addCost {α : Type} (n : Nat) (x : M α) : M α := (x.1, n + x.2)

/-- `a + b` on `u16`. -/
def add16 (m : Mode) (site : String) (a b : Nat) : M Nat :=
  if a + b < 65536 then ret (a + b)
  else match m with
    | .checked => panicAt site
    | .wrapping => ret ((a + b) % 65536)

/-- `a * b` on `u16`. -/
def mul16 (m : Mode) (site : String) (a b : Nat) : M Nat :=
  if a * b < 65536 then ret (a * b)
  else match m with
    | .checked => panicAt site
    | .wrapping => ret ((a * b) % 65536)

/-! ## Provider (`EepromDataProvider`) over an in-memory image -/

/-- Read side of a provider: byte memory and bytes served per `read_chunk`. -/
structure Prov where
  rd : Nat → Nat
  cs : Nat

/-- `n` bytes of memory from byte address `a`. -/
def slice (rd : Nat → Nat) (a n : Nat) : List Nat := (List.range n).map fun i => rd (a + i)

/-- Data returned by `read_chunk(start_word)`. -/
def chunkAt (p : Prov) (w : Nat) : List Nat := slice p.rd (2 * w) p.cs

/-- `EepromDataProvider::read_chunk` (in-memory: never fails). -/
def readChunk (p : Prov) (w : Nat) : M (List Nat) := call (chunkAt p w)

/-- `EepromDataProvider::clear_errors` (in-memory: never fails). -/
def clearErrors : M Unit := call ()

/-- Memory after `write_word(w, [b0, b1])`. -/
def wrMem (rd : Nat → Nat) (w b0 b1 : Nat) : Nat → Nat :=
  fun a => if a = 2 * w then b0 else if a = 2 * w + 1 then b1 else rd a

/-- Writable device: memory, chunk size and the log of `write_word` calls `(word, b0, b1)` in order. -/
structure Dev where
  rd : Nat → Nat
  cs : Nat
  log : List (Nat × Nat × Nat)

def Dev.prov (d : Dev) : Prov := ⟨d.rd, d.cs⟩

/-- A computation that may write: outcome, provider calls, and the device afterwards. The device is returned
    whatever the outcome: words written before an error or a panic stay written. -/
abbrev MW (α : Type) : Type := M α × Dev

@[inline] def bindW {α β : Type} (x : MW α) (f : α → Dev → MW β) : MW β :=
  match x.1.1 with
  | .ok a => (((f a x.2).1.1, x.1.2 + (f a x.2).1.2), (f a x.2).2)
  | .err e => ((.err e, x.1.2), x.2)
  | .panic w => ((.panic w, x.1.2), x.2)

/-- A read-only computation inside a writing one. -/
@[inline] def liftW {α : Type} (d : Dev) (x : M α) : MW α := (x, d)

/-- `EepromDataProvider::write_word` (in-memory: never fails). -/
def writeWord (d : Dev) (w b0 b1 : Nat) : MW Unit :=
  (call (), { d with rd := wrMem d.rd w b0 b1, log := d.log ++ [(w, b0, b1)] })

/-! ## `EepromRange` -/

/-- `EepromRange { byte_pos, end }` (the provider is passed separately). Both fields are `u32` byte addresses:
    the SII address space is 2^16 words = 2^17 bytes, so a `u16` cannot hold them. All arithmetic on them is
    exact in the model: `Lemmas/EepromSafe.Range.WF` (`byte_pos, end ≤ 2^17`) is an invariant of every function
    below, far from the `u32` limit. -/
structure Range where
  pos : Nat
  endp : Nat
  deriving Repr, DecidableEq

/-- `ADDRESS_SPACE_BYTES = 2 * (u16::MAX + 1)`. -/
def ADDRESS_SPACE_BYTES : Nat := 131072

/-- `EepromRange::new`: `byte_pos = u32::from(start_word) * 2`,
    `end = (byte_pos + u32::from(len_words) * 2).min(ADDRESS_SPACE_BYTES)`; the arguments are `u16`s. -/
def Range.new (_m : Mode) (startWord lenWords : Nat) : M Range :=
  ret ⟨startWord * 2, min (startWord * 2 + lenWords * 2) ADDRESS_SPACE_BYTES⟩

/-- `EepromRange::word_pos`: `u16::try_from(byte_pos / 2)` or `Err(SectionOverrun)`. -/
def wordPos (pos : Nat) : M Nat := if pos / 2 < 65536 then ret (pos / 2) else fail .overrun

/-- `EepromRange::skip_ahead_bytes`: `new_pos = byte_pos + u32::from(skip)`; `new_pos >= end ⇒ SectionOverrun`. -/
def Range.skip (_m : Mode) (r : Range) (skip : Nat) : M Range :=
  if r.pos + skip ≥ r.endp then fail .overrun
  else ret { r with pos := r.pos + skip }

/-- `EepromRange::read_byte`: `byte_pos >= end ⇒ SectionOverrun`; then clear_errors, read_chunk(word_pos()?),
    `byte_pos += 1`, `res.get(skip)`. -/
def Range.readByte (_m : Mode) (p : Prov) (r : Range) : M (Nat × Range) :=
  if r.pos ≥ r.endp then fail .overrun
  else
    bind clearErrors fun _ =>
    bind (wordPos r.pos) fun w =>
    bind (readChunk p w) fun res =>
    match res[r.pos % 2]? with
    | some b => ret (b, { r with pos := r.pos + 1 })
    | none => fail .internal

/-- The `while !buf.is_empty()` loop of `Read::read`; `rem` = bytes still wanted, `acc` = bytes copied so far.
    Returns the bytes and the new `byte_pos`. Fuel `rem + 1` suffices when chunks are non-empty. -/
def readLoop (_m : Mode) (p : Prov) : Nat → Nat → Nat → List Nat → M (List Nat × Nat)
  | 0, _, _, _ => fail .fuel
  | fuel + 1, pos, rem, acc =>
    if rem = 0 then ret (acc, pos)
    else
      bind (wordPos pos) fun w =>
      bind (readChunk p w) fun chunk =>
      -- `chunk.get(skip..).ok_or(Error::Internal)?`
      if pos % 2 > chunk.length then fail .internal
      else
        let ch := chunk.drop (pos % 2)
        if rem < ch.length then ret (acc ++ ch.take rem, pos + rem)
        else readLoop _m p fuel (pos + ch.length) (rem - ch.length) (acc ++ ch)

/-- `<EepromRange as Read>::read(buf)` with `buf.len() = n`: returns the bytes stored into the front of `buf`
    (their number is the returned `usize`) and the range afterwards. -/
def Range.read (m : Mode) (p : Prov) (r : Range) (n : Nat) : M (List Nat × Range) :=
  let maxRead := r.endp - r.pos            -- `self.end.saturating_sub(self.byte_pos)`
  if maxRead = 0 then ret ([], r)
  else
    let want := min n maxRead
    bind clearErrors fun _ =>
    bind (readLoop m p (want + 1) r.pos want []) fun res =>
    ret (res.1, { r with pos := res.2 })

/-- `embedded_io_async::Read::read_exact` (default method): loop `read` until full, `Ok(0)` ⇒ `UnexpectedEof`.
    `rem` = bytes still missing. -/
def readExactLoop (m : Mode) (p : Prov) : Nat → Range → Nat → List Nat → M (List Nat × Range)
  | 0, _, _, _ => fail .fuel
  | fuel + 1, r, rem, acc =>
    if rem = 0 then ret (acc, r)
    else
      bind (Range.read m p r rem) fun res =>
      if res.1.length = 0 then fail .eof
      -- `buf = &mut buf[n..]`: `n ≤ buf.len()` always holds for `read` (n = number of bytes copied)
      else readExactLoop m p fuel res.2 (rem - res.1.length) (acc ++ res.1)

/-- `read_exact` into a buffer of `n` bytes. `Err eof` is `ReadExactError::UnexpectedEof`. -/
def Range.readExact (m : Mode) (p : Prov) (r : Range) (n : Nat) : M (List Nat × Range) :=
  readExactLoop m p (n + 1) r n []

/-- `impl From<ReadExactError<Error>> for Error` applied by `?`: `UnexpectedEof ⇒ Eeprom(SectionOverrun)`. -/
def eofToOverrun {α : Type} (x : M α) : M α :=
  match x.1 with
  | .err .eof => (.err .overrun, x.2)
  | _ => x

/-- The `loop` of `<EepromRange as Write>::write`: `written` counts the bytes taken from the buffer
    (`buf.len() - rest.len()`: 2 per word, 1 for a zero-padded odd tail). -/
def writeLoop (_m : Mode) : Nat → Dev → Range → List Nat → Nat → MW (Nat × Range)
  | 0, d, _, _, _ => liftW d (fail .fuel)
  | fuel + 1, d, r, buf, written =>
    if r.endp - r.pos = 0 then liftW d (ret (written, r))
    else
      match buf with
      | b0 :: b1 :: rest =>
        bindW (liftW d (wordPos r.pos)) fun w d =>
        bindW (writeWord d w b0 b1) fun _ d' =>
        writeLoop _m fuel d' { r with pos := r.pos + 2 } rest (written + 2)
      | [b0] =>
        bindW (liftW d (wordPos r.pos)) fun w d =>
        bindW (writeWord d w b0 0) fun _ d' =>
        writeLoop _m fuel d' { r with pos := r.pos + 2 } [] (written + 1)
      | [] => liftW d (ret (written, r))

/-- `<EepromRange as Write>::write(buf)`: a non-empty buffer on an exhausted range is `Err(SectionOverrun)`;
    otherwise returns `written` and the range afterwards. -/
def Range.write (m : Mode) (d : Dev) (r : Range) (buf : List Nat) : MW (Nat × Range) :=
  if buf.length ≠ 0 ∧ r.endp - r.pos = 0 then liftW d (fail .overrun)
  else writeLoop m (buf.length + 1) d r buf 0

/-- `embedded_io_async::Write::write_all` (default method): `Ok(0)` ⇒ `panic!("write() returned Ok(0)")`;
    `buf = &buf[n..]` panics when `n > buf.len()`. (`Lemmas/EepromWrite.writeAll_spec`: `write` never produces
    either any more.) -/
def writeAllLoop (m : Mode) : Nat → Dev → Range → List Nat → MW Range
  | 0, d, _, _ => liftW d (fail .fuel)
  | fuel + 1, d, r, buf =>
    if buf.length = 0 then liftW d (ret r)
    else
      bindW (Range.write m d r buf) fun res d' =>
      if res.1 = 0 then liftW d' (panicAt "write_all:zero")
      else if res.1 > buf.length then liftW d' (panicAt "write_all:slice")
      else writeAllLoop m fuel d' res.2 (buf.drop res.1)

def Range.writeAll (m : Mode) (d : Dev) (r : Range) (buf : List Nat) : MW Range :=
  writeAllLoop m (buf.length + 1) d r buf

/-! ## CRC-8 (poly 0x07, init 0xFF, MSB first, no reflection, no final xor) -/

/-- One shift of the CRC register: shift left, reduce by the polynomial when a one falls out. -/
def crcShift (c : Nat) : Nat :=
  if c / 128 % 2 = 1 then ((c * 2) % 256) ^^^ Gen.Eeprom.CRC_POLY else (c * 2) % 256

/-- Process one byte: xor into the register, eight shifts. -/
def crcByte (c b : Nat) : Nat :=
  crcShift (crcShift (crcShift (crcShift (crcShift (crcShift (crcShift (crcShift (c ^^^ b))))))))

/-- `STATION_ALIAS_CRC.checksum(bytes)`. -/
def crc8 (bytes : List Nat) : Nat := bytes.foldl crcByte Gen.Eeprom.CRC_INIT

/-! ## `SubDeviceEeprom` -/

/-- `CategoryType::from(u16)`: known discriminants and alternatives, anything else is the default variant. -/
def catOf (v : Nat) : Nat :=
  match Gen.Eeprom.categoryTable.lookup v with
  | some c => c
  | none => Gen.Eeprom.categoryDefault.getD 0

/-- `SubDeviceEeprom::start_at(word_addr, len_bytes)`: `EepromRange::new(.., word_addr, len_bytes.div_ceil(2))`. -/
def startAt (m : Mode) (wordAddr lenBytes : Nat) : M Range := Range.new m wordAddr ((lenBytes + 1) / 2)

/-- Result of one iteration of the `category` loop. -/
inductive CatStep where
  | done (r : Option Range)
  | next (wordAddr empties : Nat)

/-- Body of the `loop` in `SubDeviceEeprom::category` after `read_chunk` returned `chunk`. -/
def catStep (m : Mode) (cat : Nat) (chunk : List Nat) (wa ne : Nat) : M CatStep :=
  -- `word_addr.checked_add(2)`
  if wa + 2 ≥ 65536 then ret (.done none)
  else
    let wa' := wa + 2
    -- two `split_first_chunk::<2>()` under `unwrap_opt!`
    if chunk.length < 4 then panicAt "category:unwrap"
    else
      let ct := catOf (rd16 chunk)
      let len := rd16 (chunk.drop 2)
      let ne' := if len = 0 then ne + 1 else ne
      if ne' ≥ Gen.Eeprom.EMPTY_CATEGORY_LIMIT then ret (.done none)
      else
        -- (the trace argument is `u32::from(word_addr) * 2`: cannot overflow)
        if ct = cat then bind (Range.new m wa' len) fun r => ret (.done (some r))
        else if ct = Gen.Eeprom.CAT_END then ret (.done none)
        -- `word_addr.checked_add(len_words).ok_or(Error::Eeprom(EepromError::SectionOverrun))?`
        else if wa' + len < 65536 then ret (.next (wa' + len) ne')
        else fail .overrun

/-- The `loop` of `SubDeviceEeprom::category`, accumulator style (`calls` = provider calls so far). -/
def catLoop (m : Mode) (p : Prov) (cat : Nat) : Nat → Nat → Nat → Nat → M (Option Range)
  | 0, _, _, calls => (.err .fuel, calls)
  | fuel + 1, wa, ne, calls =>
    match catStep m cat (chunkAt p wa) wa ne with
    | (.ok (.done r), c) => (.ok r, calls + 1 + c)
    | (.ok (.next wa' ne'), _) => catLoop m p cat fuel wa' ne' (calls + 1)
    | (.err e, c) => (.err e, calls + 1 + c)
    | (.panic w, c) => (.panic w, calls + 1 + c)

/-- Fuel for the category walk: the word address grows by at least 2 per iteration (checked addition), so
    32 768 iterations always suffice (`Lemmas/EepromSafe.catLoop_terminates`). -/
def catFuel : Nat := 32768 + 8

/-- `SubDeviceEeprom::category(category)`; `cat` is the canonical discriminant searched for. -/
def category (m : Mode) (p : Prov) (cat : Nat) : M (Option Range) :=
  catLoop m p cat catFuel Gen.Eeprom.SII_FIRST_CATEGORY_START 0 0

/-- `SubDeviceEeprom::station_alias`. -/
def stationAlias (m : Mode) (p : Prov) : M Nat :=
  bind (startAt m (Gen.Eeprom.STATION_ALIAS_START / 2) 2) fun r =>
  bind (eofToOverrun (Range.readExact m p r 2)) fun res =>
  ret (rd16 res.1)

/-- `SubDeviceEeprom::set_station_alias`. -/
def setStationAlias (m : Mode) (d : Dev) (alias : Nat) : MW Unit :=
  bindW (liftW d (startAt m 0 14)) fun r d =>
  bindW (liftW d (eofToOverrun (Range.readExact m d.prov r 14))) fun res d =>
  let chunk := setRange res.1 Gen.Eeprom.STATION_ALIAS_START (le16 alias)
  let checksum := crc8 chunk
  bindW (liftW d (startAt m (Gen.Eeprom.STATION_ALIAS_START / 2) 2)) fun r1 d =>
  bindW (Range.writeAll m d r1 (le16 alias)) fun _ d =>
  bindW (liftW d (startAt m (Gen.Eeprom.CHECKSUM_START / 2) 2)) fun r2 d =>
  bindW (Range.writeAll m d r2 (le16 checksum)) fun _ d =>
  liftW d (ret ())

/-- `SubDeviceEeprom::size`: `(usize::from(u16::from_le_bytes(buf)) + 1) * 128` (cannot overflow `usize`). -/
def size (m : Mode) (p : Prov) : M Nat :=
  bind (startAt m Gen.Eeprom.SIZE_WORD_ADDR 2) fun r =>
  bind (eofToOverrun (Range.readExact m p r 2)) fun res =>
  ret ((rd16 res.1 + 1) * 128)

/-- `SubDeviceIdentity` as `(vendor, product, revision, serial)`. -/
def parseIdentity (b : List Nat) : Nat × Nat × Nat × Nat :=
  (rd32 b, rd32 (b.drop 4), rd32 (b.drop 8), rd32 (b.drop 12))

/-- `SubDeviceEeprom::identity`. -/
def identity (m : Mode) (p : Prov) : M (Nat × Nat × Nat × Nat) :=
  bind (startAt m Gen.Eeprom.IDENTITY_WORD_ADDR 16) fun r =>
  bind (eofToOverrun (Range.readExact m p r 16)) fun res =>
  ret (parseIdentity res.1)

/-- `bitflags::from_bits`: fails when a bit outside the declared flags is set. -/
def fromBits (mask v : Nat) : Option Nat := if v &&& mask = v then some v else none

/-- `DefaultMailbox` as (receive offset, receive size, send offset, send size, protocols). -/
structure Mailbox where
  rxOff : Nat
  rxSize : Nat
  txOff : Nat
  txSize : Nat
  protocols : Nat
  deriving Repr, DecidableEq

/-- `DefaultMailbox::has_mailbox`: `!protocols.is_empty() && rx_size > 0 || tx_size > 0`. -/
def Mailbox.hasMailbox (mb : Mailbox) : Bool := (mb.protocols != 0 && mb.rxSize > 0) || mb.txSize > 0

def parseMailbox (b : List Nat) : M Mailbox :=
  match fromBits Gen.Eeprom.MAILBOX_PROTOCOLS_MASK (b.getD 8 0) with
  | some pr => ret ⟨rd16 b, rd16 (b.drop 2), rd16 (b.drop 4), rd16 (b.drop 6), pr⟩
  | none => fail .wireInvalid

/-- `SubDeviceEeprom::mailbox_config`. -/
def mailboxConfig (m : Mode) (p : Prov) : M Mailbox :=
  bind (startAt m Gen.Eeprom.MAILBOX_WORD_ADDR 10) fun r =>
  bind (eofToOverrun (Range.readExact m p r 10)) fun res =>
  parseMailbox res.1

/-- Enum read with `#[default]` fall-through. -/
def enumOf (table : List (Nat × Nat)) (dflt : Option Nat) (v : Nat) : Option Nat :=
  match table.lookup v with
  | some c => some c
  | none => dflt

/-- `SiiGeneral`. -/
structure General where
  groupIdx : Nat
  imageIdx : Nat
  orderIdx : Nat
  nameIdx : Nat
  coeDetails : Nat
  foe : Bool
  eoe : Bool
  flags : Nat
  ebusCurrent : Nat          -- raw u16; the harness prints the i16 as its two's complement u16
  ports : List Nat
  physAddr : Nat
  deriving Repr, DecidableEq

def portOf (v : Nat) : Nat := (enumOf Gen.Eeprom.portStatusTable Gen.Eeprom.portStatusDefault v).getD 0

def parseGeneral (b : List Nat) : M General :=
  match fromBits Gen.Eeprom.COE_DETAILS_MASK (b.getD 5 0), fromBits Gen.Eeprom.FLAGS_MASK (b.getD 11 0) with
  | some coe, some fl =>
    let lo := b.getD 14 0
    let hi := b.getD 15 0
    ret { groupIdx := b.getD 0 0, imageIdx := b.getD 1 0, orderIdx := b.getD 2 0, nameIdx := b.getD 3 0,
          coeDetails := coe, foe := b.getD 6 0 > 0, eoe := b.getD 7 0 > 0, flags := fl,
          ebusCurrent := rd16 (b.drop 12),
          ports := [portOf (lo % 16), portOf (lo / 16 % 16), portOf (hi % 16), portOf (hi / 16 % 16)],
          physAddr := rd16 (b.drop 16) }
  | _, _ => fail .wireInvalid

/-- `SubDeviceEeprom::general`. -/
def general (m : Mode) (p : Prov) : M General :=
  bind (category m p Gen.Eeprom.CAT_GENERAL) fun c =>
  match c with
  | none => fail .noCategory
  | some r =>
    bind (eofToOverrun (Range.readExact m p r 18)) fun res =>
    parseGeneral res.1

/-- `sync_manager_channel::Control` read then packed again (what the parsed value holds): operation mode and
    direction go through their enum tables (with `#[default]` fall-through), bit 7 is dropped. -/
def controlOf (v : Nat) : Nat :=
  (enumOf Gen.Eeprom.operationModeTable Gen.Eeprom.operationModeDefault (v % 4)).getD 0
  + 4 * (enumOf Gen.Eeprom.directionTable Gen.Eeprom.directionDefault (v / 4 % 4)).getD 0
  + 16 * (v / 16 % 2) + 32 * (v / 32 % 2) + 64 * (v / 64 % 2)

/-- `eeprom::types::SyncManager`. -/
structure Sm where
  start : Nat
  len : Nat
  control : Nat
  enable : Nat
  usage : Nat
  deriving Repr, DecidableEq

/-- `SyncManager::usage_type()` with the recovery from control bits. -/
def Sm.usageRecovered (s : Sm) : Nat :=
  if s.usage ≠ 0 then s.usage
  else match s.control % 4, s.control / 4 % 4 with
    | 0, 0 => 4      -- (Normal, MasterRead) => ProcessDataRead
    | 0, _ => 3      -- (Normal, MasterWrite) => ProcessDataWrite
    | _, 0 => 2      -- (Mailbox, MasterRead) => MailboxRead
    | _, _ => 1      -- (Mailbox, MasterWrite) => MailboxWrite

def parseSm (b : List Nat) : M Sm :=
  match fromBits Gen.Eeprom.SM_ENABLE_MASK (b.getD 6 0),
        enumOf Gen.Eeprom.syncManagerTypeTable Gen.Eeprom.syncManagerTypeDefault (b.getD 7 0) with
  | some en, some us => ret ⟨rd16 b, rd16 (b.drop 2), controlOf (b.getD 4 0), en, us⟩
  | _, _ => fail .wireInvalid

/-- `CategoryIterator::next` / `next_sub_item` for an item of `sz` bytes: `read_exact`, `UnexpectedEof ⇒ None`. -/
def nextItem {α : Type} (m : Mode) (p : Prov) (r : Range) (sz : Nat) (parse : List Nat → M α) :
    M (Option α × Range) :=
  match Range.readExact m p r sz with
  | (.ok res, c) => addCost c (bind (parse res.1) fun a => ret (some a, res.2))
  -- the reader has advanced, but nobody reads on after `None`
  | (.err .eof, c) => (.ok (none, r), c)
  | (.err e, c) => (.err e, c)
  | (.panic w, c) => (.panic w, c)

/-- `SubDeviceEeprom::items`: the category's range, or the empty range `EepromRange::new(.., 0, 0)`. -/
def items (m : Mode) (p : Prov) (cat : Nat) : M Range :=
  bind (category m p cat) fun c =>
  match c with
  | some r => ret r
  | none => Range.new m 0 0

/-- `while let Some(x) = cat.next().await? { vec.push(x).map_err(|_| Capacity)? }` with capacity `cap`. -/
def collectLoop {α : Type} (m : Mode) (p : Prov) (sz cap capItem : Nat) (parse : List Nat → M α) :
    Nat → Range → List α → M (List α)
  | 0, _, _ => fail .fuel
  | fuel + 1, r, acc =>
    bind (nextItem m p r sz parse) fun res =>
    match res.1 with
    | none => ret acc
    | some a =>
      if acc.length ≥ cap then fail (.capacity capItem)
      else collectLoop m p sz cap capItem parse fuel res.2 (acc ++ [a])

/-- `SubDeviceEeprom::sync_managers`. -/
def syncManagers (m : Mode) (p : Prov) : M (List Sm) :=
  bind (items m p Gen.Eeprom.CAT_SYNC_MANAGER) fun r =>
  collectLoop m p 8 Gen.Eeprom.CAP_SYNC_MANAGERS 0 parseSm (Gen.Eeprom.CAP_SYNC_MANAGERS + 2) r []

/-- `FmmuUsage::try_from(u8)` for every byte, first failure wins. -/
def parseFmmus : List Nat → M (List Nat)
  | [] => ret []
  | b :: rest =>
    match enumOf Gen.Eeprom.fmmuUsageTable Gen.Eeprom.fmmuUsageDefault b with
    | some u => bind (parseFmmus rest) fun us => ret (u :: us)
    | none => fail .wireInvalid

/-- `SubDeviceEeprom::fmmus`: one `read` into a 16-byte buffer. -/
def fmmus (m : Mode) (p : Prov) : M (List Nat) :=
  bind (category m p Gen.Eeprom.CAT_FMMU) fun c =>
  match c with
  | none => ret []
  | some r =>
    bind (Range.read m p r Gen.Eeprom.FMMU_READ_BUF) fun res =>
    parseFmmus res.1

/-- `FmmuEx`: the sync manager index is the second of three bytes. -/
def parseFmmuEx (b : List Nat) : M Nat := ret (b.getD 1 0)

/-- `SubDeviceEeprom::fmmu_mappings`. -/
def fmmuMappings (m : Mode) (p : Prov) : M (List Nat) :=
  bind (items m p Gen.Eeprom.CAT_FMMU_EX) fun r =>
  collectLoop m p 3 Gen.Eeprom.CAP_FMMU_EX 1 parseFmmuEx (Gen.Eeprom.CAP_FMMU_EX + 2) r []

/-- `eeprom::types::Pdo` (with the summed `bit_len`). -/
structure Pdo where
  index : Nat
  numEntries : Nat
  sm : Nat
  bitLen : Nat
  deriving Repr, DecidableEq

def parsePdo (b : List Nat) : M Pdo := ret ⟨rd16 b, b.getD 2 0, b.getD 3 0, 0⟩

/-- `PdoEntry.data_length_bits`. -/
def parsePdoEntry (b : List Nat) : M Nat := ret (b.getD 5 0)

/-- `for idx in 0..pdo.num_entries { next_sub_item()? else Err(Decode); pdo.bit_len += bits }`. -/
def pdoEntries (m : Mode) (p : Prov) : Nat → Range → Nat → M (Nat × Range)
  | 0, r, bits => ret (bits, r)
  | n + 1, r, bits =>
    bind (nextItem m p r 8 parsePdoEntry) fun res =>
    match res.1 with
    | none => fail .decode
    | some e =>
      bind (add16 m "pdos:add" bits e) fun bits' =>
      pdoEntries m p n res.2 bits'

/-- The `while let Some(mut pdo) = cat.next().await?` loop of `SubDeviceEeprom::pdos`. -/
def pdoLoop (m : Mode) (p : Prov) : Nat → Range → List Pdo → M (List Pdo)
  | 0, _, _ => fail .fuel
  | fuel + 1, r, acc =>
    bind (nextItem m p r 8 parsePdo) fun res =>
    match res.1 with
    | none => ret acc
    | some pdo =>
      bind (pdoEntries m p pdo.numEntries res.2 0) fun er =>
      if acc.length ≥ Gen.Eeprom.CAP_PDOS then fail (.capacity 2)
      else pdoLoop m p fuel er.2 (acc ++ [{ pdo with bitLen := er.1 }])

/-- `SubDeviceEeprom::pdos(direction)`; `cat` = `CAT_TX_PDO` or `CAT_RX_PDO`. -/
def pdos (m : Mode) (p : Prov) (cat : Nat) : M (List Pdo) :=
  bind (items m p cat) fun r =>
  pdoLoop m p (Gen.Eeprom.CAP_PDOS + 2) r []

/-- `for i in 0..search_index { read_byte; skip_ahead_bytes(len)? }` of `find_string`. -/
def skipStrings (m : Mode) (p : Prov) : Nat → Range → M Range
  | 0, r => ret r
  | n + 1, r =>
    bind (Range.readByte m p r) fun res =>
    bind (Range.skip m res.2 res.1) fun r' =>
    skipStrings m p n r'

/-- NUL bytes removed, non-ASCII replaced by `?`. -/
def cleanString (b : List Nat) : List Nat :=
  (b.filter fun c => c ≠ 0).map fun c => if c < 128 then c else 63

/-- `SubDeviceEeprom::find_string::<N>(search_index)`. -/
def findString (m : Mode) (p : Prov) (N idx : Nat) : M (Option (List Nat)) :=
  if idx = 0 then ret none
  else
    let si := idx - 1
    bind (category m p Gen.Eeprom.CAT_STRINGS) fun c =>
    match c with
    | none => ret none
    | some r =>
      bind (Range.readByte m p r) fun nb =>
      if si ≥ nb.1 then ret none
      else
        bind (skipStrings m p si nb.2) fun r' =>
        bind (Range.readByte m p r') fun lb =>
        if lb.1 > N then fail (.stringTooLong N lb.1)
        else
          bind (eofToOverrun (Range.readExact m p lb.2 lb.1)) fun res =>
          ret (some (cleanString res.1))

/-- `Result::ignore_no_category`. -/
def ignoreNoCategory {α : Type} (x : M α) : M (Option α) :=
  match x.1 with
  | .ok a => (.ok (some a), x.2)
  | .err .noCategory => (.ok none, x.2)
  | .err e => (.err e, x.2)
  | .panic w => (.panic w, x.2)

/-- `SubDeviceEeprom::device_name::<N>`. -/
def deviceName (m : Mode) (p : Prov) (N : Nat) : M (Option (List Nat)) :=
  bind (ignoreNoCategory (general m p)) fun g =>
  match g with
  | none => ret none
  | some g =>
    bind (ignoreNoCategory (findString m p N g.orderIdx)) fun s => ret (s.bind id)

/-- `SubDeviceEeprom::device_description::<N>`. -/
def deviceDescription (m : Mode) (p : Prov) (N : Nat) : M (Option (List Nat)) :=
  bind (general m p) fun g => findString m p N g.nameIdx

/-! ## `DeviceEeprom::write_word` retry loop (protocol level)

  The device is scripted: `errs i` says whether the status read after attempt `i` (0-based) has
  `command_error` set. (Busy polling and time-outs are exercised by the harness on the real code; the model
  covers the retry decision.) -/

/-- Number of attempts (`SiiData` + `SiiControl` writes) made by `write_word`; `retry` is `retry_count`.
    `if status.command_error && retry_count < 20 { retry_count += 1 } else { break }`. -/
def writeWordAttempts (errs : Nat → Bool) : Nat → Nat → Nat → Nat
  | 0, _, attempts => attempts
  | fuel + 1, retry, attempts =>
    if errs attempts && retry < Gen.Eeprom.WRITE_RETRY_LIMIT then
      writeWordAttempts errs fuel (retry + 1) (attempts + 1)
    else attempts + 1

/-- Attempts made for one word; the function then returns `Ok(())` whatever the last status was. -/
def writeWordProto (errs : Nat → Bool) : Nat :=
  writeWordAttempts errs (Gen.Eeprom.WRITE_RETRY_LIMIT + 1) 0 0

end Ec.Eeprom
