/- Helper lemmas for the multi-datagram EEPROM paths of C11 (EcModel.WkcEeprom). -/
import EcModel.Lemmas.WkcLemmas
import EcModel.WkcEeprom

namespace Ec.Wkc

/-! ### One datagram -/

theorem receive_resp {α : Type} (r : Option TimeoutKind) (p : Pdu) (unpack : List Nat → Res α) (h : p.wkc = 1) :
    WrappedRead.new.receive (exch r (.resp p)) unpack = unpack p.data := by
  simp [exch, WrappedRead.receive, new_read_wkc, Pdu.maybeWkc, Pdu.checkWkc, h]

theorem receive_resp_mismatch {α : Type} (r : Option TimeoutKind) (p : Pdu) (unpack : List Nat → Res α) (h : p.wkc ≠ 1) :
    WrappedRead.new.receive (exch r (.resp p)) unpack = .error (.workingCounter 1 p.wkc) := by
  simp [exch, WrappedRead.receive, new_read_wkc, Pdu.maybeWkc, Pdu.checkWkc, h]

theorem receive_lost {α : Type} (r : Option TimeoutKind) (unpack : List Nat → Res α) :
    WrappedRead.new.receive (exch r .lost) unpack = .error (.timeout .pdu) := by
  simp [exch, WrappedRead.receive]

theorem receiveSlice_resp (r : Option TimeoutKind) (p : Pdu) (h : p.wkc = 1) :
    WrappedRead.new.receiveSlice (exch r (.resp p)) = .ok p := by
  simp [exch, WrappedRead.receiveSlice, new_read_wkc, Pdu.maybeWkc, Pdu.checkWkc, h]

theorem receiveSlice_resp_mismatch (r : Option TimeoutKind) (p : Pdu) (h : p.wkc ≠ 1) :
    WrappedRead.new.receiveSlice (exch r (.resp p)) = .error (.workingCounter 1 p.wkc) := by
  simp [exch, WrappedRead.receiveSlice, new_read_wkc, Pdu.maybeWkc, Pdu.checkWkc, h]

theorem sendReceive_resp {α : Type} (r : Option TimeoutKind) (p : Pdu) (unpack : List Nat → Res α) (h : p.wkc = 1) :
    WrappedWrite.new.sendReceive (exch r (.resp p)) unpack = unpack p.data := by
  simp [exch, WrappedWrite.sendReceive, new_write_wkc, Pdu.maybeWkc, Pdu.checkWkc, h]

theorem sendReceive_resp_mismatch {α : Type} (r : Option TimeoutKind) (p : Pdu) (unpack : List Nat → Res α) (h : p.wkc ≠ 1) :
    WrappedWrite.new.sendReceive (exch r (.resp p)) unpack = .error (.workingCounter 1 p.wkc) := by
  simp [exch, WrappedWrite.sendReceive, new_write_wkc, Pdu.maybeWkc, Pdu.checkWkc, h]

theorem send_resp (r : Option TimeoutKind) (p : Pdu) : WrappedWrite.new.send (exch r (.resp p)) = .ok () := by
  simp [exch, WrappedWrite.send]

/-! ### One chunk read on the wire -/

/-- The datagrams of one `read_chunk` that ran to completion, as the MainDevice got them back: the
    answer to the read command (FPWR 0x0502, fire-and-forget: documented exempt), the SII status
    polls that said "busy", the one that said "idle" (FPRD 0x0502) and the data read (FPRD 0x0508). -/
structure ChunkSeg where
  cmd : Pdu
  busy : List Pdu
  idle : Pdu
  data : Pdu

def ChunkSeg.events (s : ChunkSeg) : List Ev :=
  .resp s.cmd :: (s.busy.map Ev.resp ++ [.resp s.idle, .resp s.data])

/-- Every datagram of the chunk read that the property REQUIRES to be checked — every status poll
    and the data read — came back with working counter 1. -/
def ChunkSeg.Checked (s : ChunkSeg) : Prop :=
  (∀ q ∈ s.busy, q.wkc = 1) ∧ s.idle.wkc = 1 ∧ s.data.wkc = 1

/-- The status register image decodes and its busy bit is `b`. -/
def SaysBusy (b : Bool) (p : Pdu) : Prop := ∃ c, unpackSii p.data = .ok c ∧ c.busy = b

/-- A chunk read by a device that answers everything: checked, and the polls say what their place
    in the sequence needs (busy …, then idle). -/
def ChunkSeg.Healthy (s : ChunkSeg) : Prop :=
  s.Checked ∧ (∀ q ∈ s.busy, SaysBusy true q) ∧ SaysBusy false s.idle

theorem waitWhileBusy_skip_busy (busy : List Pdu) (rest : List Ev)
    (hb : ∀ q ∈ busy, q.wkc = 1 ∧ SaysBusy true q) :
    waitWhileBusy (busy.map Ev.resp ++ rest) = waitWhileBusy rest := by
  induction busy with
  | nil => simp
  | cons q qs ih =>
    obtain ⟨hw, c, hc, hcb⟩ := hb q (by simp)
    simp only [List.map_cons, List.cons_append, waitWhileBusy]
    rw [receive_resp _ _ _ hw, hc]
    simp only [hcb, if_true]
    exact ih (fun q' hq' => hb q' (by simp [hq']))

theorem waitWhileBusy_idle (p : Pdu) (t : List Ev) (c : SiiControl) (hw : p.wkc = 1)
    (hc : unpackSii p.data = .ok c) (hcb : c.busy = false) :
    waitWhileBusy (.resp p :: t) = (.ok c, t) := by
  simp only [waitWhileBusy]
  rw [receive_resp _ _ _ hw, hc]
  simp [hcb]

theorem waitWhileBusy_mismatch (p : Pdu) (t : List Ev) (hw : p.wkc ≠ 1) :
    waitWhileBusy (.resp p :: t) = (.error (.workingCounter 1 p.wkc), t) := by
  simp only [waitWhileBusy]
  rw [receive_resp_mismatch _ _ _ hw]

theorem waitWhileBusy_lost (t : List Ev) :
    waitWhileBusy (.lost :: t) = (.error (.timeout .pdu), t) := by
  simp only [waitWhileBusy]
  rw [receive_lost]

theorem waitWhileBusy_deadline (t : List Ev) :
    waitWhileBusy (.deadline :: t) = (.error (.timeout .eeprom), t) ∧
    waitWhileBusy (.lostDeadline :: t) = (.error (.timeout .eeprom), t) := by
  constructor <;> simp [waitWhileBusy, exch, WrappedRead.receive]

/-- A healthy chunk read returns the payload of its data read and consumes exactly its events. -/
theorem readChunk_healthy (s : ChunkSeg) (hs : s.Healthy) (t : List Ev) :
    readChunk (s.events ++ t) = (.ok s.data.data, t) := by
  obtain ⟨⟨hbw, hiw, hdw⟩, hbb, c, hc, hcb⟩ := hs
  have h1 : s.events ++ t = .resp s.cmd :: (s.busy.map Ev.resp ++ (.resp s.idle :: .resp s.data :: t)) := by
    simp [ChunkSeg.events]
  rw [h1]
  simp only [readChunk, send_resp]
  rw [waitWhileBusy_skip_busy _ _ (fun q hq => ⟨hbw q hq, hbb q hq⟩), waitWhileBusy_idle _ _ c hiw hc hcb]
  simp only [receiveSlice_resp _ _ hdw]

/-- Converse: a chunk read that returned `Ok` consumed the events of a checked chunk segment, and
    what it returned is the payload of that segment's data read. -/
theorem readChunk_ok_seg (tr rest : List Ev) (d : List Nat) (h : readChunk tr = (.ok d, rest)) :
    ∃ s : ChunkSeg, tr = s.events ++ rest ∧ s.Checked ∧ d = s.data.data := by
  cases tr with
  | nil => simp [readChunk] at h
  | cons e0 t =>
    simp only [readChunk] at h
    split at h
    · simp at h
    · rename_i hsend
      obtain ⟨p0, hp0⟩ := send_ok _ _ hsend
      have he0 := (exch_ok _ _ _).1 hp0
      split at h
      · simp at h
      · rename_i st t1 hwait
        obtain ⟨polls, ps, hshape, hpolls, hps, _, _⟩ := waitWhileBusy_ok _ _ _ hwait
        cases t1 with
        | nil => simp at h
        | cons e2 t2 =>
          simp only at h
          split at h
          · simp at h
          · rename_i pd hslice
            obtain ⟨he2, hw2⟩ := slice1_ok _ _ _ hslice
            simp only [Prod.mk.injEq, Res.ok.injEq] at h
            obtain ⟨rfl, rfl⟩ := h
            refine ⟨⟨p0, polls, ps, pd⟩, ?_, ⟨hpolls, hps, hw2⟩, rfl⟩
            rw [he0, hshape, he2]
            simp [ChunkSeg.events]

/-! ### A chunk read that fails -/

/-- The ways one chunk read can fail on the wire while everything before the failing datagram was
    in order: the failing datagram is the command write (lost), a status poll at ANY position (after
    any number of answered busy polls) or the data read; it is lost, or comes back with a working
    counter other than 1, or (status polls only) the EEPROM timeout fires first. The second index is
    the error `read_chunk` returns. -/
inductive ChunkFault : List Ev → Err → Prop
  | cmdLost : ChunkFault [.lost] (.timeout .pdu)
  | poll (cmd : Pdu) (busy : List Pdu) (p : Pdu) :
      (∀ q ∈ busy, q.wkc = 1 ∧ SaysBusy true q) → p.wkc ≠ 1 →
      ChunkFault (.resp cmd :: (busy.map Ev.resp ++ [.resp p])) (.workingCounter 1 p.wkc)
  | pollLost (cmd : Pdu) (busy : List Pdu) :
      (∀ q ∈ busy, q.wkc = 1 ∧ SaysBusy true q) →
      ChunkFault (.resp cmd :: (busy.map Ev.resp ++ [.lost])) (.timeout .pdu)
  | pollDeadline (cmd : Pdu) (busy : List Pdu) (e : Ev) :
      (∀ q ∈ busy, q.wkc = 1 ∧ SaysBusy true q) → (e = .deadline ∨ e = .lostDeadline) →
      ChunkFault (.resp cmd :: (busy.map Ev.resp ++ [e])) (.timeout .eeprom)
  | data (cmd : Pdu) (busy : List Pdu) (idle p : Pdu) :
      (∀ q ∈ busy, q.wkc = 1 ∧ SaysBusy true q) → idle.wkc = 1 → SaysBusy false idle → p.wkc ≠ 1 →
      ChunkFault (.resp cmd :: (busy.map Ev.resp ++ [.resp idle, .resp p])) (.workingCounter 1 p.wkc)
  | dataLost (cmd : Pdu) (busy : List Pdu) (idle : Pdu) :
      (∀ q ∈ busy, q.wkc = 1 ∧ SaysBusy true q) → idle.wkc = 1 → SaysBusy false idle →
      ChunkFault (.resp cmd :: (busy.map Ev.resp ++ [.resp idle, .lost])) (.timeout .pdu)

theorem chunkFault_error (f : List Ev) (e : Err) (hf : ChunkFault f e) (t : List Ev) :
    readChunk (f ++ t) = (.error e, t) := by
  cases hf with
  | cmdLost => simp [readChunk, exch, WrappedWrite.send]
  | poll cmd busy p hb hw =>
    have h1 : (Ev.resp cmd :: (busy.map Ev.resp ++ [.resp p])) ++ t = .resp cmd :: (busy.map Ev.resp ++ (.resp p :: t)) := by simp
    rw [h1]
    simp only [readChunk, send_resp]
    rw [waitWhileBusy_skip_busy _ _ hb, waitWhileBusy_mismatch _ _ hw]
  | pollLost cmd busy hb =>
    have h1 : (Ev.resp cmd :: (busy.map Ev.resp ++ [.lost])) ++ t = .resp cmd :: (busy.map Ev.resp ++ (.lost :: t)) := by simp
    rw [h1]
    simp only [readChunk, send_resp]
    rw [waitWhileBusy_skip_busy _ _ hb, waitWhileBusy_lost]
  | pollDeadline cmd busy e' hb he =>
    have h1 : (Ev.resp cmd :: (busy.map Ev.resp ++ [e'])) ++ t = .resp cmd :: (busy.map Ev.resp ++ (e' :: t)) := by simp
    rw [h1]
    simp only [readChunk, send_resp]
    rw [waitWhileBusy_skip_busy _ _ hb]
    rcases he with rfl | rfl
    · rw [(waitWhileBusy_deadline t).1]
    · rw [(waitWhileBusy_deadline t).2]
  | data cmd busy idle p hb hiw hib hw =>
    obtain ⟨c, hc, hcb⟩ := hib
    have h1 : (Ev.resp cmd :: (busy.map Ev.resp ++ [.resp idle, .resp p])) ++ t
        = .resp cmd :: (busy.map Ev.resp ++ (.resp idle :: .resp p :: t)) := by simp
    rw [h1]
    simp only [readChunk, send_resp]
    rw [waitWhileBusy_skip_busy _ _ hb, waitWhileBusy_idle _ _ c hiw hc hcb]
    simp only [receiveSlice_resp_mismatch _ _ hw]
  | dataLost cmd busy idle hb hiw hib =>
    obtain ⟨c, hc, hcb⟩ := hib
    have h1 : (Ev.resp cmd :: (busy.map Ev.resp ++ [.resp idle, .lost])) ++ t
        = .resp cmd :: (busy.map Ev.resp ++ (.resp idle :: .lost :: t)) := by simp
    rw [h1]
    simp only [readChunk, send_resp]
    rw [waitWhileBusy_skip_busy _ _ hb, waitWhileBusy_idle _ _ c hiw hc hcb]
    simp [exch, WrappedRead.receiveSlice]

/-! ### The chunk loop of `read` -/

/-- What the chunk loop copies out of the payloads of the data reads it consumed, starting at byte
    position `pos` with `want` bytes to go: each chunk loses its first byte when the position is
    odd; a chunk that more than fills the buffer is cut; the others are taken whole. -/
def gather (pos want : Nat) : List (List Nat) → List Nat
  | [] => []
  | d :: ds =>
    if want < (d.drop (pos % 2)).length then (d.drop (pos % 2)).take want
    else d.drop (pos % 2) ++ gather (pos + (d.drop (pos % 2)).length) (want - (d.drop (pos % 2)).length) ds

/-- Every byte gathered is a byte of one of the payloads. -/
theorem gather_subset (ds : List (List Nat)) : ∀ pos want b, b ∈ gather pos want ds → ∃ d ∈ ds, b ∈ d := by
  induction ds with
  | nil => intro pos want b hb; simp [gather] at hb
  | cons d ds ih =>
    intro pos want b hb
    simp only [gather] at hb
    split at hb
    · exact ⟨d, by simp, List.mem_of_mem_drop (List.mem_of_mem_take hb)⟩
    · rcases List.mem_append.1 hb with h | h
      · exact ⟨d, by simp, List.mem_of_mem_drop h⟩
      · obtain ⟨d', hd', hb'⟩ := ih _ _ _ h
        exact ⟨d', by simp [hd'], hb'⟩

/-- `read`'s loop said `Ok`: it consumed a sequence of chunk reads ALL of whose required datagrams
    were serviced, the bytes are gathered from exactly their data payloads, and the buffer is full
    (`want` more bytes than before, never fewer). -/
theorem readLoop_ok (pos want : Nat) (acc : List Nat) (tr : List Ev) :
    ∀ out pos' rest, readLoop pos want acc tr = (.ok (out, pos'), rest) →
      ∃ segs : List ChunkSeg, tr = segs.flatMap ChunkSeg.events ++ rest ∧ (∀ s ∈ segs, s.Checked) ∧
        out = acc ++ gather pos want (segs.map fun s => s.data.data) ∧
        out.length = acc.length + want ∧ pos' = pos + want := by
  fun_induction readLoop pos want acc tr with
  | case1 pos acc tr =>
    intro out pos' rest h
    simp only [Prod.mk.injEq, ERes.ok.injEq] at h
    obtain ⟨⟨rfl, rfl⟩, rfl⟩ := h
    exact ⟨[], by simp, by simp, by simp [gather], by simp, by simp⟩
  | case2 => intro out pos' rest h; simp at h
  | case3 => intro out pos' rest h; simp at h
  | case4 => intro out pos' rest h; simp at h
  | case5 pos want acc tr hw hp chunk t hrc hlen hlt =>
    intro out pos' rest h
    simp only [Prod.mk.injEq, ERes.ok.injEq] at h
    obtain ⟨⟨rfl, rfl⟩, rfl⟩ := h
    obtain ⟨s, hs, hchk, hd⟩ := readChunk_ok_seg _ _ _ hrc
    subst hd
    refine ⟨[s], by simp [hs], by simpa using hchk, ?_, ?_, rfl⟩
    · simp only [List.map_cons, List.map_nil, gather, if_pos hlt]
    · rw [List.length_append, List.length_take]; omega
  | case6 pos want acc tr hw hp chunk t hrc hlen hlt hdec ih =>
    intro out pos' rest h
    obtain ⟨segs, hsegs, hchk, hout, hl, hpos⟩ := ih out pos' rest h
    obtain ⟨s, hs, hchks, hd⟩ := readChunk_ok_seg _ _ _ hrc
    subst hd
    refine ⟨s :: segs, ?_, ?_, ?_, ?_, ?_⟩
    · rw [hs, hsegs]; simp
    · intro s' hs'
      rcases List.mem_cons.1 hs' with rfl | h'
      · exact hchks
      · exact hchk s' h'
    · rw [hout]; simp only [List.map_cons, gather, if_neg hlt, List.append_assoc]
    · rw [hl, List.length_append]; omega
    · rw [hpos]; omega

/-- Where the loop stands after consuming these data payloads without finishing: `some (pos', want')`
    with `want'` bytes still to go; `none` if it would have ended (buffer full, address overrun,
    internal error) before consuming them all. -/
def advance (pos want : Nat) : List (List Nat) → Option (Nat × Nat)
  | [] => some (pos, want)
  | d :: ds =>
    if want = 0 then none
    else if ¬ pos / 2 < 65536 then none
    else if d.length < pos % 2 then none
    else if want < (d.drop (pos % 2)).length then none
    else advance (pos + (d.drop (pos % 2)).length) (want - (d.drop (pos % 2)).length) ds

/-- The loop stops at the FIRST chunk read that fails, with that chunk read's error, however many
    chunks were copied before — it never turns the failure into a short `Ok`. -/
theorem readLoop_stops_at_failing_chunk (segs : List ChunkSeg) :
    ∀ (pos want : Nat) (acc : List Nat) (pos' want' : Nat) (tail t : List Ev) (e : Err),
      (∀ s ∈ segs, s.Healthy) →
      advance pos want (segs.map fun s => s.data.data) = some (pos', want') → 0 < want' → pos' / 2 < 65536 →
      readChunk tail = (.error e, t) →
      readLoop pos want acc (segs.flatMap ChunkSeg.events ++ tail) = (.error (.base e), t) := by
  induction segs with
  | nil =>
    intro pos want acc pos' want' tail t e _ hadv hw hp hbad
    simp only [List.map_nil, advance, Option.some.injEq, Prod.mk.injEq] at hadv
    obtain ⟨rfl, rfl⟩ := hadv
    simp only [List.flatMap_nil, List.nil_append]
    rw [readLoop]
    rw [if_neg (by omega), if_neg (by simpa using hp)]
    split
    · rename_i e' t' heq
      rw [hbad] at heq
      simp only [Prod.mk.injEq, Res.error.injEq] at heq
      obtain ⟨rfl, rfl⟩ := heq
      rfl
    · rename_i chunk t' heq
      rw [hbad] at heq
      simp at heq
  | cons s segs ih =>
    intro pos want acc pos' want' tail t e hh hadv hw hp hbad
    have hs := hh s (by simp)
    simp only [List.map_cons, advance] at hadv
    split at hadv
    · simp at hadv
    · rename_i hw0
      split at hadv
      · simp at hadv
      · rename_i hp0
        split at hadv
        · simp at hadv
        · rename_i hlen0
          split at hadv
          · simp at hadv
          · rename_i hlt0
            have hrc := readChunk_healthy s hs (segs.flatMap ChunkSeg.events ++ tail)
            have hshape : (s :: segs).flatMap ChunkSeg.events ++ tail
                = s.events ++ (segs.flatMap ChunkSeg.events ++ tail) := by simp
            rw [hshape, readLoop]
            rw [if_neg hw0, if_neg hp0]
            split
            · rename_i e' t' heq
              rw [hrc] at heq
              simp at heq
            · rename_i chunk t' heq
              rw [hrc] at heq
              simp only [Prod.mk.injEq, Res.ok.injEq] at heq
              obtain ⟨rfl, rfl⟩ := heq
              rw [if_neg hlen0, if_neg hlt0]
              exact ih _ _ _ pos' want' tail t e (fun s' hs' => hh s' (by simp [hs'])) hadv hw hp hbad

/-- `advance` for the devices that exist: an even start and `k` chunks of an even length `L` that do
    not yet fill the buffer leave the loop at `pos + L·k` with `want − L·k` to go. -/
theorem advance_uniform (L : Nat) (hL : 0 < L) (hL2 : L % 2 = 0) (ds : List (List Nat)) :
    ∀ pos want, pos % 2 = 0 → (∀ d ∈ ds, d.length = L) → L * ds.length ≤ want →
      pos + L * ds.length ≤ 131072 →
      advance pos want ds = some (pos + L * ds.length, want - L * ds.length) := by
  induction ds with
  | nil => intro pos want _ _ _ _; simp [advance]
  | cons d ds ih =>
    intro pos want hpos hlen hw hp
    have hd : d.length = L := hlen d (by simp)
    have hmul : L * (d :: ds).length = L * ds.length + L := by simp [Nat.mul_succ]
    rw [hmul] at hw hp ⊢
    simp only [advance, hpos, List.drop_zero, hd]
    rw [if_neg (by omega), if_neg (by omega), if_neg (by omega), if_neg (by omega)]
    rw [ih (pos + L) (want - L) (by omega) (fun d' hd' => hlen d' (by simp [hd'])) (by omega) (by omega)]
    congr 2 <;> omega

/-! ### `clear_errors` in front of every `read` -/

/-- The status register image decodes and `SiiControl::has_error` is `b`. -/
def HasErr (b : Bool) (p : Pdu) : Prop := ∃ c, unpackSii p.data = .ok c ∧ c.hasError = b

/-- The datagrams of a `clear_errors` that succeeded: the checked status read (FPRD 0x0502) and, if
    it showed error flags, the checked write-and-read-back of the reset (FPWR 0x0502, `send_receive`). -/
inductive ClearOk : List Ev → Prop
  | clean (p : Pdu) : p.wkc = 1 → HasErr false p → ClearOk [.resp p]
  | reset (p p2 : Pdu) : p.wkc = 1 → HasErr true p → p2.wkc = 1 → HasErr false p2 → ClearOk [.resp p, .resp p2]

theorem clearErrors_of_clearOk (c : List Ev) (hc : ClearOk c) (t : List Ev) : clearErrors (c ++ t) = (.ok (), t) := by
  cases hc with
  | clean p hw he =>
    obtain ⟨st, hst, hb⟩ := he
    simp only [List.cons_append, List.nil_append, clearErrors]
    rw [receive_resp _ _ _ hw, hst]
    simp [hb]
  | reset p p2 hw he hw2 he2 =>
    obtain ⟨st, hst, hb⟩ := he
    obtain ⟨st2, hst2, hb2⟩ := he2
    simp only [List.cons_append, List.nil_append, clearErrors]
    rw [receive_resp _ _ _ hw, hst]
    simp only [hb, if_true]
    rw [sendReceive_resp _ _ _ hw2, hst2]
    simp [hb2]

theorem clearErrors_ok_clearOk (tr rest : List Ev) (h : clearErrors tr = (.ok (), rest)) :
    ∃ c, ClearOk c ∧ tr = c ++ rest := by
  cases tr with
  | nil => simp [clearErrors] at h
  | cons e t =>
    simp only [clearErrors] at h
    split at h
    · simp at h
    · rename_i st h1
      obtain ⟨p, he, hw, hu⟩ := read1_ok _ _ _ _ h1
      by_cases herr : st.hasError = true
      · rw [if_pos herr] at h
        cases t with
        | nil => simp at h
        | cons e2 t2 =>
          simp only at h
          split at h
          · simp at h
          · rename_i st2 h2
            obtain ⟨p2, he2, hw2, hu2⟩ := write1_ok _ _ _ _ h2
            by_cases herr2 : st2.hasError = true
            · rw [if_pos herr2] at h; simp at h
            · rw [if_neg herr2] at h
              simp only [Prod.mk.injEq, true_and] at h
              subst h
              exact ⟨[.resp p, .resp p2], .reset p p2 hw ⟨st, hu, herr⟩ hw2 ⟨st2, hu2, by simpa using herr2⟩, by rw [he, he2]; rfl⟩
      · rw [if_neg herr] at h
        simp only [Prod.mk.injEq, true_and] at h
        subst h
        exact ⟨[.resp p], .clean p hw ⟨st, hu, by simpa using herr⟩, by rw [he]; rfl⟩

/-- The ways `clear_errors` fails on the wire. -/
inductive ClearFault : List Ev → Err → Prop
  | status (p : Pdu) : p.wkc ≠ 1 → ClearFault [.resp p] (.workingCounter 1 p.wkc)
  | statusLost : ClearFault [.lost] (.timeout .pdu)
  | reset (p p2 : Pdu) : p.wkc = 1 → HasErr true p → p2.wkc ≠ 1 → ClearFault [.resp p, .resp p2] (.workingCounter 1 p2.wkc)
  | resetLost (p : Pdu) : p.wkc = 1 → HasErr true p → ClearFault [.resp p, .lost] (.timeout .pdu)

theorem clearFault_error (f : List Ev) (e : Err) (hf : ClearFault f e) (t : List Ev) :
    clearErrors (f ++ t) = (.error e, t) := by
  cases hf with
  | status p hw =>
    simp only [List.cons_append, List.nil_append, clearErrors]
    rw [receive_resp_mismatch _ _ _ hw]
  | statusLost =>
    simp only [List.cons_append, List.nil_append, clearErrors]
    rw [receive_lost]
  | reset p p2 hw he hw2 =>
    obtain ⟨st, hst, hb⟩ := he
    simp only [List.cons_append, List.nil_append, clearErrors]
    rw [receive_resp _ _ _ hw, hst]
    simp only [hb, if_true]
    rw [sendReceive_resp_mismatch _ _ _ hw2]
  | resetLost p hw he =>
    obtain ⟨st, hst, hb⟩ := he
    simp only [List.cons_append, List.nil_append, clearErrors]
    rw [receive_resp _ _ _ hw, hst]
    simp [hb, exch, WrappedWrite.sendReceive]

/-! ### `read` -/

theorem rangeRead_ok (pos endp n : Nat) (tr : List Ev) (out : List Nat) (pos' : Nat) (rest : List Ev)
    (h : rangeRead pos endp n tr = (.ok (out, pos'), rest)) :
    (endp - pos = 0 ∧ out = [] ∧ pos' = pos ∧ rest = tr) ∨
    (endp - pos ≠ 0 ∧ ∃ (clr : List Ev) (segs : List ChunkSeg), ClearOk clr ∧
      tr = clr ++ (segs.flatMap ChunkSeg.events ++ rest) ∧ (∀ s ∈ segs, s.Checked) ∧
      out = gather pos (min n (endp - pos)) (segs.map fun s => s.data.data) ∧
      out.length = min n (endp - pos) ∧ pos' = pos + min n (endp - pos)) := by
  unfold rangeRead at h
  split at h
  · rename_i h0
    simp only [Prod.mk.injEq, ERes.ok.injEq] at h
    obtain ⟨⟨rfl, rfl⟩, rfl⟩ := h
    exact Or.inl ⟨h0, rfl, rfl, rfl⟩
  · rename_i h0
    split at h
    · simp at h
    · rename_i t hclr
      obtain ⟨clr, hc, hshape⟩ := clearErrors_ok_clearOk _ _ hclr
      obtain ⟨segs, hsegs, hchk, hout, hl, hp⟩ := readLoop_ok _ _ _ _ _ _ _ h
      exact Or.inr ⟨h0, clr, segs, hc, by rw [hshape, hsegs], hchk, by simpa using hout, by simpa using hl, hp⟩

/-- A `read` that returns `Ok` returns as many bytes as were asked for and lie inside the window. -/
theorem rangeRead_ok_length (pos endp n : Nat) (tr : List Ev) (out : List Nat) (pos' : Nat) (rest : List Ev)
    (h : rangeRead pos endp n tr = (.ok (out, pos'), rest)) : out.length = min n (endp - pos) := by
  rcases rangeRead_ok _ _ _ _ _ _ _ h with ⟨h0, rfl, _, _⟩ | ⟨_, _, _, _, _, _, _, hl, _⟩
  · simp [h0]
  · exact hl

theorem rangeRead_fault_clear (pos endp n : Nat) (f : List Ev) (e : Err) (t : List Ev)
    (h0 : endp - pos ≠ 0) (hf : ClearFault f e) : rangeRead pos endp n (f ++ t) = (.error (.base e), t) := by
  unfold rangeRead
  rw [if_neg h0, clearFault_error f e hf t]

theorem rangeRead_fault_chunk (pos endp n : Nat) (clr : List Ev) (segs : List ChunkSeg) (pos' want' : Nat)
    (f : List Ev) (e : Err) (t : List Ev) (h0 : endp - pos ≠ 0) (hc : ClearOk clr) (hh : ∀ s ∈ segs, s.Healthy)
    (hadv : advance pos (min n (endp - pos)) (segs.map fun s => s.data.data) = some (pos', want'))
    (hw : 0 < want') (hp : pos' / 2 < 65536) (hf : ChunkFault f e) :
    rangeRead pos endp n (clr ++ (segs.flatMap ChunkSeg.events ++ (f ++ t))) = (.error (.base e), t) := by
  unfold rangeRead
  rw [if_neg h0, clearErrors_of_clearOk clr hc]
  exact readLoop_stops_at_failing_chunk segs _ _ _ pos' want' (f ++ t) t e hh hadv hw hp (chunkFault_error f e hf t)

/-! ### `read_exact` -/

theorem readExactLoop_ok_length (pos endp rem : Nat) (acc : List Nat) (tr : List Ev) :
    ∀ out rest, readExactLoop pos endp rem acc tr = (.ok out, rest) → out.length = acc.length + rem := by
  fun_induction readExactLoop pos endp rem acc tr <;> intro out rest h
  all_goals first
    | (simp at h; done)
    | (simp only [Prod.mk.injEq, ERes.ok.injEq] at h; obtain ⟨rfl, _⟩ := h; omega)
    | (rename_i hrr _ _ ih
       have hl := rangeRead_ok_length _ _ _ _ _ _ _ hrr
       rw [ih out rest h, List.length_append]; omega)

/-- When the window holds the `n > 0` bytes asked for, `read_exact` is ONE `read`. -/
theorem readExact_single (pos endp n : Nat) (tr : List Ev) (hn : 0 < n) (hfit : n ≤ endp - pos) :
    readExactLoop pos endp n [] tr = bytesOnly (rangeRead pos endp n tr) := by
  rw [readExactLoop, dif_neg (by omega)]
  cases hrr : rangeRead pos endp n tr with
  | mk r t =>
    cases r with
    | error e => simp [bytesOnly]
    | ok v =>
      obtain ⟨bytes, p'⟩ := v
      have hl := rangeRead_ok_length _ _ _ _ _ _ _ hrr
      have hl' : bytes.length = n := by omega
      simp only [bytesOnly]
      rw [dif_neg (by omega), readExactLoop, dif_pos (by omega)]
      simp

/-! ### `category` and `fmmus` -/

/-- A category search that returned `Ok` consumed chunk reads ALL of whose required datagrams were
    serviced. -/
theorem categoryLoop_ok (cat wa ne : Nat) (tr : List Ev) :
    ∀ r rest, categoryLoop cat wa ne tr = (.ok r, rest) →
      ∃ segs : List ChunkSeg, tr = segs.flatMap ChunkSeg.events ++ rest ∧ ∀ s ∈ segs, s.Checked := by
  fun_induction categoryLoop cat wa ne tr <;> intro r rest h
  all_goals first
    | (simp at h; done)
    | (obtain ⟨s, hs, hc, _⟩ := readChunk_ok_seg _ _ _ (by assumption)
       simp only [Prod.mk.injEq] at h
       obtain ⟨_, rfl⟩ := h
       exact ⟨[s], by simp [hs], by simpa using hc⟩)
    | (rename_i ih
       obtain ⟨segs, hsegs, hchk⟩ := ih r rest h
       obtain ⟨s, hs, hc, _⟩ := readChunk_ok_seg _ _ _ (by assumption)
       refine ⟨s :: segs, by rw [hs, hsegs]; simp, ?_⟩
       intro s' hs'
       rcases List.mem_cons.1 hs' with rfl | h'
       · exact hc
       · exact hchk s' h')

/-- The search stops at the first chunk read that fails, with its error. -/
theorem categoryLoop_first_chunk_fault (cat wa ne : Nat) (tr t : List Ev) (e : Err)
    (h : readChunk tr = (.error e, t)) : categoryLoop cat wa ne tr = (.error (.base e), t) := by
  rw [categoryLoop]
  split
  · rename_i e' t' heq
    rw [h] at heq
    simp only [Prod.mk.injEq, Res.error.injEq] at heq
    obtain ⟨rfl, rfl⟩ := heq
    rfl
  · rename_i chunk t' heq
    rw [h] at heq
    simp at heq

theorem parseFmmus_length : ∀ (bytes us : List Nat), parseFmmus bytes = some us → us.length = bytes.length := by
  intro bytes
  induction bytes with
  | nil => intro us h; simp [parseFmmus] at h; simp [h]
  | cons b rest ih =>
    intro us h
    simp only [parseFmmus] at h
    split at h
    · simp at h
    · split at h
      · simp at h
      · rename_i us' hus'
        simp only [Option.some.injEq] at h
        subst h
        simp [ih us' hus']

/-! ### `write` / `write_all` -/

/-- The datagrams of completed `write_word`s: for each word everything up to its last status poll,
    and that poll (the acknowledgement that the interface finished). -/
def wordsEvents (ws : List (List Ev × Pdu)) : List Ev := ws.flatMap fun w => w.1 ++ [.resp w.2]

theorem writeWord_ok_seg (tr rest : List Ev) (h : writeWord tr = (.ok (), rest)) :
    ∃ (pre : List Ev) (p : Pdu), tr = pre ++ .resp p :: rest ∧ p.wkc = 1 := by
  unfold writeWord at h
  split at h
  · simp at h
  · rename_i st t hw
    obtain ⟨polls, p0, hshape, _, _, _, _⟩ := waitWhileBusy_ok _ _ _ hw
    obtain ⟨pre, p, hp, hpw⟩ := writeLoop_ok 0 t rest h
    exact ⟨polls.map Ev.resp ++ .resp p0 :: pre, p, by rw [hshape, hp]; simp, hpw⟩

/-- `write`'s loop said `Ok`: every word it wrote ended on a status poll that came back with working
    counter 1; and when the window holds the whole buffer, ALL `⌈len/2⌉` words were written and
    `written` grew by the whole buffer length. -/
theorem writeLoopR_ok (pos endp : Nat) (buf : List Nat) (written : Nat) (tr : List Ev) :
    ∀ w' pos' rest, writeLoopR pos endp buf written tr = (.ok (w', pos'), rest) →
      ∃ ws : List (List Ev × Pdu), tr = wordsEvents ws ++ rest ∧ (∀ w ∈ ws, w.2.wkc = 1) ∧
        ((buf.length + 1) / 2 * 2 ≤ endp - pos → w' = written + buf.length ∧ ws.length = (buf.length + 1) / 2) := by
  fun_induction writeLoopR pos endp buf written tr <;> intro w' pos' rest h
  case case1 | case2 =>
    simp only [Prod.mk.injEq, ERes.ok.injEq] at h
    obtain ⟨⟨rfl, rfl⟩, rfl⟩ := h
    refine ⟨[], by simp [wordsEvents], by simp, ?_⟩
    intro hfit
    constructor <;> (try simp only [List.length_nil] at hfit ⊢) <;> omega
  case case3 | case4 | case6 | case7 => simp at h
  case case5 | case8 =>
    rename_i ih
    obtain ⟨ws, hws, hack, hcount⟩ := ih w' pos' rest h
    obtain ⟨pre, p, hp, hpw⟩ := writeWord_ok_seg _ _ (by assumption)
    refine ⟨(pre, p) :: ws, by rw [hp, hws]; simp [wordsEvents], ?_, ?_⟩
    · intro w hw
      rcases List.mem_cons.1 hw with rfl | h'
      · exact hpw
      · exact hack w h'
    · intro hfit
      simp only [List.length_nil, List.length_cons] at hfit hcount ⊢
      have := hcount (by omega)
      omega

/-- The word loop stops at the FIRST `write_word` that fails, with its error. `ws` are the event
    runs of the words written before (each a completed `write_word`). -/
theorem writeLoopR_stops_at_failing_word (ws : List (List Ev)) :
    ∀ (pos endp : Nat) (buf : List Nat) (written : Nat) (tail t : List Ev) (e : Err),
      (∀ w ∈ ws, ∀ x, writeWord (w ++ x) = (.ok (), x)) →
      ws.length < (buf.length + 1) / 2 → pos + 2 * ws.length < endp → (pos + 2 * ws.length) / 2 < 65536 →
      writeWord tail = (.error e, t) →
      writeLoopR pos endp buf written (ws.flatten ++ tail) = (.error (.base e), t) := by
  induction ws with
  | nil =>
    intro pos endp buf written tail t e _ hlen hend hp hbad
    simp only [List.length_nil, Nat.mul_zero, Nat.add_zero] at hlen hend hp
    simp only [List.flatten_nil, List.nil_append]
    match buf with
    | [] => simp at hlen
    | [_] =>
      simp only [writeLoopR]
      rw [if_neg (by omega), if_neg (by simpa using hp), hbad]
    | _ :: _ :: rest =>
      simp only [writeLoopR]
      rw [if_neg (by omega), if_neg (by simpa using hp), hbad]
  | cons w ws ih =>
    intro pos endp buf written tail t e hok hlen hend hp hbad
    simp only [List.length_cons] at hlen hend hp
    have hshape : (w :: ws).flatten ++ tail = w ++ (ws.flatten ++ tail) := by simp
    have hw := hok w (by simp) (ws.flatten ++ tail)
    match buf with
    | [] => simp at hlen
    | [_] => simp at hlen
    | _ :: _ :: rest =>
      simp only [List.length_cons] at hlen
      rw [hshape]
      simp only [writeLoopR]
      rw [if_neg (by omega), if_neg (by omega), hw]
      exact ih (pos + 2) endp rest (written + 2) tail t e (fun w' hw' => hok w' (by simp [hw'])) (by omega) (by omega) (by omega) hbad

theorem rangeWrite_ok (pos endp : Nat) (buf : List Nat) (tr : List Ev) (w' pos' : Nat) (rest : List Ev)
    (h : rangeWrite pos endp buf tr = (.ok (w', pos'), rest)) :
    ∃ ws : List (List Ev × Pdu), tr = wordsEvents ws ++ rest ∧ (∀ w ∈ ws, w.2.wkc = 1) ∧
      ((buf.length + 1) / 2 * 2 ≤ endp - pos → w' = buf.length ∧ ws.length = (buf.length + 1) / 2) := by
  unfold rangeWrite at h
  split at h
  · simp at h
  · obtain ⟨ws, h1, h2, h3⟩ := writeLoopR_ok _ _ _ _ _ _ _ _ h
    exact ⟨ws, h1, h2, fun hfit => by simpa using h3 hfit⟩

/-- `write_all` of a non-empty buffer into a window that holds it said `Ok`: all `⌈len/2⌉` words were
    written and every one of them was acknowledged by a status poll with working counter 1. -/
theorem writeAllLoop_ok_fits (pos endp : Nat) (buf : List Nat) (tr rest : List Ev) (hb : buf ≠ [])
    (hfit : (buf.length + 1) / 2 * 2 ≤ endp - pos) (h : writeAllLoop pos endp buf tr = (.ok (), rest)) :
    ∃ ws : List (List Ev × Pdu), tr = wordsEvents ws ++ rest ∧ (∀ w ∈ ws, w.2.wkc = 1) ∧
      ws.length = (buf.length + 1) / 2 := by
  rw [writeAllLoop, dif_neg hb] at h
  split at h
  · simp at h
  · rename_i n pos' t hrw
    obtain ⟨ws, h1, h2, h3⟩ := rangeWrite_ok _ _ _ _ _ _ _ hrw
    obtain ⟨hn, hcount⟩ := h3 hfit
    have hpos : 0 < buf.length := List.length_pos_iff.2 hb
    rw [dif_neg (by omega)] at h
    have hdrop : buf.drop n = [] := by rw [hn]; simp
    have hlast : writeAllLoop pos' endp (buf.drop n) t = (.ok (), t) := by rw [writeAllLoop, dif_pos hdrop]
    change writeAllLoop pos' endp (buf.drop n) t = _ at h
    rw [hlast] at h
    simp only [Prod.mk.injEq, true_and] at h
    subst h
    exact ⟨ws, h1, h2, hcount⟩

/-- `write_all` hands on the error of its first `write`. -/
theorem writeAllLoop_first_write_error (pos endp : Nat) (buf : List Nat) (tr t : List Ev) (e : EErr) (hb : buf ≠ [])
    (h : rangeWrite pos endp buf tr = (.error e, t)) : writeAllLoop pos endp buf tr = (.error e, t) := by
  rw [writeAllLoop, dif_neg hb, h]

/-! ### The other direction: a device that answers everything gets its data through -/

/-- The loop ends exactly after consuming these payloads with its buffer full. -/
def fills (pos want : Nat) : List (List Nat) → Bool
  | [] => want == 0
  | d :: ds =>
    want != 0 && decide (pos / 2 < 65536) && !decide (d.length < pos % 2) &&
      (if want < (d.drop (pos % 2)).length then ds.isEmpty
       else fills (pos + (d.drop (pos % 2)).length) (want - (d.drop (pos % 2)).length) ds)

theorem readLoop_healthy (segs : List ChunkSeg) :
    ∀ (pos want : Nat) (acc : List Nat) (t : List Ev), (∀ s ∈ segs, s.Healthy) →
      fills pos want (segs.map fun s => s.data.data) = true →
      readLoop pos want acc (segs.flatMap ChunkSeg.events ++ t)
        = (.ok (acc ++ gather pos want (segs.map fun s => s.data.data), pos + want), t) := by
  induction segs with
  | nil =>
    intro pos want acc t _ hf
    simp only [List.map_nil, fills, beq_iff_eq] at hf
    subst hf
    rw [readLoop, if_pos rfl]
    simp [gather]
  | cons s segs ih =>
    intro pos want acc t hh hf
    simp only [List.map_cons, fills, Bool.and_eq_true, bne_iff_ne, ne_eq, decide_eq_true_eq, Bool.not_eq_true',
      decide_eq_false_iff_not] at hf
    obtain ⟨⟨⟨hw, hp⟩, hl⟩, hrest⟩ := hf
    have hrc := readChunk_healthy s (hh s (by simp)) (segs.flatMap ChunkSeg.events ++ t)
    have hshape : (s :: segs).flatMap ChunkSeg.events ++ t = s.events ++ (segs.flatMap ChunkSeg.events ++ t) := by simp
    rw [hshape, readLoop, if_neg hw, if_neg (by simpa using hp)]
    split
    · rename_i e' t' heq
      rw [hrc] at heq
      simp at heq
    · rename_i chunk t' heq
      rw [hrc] at heq
      simp only [Prod.mk.injEq, Res.ok.injEq] at heq
      obtain ⟨rfl, rfl⟩ := heq
      rw [if_neg hl]
      by_cases hlt : want < (List.drop (pos % 2) s.data.data).length
      · rw [if_pos hlt] at hrest ⊢
        have hnil : segs = [] := by
          cases segs with
          | nil => rfl
          | cons a b => simp at hrest
        subst hnil
        simp only [List.flatMap_nil, List.nil_append, List.map_cons, List.map_nil, gather, if_pos hlt]
      · rw [if_neg hlt] at hrest ⊢
        rw [ih _ _ _ t (fun s' hs' => hh s' (by simp [hs'])) hrest]
        have e1 : pos + (List.drop (pos % 2) s.data.data).length + (want - (List.drop (pos % 2) s.data.data).length)
            = pos + want := by omega
        rw [e1]
        simp only [List.map_cons, gather, if_neg hlt, List.append_assoc]

theorem rangeRead_healthy (pos endp n : Nat) (clr : List Ev) (segs : List ChunkSeg) (t : List Ev)
    (h0 : endp - pos ≠ 0) (hc : ClearOk clr) (hh : ∀ s ∈ segs, s.Healthy)
    (hf : fills pos (min n (endp - pos)) (segs.map fun s => s.data.data) = true) :
    rangeRead pos endp n (clr ++ (segs.flatMap ChunkSeg.events ++ t))
      = (.ok (gather pos (min n (endp - pos)) (segs.map fun s => s.data.data), pos + min n (endp - pos)), t) := by
  unfold rangeRead
  rw [if_neg h0, clearErrors_of_clearOk clr hc]
  simpa using readLoop_healthy segs pos (min n (endp - pos)) [] t hh hf

theorem bytesOnly_ok (x : ERes (List Nat × Nat) × List Ev) (out : List Nat) (rest : List Ev)
    (h : bytesOnly x = (.ok out, rest)) : ∃ pos', x = (.ok (out, pos'), rest) := by
  obtain ⟨r, t⟩ := x
  cases r with
  | error e => simp [bytesOnly] at h
  | ok v =>
    obtain ⟨b, p⟩ := v
    simp only [bytesOnly, Prod.mk.injEq, ERes.ok.injEq] at h
    obtain ⟨rfl, rfl⟩ := h
    exact ⟨p, rfl⟩

end Ec.Wkc
