/-
  EcModel.DcSync — C18: DC sync set-up (`SubDeviceGroup::configure_dc_sync`,
  src/subdevice_group/mod.rs) and the per-cycle timing arithmetic at the end of `tx_rx_dc`.

  Hand translation, line by line. All arithmetic is on `u64` with the crate's *unchecked*
  operators (except the first-pulse addition, which is a `checked_add` since fix 42e28a2a), so it goes
  through helpers parameterised by `Ec.Mode` (`checked` = overflow-checks on:
  overflow panics; `wrapping` = release: two's-complement wrap). Division and remainder by zero
  panic in both modes. `Duration::as_nanos()` is a `u128`: the three `DcConfiguration` durations and
  `sync1_period` are therefore unbounded-looking naturals here (the harness feeds values up to and
  beyond 2^64).

  Environment: every datagram is answered (working counter 1); network errors/timeouts are outside
  this model. The value read from `DcSystemTime` of the reference is the parameter `sys`.
  Register addresses and flag constants are regenerated from /repo (`Ec.Gen.Dc`).
-/
import EcModel.Basic
import EcModel.Generated.Dc

namespace Ec.DcSync
open Ec

def U32_MAX : Nat := 4294967295
def U64 : Nat := 18446744073709551616

/-- `a + b` on `u64` (Rust `+`). -/
def addU64 {ε : Type} (m : Mode) (a b : Nat) : Outcome ε Nat :=
  if a + b < U64 then .ok (a + b)
  else match m with
    | .checked => .panic "attempt to add with overflow"
    | .wrapping => .ok ((a + b) % U64)

/-- `a - b` on `u64` (Rust `-`). -/
def subU64 {ε : Type} (m : Mode) (a b : Nat) : Outcome ε Nat :=
  if b ≤ a then .ok (a - b)
  else match m with
    | .checked => .panic "attempt to subtract with overflow"
    | .wrapping => .ok ((a + U64 - b) % U64)

/-- `a * b` on `u64` (Rust `*`). -/
def mulU64 {ε : Type} (m : Mode) (a b : Nat) : Outcome ε Nat :=
  if a * b < U64 then .ok (a * b)
  else match m with
    | .checked => .panic "attempt to multiply with overflow"
    | .wrapping => .ok ((a * b) % U64)

/-- `a / b` on `u64`: division by zero panics in every build. -/
def divU64 {ε : Type} (a b : Nat) : Outcome ε Nat :=
  if b = 0 then .panic "attempt to divide by zero" else .ok (a / b)

/-- `a % b` on `u64`. -/
def remU64 {ε : Type} (a b : Nat) : Outcome ε Nat :=
  if b = 0 then .panic "attempt to calculate the remainder with a divisor of zero" else .ok (a % b)

/-- `subdevice::dc::DcSync`; `sync1_period.as_nanos()` kept as the `u128` it is. -/
inductive SyncCfg where
  | disabled
  | sync0
  | sync01 (sync1Nanos : Nat)
  deriving Repr, DecidableEq

/-- What `configure_dc_sync` looks at in a `SubDevice`: configured address, `dc_support().any()`,
    `dc_sync()`. -/
structure Dev where
  addr : Nat
  dcAny : Bool
  sync : SyncCfg
  deriving Repr, DecidableEq

/-- One register write `subdevice.write(reg).send(value)` (FPWR to `addr`), payload little endian. -/
structure Write where
  addr : Nat
  reg : Nat
  data : List Nat
  deriving Repr, DecidableEq

/-- `HasDc { sync0_period, sync0_shift, reference }`. -/
structure HasDc where
  period : Nat
  shift : Nat
  reference : Nat
  deriving Repr, DecidableEq

inductive Err where
  | noReference          -- Error::DistributedClock(DistributedClockError::NoReference)
  | intConv              -- Error::IntegerTypeConversion (from TryFromIntError)
  deriving Repr, DecidableEq

/-- The `dc_devices` filter: `dc_support().any() && !matches!(dc_sync(), DcSync::Disabled)`. -/
def wants (d : Dev) : Bool :=
  d.dcAny && (match d.sync with | .disabled => false | _ => true)

def flagValue (name : String) : Nat :=
  if name = "CYCLIC_OP_ENABLE" then Gen.Dc.CYCLIC_OP_ENABLE
  else if name = "SYNC0_ACTIVATE" then Gen.Dc.SYNC0_ACTIVATE
  else if name = "SYNC1_ACTIVATE" then Gen.Dc.SYNC1_ACTIVATE
  else 0

/-- `A | B | C` over the flag names extracted from the source. -/
def flagsOr (terms : List String) : Nat := terms.foldl (fun acc t => acc ||| flagValue t) 0

/-- `SYNC1_ACTIVATE | SYNC0_ACTIVATE | CYCLIC_OP_ENABLE` -/
def flagsSync01 : Nat := flagsOr Gen.Dc.flagTermsSync01
/-- `SYNC0_ACTIVATE | CYCLIC_OP_ENABLE` -/
def flagsSync0 : Nat := flagsOr Gen.Dc.flagTermsSync0

/-- `first_pulse_time / sync0_period * sync0_period` -/
def startTime (m : Mode) (first period : Nat) : Outcome Err Nat :=
  match (divU64 first period : Outcome Err Nat) with
  | .ok q => mulU64 m q period
  | .err e => .err e
  | .panic w => .panic w

/-- Body of `for subdevice in dc_devices { .. }` for one device: the writes performed (also when
    the body ends early) and how the body ended. -/
def devBody (m : Mode) (first period : Nat) (d : Dev) : List Write × Outcome Err Unit :=
  -- "Disable cyclic op, ignore WKC"
  let w0 : List Write := [⟨d.addr, Gen.Dc.REG_DcSyncActive, [0]⟩]
  match startTime m first period with
  | .panic w => (w0, .panic w)
  | .err e => (w0, .err e)
  | .ok st =>
    let w1 := w0 ++ [⟨d.addr, Gen.Dc.REG_DcSyncStartTime, le64 st⟩,
                     ⟨d.addr, Gen.Dc.REG_DcSync0CycleTime, le64 period⟩]
    match d.sync with
    | .sync01 s1 =>
      -- `u64::try_from(sync1_period.as_nanos())?`
      if s1 < U64 then
        (w1 ++ [⟨d.addr, Gen.Dc.REG_DcSync1CycleTime, le64 s1⟩,
                ⟨d.addr, Gen.Dc.REG_DcSyncActive, [flagsSync01]⟩], .ok ())
      else (w1, .err .intConv)
    | _ => (w1 ++ [⟨d.addr, Gen.Dc.REG_DcSyncActive, [flagsSync0]⟩], .ok ())

/-- The `for` loop over the filtered iterator. -/
def devLoop (m : Mode) (first period : Nat) : List Dev → List Write × Outcome Err Unit
  | [] => ([], .ok ())
  | d :: ds =>
    if wants d then
      match devBody m first period d with
      | (w, .ok ()) =>
        let r := devLoop m first period ds
        (w ++ r.1, r.2)
      | (w, .err e) => (w, .err e)
      | (w, .panic s) => (w, .panic s)
    else devLoop m first period ds

/-- `SubDeviceGroup::configure_dc_sync`. `refAddr` = `dc_reference_configured_address` (0 = none),
    `sys` = the `DcSystemTime` value read from the reference, the three durations in nanoseconds.
    Returns all register writes that reached the wire, and the result. -/
def configureDcSync (m : Mode) (refAddr sys startDelay period shift : Nat) (devs : List Dev) :
    List Write × Outcome Err HasDc :=
  -- `maindevice.dc_ref_address()`: `if addr > 0 { Some(addr) } else { None }`
  if refAddr = 0 then ([], .err .noReference)
  -- `u64::from(u32::try_from(sync0_period.as_nanos())?)`
  else if period > U32_MAX then ([], .err .intConv)
  -- `u64::from(u32::try_from(start_delay.as_nanos())?)`
  else if startDelay > U32_MAX then ([], .err .intConv)
  -- `system_time.checked_add(first_pulse_delay).ok_or(Error::IntegerTypeConversion)?`
  else if ¬ (sys + startDelay < U64) then ([], .err .intConv)
  else
    match devLoop m (sys + startDelay) period devs with
    | (w, .ok ()) => (w, .ok ⟨period, shift % U64, refAddr⟩)   -- `sync0_shift.as_nanos() as u64`
    | (w, .err e) => (w, .err e)
    | (w, .panic s) => (w, .panic s)

/-- Tail of `tx_rx_dc`: `(cycle_start_offset, next_cycle_wait)` in nanoseconds for the `u64` system
    time `time` returned by the FRMW datagram. -/
def cycleInfo (m : Mode) (h : HasDc) (time : Nat) : Outcome Err (Nat × Nat) :=
  -- `let cycle_start_offset = time % self.dc_conf.sync0_period;`
  match (remU64 time h.period : Outcome Err Nat) with
  | .ok off =>
    -- `(self.dc_conf.sync0_period - cycle_start_offset) + self.dc_conf.sync0_shift`
    match (subU64 m h.period off : Outcome Err Nat) with
    | .ok d =>
      match (addU64 m d h.shift : Outcome Err Nat) with
      | .ok w => .ok (off, w)
      | .err e => .err e
      | .panic s => .panic s
    | .err e => .err e
    | .panic s => .panic s
  | .err e => .err e
  | .panic s => .panic s

end Ec.DcSync
