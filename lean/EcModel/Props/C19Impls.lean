/-
  C19 — the hand-written impls of ethercrab-wire/src/impls.rs: `heapless::Vec<T, N>`, `heapless::String<N>`, `[T; N]`,
  tuples, `()`, `bool`, and the `EtherCrabWireSized::buffer()` sizes.
  Property theorems only; the model is EcModel/WireImpls.lean (+ `decTuple`, `Codec.array`, `Codec.bool`, `Codec.unitTy` of
  EcModel/Wire.lean), helper lemmas are in EcModel/Lemmas/WireImpls.lean.

  Reading guide. A buffer is ANY list of bytes of ANY length. `hvecDec c n buf` is
  `<heapless::Vec<T, n>>::unpack_from_slice(buf)` for an element type with codec `c` (`c.len = T::PACKED_LEN`);
  `hstrDec n buf` is `<heapless::String<n>>::unpack_from_slice(buf)`; `arrayDecImpl c n buf` is
  `<[T; n]>::unpack_from_slice(buf)`; `decTuple cs buf` is the tuple decoder over component codecs `cs`;
  `tuplePackU` / `tuplePackToSlice` are the tuple's `pack_to_slice_unchecked` / `pack_to_slice`.
  `decChunks c k buf` decodes `k` consecutive elements from offsets `0, len, 2·len, …` (first failure wins);
  `slice buf a b` is `&buf[a..b]`. An outcome is `.ok v`, `.err e` (a `WireError`) or `.panic why`.

  Hypotheses that appear:
  * `0 < c.len`                  — the element type is not zero-sized (`heapless::Vec<(), N>` / `[(); N]` panic in
                                   `chunks_exact(0)` for every buffer: `heapless_vec_zero_size_panics`);
  * `∀ b why, c.dec b ≠ .panic why` — the element decoder itself does not panic (true of every lawful codec);
  * `AllLawfulC cs`              — the tuple's components obey the trait laws `Lawful` (primitives, bool, arrays of them,
                                   derived structs/enums: Lemmas/WireCodecs). `heapless::Vec` / `heapless::String` components
                                   are NOT lawful (they accept buffers shorter than PACKED_LEN); the layout theorems
                                   (`tuple_unpack_fields`, `tuple_roundtrip`, …) are about lawful components;
  * `Modelled c`                 — any component type of the model: lawful ones, `()`, `heapless::Vec` / `[T; N]` over a
                                   modelled element of non-zero size, `heapless::String`. `tuple_unpack_total` (never a
                                   panic) holds for ALL of them since fix-c19-tuple-short (`buf.get(PACKED_LEN..)` instead of
                                   `&buf[PACKED_LEN..]`); the former witnesses are `tuple_unpack_short_heapless_fixed`.
-/
import EcModel.Lemmas.WireImpls

namespace Ec.C19
open Ec Ec.Wire

/-! ## `heapless::Vec<T, N>` -/

/-- **heapless_vec_unpack_total.** Whatever the buffer (shorter than, equal to or longer than N elements, with or without a
    trailing partial element) and whatever N: decoding a `heapless::Vec<T, N>` never panics — neither `chunks_exact`
    (element size > 0) nor the `collect` into the fixed-capacity vector (`.take(N)` bounds the number of pushes). -/
theorem heapless_vec_unpack_total (c : Codec) (hpos : 0 < c.len) (hc : ∀ b why, c.dec b ≠ .panic why)
    (n : Nat) (buf : List Nat) (why : String) : hvecDec c n buf ≠ .panic why := by
  rw [hvecDec_eq c hpos]
  exact bindO_ne_panic (fun w => decChunks_total' c hc _ _ w) (fun a w => by simp) why

/-- **heapless_vec_unpack_prefix.** A buffer of at least `N * size` bytes decodes to exactly its first N elements (the rest
    is ignored); a shorter buffer decodes to the complete elements present (`⌊len / size⌋` of them; a trailing partial
    element is dropped). Elements are decoded in order and the first failing element's error is the result. -/
theorem heapless_vec_unpack_prefix (c : Codec) (hpos : 0 < c.len) (n : Nat) (buf : List Nat) :
    (n * c.len ≤ buf.length → hvecDec c n buf = bindO (decChunks c n buf) fun vs => .ok (.seq vs)) ∧
    (buf.length < n * c.len → hvecDec c n buf = bindO (decChunks c (buf.length / c.len) buf) fun vs => .ok (.seq vs)) := by
  rw [hvecDec_eq c hpos]
  constructor
  · intro h
    have : n ≤ buf.length / c.len := (Nat.le_div_iff_mul_le hpos).mpr h
    rw [Nat.min_eq_left this]
  · intro h
    have : buf.length / c.len < n := (Nat.div_lt_iff_lt_mul hpos).mpr h
    rw [Nat.min_eq_right (by omega)]

/-- What a successful decode holds: `min N ⌊len / size⌋` elements, element `i` decoded from bytes
    `[i * size, i * size + size)` of the buffer. -/
theorem heapless_vec_unpack_elements (c : Codec) (hpos : 0 < c.len) (n : Nat) (buf : List Nat) (vs : List Val)
    (h : hvecDec c n buf = .ok (.seq vs)) :
    vs.length = min n (buf.length / c.len) ∧
    ∀ i (hi : i < vs.length), c.dec (slice buf (i * c.len) (i * c.len + c.len)) = .ok vs[i] := by
  rw [hvecDec_eq c hpos] at h
  obtain ⟨vs', hvs', h⟩ := bindO_eq_ok.mp h
  simp only [Outcome.ok.injEq, Val.seq.injEq] at h
  subst h
  exact decChunks_get c _ buf vs' hvs'

/-- For the unsigned primitives (u8, u16, u32, u64 = `Codec.uN 1/2/4/8`) the decode always succeeds and element `i` is the
    little-endian value of bytes `[i * k, i * k + k)`: the first `min N ⌊len / k⌋` elements of the declared layout. -/
theorem heapless_vec_unpack_prims (k : Nat) (hk : 0 < k) (n : Nat) (buf : List Nat) :
    ∃ vs, hvecDec (Codec.uN k) n buf = .ok (.seq vs) ∧ vs.length = min n (buf.length / k) ∧
      ∀ i (hi : i < vs.length), vs[i] = .int (leVal (slice buf (i * k) (i * k + k))) := by
  have hpos : 0 < (Codec.uN k).len := hk
  have hfit : min n (buf.length / k) * k ≤ buf.length :=
    Nat.le_trans (Nat.mul_le_mul_right k (Nat.min_le_right _ _)) (Nat.div_mul_le_self _ _)
  obtain ⟨vs, hvs⟩ := decChunks_uN k (min n (buf.length / k)) buf hfit
  have hdec : hvecDec (Codec.uN k) n buf = .ok (.seq vs) := by
    rw [hvecDec_eq _ hpos]
    show bindO (decChunks (Codec.uN k) (min n (buf.length / k)) buf) _ = _
    rw [hvs]; rfl
  obtain ⟨hl, hg⟩ := heapless_vec_unpack_elements _ hpos n buf vs hdec
  refine ⟨vs, hdec, hl, ?_⟩
  intro i hi
  have hlen : vs.length = min n (buf.length / k) := hl
  have hin : i * k + k ≤ buf.length := by
    have h1 : (i + 1) * k ≤ min n (buf.length / k) * k := Nat.mul_le_mul_right k (by omega)
    rw [Nat.succ_mul] at h1
    omega
  have hsl : (slice buf (i * k) (i * k + k)).length = k := by
    simp only [slice, List.length_take, List.length_drop]; omega
  have := hg i hi
  simp only [Codec.uN] at this
  have h1 : ¬ (slice buf (i * k) (i * k + k)).length < k := by omega
  simp only [h1, if_false, Outcome.ok.injEq] at this
  rw [← this, List.take_of_length_le (by omega)]

/-- Zero-sized elements (`heapless::Vec<(), N>`): `chunks_exact(0)` panics for EVERY buffer. This is why the theorems above
    assume `0 < c.len`. -/
theorem heapless_vec_zero_size_panics (c : Codec) (h0 : c.len = 0) (n : Nat) (buf : List Nat) :
    hvecDec c n buf = .panic "chunk size must be non-zero" := by
  simp [hvecDec, chunksExact, h0, bindO]

/-- **heapless_vec_no_take_counterexample.** What `.take(N)` is there for: the same pipeline without it panics inside
    heapless' `FromIterator` (`Vec::from_iter overflow`) for EVERY N as soon as the buffer holds N + 1 elements of an
    unsigned primitive. -/
theorem heapless_vec_no_take_counterexample (k : Nat) (hk : 0 < k) (n : Nat) (buf : List Nat)
    (hl : (n + 1) * k ≤ buf.length) :
    hvecDecNoTake (Codec.uN k) n buf = .panic "Vec::from_iter overflow" := by
  apply hvecDecNoTake_overflow (Codec.uN k) hk _ n buf hl
  intro ch hch
  have h1 : ¬ ch.length < k := by
    have : ch.length = k := hch
    omega
  exact ⟨.int (leVal (ch.take k)), by simp only [Codec.uN, h1, if_false]⟩

/-- Concrete witness: `heapless::Vec<u8, 1>` on the two bytes `00 00`. -/
theorem heapless_vec_no_take_witness :
    hvecDecNoTake (Codec.uN 1) 1 [0, 0] = .panic "Vec::from_iter overflow" ∧
    hvecDec (Codec.uN 1) 1 [0, 0] = .ok (.seq [.int 0]) := ⟨by rfl, by rfl⟩

/-! ## `heapless::String<N>` -/

/-- **heapless_string_unpack.** For every buffer and every N: never a panic; invalid UTF-8 is `InvalidUtf8`; valid UTF-8 of
    more than N bytes is `ArrayLength`; valid UTF-8 of at most N bytes is the string holding exactly the buffer's bytes
    (the whole buffer is the string: `PACKED_LEN = N` is a capacity, not a length). -/
theorem heapless_string_unpack (n : Nat) (buf : List Nat) :
    (∀ why, hstrDec n buf ≠ .panic why) ∧
    (utf8Valid buf = false → hstrDec n buf = .err .invalidUtf8) ∧
    (utf8Valid buf = true → n < buf.length → hstrDec n buf = .err .arrayLength) ∧
    (utf8Valid buf = true → buf.length ≤ n → hstrDec n buf = .ok (.seq (buf.map fun (b : Nat) => .int (b : Int)))) := by
  refine ⟨?_, ?_, ?_, ?_⟩
  · intro why h
    unfold hstrDec at h
    split at h
    · split at h <;> cases h
    · cases h
  · intro h; simp [hstrDec, h]
  · intro h hl
    have : ¬ buf.length ≤ n := by omega
    simp [hstrDec, h, this]
  · intro h hl; simp [hstrDec, h, hl]

/-- Round trip with `str::as_bytes` as the writer (the crate has no `EtherCrabWireWrite` impl for strings): the UTF-8
    encoding of ANY sequence of Unicode scalar values, if it has at most N bytes, decodes to the string with exactly those
    bytes; if it is longer the answer is `ArrayLength`. -/
theorem heapless_string_roundtrip (n : Nat) (cps : List Nat) (hs : ∀ cp ∈ cps, isScalar cp) :
    ((encodeStr cps).length ≤ n →
      hstrDec n (encodeStr cps) = .ok (.seq ((encodeStr cps).map fun (b : Nat) => .int (b : Int)))) ∧
    (n < (encodeStr cps).length → hstrDec n (encodeStr cps) = .err .arrayLength) :=
  ⟨(heapless_string_unpack n _).2.2.2 (utf8Valid_encodeStr cps hs),
   (heapless_string_unpack n _).2.2.1 (utf8Valid_encodeStr cps hs)⟩

/-- A multi-byte code point cut off by the end of the buffer is invalid, whatever precedes it: "€" = e2 82 ac cut after
    two bytes, after a valid prefix. -/
theorem heapless_string_cut_code_point (n : Nat) (cps : List Nat) (hs : ∀ cp ∈ cps, isScalar cp) :
    hstrDec n (encodeStr cps ++ [0xe2, 0x82]) = .err .invalidUtf8 := by
  have h : utf8Valid (encodeStr cps ++ [0xe2, 0x82]) = false := by
    induction cps with
    | nil => rfl
    | cons cp cps ih =>
      simp only [encodeStr, List.append_assoc]
      rw [utf8Valid_encodeCp cp (hs cp (List.mem_cons_self ..))]
      exact ih (fun x hx => hs x (List.mem_cons_of_mem _ hx))
  exact (heapless_string_unpack n _).2.1 h

/-! ## `[T; N]` -/

/-- **array_unpack_exact.** For every buffer and every N: fewer than `N * size` bytes is `ReadBufferTooShort` (the code
    checks this first; the `ArrayLength` of `into_array` is unreachable: `array_impl_is_codec_array`); at least
    `N * size` bytes decode to exactly the first N elements, trailing bytes ignored; never a panic (element size > 0). -/
theorem array_unpack_exact (c : Codec) (n : Nat) (buf : List Nat) :
    (buf.length < c.len * n → arrayDecImpl c n buf = .err .readBufferTooShort) ∧
    (0 < c.len → c.len * n ≤ buf.length →
      arrayDecImpl c n buf = bindO (decChunks c n buf) fun vs => .ok (.seq vs)) ∧
    (0 < c.len → (∀ b why, c.dec b ≠ .panic why) → ∀ why, arrayDecImpl c n buf ≠ .panic why) := by
  refine ⟨fun h => by simp [arrayDecImpl, h], ?_, ?_⟩
  · intro hpos hl
    have h1 : ¬ buf.length < c.len * n := by omega
    have h0 : ¬ c.len = 0 := by omega
    rw [arrayDecImpl_eq_codec]
    simp only [Codec.array, h1, h0, if_false]
    rw [decChunks_take c n _ buf (by rw [Nat.mul_comm]; exact Nat.le_refl _)]
  · intro hpos hc why
    rw [arrayDecImpl_eq_codec]
    simp only [Codec.array]
    split
    · simp
    · have h0 : ¬ c.len = 0 := by omega
      simp only [h0, if_false]
      exact bindO_ne_panic (fun w => decChunks_total' c hc _ _ w) (fun a w => by simp) why

/-- The line-by-line model of the array decoder (chunks, take, collect into a `heapless::Vec`, `into_array`) is the
    `Codec.array` the struct theorems of Props/C19 are about; so `into_array` never fails. -/
theorem array_impl_is_codec_array (c : Codec) (n : Nat) (buf : List Nat) :
    arrayDecImpl c n buf = (Codec.array c n).dec buf :=
  arrayDecImpl_eq_codec c n buf

/-- `into_array`'s error is never the answer for element types that cannot produce it themselves. -/
theorem array_length_error_unreachable (c : Codec) (n : Nat) (buf : List Nat)
    (hc : ∀ b, c.dec b ≠ .err .arrayLength) : arrayDecImpl c n buf ≠ .err .arrayLength := by
  rw [arrayDecImpl_eq_codec]
  simp only [Codec.array]
  split
  · simp
  · split
    · simp
    · have : ∀ (k : Nat) (b : List Nat), decChunks c k b ≠ .err .arrayLength := by
        intro k
        induction k with
        | zero => intro b; simp [decChunks]
        | succ k ih =>
          intro b
          simp only [decChunks]
          cases h1 : c.dec (b.take c.len) with
          | panic w => simp [bindO]
          | err e => simp only [bindO]; intro h; cases h; exact hc _ h1
          | ok v =>
            cases h2 : decChunks c k (b.drop c.len) with
            | panic w => simp [bindO]
            | err e => simp only [bindO]; intro h; cases h; exact ih _ h2
            | ok vs => simp [bindO]
      intro h
      cases hd : decChunks c n (List.take (c.len * n) buf) with
      | panic w => simp [hd, bindO] at h
      | err e => simp only [hd, bindO, Outcome.err.injEq] at h; subst h; exact this _ _ hd
      | ok vs => simp [hd, bindO] at h

/-- Zero-sized elements (`[(); N]`): `chunks_exact(0)` panics for every buffer. -/
theorem array_zero_size_panics (c : Codec) (h0 : c.len = 0) (n : Nat) (buf : List Nat) :
    arrayDecImpl c n buf = .panic "chunk size must be non-zero" := by
  simp [arrayDecImpl, chunksExact, h0, bindO]

/-- `[u8; N]` (the only array with a write impl) round-trips, also with trailing bytes; arrays over any lawful element
    type of non-zero size are lawful codecs. -/
theorem array_roundtrip (c : Codec) (n : Nat) (hc : Lawful c) (hpos : 0 < c.len) (v : Val) (bs extra : List Nat)
    (hv : (Codec.array c n).valid v) (he : (Codec.array c n).enc v = .ok bs) :
    arrayDecImpl c n (bs ++ extra) = .ok v := by
  have hl := lawful_array c n hc hpos
  rw [arrayDecImpl_eq_codec, hl.dec_prefix _ (by rw [List.length_append, (hl.enc_len v bs he).1]; omega),
    ← (hl.enc_len v bs he).1, List.take_left' rfl]
  exact hl.roundtrip v bs hv he

/-! ## tuples -/

/-- **tuple_unpack_fields.** For a buffer of at least the packed length the `if buf.len() > 0 { buf = &buf[PACKED_LEN..] }`
    walk decodes component `i` from the bytes at offset `PACKED_LEN_0 + … + PACKED_LEN_{i-1}`; components are decoded in
    order and the first failing one's error is the result. -/
theorem tuple_unpack_fields (cs : List Codec) (hl : AllLawfulC cs) (buf : List Nat) (hlen : sumLen cs ≤ buf.length) :
    decTuple cs buf = decTupleSpec cs buf ∧
    ∀ vs, decTuple cs buf = .ok vs →
      vs.length = cs.length ∧
      ∀ (i : Nat) (c : Codec) (v : Val), cs[i]? = some c → vs[i]? = some v →
        c.dec (slice buf (sumLen (cs.take i)) (sumLen (cs.take i) + c.len)) = .ok v := by
  have h := decTuple_eq_spec cs buf hl hlen
  exact ⟨h, fun vs hvs => decTupleSpec_get cs buf vs (h ▸ hvs)⟩

/-- A buffer shorter than the packed length is an error (of the first component that does not find its bytes, or of an
    earlier one that rejects its value). -/
theorem tuple_unpack_short_error (cs : List Codec) (hl : AllLawfulC cs) (buf : List Nat) (hlen : buf.length < sumLen cs) :
    ∃ e, decTuple cs buf = .err e :=
  decTuple_short cs buf hl hlen

/-- The component types a tuple can be built from, as far as the model knows them: every lawful codec (primitives, bool,
    derived structs and enums, arrays of them), `()`, `heapless::Vec<T, N>` and `[T; N]` over a modelled element type of
    non-zero size, `heapless::String<N>`. -/
inductive Modelled : Codec → Prop
  | lawful {c : Codec} : Lawful c → Modelled c
  | unit : Modelled Codec.unitTy
  | hvec {c : Codec} (n : Nat) : Modelled c → 0 < c.len → Modelled (Codec.hvec c n)
  | hstr (n : Nat) : Modelled (Codec.hstr n)
  | array {c : Codec} (n : Nat) : Modelled c → 0 < c.len → Modelled (Codec.array c n)

/-- No modelled component decoder panics, whatever the buffer. -/
theorem modelled_dec_total {c : Codec} (h : Modelled c) : DecTotal c := by
  induction h with
  | lawful hl => exact hl.dec_total
  | unit => intro b why; simp [Codec.unitTy]
  | hvec n _ hpos ih => exact fun b why => heapless_vec_unpack_total _ hpos ih n b why
  | hstr n => exact fun b why => (heapless_string_unpack n b).1 why
  | array n _ hpos ih =>
    intro b why
    have := (array_unpack_exact _ n b).2.2 hpos ih why
    rwa [arrayDecImpl_eq_codec] at this

/-- **tuple_unpack_total.** For EVERY buffer and every tuple of modelled components — lawful or not, `heapless::Vec` and
    `heapless::String` included — `unpack_from_slice` returns a value or an error, never a panic: the walk advances with
    the checked `buf.get(PACKED_LEN..)`, so a component that decoded successfully from fewer than `PACKED_LEN` bytes is
    answered with `ReadBufferTooShort`. -/
theorem tuple_unpack_total (cs : List Codec) (hm : ∀ c ∈ cs, Modelled c) (buf : List Nat) :
    (∀ why, decTuple cs buf ≠ .panic why) ∧ ((∃ vs, decTuple cs buf = .ok vs) ∨ (∃ e, decTuple cs buf = .err e)) := by
  have ht : ∀ why, decTuple cs buf ≠ .panic why :=
    fun why => decTuple_total' cs buf why (fun c hc => modelled_dec_total (hm c hc))
  refine ⟨ht, ?_⟩
  cases h : decTuple cs buf with
  | ok vs => exact Or.inl ⟨vs, rfl⟩
  | err e => exact Or.inr ⟨e, rfl⟩
  | panic w => exact absurd h (ht w)

/-- The witnesses of the former defect (known finding c19/impl-tuple-varlen-short-panic, repaired by fix-c19-tuple-short):
    `<(heapless::Vec<u8, 4>, u8)>::unpack_from_slice(&[1, 2])`, `<(heapless::String<4>, u8)>::unpack_from_slice(b"ab")`
    and `<(u8, heapless::Vec<u8, 2>)>::unpack_from_slice(&[1, 2])` indexed `&buf[PACKED_LEN..]` out of range; they are
    `Err(ReadBufferTooShort)` now, and with enough bytes nothing changed. -/
theorem tuple_unpack_short_heapless_fixed :
    decTuple [Codec.hvec (Codec.uN 1) 4, Codec.uN 1] [1, 2] = .err .readBufferTooShort ∧
    decTuple [Codec.hstr 4, Codec.uN 1] [0x61, 0x62] = .err .readBufferTooShort ∧
    decTuple [Codec.uN 1, Codec.hvec (Codec.uN 1) 2] [1, 2] = .err .readBufferTooShort ∧
    decTuple [Codec.hvec (Codec.uN 1) 4, Codec.uN 1] [1, 2, 3, 4, 5] = .ok [.seq [.int 1, .int 2, .int 3, .int 4], .int 5] :=
  ⟨by rfl, by rfl, by rfl, by rfl⟩

/-- Consequence of `heapless::String` taking the whole remaining buffer as the string: a tuple with a
    `heapless::String<N>` in front of another component of non-zero size NEVER decodes, whatever the buffer. -/
theorem tuple_after_string_never_decodes (n : Nat) (c : Codec) (hc : Lawful c) (hpos : 0 < c.len) (buf : List Nat)
    (vs : List Val) : decTuple [Codec.hstr n, c] buf ≠ .ok vs := by
  intro h
  simp only [decTuple] at h
  obtain ⟨v, hv, h⟩ := bindO_eq_ok.mp h
  have hle : buf.length ≤ n := by
    simp only [Codec.hstr, hstrDec] at hv
    split at hv
    · split at hv
      · assumption
      · cases hv
    · cases hv
  split at h
  · cases h
  · obtain ⟨v2, hv2, _⟩ := bindO_eq_ok.mp h
    obtain ⟨v3, hv3, _⟩ := bindO_eq_ok.mp hv2
    have hlen := hc.len_le_of_ok hv3
    have hn : (Codec.hstr n).len = n := rfl
    split at hlen
    · rw [List.length_drop, hn] at hlen; omega
    · omega

/-- **tuple_pack_fields.** Into a destination of at least the packed length, `pack_to_slice_unchecked` (and
    `pack_to_slice`) store component `i`'s own encoding at offset `PACKED_LEN_0 + … + PACKED_LEN_{i-1}`, leave the bytes
    behind the image alone and do not panic. -/
theorem tuple_pack_fields (cs : List Codec) (hl : AllLawfulC cs) (vs : List Val) (hv : validTuple cs vs)
    (dst : List Nat) (hlen : sumLen cs ≤ dst.length) :
    ∃ bs, bs.length = sumLen cs ∧ AllBytes bs ∧
      tuplePackU cs vs dst = .ok (bs ++ dst.drop (sumLen cs)) ∧
      tuplePackToSlice cs vs dst = .ok (bs ++ dst.drop (sumLen cs)) ∧
      ∀ (i : Nat) (c : Codec) (v : Val), cs[i]? = some c → vs[i]? = some v →
        c.enc v = .ok (slice bs (sumLen (cs.take i)) (sumLen (cs.take i) + c.len)) := by
  obtain ⟨bs, hbs, hbl, hba⟩ := encTuple_ok cs vs hl hv
  have hu : tuplePackU cs vs dst = .ok (bs ++ dst.drop (sumLen cs)) := by
    simp only [tuplePackU]
    rw [tuplePackWalk_eq cs vs dst hl hlen, hbs]
    have : sumLen cs ≤ (bs ++ List.drop (sumLen cs) dst).length := by
      rw [List.length_append, List.length_drop]; omega
    simp only [bindO, this, if_true]
  refine ⟨bs, hbl, hba, hu, ?_, encTuple_get cs vs bs hl hbs⟩
  have : ¬ dst.length < sumLen cs := by omega
  simp only [tuplePackToSlice, this, if_false, hu]

/-- The line-by-line `split_at_mut` walk is the `Codec.tuple` of Wire.lean (used by the struct theorems for tuple-typed
    fields) on every destination of at least the packed length, including its panics on ill-typed values. -/
theorem tuple_pack_is_codec_tuple (cs : List Codec) (hl : AllLawfulC cs) (vs : List Val) (dst : List Nat)
    (hlen : sumLen cs ≤ dst.length) : tuplePackWalk cs vs dst = (Codec.tuple cs).packU (.seq vs) dst := by
  have h1 : ¬ dst.length < sumLen cs := by omega
  rw [tuplePackWalk_eq cs vs dst hl hlen]
  simp only [Codec.packU, Codec.tuple, h1, if_false]

/-- A destination shorter than the packed length: the checked `pack_to_slice` answers `WriteBufferTooShort` (for any
    components and values); the unchecked method panics (in `split_at_mut`), as its contract demands. -/
theorem tuple_pack_short (cs : List Codec) (vs : List Val) (dst : List Nat) (hlen : dst.length < sumLen cs) :
    tuplePackToSlice cs vs dst = .err .writeBufferTooShort ∧
    (AllLawfulC cs → validTuple cs vs → ∃ why, tuplePackU cs vs dst = .panic why) := by
  refine ⟨by simp [tuplePackToSlice, hlen], ?_⟩
  intro hl hv
  obtain ⟨w, hw⟩ := tuplePackWalk_short cs vs dst hl hv hlen
  exact ⟨w, by simp [tuplePackU, hw, bindO]⟩

/-- **tuple_roundtrip.** Unpacking what was packed gives the components back — also when more bytes follow the image. -/
theorem tuple_roundtrip (cs : List Codec) (hl : AllLawfulC cs) (vs : List Val) (hv : validTuple cs vs)
    (dst : List Nat) (hlen : sumLen cs ≤ dst.length) :
    ∃ out, tuplePackU cs vs dst = .ok out ∧ decTuple cs out = .ok vs := by
  obtain ⟨bs, hbs, hbl, _⟩ := encTuple_ok cs vs hl hv
  have hu' : tuplePackU cs vs dst = .ok (bs ++ dst.drop (sumLen cs)) := by
    simp only [tuplePackU]
    rw [tuplePackWalk_eq cs vs dst hl hlen, hbs]
    have : sumLen cs ≤ (bs ++ List.drop (sumLen cs) dst).length := by
      rw [List.length_append, List.length_drop]; omega
    simp only [bindO, this, if_true]
  refine ⟨_, hu', ?_⟩
  rw [decTuple_eq_spec cs _ hl (by rw [List.length_append]; omega)]
  exact decTupleSpec_roundtrip cs vs bs _ hl hv hbs

/-! ## `()`, `bool`, `&[u8]` -/

/-- `()`: decodes from any buffer (also the empty one), packs to nothing. `bool`: an empty buffer is
    `ReadBufferTooShort`, any non-zero first byte is `true`, `true` packs to 0xff and `false` to 0x00. -/
theorem unit_and_bool_impls (buf : List Nat) (x : Nat) (b : Bool) :
    Codec.unitTy.dec buf = .ok (.seq []) ∧ Codec.unitTy.pack (.seq []) = .ok [] ∧
    Codec.bool.dec [] = .err .readBufferTooShort ∧ Codec.bool.dec (x :: buf) = .ok (.bool (decide (x > 0))) ∧
    Codec.bool.pack (.bool b) = .ok [if b then 255 else 0] ∧
    Codec.bool.dec [if b then 255 else 0] = .ok (.bool b) := by
  refine ⟨rfl, rfl, rfl, rfl, ?_, ?_⟩
  · cases b <;> rfl
  · cases b <;> rfl

/-- `&[u8]`: copied to the front of the destination; a shorter destination panics in the range index. -/
theorem slice_u8_pack (self dst : List Nat) :
    (self.length ≤ dst.length → sliceU8PackU self dst = .ok (self ++ dst.drop self.length)) ∧
    (dst.length < self.length → ∃ why, sliceU8PackU self dst = .panic why) := by
  constructor
  · intro h
    have : ¬ dst.length < self.length := by omega
    simp [sliceU8PackU, this]
  · intro h
    exact ⟨"range end index out of range", by simp only [sliceU8PackU, h, if_true]⟩

/-! ## `EtherCrabWireSized::buffer()` -/

/-- `buffer()` has `PACKED_LEN` bytes for every hand-written impl EXCEPT arrays: `[$ty; N]` declares
    `type Buffer = [u8; N]` while `PACKED_LEN = N * size`. -/
theorem buffer_sizes (s : SizedImpl) :
    s.bufferLen = s.packedLen ∨ ∃ size n, s = .array size n ∧ s.bufferLen = n ∧ s.packedLen = n * size := by
  cases s with
  | array size n => exact Or.inr ⟨size, n, rfl, rfl, rfl⟩
  | _ => exact Or.inl rfl

/-- Consequence (the cause of the C15 finding `c15/word-array-buffer`): for an element type wider than a byte and N ≥ 1 the
    array's own `buffer()` is shorter than its `PACKED_LEN`, so whatever is read into it can never be unpacked:
    `<[u16; N]>::unpack_from_slice(&<[u16; N]>::buffer())` is `ReadBufferTooShort`. -/
theorem array_buffer_shorter_counterexample (size n : Nat) (hs : 2 ≤ size) (hn : 1 ≤ n) (contents : List Nat)
    (hl : contents.length = (SizedImpl.array size n).bufferLen) :
    (SizedImpl.array size n).bufferLen < (SizedImpl.array size n).packedLen ∧
    arrayDecImpl (Codec.uN size) n contents = .err .readBufferTooShort := by
  have h1 : n < n * size := by
    calc n = n * 1 := (Nat.mul_one n).symm
      _ < n * size := Nat.mul_lt_mul_of_pos_left (by omega) (by omega)
  refine ⟨h1, ?_⟩
  have : contents.length < (Codec.uN size).len * n := by
    rw [hl]
    show n < size * n
    rw [Nat.mul_comm]; exact h1
  simp [arrayDecImpl, this]

/-! ## Non-vacuity -/

/-- The tuple hypotheses are satisfiable: `(u32, u8, bool, [u16; 2])`. -/
example : AllLawfulC [Codec.uN 4, Codec.uN 1, Codec.bool, Codec.array (Codec.uN 2) 2] :=
  ⟨lawful_uN 4, lawful_uN 1, lawful_bool, lawful_array _ 2 (lawful_uN 2) (by decide), trivial⟩

example : validTuple [Codec.uN 4, Codec.uN 1, Codec.bool] [.int 0xaabbccdd, .int 0x99, .bool true] :=
  ⟨⟨0xaabbccdd, rfl, by decide⟩, ⟨0x99, rfl, by decide⟩, ⟨true, rfl⟩, trivial⟩

/-- `tuple_unpack_total` is not vacuous: `(heapless::Vec<u8, 4>, u8, heapless::String<3>, [heapless::Vec<u16, 2>; 2], ())`. -/
example : ∀ c ∈ [Codec.hvec (Codec.uN 1) 4, Codec.uN 1, Codec.hstr 3, Codec.array (Codec.hvec (Codec.uN 2) 2) 2, Codec.unitTy],
    Modelled c := by
  intro c hc
  simp only [List.mem_cons, List.mem_nil_iff, or_false] at hc
  rcases hc with rfl | rfl | rfl | rfl | rfl
  · exact .hvec 4 (.lawful (lawful_uN 1)) (by decide)
  · exact .lawful (lawful_uN 1)
  · exact .hstr 3
  · exact .array 2 (.hvec 2 (.lawful (lawful_uN 2)) (by decide)) (by decide)
  · exact .unit

/-- Why `tuple_unpack_short_error` asks for lawful components: a `heapless::Vec` decodes the EMPTY buffer to the empty
    vector, and the walk does not advance over an empty buffer. -/
example : decTuple [Codec.hvec (Codec.uN 1) 4, Codec.hvec (Codec.uN 1) 4] [1, 2, 3, 4] =
    .ok [.seq [.int 1, .int 2, .int 3, .int 4], .seq []] := by rfl

/-- impls.rs' own tests `tuple_decode` / `tuple_encode`. -/
example : decTuple [Codec.uN 4, Codec.uN 1] [0xaa, 0xbb, 0xcc, 0xdd, 0x99] = .ok [.int 0xddccbbaa, .int 0x99] := by rfl
example : tuplePackU [Codec.uN 4, Codec.uN 1, Codec.uN 2] [.int 0xaabbccdd, .int 0x99, .int 0x1234] (zeros 9) =
    .ok [0xdd, 0xcc, 0xbb, 0xaa, 0x99, 0x34, 0x12, 0, 0] := by rfl
example : decTuple [Codec.uN 4, Codec.uN 1] [0xaa, 0xbb, 0xcc, 0xdd] = .err .readBufferTooShort := by rfl
example : tuplePackToSlice [Codec.uN 4, Codec.uN 1] [.int 1, .int 2] [0, 0, 0, 0] = .err .writeBufferTooShort := by rfl

/-- `heapless::Vec<u16, 2>`: shorter (one element and a partial one), exact, longer. -/
example : hvecDec (Codec.uN 2) 2 [1, 0, 2] = .ok (.seq [.int 1]) := by rfl
example : hvecDec (Codec.uN 2) 2 [1, 0, 2, 0] = .ok (.seq [.int 1, .int 2]) := by rfl
example : hvecDec (Codec.uN 2) 2 [1, 0, 2, 0, 3, 0, 9] = .ok (.seq [.int 1, .int 2]) := by rfl
example : hvecDec (Codec.uN 2) 0 [1, 0, 2, 0] = .ok (.seq []) := by rfl
example : hvecDecNoTake (Codec.uN 2) 2 [1, 0, 2, 0, 3, 0, 9] = .panic "Vec::from_iter overflow" := by rfl

/-- `heapless::String<4>`: "€A" fits; "€AB" is too long; a lone continuation byte, an overlong form, a surrogate and a
    code point above U+10FFFF are invalid. -/
example : hstrDec 4 [0xe2, 0x82, 0xac, 0x41] = .ok (.seq [.int 0xe2, .int 0x82, .int 0xac, .int 0x41]) := by rfl
example : encodeStr [0x20ac, 0x41] = [0xe2, 0x82, 0xac, 0x41] := by rfl
example : isScalar 0x20ac := Or.inl (by decide)
example : hstrDec 4 [0xe2, 0x82, 0xac, 0x41, 0x42] = .err .arrayLength := by rfl
example : hstrDec 4 [0x80] = .err .invalidUtf8 := by rfl
example : hstrDec 4 [0xc0, 0x80] = .err .invalidUtf8 := by rfl
example : hstrDec 4 [0xed, 0xa0, 0x80] = .err .invalidUtf8 := by rfl
example : hstrDec 4 [0xf4, 0x90, 0x80, 0x80] = .err .invalidUtf8 := by rfl
example : hstrDec 0 [] = .ok (.seq []) := by rfl

/-- `[u16; 2]`: exact, longer, short. -/
example : arrayDecImpl (Codec.uN 2) 2 [1, 0, 2, 0] = .ok (.seq [.int 1, .int 2]) := by rfl
example : arrayDecImpl (Codec.uN 2) 2 [1, 0, 2, 0, 7] = .ok (.seq [.int 1, .int 2]) := by rfl
example : arrayDecImpl (Codec.uN 2) 2 [1, 0, 2] = .err .readBufferTooShort := by rfl

end Ec.C19
