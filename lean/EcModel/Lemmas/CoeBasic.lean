/-
  Helper lemmas for C15/C16: outcomes, views, decoders of `EcModel/Coe.lean`.
-/
import EcModel.Coe

namespace Ec.Coe
open Ec Ec.Gen.Coe

/-! ### Outcomes -/

@[simp] theorem Res.bind_ok {α β : Type} (a : α) (f : α → Res β) : Res.bind (.ok a) f = f a := rfl
@[simp] theorem Res.bind_err {α β : Type} (e : Err) (f : α → Res β) : Res.bind (.err e) f = .err e := rfl
@[simp] theorem Res.bind_panic {α β : Type} (w : String) (f : α → Res β) : Res.bind (.panic w) f = .panic w := rfl

@[simp] theorem Res.isPanic_ok {α : Type} (a : α) : Res.isPanic (.ok a : Res α) = false := rfl
@[simp] theorem Res.isPanic_err {α : Type} (e : Err) : Res.isPanic (.err e : Res α) = false := rfl
@[simp] theorem Res.isPanic_panic {α : Type} (w : String) : Res.isPanic (.panic w : Res α) = true := rfl

theorem Res.bind_noPanic {α β : Type} (x : Res α) (f : α → Res β) (hx : Res.isPanic x = false)
    (hf : ∀ a, x = .ok a → Res.isPanic (f a) = false) : Res.isPanic (Res.bind x f) = false := by
  cases x with
  | ok a => simpa using hf a rfl
  | err e => rfl
  | panic w => simp at hx

theorem Res.map_isPanic {α β : Type} (f : α → β) (x : Res α) : Res.isPanic (Res.map f x) = Res.isPanic x := by
  cases x <;> rfl

/-- An outcome is not a panic iff it is a value or an error. -/
theorem Res.noPanic_iff {α : Type} (x : Res α) :
    Res.isPanic x = false ↔ (∃ a, x = .ok a) ∨ (∃ e, x = .err e) := by
  cases x <;> simp

/-! ### Views -/

/-- The view lies inside the reply area `[lo, hi)` of its frame buffer and ends exactly at its end. -/
def Pdu.Inside (p : Pdu) (lo hi : Nat) : Prop := lo ≤ p.start ∧ p.start + p.len = hi ∧ hi ≤ p.frame.length

theorem Pdu.trimFront_inside (p : Pdu) (lo hi ct : Nat) (h : p.Inside lo hi) : (p.trimFront ct).Inside lo hi := by
  obtain ⟨h1, h2, h3⟩ := h
  refine ⟨?_, ?_, h3⟩
  · show lo ≤ p.start + min ct p.len
    omega
  · show p.start + min ct p.len + (p.len - min ct p.len) = hi
    omega

theorem Pdu.trimFront_len (p : Pdu) (ct : Nat) : (p.trimFront ct).len = p.len - ct := by
  show p.len - min ct p.len = p.len - ct
  omega

theorem Pdu.bytes_length (p : Pdu) (h : p.start + p.len ≤ p.frame.length) : p.bytes.length = p.len := by
  have := h
  simp [Pdu.bytes]; omega

/-- `trim_front` on the view is `drop` on the bytes (this is what the fix of `trim_front` established). -/
theorem Pdu.trimFront_bytes (p : Pdu) (ct : Nat) (h : p.start + p.len ≤ p.frame.length) :
    (p.trimFront ct).bytes = p.bytes.drop ct := by
  simp only [Pdu.bytes, Pdu.trimFront]
  rw [List.drop_take]
  by_cases hc : ct ≤ p.len
  · rw [Nat.min_eq_left hc, List.drop_drop]
  · have hc' : p.len ≤ ct := by omega
    rw [Nat.min_eq_right hc']
    simp
    left; omega

theorem mkPdu_inside (cfg : Cfg) (img : List Nat) : (mkPdu cfg img).Inside cfg.pre.length (cfg.pre.length + img.length) := by
  refine ⟨Nat.le_refl _, rfl, ?_⟩
  simp [mkPdu]

theorem mkPdu_bytes (cfg : Cfg) (img : List Nat) : (mkPdu cfg img).bytes = img := by
  simp [mkPdu, Pdu.bytes]

theorem mkPdu_ok (cfg : Cfg) (img : List Nat) : (mkPdu cfg img).start + (mkPdu cfg img).len ≤ (mkPdu cfg img).frame.length := by
  simp [mkPdu]

theorem mkPdu_len (cfg : Cfg) (img : List Nat) : (mkPdu cfg img).len = img.length := rfl

theorem image_length (mbx : Nat) (m : List Nat) : (image mbx m).length = mbx := by
  simp [image, zeros]; omega

/-! ### Decoders never panic -/

theorem unpackMailboxHeader_noPanic (b : List Nat) : (unpackMailboxHeader b).isPanic = false := by
  unfold unpackMailboxHeader
  dsimp only
  repeat' split
  all_goals rfl

theorem unpackService_noPanic (b : List Nat) : (unpackService b).isPanic = false := by
  unfold unpackService
  dsimp only
  split <;> rfl

theorem unpackCommand_noPanic (b : List Nat) : (unpackCommand b).isPanic = false := by
  unfold unpackCommand
  dsimp only
  split <;> rfl

theorem unpackCoeHeaders_noPanic (b : List Nat) : (unpackCoeHeaders b).isPanic = false := by
  unfold unpackCoeHeaders
  split
  · rfl
  · refine Res.bind_noPanic _ _ (unpackMailboxHeader_noPanic _) fun _ _ => ?_
    exact Res.bind_noPanic _ _ (unpackService_noPanic _) fun _ _ => rfl

theorem unpackHeadersRaw_noPanic (b : List Nat) : (unpackHeadersRaw b).isPanic = false := by
  unfold unpackHeadersRaw
  split
  · rfl
  · refine Res.bind_noPanic _ _ (unpackMailboxHeader_noPanic _) fun _ _ => ?_
    refine Res.bind_noPanic _ _ (unpackService_noPanic _) fun _ _ => ?_
    exact Res.bind_noPanic _ _ (unpackCommand_noPanic _) fun _ _ => rfl

theorem unpackSdoNormal_noPanic (b : List Nat) : (unpackSdoNormal b).isPanic = false := by
  unfold unpackSdoNormal
  split
  · rfl
  · refine Res.bind_noPanic _ _ (unpackMailboxHeader_noPanic _) fun _ _ => ?_
    refine Res.bind_noPanic _ _ (unpackService_noPanic _) fun _ _ => ?_
    exact Res.bind_noPanic _ _ (unpackCommand_noPanic _) fun _ _ => rfl

theorem unpackSdoExpedited_noPanic (b : List Nat) : (unpackSdoExpedited b).isPanic = false := by
  unfold unpackSdoExpedited
  split
  · rfl
  · exact unpackSdoNormal_noPanic b

theorem unpackSdoSegmented_noPanic (b : List Nat) : (unpackSdoSegmented b).isPanic = false := by
  unfold unpackSdoSegmented
  split
  · rfl
  · refine Res.bind_noPanic _ _ (unpackMailboxHeader_noPanic _) fun _ _ => ?_
    refine Res.bind_noPanic _ _ (unpackService_noPanic _) fun _ _ => ?_
    exact Res.bind_noPanic _ _ (unpackCommand_noPanic _) fun _ _ => rfl

theorem unpackListResponse_noPanic (b : List Nat) : (unpackListResponse b).isPanic = false := by
  unfold unpackListResponse
  split
  · rfl
  · refine Res.bind_noPanic _ _ (unpackMailboxHeader_noPanic _) fun _ _ => ?_
    refine Res.bind_noPanic _ _ (unpackService_noPanic _) fun _ _ => ?_
    dsimp only
    split <;> rfl

theorem unpackU32_noPanic (b : List Nat) : (unpackU32 b).isPanic = false := by
  unfold unpackU32
  split <;> rfl

theorem unpackEmergency_noPanic (b : List Nat) : (unpackEmergency b).isPanic = false := by
  unfold unpackEmergency
  split <;> rfl

end Ec.Coe
