/- Line protocol for C13: the shared EEPROM machine (see Drv/Eeprom.lean). -/
import EcModel.Drv.Eeprom

namespace Ec.Drv.C13
/-- `init ...` lines belong to the monitor-only family of the harness (the REAL `MainDevice::init` against a simulated
    device serving an adversarial EEPROM image: the only requirement is "a value or an error, never a panic or a hang",
    which is judged on the implementation; the model has nothing to predict and answers the constant the harness prints). -/
def handle : List String → String
  | "init" :: _ => "n/a"
  | args => Ec.Drv.Eeprom.handle args
end Ec.Drv.C13
