/-
  Bit-level helper lemmas for the wire model (C19): `bitAt`, `leBytes`/`leVal`, masks and shifts.
-/
import EcModel.Wire

namespace Ec.Wire
open Ec

/-! ### bytes -/

theorem allBytes_nil : AllBytes [] := by intro x h; cases h

theorem allBytes_cons {a : Nat} {l : List Nat} : AllBytes (a :: l) ↔ a < 256 ∧ AllBytes l := by
  simp [AllBytes]

theorem allBytes_append {a b : List Nat} : AllBytes (a ++ b) ↔ AllBytes a ∧ AllBytes b := by
  simp [AllBytes, or_imp, forall_and]

theorem allBytes_zeros (n : Nat) : AllBytes (zeros n) := by
  intro x h; simp [zeros] at h; omega

theorem allBytes_take {l : List Nat} (n : Nat) (h : AllBytes l) : AllBytes (l.take n) :=
  fun x hx => h x (List.mem_of_mem_take hx)

theorem allBytes_drop {l : List Nat} (n : Nat) (h : AllBytes l) : AllBytes (l.drop n) :=
  fun x hx => h x (List.mem_of_mem_drop hx)

theorem allBytes_getD {l : List Nat} (h : AllBytes l) (i : Nat) : l.getD i 0 < 256 := by
  rw [List.getD_eq_getElem?_getD]
  cases hi : l[i]? with
  | none => simp
  | some x => simp; exact h x (List.mem_of_getElem? hi)

theorem allBytes_set {l : List Nat} (h : AllBytes l) (i x : Nat) (hx : x < 256) : AllBytes (l.set i x) := by
  intro y hy
  rcases List.mem_or_eq_of_mem_set hy with h1 | h1
  · exact h y h1
  · omega

/-! ### testBit of a byte -/

theorem testBit_byte_ge {a i : Nat} (ha : a < 256) (hi : 8 ≤ i) : a.testBit i = false := by
  apply Nat.testBit_lt_two_pow
  calc a < 2 ^ 8 := by omega
    _ ≤ 2 ^ i := Nat.pow_le_pow_right (by omega) hi

theorem byte_ext {a b : Nat} (ha : a < 256) (hb : b < 256)
    (h : ∀ i, i < 8 → a.testBit i = b.testBit i) : a = b := by
  apply Nat.eq_of_testBit_eq
  intro i
  by_cases hi : i < 8
  · exact h i hi
  · rw [testBit_byte_ge ha (by omega), testBit_byte_ge hb (by omega)]

/-! ### bitAt -/

theorem bitAt_def (buf : List Nat) (k : Nat) : bitAt buf k = (buf.getD (k / 8) 0).testBit (k % 8) := rfl

theorem bitAt_of_length_le {buf : List Nat} {k : Nat} (h : buf.length ≤ k / 8) : bitAt buf k = false := by
  simp [bitAt, List.getD_eq_getElem?_getD, List.getElem?_eq_none h]

theorem bitAt_nil (k : Nat) : bitAt [] k = false := bitAt_of_length_le (by simp)

theorem bitAt_zeros (n k : Nat) : bitAt (zeros n) k = false := by
  simp only [bitAt, zeros, List.getD_eq_getElem?_getD]
  by_cases h : k / 8 < n
  · simp [h]
  · simp [h]

theorem bitAt_singleton (x k : Nat) (hk : k < 8) : bitAt [x] k = x.testBit k := by
  have h1 : k / 8 = 0 := by omega
  have h2 : k % 8 = k := by omega
  simp [bitAt, h1, h2]

theorem bitAt_set {buf : List Nat} {b : Nat} (x k : Nat) (hb : b < buf.length) :
    bitAt (buf.set b x) k = if k / 8 = b then x.testBit (k % 8) else bitAt buf k := by
  simp only [bitAt, List.getD_eq_getElem?_getD, List.getElem?_set]
  by_cases h : k / 8 = b
  · subst h; simp [hb]
  · have : ¬ b = k / 8 := fun e => h e.symm
    simp [h, this]

theorem bitAt_append_left {a b : List Nat} {k : Nat} (h : k / 8 < a.length) :
    bitAt (a ++ b) k = bitAt a k := by
  simp [bitAt, List.getD_eq_getElem?_getD, List.getElem?_append_left h]

theorem bitAt_append_right {a b : List Nat} {k : Nat} (h : a.length ≤ k / 8) :
    bitAt (a ++ b) k = bitAt b (k - 8 * a.length) := by
  have h1 : (k - 8 * a.length) / 8 = k / 8 - a.length := by omega
  have h2 : (k - 8 * a.length) % 8 = k % 8 := by omega
  simp [bitAt, List.getD_eq_getElem?_getD, List.getElem?_append_right h, h1, h2]

theorem bitAt_drop (buf : List Nat) (n k : Nat) : bitAt (buf.drop n) k = bitAt buf (8 * n + k) := by
  have h1 : (8 * n + k) / 8 = n + k / 8 := by omega
  have h2 : (8 * n + k) % 8 = k % 8 := by omega
  simp [bitAt, List.getD_eq_getElem?_getD, List.getElem?_drop, h1, h2]

theorem bitAt_take (buf : List Nat) (n k : Nat) :
    bitAt (buf.take n) k = (decide (k < 8 * n) && bitAt buf k) := by
  simp only [bitAt, List.getD_eq_getElem?_getD, List.getElem?_take]
  by_cases h : k / 8 < n
  · have : k < 8 * n := by omega
    simp [h, this]
  · have : ¬ k < 8 * n := by omega
    simp [h, this]

theorem bitAt_slice (buf : List Nat) (a b k : Nat) :
    bitAt (slice buf a b) k = (decide (k < 8 * (b - a)) && bitAt buf (8 * a + k)) := by
  simp [slice, bitAt_take, bitAt_drop]

/-- Two byte strings of the same length with the same bits are equal. -/
theorem bytes_ext : ∀ {l1 l2 : List Nat}, l1.length = l2.length → AllBytes l1 → AllBytes l2 →
    (∀ k, bitAt l1 k = bitAt l2 k) → l1 = l2
  | [], [], _, _, _, _ => rfl
  | [], _ :: _, h, _, _, _ => by simp at h
  | _ :: _, [], h, _, _, _ => by simp at h
  | a :: l1, b :: l2, hl, h1, h2, hb => by
    rw [allBytes_cons] at h1 h2
    have hab : a = b := by
      apply byte_ext h1.1 h2.1
      intro i hi
      have := hb i
      rwa [show a :: l1 = [a] ++ l1 from rfl, show b :: l2 = [b] ++ l2 from rfl,
        bitAt_append_left (by simp; omega), bitAt_append_left (by simp; omega),
        bitAt_singleton _ _ hi, bitAt_singleton _ _ hi] at this
    have htl : l1 = l2 := by
      apply bytes_ext (by simpa using hl) h1.2 h2.2
      intro k
      have := hb (8 + k)
      rw [show a :: l1 = [a] ++ l1 from rfl, show b :: l2 = [b] ++ l2 from rfl,
        bitAt_append_right (by simp), bitAt_append_right (by simp)] at this
      simpa using this
    rw [hab, htl]

/-! ### leBytes / leVal -/

theorem leBytes_length (n x : Nat) : (leBytes n x).length = n := by
  induction n generalizing x with
  | zero => rfl
  | succ n ih => simp [leBytes, ih]

theorem allBytes_leBytes (n x : Nat) : AllBytes (leBytes n x) := by
  induction n generalizing x with
  | zero => exact allBytes_nil
  | succ n ih => rw [leBytes, allBytes_cons]; exact ⟨by omega, ih _⟩

theorem leVal_leBytes (n x : Nat) : leVal (leBytes n x) = x % 256 ^ n := by
  induction n generalizing x with
  | zero => simp [leBytes, leVal, Nat.mod_one]
  | succ n ih =>
    rw [leBytes, leVal, ih, Nat.pow_succ, Nat.mul_comm (256 ^ n) 256, Nat.mod_mul]
    
theorem leVal_lt : ∀ {l : List Nat}, AllBytes l → leVal l < 256 ^ l.length
  | [], _ => by simp [leVal]
  | a :: l, h => by
    rw [allBytes_cons] at h
    have ih := leVal_lt h.2
    simp only [leVal, List.length_cons, Nat.pow_succ]
    omega

theorem leBytes_leVal : ∀ {l : List Nat}, AllBytes l → leBytes l.length (leVal l) = l
  | [], _ => rfl
  | a :: l, h => by
    rw [allBytes_cons] at h
    have ih := leBytes_leVal h.2
    simp only [List.length_cons, leBytes, leVal]
    have h1 : (a + 256 * leVal l) % 256 = a := by omega
    have h2 : (a + 256 * leVal l) / 256 = leVal l := by omega
    rw [h1, h2, ih]

/-- `leVal` numbers bits the way `bitAt` does: bit `k` of the little-endian number is bit `k % 8` of byte `k / 8`. -/
theorem testBit_leVal : ∀ {l : List Nat}, AllBytes l → ∀ k, (leVal l).testBit k = bitAt l k
  | [], _, k => by simp [leVal, bitAt_nil]
  | a :: l, h, k => by
    rw [allBytes_cons] at h
    have ih := testBit_leVal h.2
    have e : a + 256 * leVal l = 2 ^ 8 * leVal l + a := by omega
    rw [leVal, e, Nat.testBit_two_pow_mul_add _ (by omega : a < 2 ^ 8)]
    by_cases hk : k < 8
    · simp only [hk, if_true]
      rw [show a :: l = [a] ++ l from rfl, bitAt_append_left (by simp; omega), bitAt_singleton _ _ hk]
    · simp only [hk, if_false]
      rw [ih, show a :: l = [a] ++ l from rfl, bitAt_append_right (by simp; omega)]
      simp

theorem bitAt_leBytes (n x k : Nat) : bitAt (leBytes n x) k = (decide (k < 8 * n) && x.testBit k) := by
  rw [← testBit_leVal (allBytes_leBytes n x), leVal_leBytes, show (256 : Nat) = 2 ^ 8 from rfl, ← Nat.pow_mul,
    Nat.testBit_mod_two_pow]

/-! ### masks and shifts of generate_struct.rs -/

theorem tb_mask (w off i : Nat) :
    ((2 ^ w - 1) <<< off).testBit i = (decide (off ≤ i) && decide (i - off < w)) := by
  simp [Nat.testBit_shiftLeft, Nat.testBit_two_pow_sub_one]

/-- Bits of `((x << off) as u8) & mask`. -/
theorem tb_small (x w off i : Nat) (h : off + w ≤ 8) :
    (((x <<< off) % 256) &&& ((2 ^ w - 1) <<< off)).testBit i
      = (decide (off ≤ i) && decide (i < off + w) && x.testBit (i - off)) := by
  have : (256 : Nat) = 2 ^ 8 := by decide
  rw [this, Nat.testBit_and, Nat.testBit_mod_two_pow, tb_mask, Nat.testBit_shiftLeft]
  by_cases h1 : off ≤ i <;> by_cases h2 : i < off + w <;> simp [h1, h2]
  · have a : i < 8 := by omega
    have b : i - off < w := by omega
    simp [a, b]
  · intros; omega

/-- Bits of `(b & mask) >> off`. -/
theorem tb_read (b w off j : Nat) :
    ((b &&& ((2 ^ w - 1) <<< off)) >>> off).testBit j = (decide (j < w) && b.testBit (off + j)) := by
  rw [Nat.testBit_shiftRight, Nat.testBit_and, tb_mask]
  by_cases h : j < w <;> simp [h]

theorem small_lt_256 (x m : Nat) : ((x % 256) &&& m) < 256 :=
  Nat.lt_of_le_of_lt Nat.and_le_left (Nat.mod_lt _ (by omega))

theorem or_lt_256 {a b : Nat} (ha : a < 256) (hb : b < 256) : a ||| b < 256 :=
  Nat.or_lt_two_pow (n := 8) ha hb

theorem read_lt_256 (b m off : Nat) (hb : b < 256) : ((b &&& m) >>> off) < 256 := by
  rw [Nat.shiftRight_eq_div_pow]
  exact Nat.lt_of_le_of_lt (Nat.div_le_self _ _) (Nat.lt_of_le_of_lt Nat.and_le_left hb)

/-! ### outcomes -/

theorem bindO_eq_ok {α β : Type} {x : Out α} {f : α → Out β} {b : β} :
    bindO x f = .ok b ↔ ∃ a, x = .ok a ∧ f a = .ok b := by
  cases x <;> simp [bindO]

theorem bindO_ok {α β : Type} (a : α) (f : α → Out β) : bindO (.ok a) f = f a := rfl

/-- `take a buf ++ mid ++ drop b buf`: the bytes `[a, b)` of `buf` replaced by `mid`. -/
theorem bitAt_splice {buf mid : List Nat} {a b : Nat} (hab : a ≤ b) (hb : b ≤ buf.length)
    (hm : mid.length = b - a) (k : Nat) :
    bitAt (buf.take a ++ mid ++ buf.drop b) k =
      if k / 8 < a then bitAt buf k else if k / 8 < b then bitAt mid (k - 8 * a) else bitAt buf k := by
  have hta : (buf.take a).length = a := by simp; omega
  by_cases h1 : k / 8 < a
  · simp only [h1, if_true]
    rw [List.append_assoc, bitAt_append_left (by omega), bitAt_take]
    have : k < 8 * a := by omega
    simp [this]
  · simp only [h1, if_false]
    by_cases h2 : k / 8 < b
    · simp only [h2, if_true]
      rw [bitAt_append_left (by simp; omega), bitAt_append_right (by omega), hta]
    · simp only [h2, if_false]
      rw [bitAt_append_right (by simp; omega), bitAt_drop]
      congr 1
      simp
      omega

end Ec.Wire
