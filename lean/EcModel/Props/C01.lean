/-
  C01 — every response reaches exactly the request that caused it, byte-exact; the view onto a
  received datagram shows exactly that datagram's data area, also after trimming, and keeps showing it.

  Statements are over the storage model (`Slots.lean`, any number of slots, any contents) and, for the
  two places where the order of individual shared accesses matters (the RX lookup scan and the
  waker/RxDone handshake), over explicit interleavings.
-/
import EcModel.Props.C05

namespace Ec.C01
open Ec Ec.C05

/-! ### Indices: the property's "< 256 indices while outstanding" assumption gives distinct markers -/

/-- Two datagram indices drawn from the wrapping 8-bit counter fewer than 256 draws apart differ. -/
theorem fresh_idx_distinct (p a b : Nat) (hab : a < b) (hwin : b < a + 256) :
    (p + a) % 256 ≠ (p + b) % 256 := by omega

/-! ### The RX lookup scan against a concurrently changing storage -/

/-- `frame_index_by_first_pdu_index` as the RX task executes it: slot `j`'s status is read at time
    `2j`, and only if that read `Sent` its marker is read at time `2j+1`. `st t j` / `mk t j` are the
    status and marker of slot `j` at time `t` (other tasks change them arbitrarily in between). -/
def scanFrom (n idx : Nat) (st : Nat → Nat → St) (mk : Nat → Nat → Nat) : Nat → Nat → Option Nat
  | _, 0 => none
  | j, fuel + 1 =>
    if j ≥ n then none
    else if st (2 * j) j = .sent ∧ mk (2 * j + 1) j = idx then some j
    else scanFrom n idx st mk (j + 1) fuel

/-- The same scan with the two loads in the other order (marker first, then status): what the code
    did between commits a0f81670 and d44e5440. -/
def scanMarkerFirst (n idx : Nat) (st : Nat → Nat → St) (mk : Nat → Nat → Nat) : Nat → Nat → Option Nat
  | _, 0 => none
  | j, fuel + 1 =>
    if j ≥ n then none
    else if mk (2 * j) j = idx ∧ st (2 * j + 1) j = .sent then some j
    else scanMarkerFirst n idx st mk (j + 1) fuel

/-- **lookup_finds_owner.** If the owner's slot `k` stays `Sent` with marker `idx` during the scan and
    every other slot, once observed `Sent`, never shows marker `idx` afterwards (a slot in `Sent`
    carries the marker of its current request until released, and distinct outstanding requests have
    distinct first indices by `fresh_idx_distinct`), the scan returns `k` — whatever else the other
    tasks do to the other slots meanwhile. -/
theorem scan_finds_owner (n idx k : Nat) (st : Nat → Nat → St) (mk : Nat → Nat → Nat)
    (hk : k < n) (hown : ∀ t, st t k = .sent ∧ mk t k = idx)
    (hothers : ∀ j, j ≠ k → ∀ t t', t ≤ t' → st t j = .sent → mk t' j ≠ idx) :
    scanFrom n idx st mk 0 n = some k := by
  have gen : ∀ d j, j + d = k → ∀ fuel, k < j + fuel → scanFrom n idx st mk j fuel = some k := by
    intro d
    induction d with
    | zero =>
      intro j hj fuel hf
      have : j = k := by omega
      subst this
      cases fuel with
      | zero => omega
      | succ f =>
        simp only [scanFrom]
        rw [if_neg (by omega), if_pos ⟨(hown _).1, (hown _).2⟩]
    | succ d ih =>
      intro j hj fuel hf
      cases fuel with
      | zero => omega
      | succ f =>
        simp only [scanFrom]
        rw [if_neg (by omega)]
        have hne : j ≠ k := by omega
        have : ¬ (st (2 * j) j = .sent ∧ mk (2 * j + 1) j = idx) := by
          intro ⟨h1, h2⟩
          exact hothers j hne (2 * j) (2 * j + 1) (by omega) h1 h2
        rw [if_neg this]
        exact ih (j + 1) (by omega) f (by omega)
  exact gen k 0 (by omega) n (by omega)

/-- With the loads in the other order the same hypotheses do NOT suffice: a released slot whose stale
    marker equals the index is re-claimed and sent by another request between the two loads, and the
    scan hands the response to the wrong slot. -/
theorem scan_marker_first_counterexample :
    ∃ (st : Nat → Nat → St) (mk : Nat → Nat → Nat),
      (∀ t, st t 1 = .sent ∧ mk t 1 = 5) ∧
      (∀ j, j ≠ 1 → ∀ t t', t ≤ t' → st t j = .sent → mk t' j ≠ 5) ∧
      scanMarkerFirst 2 5 st mk 0 2 = some 0 := by
  refine ⟨fun t j => if j = 1 then .sent else if t ≥ 1 then .sent else .none,
          fun t j => if j = 1 then 5 else if t = 0 then 5 else 9, ?_, ?_, ?_⟩
  · intro t; simp
  · intro j hj t t' htt' hs
    simp only [hj, ↓reduceIte] at hs ⊢
    split at hs
    · have : t' ≠ 0 := by omega
      simp [this]
    · cases hs
  · simp [scanMarkerFirst]

/-! ### The waker / RxDone handshake: no lost wake-up -/

/-- Shared accesses of the handshake: the awaiting task registers its waker and then tests for
    `RxDone`; the RX task sets `RxDone` and then takes and wakes the registered waker. -/
inductive HEv where
  | register | test | setDone | takeWake
  deriving DecidableEq, Repr

structure HState where
  done : Bool := false
  waker : Bool := false
  sawDone : Bool := false    -- the test found RxDone: poll returns Ready
  woken : Bool := false      -- the task was woken: it will poll again
  deriving DecidableEq, Repr

def hstep (s : HState) : HEv → HState
  | .register => { s with waker := true }
  | .test => { s with sawDone := s.done }
  | .setDone => { s with done := true }
  | .takeWake => if s.waker then { s with waker := false, woken := true } else s

/-- All interleavings of two sequences (`fuel` ≥ total length). -/
def merges : Nat → List HEv → List HEv → List (List HEv)
  | 0, _, _ => []
  | _ + 1, [], ys => [ys]
  | _ + 1, xs, [] => [xs]
  | fuel + 1, x :: xs, y :: ys =>
    (merges fuel xs (y :: ys)).map (x :: ·) ++ (merges fuel (x :: xs) ys).map (y :: ·)

example : (merges 5 [.register, .test] [.setDone, .takeWake]).length = 6 := by decide

/-- **no_lost_wakeup.** In every interleaving of one poll with one `mark_received`, the poll either
    sees `RxDone` or the task is woken afterwards: registering the waker before the test and setting
    `RxDone` before waking makes the handshake race free. -/
theorem no_lost_wakeup :
    ∀ l ∈ merges 5 [.register, .test] [.setDone, .takeWake],
      let s := l.foldl hstep {}
      s.sawDone = true ∨ s.woken = true := by
  decide

/-- Testing before registering (the two lines of `poll` swapped) WOULD lose a wake-up. -/
theorem test_before_register_loses_wakeup :
    ∃ l ∈ merges 5 [.test, .register] [.setDone, .takeWake],
      let s := l.foldl hstep {}
      s.sawDone = false ∧ s.woken = false := by
  decide

/-! ### Views -/

/-- **view_window (trim).** After `trim_front ct` a view denotes exactly the suffix of the bytes it
    denoted before, starting at `min ct len`: never a byte outside the datagram's data area. -/
theorem view_trim_suffix (s : Sys) (k off len ct : Nat) :
    viewBytes s k (off + min ct len) (len - min ct len) = (viewBytes s k off len).drop (min ct len) := by
  simp only [viewBytes]
  rw [List.drop_take, List.drop_drop]

theorem opViewTrim_spec (w : World) (r k off len wkc ct : Nat)
    (h : getH w.2 r = some ⟨r, k, .view off len wkc⟩) :
    (opViewTrim w r ct).1.1 = w.1 ∧
    getH (opViewTrim w r ct).1.2 r = some ⟨r, k, .view (off + min ct len) (len - min ct len) wkc⟩ := by
  simp only [opViewTrim, h]
  simp [getH, putH]

/-- **first_pdu_validates.** A response whose first datagram carries another command code or index
    than the handle never yields data. -/
theorem first_pdu_validates (w : World) (r k code idx : Nat) (h : getH w.2 r = some ⟨r, k, .received⟩)
    (off len wkc c i : Nat) (more : Bool)
    (hp : parsePduAt ((w.1.slot k).buf.drop 16) 0 = .ok off len wkc c i more)
    (hne : c ≠ code ∨ i ≠ idx) :
    getH (opFirst w r code idx).1.2 r = none := by
  simp only [opFirst, h, hp]
  rcases hne with hne | hne
  · simp [hne, getH, delH]
  · by_cases hc : c = code
    · simp [hc, hne, getH, delH]
    · simp [hc, getH, delH]

/-! ### Delivery: the response lands in the owner's slot and the owner reads exactly its bytes -/

theorem flagsUnpack_pack' (l : Nat) (more : Bool) (hl : l < 2048) (rest : List Nat) :
    flagsUnpack (flagsPack l false more ++ rest) = (l, false, more) := by
  simp only [flagsPack, flagsUnpack, le16, Gen.LEN_MASK]
  simp [rd16]
  have h1 : l % 2048 = l := Nat.mod_eq_of_lt hl
  rw [h1]
  cases more <;> simp <;> omega

/-- A datagram as the network returns it: header (code, index, 4 address bytes, length/flags, irq),
    data, working counter. -/
def respDgram (c i : Nat) (raw dat : List Nat) (wkc : Nat) (more : Bool) : List Nat :=
  [c, i] ++ raw ++ flagsPack dat.length false more ++ [0, 0] ++ dat ++ le16 wkc

theorem parsePduAt_wellformed (c i : Nat) (raw dat rest : List Nat) (wkc : Nat) (more : Bool)
    (hraw : raw.length = 4) (hL : dat.length < 2048) (hw : wkc < 65536) :
    parsePduAt (respDgram c i raw dat wkc more ++ rest) 0 = .ok 10 dat.length wkc c i more := by
  rcases raw with _ | ⟨r0, _ | ⟨r1, _ | ⟨r2, _ | ⟨r3, _ | _⟩⟩⟩⟩ <;> simp at hraw
  unfold parsePduAt respDgram
  simp only [List.drop_zero]
  have hfl : flagsUnpack (List.drop 6 ([c, i] ++ [r0, r1, r2, r3] ++ flagsPack dat.length false more ++ [0, 0] ++ dat ++ le16 wkc ++ rest))
      = (dat.length, false, more) := by
    have : List.drop 6 ([c, i] ++ [r0, r1, r2, r3] ++ flagsPack dat.length false more ++ [0, 0] ++ dat ++ le16 wkc ++ rest)
        = flagsPack dat.length false more ++ ([0, 0] ++ dat ++ le16 wkc ++ rest) := by simp
    rw [this]; exact flagsUnpack_pack' _ _ hL _
  rw [hfl]
  have hlen : ([c, i] ++ [r0, r1, r2, r3] ++ flagsPack dat.length false more ++ [0, 0] ++ dat ++ le16 wkc ++ rest).length
      = 12 + dat.length + rest.length := by simp [flagsPack, le16]; omega
  simp only [hlen]
  rw [if_neg (by omega), if_neg (by omega), if_neg (by omega)]
  have hw2 : List.drop (10 + dat.length) ([c, i] ++ [r0, r1, r2, r3] ++ flagsPack dat.length false more ++ [0, 0] ++ dat ++ le16 wkc ++ rest)
      = le16 wkc ++ rest := by
    have e : [c, i] ++ [r0, r1, r2, r3] ++ flagsPack dat.length false more ++ [0, 0] ++ dat ++ le16 wkc ++ rest
        = ([c, i] ++ [r0, r1, r2, r3] ++ flagsPack dat.length false more ++ [0, 0] ++ dat) ++ (le16 wkc ++ rest) := by simp
    rw [e]
    have : ([c, i] ++ [r0, r1, r2, r3] ++ flagsPack dat.length false more ++ [0, 0] ++ dat).length = 10 + dat.length := by
      simp [flagsPack, le16]; omega
    rw [← this, List.drop_left]
  rw [hw2]
  have hl2 : ¬ (le16 wkc ++ rest).length < 2 := by simp [le16]
  rw [if_neg hl2]
  have : rd16 (le16 wkc ++ rest) = wkc := by simp [rd16, le16]; omega
  simp [this]

/-- Storage after the payload `p` has been accepted into slot `k`. -/
def delivered (s : Sys) (k : Nat) (p : List Nat) : Sys :=
  s.setSlot k { s.slot k with st := .rxDone, buf := setRange (s.slot k).buf 16 p }

/-- **deliver_exact.** Let request `r` own slot `k`, in `Sent` with first index `i`, and let no
    earlier slot await `i` (distinct outstanding requests have distinct first indices). When the RX
    side is handed a frame whose EtherCAT payload starts with the response to `r`'s first datagram
    (same command code and index; ANY data and working counter) and fits the slot: `receive_frame`
    returns `Processed`, `r`'s next poll returns `Ready(Ok)`, `first_pdu` with `r`'s handle yields a
    view showing exactly the returned data bytes and working counter, and every other slot is left
    bit-identical — however many other requests are in flight. -/
theorem deliver_exact (s : Sys) (hs : List Hd) (r k i : Nat) (retries deadline timeout : Nat) (armed : Bool)
    (hh : getH hs r = some ⟨r, k, .fut retries deadline timeout armed⟩)
    (hk : k < s.n) (haw : Awaits (s.slot k) i) (huniq : ∀ j, j < k → ¬ Awaits (s.slot j) i)
    (hbuf : (s.slot k).buf.length = s.data)
    (bytes : List Nat) (c : Nat) (raw dat rest : List Nat) (wkc : Nat) (more : Bool)
    (hraw : raw.length = 4) (hL : dat.length < 2048) (hw : wkc < 65536)
    (hparse : rxParse s.exit bytes = .ok (respDgram c i raw dat wkc more ++ rest, i))
    (hfit : (respDgram c i raw dat wkc more ++ rest).length ≤ s.data - 16) (hdata : 16 ≤ s.data) :
    let w1 := opRx (s, hs) bytes
    let w2 := opPoll w1.1 r
    let w3 := opFirst w2.1 r c i
    w1.2 = "processed" ∧ w2.2 = "ready.ok" ∧
    getH w3.1.2 r = some ⟨r, k, .view 26 dat.length wkc⟩ ∧
    viewBytes w3.1.1 k 26 dat.length = dat ∧
    (∀ j, j ≠ k → w3.1.1.slot j = s.slot j) := by
  intro w1 w2 w3
  -- the delivery step
  have hpl := (rxParse_ok _ _ _ _ hparse)
  have hdel : rxDeliver s (respDgram c i raw dat wkc more ++ rest) i =
      (delivered s k (respDgram c i raw dat wkc more ++ rest), .processed) := by
    rcases rxDeliver_cases s (respDgram c i raw dat wkc more ++ rest) i with ⟨_, h2⟩ | ⟨k', hk', ha', hprev', h⟩
    · -- errDecode is impossible: slot k awaits
      exfalso
      unfold rxDeliver at h2
      split at h2
      · next hnone =>
        have := findIdx_none _ _ _ hnone k (by simpa [Sys.n] using hk)
        obtain ⟨h1, h2'⟩ := haw
        simp [Sys.slot] at h1 h2'
        simp [h1, h2'] at this
      · next k'' hk'' =>
        split at h2
        · cases h2
        · split at h2
          · cases h2
          · split at h2 <;> cases h2
    · have hkk : k' = k := by
        rcases Nat.lt_trichotomy k' k with hlt | heq | hgt
        · exact absurd ha' (huniq k' hlt)
        · exact heq
        · exact absurd haw (hprev' k hgt)
      subst hkk
      rcases h with ⟨h1, _, h3⟩ | ⟨_, hbig, _⟩
      · exact Prod.ext h3 h1
      · omega
  have hw1 : w1 = ((delivered s k (respDgram c i raw dat wkc more ++ rest), hs), "processed") := by
    simp only [w1, opRx, receiveFrame, hparse, hdel]
    rfl
  generalize hs1 : delivered s k (respDgram c i raw dat wkc more ++ rest) = s1 at *
  have hslot1 : s1.slot k = { s.slot k with st := .rxDone, buf := setRange (s.slot k).buf 16 (respDgram c i raw dat wkc more ++ rest) } := by
    rw [← hs1]; exact slot_setSlot_eq _ _ _ hk
  -- the poll
  have hw2 : w2 = ((s1.setSlot k { s1.slot k with st := .rxProcessing }, putH hs ⟨r, k, .received⟩), "ready.ok") := by
    simp only [w2, hw1, opPoll, hh]
    rw [hslot1]
    simp
  generalize hs2 : s1.setSlot k { s1.slot k with st := .rxProcessing } = s2 at *
  have hn1 : k < s1.n := by rw [← hs1, delivered, n_setSlot]; exact hk
  have hslot2 : s2.slot k = { s1.slot k with st := .rxProcessing } := by
    rw [← hs2]; exact slot_setSlot_eq _ _ _ hn1
  have hbuf2 : (s2.slot k).buf.drop 16 = respDgram c i raw dat wkc more ++ rest ++ (s.slot k).buf.drop (16 + (respDgram c i raw dat wkc more ++ rest).length) := by
    rw [hslot2, hslot1]
    simp only [setRange]
    have : (List.take 16 (s.slot k).buf).length = 16 := by simp; omega
    rw [List.append_assoc]
    conv => lhs; arg 1; rw [← this]
    rw [List.drop_left]
  have hgetr : getH (putH hs ⟨r, k, .received⟩) r = some ⟨r, k, .received⟩ := by simp [getH, putH]
  have hparse3 := parsePduAt_wellformed c i raw dat
    (rest ++ (s.slot k).buf.drop (16 + (respDgram c i raw dat wkc more ++ rest).length)) wkc more hraw hL hw
  have hw3 : w3 = ((s2, putH (putH hs ⟨r, k, .received⟩) ⟨r, k, .view 26 dat.length wkc⟩), s!"ok.{dat.length}.{wkc}") := by
    simp only [w3, hw2, opFirst, hgetr]
    rw [hbuf2, List.append_assoc, hparse3]
    simp
  refine ⟨by rw [hw1], by rw [hw2], ?_, ?_, ?_⟩
  · rw [hw3]; simp [getH, putH]
  · rw [hw3]
    simp only [viewBytes]
    have : (s2.slot k).buf.drop 26 = ((s2.slot k).buf.drop 16).drop 10 := by rw [List.drop_drop]
    rw [this, hbuf2]
    rcases raw with _ | ⟨r0, _ | ⟨r1, _ | ⟨r2, _ | ⟨r3, _ | _⟩⟩⟩⟩ <;> simp at hraw
    simp [respDgram, flagsPack, le16]
  · intro j hj
    rw [hw3]
    simp only [← hs2, ← hs1, delivered]
    rw [slot_setSlot_ne _ _ _ _ hj, slot_setSlot_ne _ _ _ _ hj]

end Ec.C01
