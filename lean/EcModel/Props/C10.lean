/-
  C10 — a group's typestate never claims a state its SubDevices are not in.
  Property theorems only; helper lemmas live in EcModel/Lemmas/GroupLemmas.lean.

  Reading guide. A transition runs against an arbitrary event trace (one event per datagram, in the
  order the datagrams are sent): any responses, any number of polls, lost frames, the deadline of
  the transition timeout. `Reports d p` = the status datagram `p` came back with working counter 1
  and decodes to state nibble `d` without error indication.
  Every function also returns the frames it sent. Hypothesis `m = .checked ∨ CHECK_SIZE ≤ pduLen`:
  a debug build, or frames with room for one 14-byte status check (any real frame: ≥ 28+14 bytes).
-/
import EcModel.Lemmas.GroupLemmas
import EcModel.Generated.Tables

namespace Ec.C10
open Ec Ec.Wkc Ec.Group

/-! ### Transitions -/

/-- Success of `transition_to` (every into_* wrapper) means: the call ended on a complete status
    round — one poll per member, in member order — in which EVERY member reported the requested
    state. -/
theorem ok_implies_all_reported (m : Mode) (pduLen desired : Nat) (members : List Nat) (tr rest : List Ev)
    (sent : List (List Dg)) (hm : m = .checked ∨ CHECK_SIZE ≤ pduLen)
    (h : transitionTo m pduLen desired members tr = (.ok (), rest, sent)) :
    ∃ (pre : List Ev) (ps : List Pdu), tr = pre ++ ps.map Ev.resp ++ rest ∧ ps.length = members.length ∧
      ∀ p ∈ ps, Reports desired p := by
  unfold transitionTo at h
  split at h
  · simp at h
  · rename_i t s hreq
    simp only [Prod.mk.injEq] at h
    obtain ⟨pre, ps, h1, h2, h3⟩ := waitLoop_ok m pduLen desired members _ t rest
      (waitForState m pduLen desired members t).2.2 hm (by
        show waitForState m pduLen desired members t = _
        rw [← h.1, ← h.2.1])
    obtain ⟨q, hq⟩ := requestAll_suffix desired members tr _ t s hreq
    exact ⟨q ++ pre, ps, by rw [hq, h1]; simp, h2, h3⟩

/-- `wait_for_state` alone (also what `transition_to` ends with). -/
theorem wait_ok_implies_all_reported (m : Mode) (pduLen desired : Nat) (members : List Nat) (tr rest : List Ev)
    (sent : List (List Dg)) (hm : m = .checked ∨ CHECK_SIZE ≤ pduLen)
    (h : waitForState m pduLen desired members tr = (.ok (), rest, sent)) :
    ∃ (pre : List Ev) (ps : List Pdu), tr = pre ++ ps.map Ev.resp ++ rest ∧ ps.length = members.length ∧
      ∀ p ∈ ps, Reports desired p :=
  waitLoop_ok m pduLen desired members _ tr rest sent hm h

/-- A member whose AL control read-back carries the error bit makes the request — and with it the
    whole transition — fail: `Err(StateTransition)` if the status code could be read, the read's
    own error otherwise; never `Ok`. -/
theorem refusal_is_error (addr desired : Nat) (p : Pdu) (c : AlControl) (t : List Ev)
    (hw : p.wkc = 1) (hu : unpackAlControl p.data = .ok c) (he : c.error = true) :
    (∀ q t2 code, t = .resp q :: t2 → q.wkc = 1 → unpackCode q.data = .ok code →
        (requestNowaitL addr desired (.resp p :: t)).1 = .error .stateTransition) ∧
    (requestNowaitL addr desired (.resp p :: t)).1 ≠ .ok () := by
  have hsr : WrappedWrite.new.sendReceive (exch none (.resp p)) unpackAlControl = .ok c := by
    simp [WrappedWrite.sendReceive, exch, WrappedWrite.new, Pdu.maybeWkc, Pdu.checkWkc, hw, hu,
      Gen.Wkc.DEFAULT_WRITE_WKC]
  constructor
  · intro q t2 code ht hqw hqc
    subst ht
    have hrd : WrappedRead.new.receive (exch none (.resp q)) unpackCode = .ok code := by
      simp [WrappedRead.receive, exch, WrappedRead.new, Pdu.maybeWkc, Pdu.checkWkc, hqw, hqc, Gen.Wkc.DEFAULT_READ_WKC]
    simp only [requestNowaitL]
    rw [hsr]
    simp only [he, if_true]
    rw [hrd]
  · simp only [requestNowaitL]
    rw [hsr]
    simp only [he, if_true]
    cases t with
    | nil => simp
    | cons e2 t2 =>
      simp only
      split <;> simp

/-- The request phase succeeded: every member's AL control write was acknowledged by exactly one
    device and came back without error bit; the frames sent are one FPWR of AL control per member,
    in member order, carrying the requested state. -/
theorem requests_acknowledged (desired : Nat) (members : List Nat) (tr rest : List Ev) (sent : List (List Dg))
    (h : requestAll desired members tr = (.ok (), rest, sent)) :
    ∃ ps : List Pdu, tr = ps.map Ev.resp ++ rest ∧ ps.length = members.length ∧
      (∀ p ∈ ps, p.wkc = 1 ∧ ∃ c, unpackAlControl p.data = .ok c ∧ c.error = false) ∧
      sent = members.map (fun a => [Dg.fpwr a Gen.Wkc.REG_AL_CONTROL (alControlByte desired)]) :=
  requestAll_ok desired members tr rest sent h

/-- The state request goes to every member of the group and to no device outside it: whatever
    happens, every datagram of a transition is addressed to a member; after the request phase the
    AL control writes are exactly the members, once each, in order. -/
theorem requests_exactly_members (m : Mode) (pduLen desired : Nat) (members : List Nat) (tr : List Ev) :
    (∀ f ∈ (transitionTo m pduLen desired members tr).2.2, ∀ g ∈ f, g.addr ∈ members) ∧
    (∀ rest sent, transitionTo m pduLen desired members tr = (.ok (), rest, sent) →
        sent.flatten.filter Dg.isFpwr =
          members.map (fun a => Dg.fpwr a Gen.Wkc.REG_AL_CONTROL (alControlByte desired))) := by
  constructor
  · intro f hf g hg
    unfold transitionTo at hf
    split at hf
    · rename_i e t s hreq
      exact requestAll_addr desired members tr f (by rw [hreq]; exact hf) g hg
    · rename_i t s hreq
      simp only at hf
      rcases List.mem_append.1 hf with hf | hf
      · exact requestAll_addr desired members tr f (by rw [hreq]; exact hf) g hg
      · exact waitLoop_addr m pduLen desired members _ t f hf g hg
  · intro rest sent h
    unfold transitionTo at h
    split at h
    · simp at h
    · rename_i t s hreq
      simp only [Prod.mk.injEq] at h
      obtain ⟨ps, _, _, _, hs⟩ := requestAll_ok desired members tr t s hreq
      rw [← h.2.2, hs, List.flatten_append, List.filter_append]
      have h1 := filter_fpwr_requests Gen.Wkc.REG_AL_CONTROL (alControlByte desired) members
      have h2 : ((waitForState m pduLen desired members t).2.2.flatten.filter Dg.isFpwr) = [] := by
        rw [List.filter_eq_nil_iff]
        intro g hg
        obtain ⟨f, hf, hgf⟩ := List.mem_flatten.1 hg
        obtain ⟨a, _, rfl⟩ := waitLoop_fprd m pduLen desired members _ t f hf g hgf
        simp [Dg.isFpwr]
      rw [h1, h2]; simp

/-- The 1..n status frames of a round together check every member exactly once, in member order;
    every frame is non-empty, fits the datagram area and holds at most 129 checks. -/
theorem chunking_covers_all (pduLen : Nat) (members : List Nat) (h : CHECK_SIZE ≤ pduLen) :
    (round pduLen members).1.flatten = members ∧ (round pduLen members).2 = [] ∧
    ∀ f ∈ (round pduLen members).1, f ≠ [] ∧ f.length * CHECK_SIZE ≤ pduLen ∧
      f.length ≤ Gen.Wkc.STATE_CHECKS_BREAK_AFTER + 1 :=
  ⟨(round_complete pduLen members h).2, (round_complete pduLen members h).1, chunks_frames pduLen _ members⟩

/-- ... and a round that `is_state` reports as true sent exactly those frames and got one
    state-matching response per member. -/
theorem is_state_true_checks_everybody (m : Mode) (pduLen desired : Nat) (members : List Nat) (tr rest : List Ev)
    (sent : List (List Dg)) (hm : m = .checked ∨ CHECK_SIZE ≤ pduLen)
    (h : isState m pduLen desired members tr = (.ok true, rest, sent)) :
    ∃ ps : List Pdu, tr = ps.map Ev.resp ++ rest ∧ ps.length = members.length ∧ (∀ p ∈ ps, Reports desired p) ∧
      sent.flatten = members.map (fun a => Dg.fprd a Gen.Wkc.REG_AL_STATUS) := by
  obtain ⟨ps, h1, h2, h3, h4, h5⟩ := isState_true m pduLen desired members tr rest sent hm h
  refine ⟨ps, h1, h2, h3, ?_⟩
  rw [h4, ← List.map_flatten, h5]

/-- A trace on which the group never gets there: rounds that each end in "not yet", then the
    deadline (before a frame is sent, or while one is unanswered). -/
inductive Stalls (m : Mode) (pduLen desired : Nat) (members : List Nat) : List Ev → Prop where
  | deadline (t : List Ev) : Stalls m pduLen desired members (.deadline :: t)
  | lostDeadline (t : List Ev) : Stalls m pduLen desired members (.lostDeadline :: t)
  | round (tr t : List Ev) (s : List (List Dg)) :
      isState m pduLen desired members tr = (.ok false, t, s) → Stalls m pduLen desired members t →
      Stalls m pduLen desired members tr

/-- If some member keeps the group from reaching the state in every round until the transition
    timer fires, the call returns `Err(Timeout(StateTransition))` at that very event — no later than
    the first poll after the deadline. -/
theorem stall_is_timeout_error (m : Mode) (pduLen desired a : Nat) (members : List Nat) (tr : List Ev)
    (hL : CHECK_SIZE ≤ pduLen) (hs : Stalls m pduLen desired (a :: members) tr) :
    (waitForState m pduLen desired (a :: members) tr).1 = .error (.timeout .stateTransition) := by
  unfold waitForState
  exact waitLoop_stalls m pduLen desired a members tr hL hs (tr.length + 1) (Nat.lt_succ_self _)
where
  waitLoop_stalls (m : Mode) (pduLen desired a : Nat) (members : List Nat) (tr : List Ev)
      (hL : CHECK_SIZE ≤ pduLen) (hs : Stalls m pduLen desired (a :: members) tr) :
      ∀ fuel, tr.length < fuel → (waitLoop m pduLen desired (a :: members) fuel tr).1 = .error (.timeout .stateTransition) := by
    induction hs with
    | deadline t =>
      intro fuel hf
      cases fuel with
      | zero => omega
      | succ fuel =>
        have := isState_deadline m pduLen desired a members t hL
        simp [waitLoop, this]
    | lostDeadline t =>
      intro fuel hf
      cases fuel with
      | zero => omega
      | succ fuel =>
        obtain ⟨s, hs⟩ := isState_lostDeadline m pduLen desired a members t hL
        simp [waitLoop, hs]
    | round tr t s his _ ih =>
      intro fuel hf
      cases fuel with
      | zero => omega
      | succ fuel =>
        have hc := isState_false_consumes m pduLen desired (a :: members) tr t s his
        simp only [waitLoop, his]
        exact ih fuel (by omega)

/-- The fuel of `waitForState` (trace length + 1 rounds) is never what ends the loop: any larger
    bound gives the same result, because every round that says "not yet" consumed an event. -/
theorem wait_fuel_sufficient (m : Mode) (pduLen desired : Nat) (members : List Nat) (tr : List Ev) (fuel : Nat)
    (h : tr.length < fuel) :
    waitLoop m pduLen desired members fuel tr = waitForState m pduLen desired members tr :=
  waitLoop_fuel m pduLen desired members fuel (tr.length + 1) tr h (Nat.lt_succ_self _)

/-- A status datagram (answered by one device) with the error-indication bit ends `is_state` —
    and with it the transition — in `Err(StateTransition)`, whatever state nibble it carries; this is
    what `MainDevice::wait_for_state` does too. -/
theorem error_indication_is_error (desired : Nat) (p : Pdu) (c : AlControl) (ps : List Pdu)
    (hw : p.wkc = 1) (hu : unpackAlControl p.data = .ok c) (he : c.error = true) :
    checkStates desired (p :: ps) = .error .stateTransition := by
  simp [checkStates, Pdu.checkWkc, hw, hu, he]

/-- The former witness of the gap (members in SAFE-OP, the last one with the error indication set,
    0x14): `into_safe_op` used to return Ok, now it is `Err(StateTransition)`. -/
theorem error_indication_former_witness :
    transitionTo .checked 100 4 [0x1000, 0x1001]
      [.resp ⟨[4, 0], 1⟩, .resp ⟨[4, 0], 1⟩, .resp ⟨[0x04, 0], 1⟩, .resp ⟨[0x14, 0], 1⟩]
    = (.error .stateTransition, [],
        [[.fpwr 0x1000 0x120 4], [.fpwr 0x1001 0x120 4], [.fprd 0x1000 0x130, .fprd 0x1001 0x130]]) := by
  decide

/-! ### `MainDevice::wait_for_state` -/

/-- Success of the broadcast variant: the last read was answered by all `num` SubDevices, the
    OR of their status bytes is the requested state and carries no error bit. -/
theorem md_wait_ok_implies_reported (num desired : Nat) (tr rest : List Ev)
    (h : mdWaitForState num desired tr = (.ok (), rest)) :
    ∃ (pre : List Ev) (p : Pdu), tr = pre ++ .resp p :: rest ∧ p.wkc = num ∧
      unpackAlControl p.data = .ok ⟨desired, false⟩ :=
  mdWaitForState_ok num desired tr rest h

/-! ### The per-cycle state list and its summaries -/

/-- The state list of `tx_rx*` is, entry by entry, the state nibble of the status datagrams that
    came back (decoded to `SubDeviceState` and back is the identity). -/
theorem states_as_reported (pdus : List Pdu) (l : List Nat) (h : statesOf pdus = .ok l) :
    l = pdus.map (fun p => p.data.getD 0 0 % 16) := by
  induction pdus generalizing l with
  | nil => simp [statesOf] at h; simp [← h]
  | cons p ps ih =>
    simp only [statesOf] at h
    split at h
    · simp at h
    · rename_i c hc
      split at h
      · simp at h
      · rename_i l' hl
        simp only [Res.ok.injEq] at h
        subst h
        have hcs : c.state = p.data.getD 0 0 % 16 := by
          unfold unpackAlControl at hc
          split at hc
          · simp at hc
          · simp only [Res.ok.injEq] at hc; rw [← hc]
        simp [ofNat_toNat, hcs, ih l' hl]

/-- `group_state` is the OR of what was reported: bit `i` is set iff some SubDevice reported a
    state with bit `i` set. -/
theorem group_state_is_or (l : List Nat) (h : ∀ s ∈ l, s < 16) (i : Nat) :
    (groupState l).testBit i = l.any (fun s => s.testBit i) := by
  rw [groupState_eq_orAll l h]
  induction l with
  | nil => simp [orAll]
  | cons x l ih =>
    rw [orAll_cons, Nat.testBit_or, ih (fun s hs => h s (by simp [hs]))]
    simp

/-- `group_in_single_state` returns `Some(d)` iff the group is non-empty and EVERY SubDevice
    reported `d` (as decoded from its 4-bit status field). -/
theorem single_state_iff (l : List Nat) (d : SdState) :
    groupInSingleState l = some d ↔ l ≠ [] ∧ ∀ s ∈ l, SdState.ofNat s = d := by
  unfold groupInSingleState
  rw [singleState_some]
  simp

/-- `is_in_state(d)` iff the group is non-empty and every SubDevice reported `d`. -/
theorem is_in_state_iff (l : List Nat) (d : SdState) :
    isInState l d = true ↔ l ≠ [] ∧ ∀ s ∈ l, SdState.ofNat s = d := by
  unfold isInState
  rw [beq_iff_eq, single_state_iff]

/-- `all_op r ↔ r.states ≠ [] ∧ ∀ s ∈ r.states, s = Op`. -/
theorem all_op_iff (l : List Nat) : allOp l = true ↔ l ≠ [] ∧ ∀ s ∈ l, s = 8 := by
  have key : (∀ s ∈ l, SdState.ofNat s = .op) ↔ ∀ s ∈ l, s = 8 := by
    constructor
    · intro h s hs
      exact ofNat_inj s 8 (by rw [h s hs]; rfl)
    · intro h s hs
      rw [h s hs]; rfl
  rw [← key, ← single_state_iff]
  unfold allOp
  cases groupInSingleState l with
  | none => simp
  | some d => simp

/-- The inputs on which the OR-fold used to go wrong (`[Op, None]`: a device that reported
    nothing next to one in OP; `[Init, PreOp]` against `Other(3)`) now get the right answers. -/
theorem former_or_fold_witnesses :
    allOp [8, 0] = false ∧ isInState [8, 0] .op = false ∧ groupInSingleState [8, 0] = none ∧
    isInState [1, 2] (.other 3) = false ∧ isInState [3, 3] .bootstrap = true ∧
    groupInSingleState [] = none := by
  decide

/-! ### Generated obligations (T1) -/

/-- The discriminants the model's `SdState.toNat`/`ofNat` use are the ones in subdevice_state.rs. -/
theorem state_discriminants :
    Gen.subDeviceStates = [("None", 0), ("Init", 1), ("PreOp", 2), ("Bootstrap", 3), ("SafeOp", 4), ("Op", 8)] ∧
    SdState.none.toNat = 0 ∧ SdState.init.toNat = 1 ∧ SdState.preOp.toNat = 2 ∧ SdState.bootstrap.toNat = 3 ∧
    SdState.safeOp.toNat = 4 ∧ SdState.op.toNat = 8 := by
  decide

/-- Registers, AlControl length and the per-frame cap the model uses are the ones in the sources. -/
theorem group_constants :
    Gen.Wkc.REG_AL_CONTROL = 0x0120 ∧ Gen.Wkc.REG_AL_STATUS = 0x0130 ∧ Gen.Wkc.REG_AL_STATUS_CODE = 0x0134 ∧
    Gen.Wkc.AL_CONTROL_LEN = 2 ∧ Gen.Wkc.STATE_CHECKS_BREAK_AFTER = 128 ∧ CHECK_SIZE = 14 := by
  decide

/-! ### Non-vacuity -/

/-- Three members, two checks per frame (datagram area 30 bytes), the second member one round late. -/
example : transitionTo .checked 30 8 [0x1000, 0x1001, 0x1002]
    [.resp ⟨[8, 0], 1⟩, .resp ⟨[8, 0], 1⟩, .resp ⟨[8, 0], 1⟩,
     .resp ⟨[8, 0], 1⟩, .resp ⟨[4, 0], 1⟩,
     .resp ⟨[8, 0], 1⟩, .resp ⟨[8, 0], 1⟩, .resp ⟨[8, 0], 1⟩]
    = (.ok (), [], [[.fpwr 0x1000 0x120 8], [.fpwr 0x1001 0x120 8], [.fpwr 0x1002 0x120 8],
        [.fprd 0x1000 0x130, .fprd 0x1001 0x130],
        [.fprd 0x1000 0x130, .fprd 0x1001 0x130], [.fprd 0x1002 0x130]]) := by decide

/-- A stalling member: one failed round, then the deadline. -/
example : Stalls .checked 100 8 [0x1000] [.resp ⟨[4, 0], 1⟩, .deadline] :=
  .round _ [.deadline] [[.fprd 0x1000 0x130]] (by decide) (.deadline [])

example : (waitForState .checked 100 8 [0x1000] [.resp ⟨[4, 0], 1⟩, .deadline]).1 = .error (.timeout .stateTransition) := by
  decide

/-- 16 members in 3 frames of 6, 6, 4 (datagram area 84..97 bytes). -/
example : ((round 90 (List.range 16)).1.map List.length) = [6, 6, 4] := by decide

example : allOp [8, 8, 8] = true ∧ allOp [8, 4] = false ∧ groupInSingleState [4, 4] = some .safeOp ∧
    groupInSingleState [8, 4] = none ∧ isInState [2, 2] .preOp = true ∧ groupInSingleState [5, 5] = some (.other 5) := by
  decide

end Ec.C10
