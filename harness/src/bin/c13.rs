//! C13 — no EEPROM content can hang or crash the MainDevice: every EEPROM-derived query of the REAL
//! `SubDeviceEeprom` on arbitrary images (random, structured-then-mutated, adversarial), both chunk sizes, in
//! the build profile of this binary (dev = overflow checks, release = wrapping). One `catch_unwind` per query,
//! a provider-call cap turns a non-terminating walk into the outcome `hang`.
use ecverif::eeprom_gen::{self as eg, CatDesc, Case, DeviceDesc, Fill, GenOpts};
use ecverif::rng::Rng;
use ecverif::util::{Report, hex};

fn all_queries(rng: &mut Rng) -> Vec<String> {
    let mut q: Vec<String> = ["alias", "size", "id", "mbox", "gen", "sms", "fmmus", "fmmuex", "pdos:t", "pdos:r"].iter().map(|s| s.to_string()).collect();
    for t in [10u16, 30, 40, 41, 42, 50, 51] {
        q.push(format!("cat:{t}"));
    }
    // searches that nobody in the crate performs, but `category` accepts: unknown type (Nop), End
    q.push(format!("cat:{}", *rng.pick(&[0u16, 1, 20, 60, 0xffff, 0x1234])));
    for i in [0u64, 1, 2, 255] {
        q.push(format!("str:{}:{}", *rng.pick(&eg::STRING_NS), i));
    }
    q.push(format!("str:{}:{}", *rng.pick(&eg::STRING_NS), rng.range(0, 255)));
    q.push(format!("name:{}", *rng.pick(&[64usize, 4, 255])));
    q.push(format!("desc:{}", *rng.pick(&[128usize, 16, 255])));
    q
}

fn cap_of(q: &str) -> Option<(usize, char)> {
    match q.split(':').next().unwrap() {
        "sms" => Some((8, '/')),
        "fmmus" => Some((16, '.')),
        "fmmuex" => Some((16, '.')),
        "pdos" => Some((64, '/')),
        _ => None,
    }
}

/// Hanging images cost ~2 M model iterations per hanging query: at most two hanging queries are kept per
/// image, and at most `HANG_IMAGE_BUDGET` hanging images are handed to the model (all are still monitored).
const HANG_IMAGE_BUDGET: usize = 60;
static HANG_IMAGES: std::sync::atomic::AtomicUsize = std::sync::atomic::AtomicUsize::new(0);

fn run_image(case: &Case, checked: bool, label: &str, rep: &mut Report) {
    let prov = eg::MemProvider::new(case.img.clone(), case.fill, case.cs);
    let mut res = Vec::new();
    let mut hangs = 0;
    for q in &case.queries {
        let r = eg::run_query(&prov, q);
        if r.body == "hang" {
            hangs += 1;
        }
        res.push(r);
        if hangs >= 2 {
            break;
        }
    }
    let mut case = case.clone();
    case.queries.truncate(res.len());
    let case = &case;
    let line = case.to_line(checked);
    let over_budget = hangs > 0 && HANG_IMAGES.fetch_add(1, std::sync::atomic::Ordering::SeqCst) >= HANG_IMAGE_BUDGET;
    let mut classes: Vec<String> = Vec::new();
    for (q, r) in case.queries.iter().zip(&res) {
        let kind = q.split(':').next().unwrap();
        if r.body == "hang" {
            eg::fail(rep, "c13/hang-category-walk", &format!("{q}: more than {} provider calls: the category walk does not terminate", eg::STEP_CAP), &line);
            classes.push("hang".into());
        } else if let Some(i) = r.body.find('!') {
            let site = r.body[i + 1..].split(['|', ',', '#']).next().unwrap().replace(':', "-");
            eg::fail(rep, &format!("c13/panic-{site}"), &format!("{q} panicked at {site} after {} provider calls", r.calls), &line);
            classes.push(format!("panic-{site}"));
        } else {
            classes.push(if r.body.starts_with("E:") { r.body.clone() } else if r.body == "none" { "absent".into() } else { "value".into() });
            // bounded number of device accesses for a query that finished
            // Props/C13 access_bound: every query stays below 184 801 provider calls, in both build modes
            if r.calls > 184_801 {
                eg::fail(rep, "c13/access-bound", &format!("{q} made {} provider calls", r.calls), &line);
            }
            if let Some((cap, sep)) = cap_of(q) {
                if let Some(v) = r.body.strip_prefix("v.") {
                    let n = if v.is_empty() { 0 } else { v.split(sep).count() };
                    if n > cap {
                        eg::fail(rep, "c13/collection-unbounded", &format!("{q} returned {n} items, capacity {cap}"), &line);
                    }
                }
            }
            if kind == "str" || kind == "name" || kind == "desc" {
                let nmax: usize = q.split(':').nth(1).unwrap().parse().unwrap();
                if let Some(h) = r.body.strip_prefix("s.") {
                    if h != "-" && h.len() / 2 > nmax {
                        eg::fail(rep, "c13/string-unbounded", &format!("{q} returned {} bytes", h.len() / 2), &line);
                    }
                }
            }
        }
        rep.hit(&format!("outcome {}", classes.last().unwrap().split('.').next().unwrap()));
    }
    rep.hit(&format!("image {label}"));
    rep.hit(&format!("cs{}", case.cs));
    classes.sort();
    classes.dedup();
    if classes.len() >= 3 {
        rep.nontrivial.insert(hex(&case.img[..case.img.len().min(512)]) + &classes.join(","));
    }
    if over_budget {
        rep.hit("hanging image monitored but not handed to the model (budget)");
    } else {
        rep.case(line, eg::answer_line(&res));
    }
}

fn put16(v: &mut Vec<u8>, at: usize, x: u16) {
    if v.len() < at + 2 {
        v.resize(at + 2, 0xff);
    }
    v[at..at + 2].copy_from_slice(&x.to_le_bytes());
}

/// Hand-made hostile images: (label, image, fill).
fn adversarial(rng: &mut Rng) -> Vec<(String, Vec<u8>, Fill)> {
    let mut v: Vec<(String, Vec<u8>, Fill)> = Vec::new();
    let hdr = |rng: &mut Rng| eg::gen_header(rng);
    // the witnesses of the Lean counterexample theorems (Props/C13.lean), byte for byte
    let sparse = |bytes: &[(usize, u8)]| -> Vec<u8> {
        let n = bytes.iter().map(|b| b.0).max().unwrap_or(0) + 1;
        let mut v = vec![0u8; n];
        for (a, b) in bytes {
            v[*a] = *b;
        }
        v
    };
    v.push(("lean-imgLenFFFF".into(), sparse(&[(128, 1), (130, 255), (131, 255)]), Fill::Zero));
    v.push(("lean-imgSize511".into(), sparse(&[(124, 255), (125, 1)]), Fill::Zero));
    v.push(("lean-imgFar".into(), sparse(&[(128, 1), (130, 0xbc), (131, 0x7f)]), Fill::Zero));
    v.push(("lean-imgBigCat-mul".into(), sparse(&[(128, 30), (130, 0), (131, 0x80)]), Fill::Zero));
    v.push(("lean-imgBigCat-add".into(), sparse(&[(128, 30), (130, 0xc0), (131, 0x7f)]), Fill::Zero));
    v.push(("lean-imgSkip".into(), sparse(&[(128, 1), (130, 0xac), (131, 0x7f), (0xffdc, 10), (0xffde, 6), (0xffe0, 5), (0xffe1, 255)]), Fill::Zero));
    v.push(("lean-imgReadByte".into(), sparse(&[(128, 1), (130, 0xbb), (131, 0x7f), (0xfffa, 10), (0xfffe, 5)]), Fill::Zero));
    v.push(("lean-imgWrapToSelf".into(), sparse(&[(128, 2), (130, 254), (131, 255)]), Fill::Zero));
    v.push(("lean-imgOk".into(), sparse(&[(128, 30), (130, 9), (134, 1), (150, 255), (151, 255)]), Fill::Zero));
    // blank / erased / zeroed EEPROMs of several sizes (issue 286 class)
    for n in [0usize, 1, 16, 127, 128, 132, 256, 2048] {
        v.push((format!("blank-ff-{n}"), vec![0xff; n], Fill::Ff));
        v.push((format!("blank-00-{n}"), vec![0x00; n], Fill::Zero));
        v.push((format!("blank-ff-wrap-{n}"), vec![0xff; n], Fill::Wrap));
    }
    // first category with length 0xFFFF / 0xFFFE / lengths that land on 0x7ffd..0x8001 / 0xfffc..0xffff
    for len in [0xffffu16, 0xfffe, 0xfffd, 0x8000, 0x7fff, 0x7fbe, 0x7fbd, 0x7fbc, 0x7fbb, 0xffbc, 0xffbd, 0xffbe, 0xffbb, 0xffba] {
        for ty in [0x0001u16, 0x1234, 10, 30, 41, 50] {
            let mut img = hdr(rng);
            put16(&mut img, 128, ty);
            put16(&mut img, 130, len);
            img.extend(rng.bytes(8));
            v.push((format!("first-len-{len:04x}"), img.clone(), Fill::Ff));
            v.push((format!("first-len-{len:04x}-wrap"), img, Fill::Wrap));
        }
    }
    // wrap-to-self and longer cycles in the 16-bit word space (release: never terminates)
    {
        let mut img = hdr(rng);
        put16(&mut img, 128, 0x0002);
        put16(&mut img, 130, 0xfffe);
        v.push(("wrap-to-self".into(), img, Fill::Zero));
        // two categories that point at each other: 0x40 -> 0x40 + 2 + 6 = 0x48 -> back to 0x40
        let mut img = hdr(rng);
        put16(&mut img, 128, 0x0003);
        put16(&mut img, 130, 6);
        put16(&mut img, 0x48 * 2, 0x0004);
        put16(&mut img, 0x48 * 2 + 2, (0x10000u32 - 0x48 - 2 + 0x40) as u16);
        v.push(("two-cycle".into(), img, Fill::Zero));
        // image repeating every 8 bytes, every header claiming a big length
        v.push(("wrap-pattern".into(), vec![0x05, 0x00, 0xfe, 0xff, 0x06, 0x00, 0xfe, 0x7f], Fill::Wrap));
        v.push(("wrap-pattern-2".into(), vec![0x05, 0x00, 0xfc, 0x7f], Fill::Wrap));
    }
    // size word >= 511
    for w in [510u16, 511, 512, 4095, 0x7fff, 0xfffe, 0xffff] {
        let mut img = hdr(rng);
        put16(&mut img, 124, w);
        v.push((format!("size-word-{w}"), img, Fill::Ff));
    }
    // string index one past the table, strings category last, nothing after it
    {
        let strings = vec![b"ab".to_vec(), b"c".to_vec()];
        let mut g = eg::gen_general(rng, 2);
        g.order_idx = 3;
        g.name_idx = 3;
        let d = DeviceDesc { header: hdr(rng), cats: vec![CatDesc::General(g), CatDesc::Strings(strings)], pad: 0xff, end_marker: false };
        v.push(("string-one-past".into(), d.encode().0, Fill::Ff));
    }
    // strings category whose lengths run over its end / count 255
    {
        let mut img = hdr(rng);
        put16(&mut img, 128, 10);
        put16(&mut img, 130, 4);
        img.extend([255u8, 200, 1, 2, 3, 4, 5, 6]);
        v.push(("strings-overrun".into(), img, Fill::Ff));
    }
    // empty strings category right below the 64 KiB byte boundary: read_byte has no end check
    for target in [0x7ffdu16, 0x7ffc, 0x7ffb, 0x7ffa] {
        for ty in [10u16, 30, 40, 41, 50] {
            let mut img = hdr(rng);
            put16(&mut img, 128, 0x0005);
            put16(&mut img, 130, target - 0x42);
            put16(&mut img, 2 * target as usize, ty);
            for l in [0u16, 1, 2] {
                let mut img = img.clone();
                put16(&mut img, 2 * target as usize + 2, l);
                v.push((format!("category-at-{target:04x}"), img, Fill::Ff));
            }
        }
    }
    // PDO with 255 entries of 255 bits; 65 PDOs; PDO whose entries run out
    {
        let big = eg::PdoDesc { index: 0x1a00, sm: 3, dc_sync: 0, name_idx: 0, flags: 0, entries: vec![(0x6000, 1, 0, 0, 255, 0); 255] };
        let d = DeviceDesc { header: hdr(rng), cats: vec![CatDesc::TxPdo(vec![big.clone(), big.clone()]), CatDesc::RxPdo(vec![big])], pad: 0, end_marker: true };
        v.push(("pdo-255x255".into(), d.encode().0, Fill::Ff));
        let small = eg::PdoDesc { index: 0x1600, sm: 2, dc_sync: 0, name_idx: 0, flags: 0, entries: vec![] };
        let d = DeviceDesc { header: hdr(rng), cats: vec![CatDesc::RxPdo(vec![small.clone(); 65]), CatDesc::TxPdo(vec![small; 64])], pad: 0, end_marker: true };
        v.push(("pdo-65".into(), d.encode().0, Fill::Ff));
        let mut img = hdr(rng);
        put16(&mut img, 128, 50);
        put16(&mut img, 130, 8);
        img.extend([0x00, 0x1a, 200, 0, 0, 0, 0, 0, 1, 2, 3, 4, 5, 6, 7, 8]);
        v.push(("pdo-entries-missing".into(), img, Fill::Ff));
    }
    // 9 sync managers, 17 FMMU_EX entries, 20 FMMUs, invalid FMMU usage
    {
        let d = DeviceDesc {
            header: hdr(rng),
            cats: vec![
                CatDesc::Sm((0..9).map(|_| eg::gen_sm(rng)).collect()),
                CatDesc::FmmuEx(vec![[0, 1, 0]; 17]),
                CatDesc::Fmmu(vec![1; 20]),
            ],
            pad: 0,
            end_marker: true,
        };
        v.push(("over-capacity".into(), d.encode().0, Fill::Ff));
        let d = DeviceDesc { header: hdr(rng), cats: vec![CatDesc::Fmmu(vec![1, 2, 7, 3])], pad: 0, end_marker: true };
        v.push(("fmmu-invalid".into(), d.encode().0, Fill::Ff));
    }
    // 31 / 32 / 33 empty categories before a real one
    for n in [31usize, 32, 33] {
        let mut cats: Vec<CatDesc> = (0..n).map(|i| CatDesc::Unknown(0x2000 + i as u16, vec![])).collect();
        cats.push(CatDesc::Fmmu(vec![1, 2]));
        let d = DeviceDesc { header: hdr(rng), cats, pad: 0, end_marker: true };
        v.push((format!("empty-categories-{n}"), d.encode().0, Fill::Ff));
    }
    v
}

fn set16(img: &mut [u8], at: usize, x: u16) {
    if at + 2 <= img.len() {
        img[at..at + 2].copy_from_slice(&x.to_le_bytes());
    }
}

/// Structured image, then damage: flipped bytes, extreme length words, truncation.
fn mutate(rng: &mut Rng, img: &mut Vec<u8>, extents: &[(u16, usize, usize)]) -> &'static str {
    match rng.below(6) {
        0 => {
            for _ in 0..rng.range(1, 8) {
                if !img.is_empty() {
                    let i = rng.below(img.len() as u64) as usize;
                    img[i] = rng.byte();
                }
            }
            "mut-bytes"
        }
        1 => {
            // a category length word becomes extreme
            if let Some((_, off, _)) = extents.get(rng.below(extents.len().max(1) as u64) as usize) {
                let x = *rng.pick(&[0xffffu16, 0xfffe, 0x8000, 0x7fff, 0x7f00, 0, 1]);
                set16(img, off - 2, x);
            }
            "mut-length"
        }
        2 => {
            let n = rng.below(img.len() as u64 + 1) as usize;
            img.truncate(n);
            "mut-truncate"
        }
        3 => {
            // a category type becomes another searched type / End
            if let Some((_, off, _)) = extents.get(rng.below(extents.len().max(1) as u64) as usize) {
                let x = *rng.pick(&[10u16, 30, 40, 41, 42, 50, 51, 0xffff, 0]);
                set16(img, off - 4, x);
            }
            "mut-type"
        }
        4 => {
            // length off by a little: item sizes no longer divide the category
            if let Some((_, off, len)) = extents.get(rng.below(extents.len().max(1) as u64) as usize) {
                let x = ((*len / 2) as i64 + rng.range(0, 6) as i64 - 3).max(0) as u16;
                set16(img, off - 2, x);
            }
            "mut-length-near"
        }
        _ => {
            let i = rng.below(img.len().max(1) as u64) as usize;
            let n = rng.range(1, 40) as usize;
            for k in i..(i + n).min(img.len()) {
                img[k] = *rng.pick(&[0xffu8, 0x00]);
            }
            "mut-erase"
        }
    }
}

fn main() {
    let args = ecverif::parse_args();
    eg::install_panic_capture();
    let checked = eg::is_checked_build();
    let mut rep = Report::default();
    rep.notes.push(format!("c13 arithmetic profile: {}", if checked { "checked (debug)" } else { "wrapping (release)" }));
    if let Some(cases) = ecverif::replay_cases(&args) {
        for c in cases.iter().filter(|c| c.starts_with("c13 ")) {
            if let Some(case) = Case::parse(c) {
                run_image(&case, checked, "replay", &mut rep);
            }
        }
    } else {
        let r = std::panic::catch_unwind(std::panic::AssertUnwindSafe(|| run(&args.tier, args.seed, checked, &mut rep)));
        if r.is_err() {
            eprintln!("harness bug: generator/monitor panicked: {:?}", eg::take_last_panic());
            std::process::exit(3);
        }
    }
    rep.write(&args.out, "c13");
}

fn run(tier: &str, seed: u64, checked: bool, rep: &mut Report) {
    let mut rng = Rng::new(seed ^ 0xc13);
    let thorough = tier == "thorough";
    // release runs pay ~0.2 s of provider calls for every image whose walk never terminates: fewer generated images
    let div = if checked { 1 } else { 3 };
    for (label, img, fill) in adversarial(&mut rng) {
        for cs in [4usize, 8] {
            let case = Case { key: "c13".into(), cs, fill, img: img.clone(), queries: all_queries(&mut rng) };
            let class = label.split('-').take(2).collect::<Vec<_>>().join("-");
            run_image(&case, checked, &format!("adversarial {class}"), rep);
        }
    }
    // random bytes
    for _ in 0..if thorough { 3000 / div } else { 600 } {
        let n = match rng.below(5) {
            0 => rng.range(0, 140),
            1 => rng.range(128, 400),
            _ => rng.range(0, 2048),
        } as usize;
        let mut img = rng.bytes(n);
        if rng.chance(1, 2) && n > 132 {
            // make the first header plausible so the walk goes somewhere
            put16(&mut img, 128, *rng.pick(&[10u16, 30, 40, 41, 42, 50, 51, 1, 0x1000]));
            put16(&mut img, 130, rng.edgy(60) as u16);
        }
        let case = Case { key: "c13".into(), cs: if rng.chance(1, 2) { 4 } else { 8 }, fill: *rng.pick(&[Fill::Ff, Fill::Zero, Fill::Wrap]), img, queries: all_queries(&mut rng) };
        run_image(&case, checked, "random", rep);
    }
    // structured, then mutated
    let small = GenOpts::small();
    for _ in 0..if thorough { 12_000 / div } else { 2_000 } {
        let d = eg::gen_device(&mut rng, &small);
        let (mut img, ext) = d.encode();
        let mut label = "structured";
        for _ in 0..rng.below(3) {
            label = mutate(&mut rng, &mut img, &ext);
        }
        let case = Case { key: "c13".into(), cs: if rng.chance(1, 2) { 4 } else { 8 }, fill: *rng.pick(&[Fill::Ff, Fill::Zero, Fill::Wrap]), img, queries: all_queries(&mut rng) };
        run_image(&case, checked, label, rep);
    }
    // a few big ones (categories beyond 64 KiB)
    let full = GenOpts::full();
    for _ in 0..if thorough { 60 } else { 4 } {
        let d = eg::gen_device(&mut rng, &full);
        let (mut img, ext) = d.encode();
        if rng.chance(1, 2) {
            mutate(&mut rng, &mut img, &ext);
        }
        let case = Case { key: "c13".into(), cs: if rng.chance(1, 2) { 4 } else { 8 }, fill: Fill::Ff, img, queries: all_queries(&mut rng) };
        run_image(&case, checked, "structured-large", rep);
    }
}
