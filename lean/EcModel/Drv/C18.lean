/- Line protocol for C18:
   `c18 <chk|wrap> <ref> <sys> <delay> <period> <shift> <devs> <times>`
     devs  = `-` | `addr,dc,d` | `addr,dc,s0` | `addr,dc,s1,<sync1 nanos>` joined by `;` (dc: 0 none, 1 ref-only, 2 64 bit, 3 32 bit)
     times = `-` | u64 system times joined by `,` (one `tx_rx_dc` cycle each)
   -> `<ok|err:..|panic>|<addr:reg:hex,..>|<time:offset:wait:frmw-address | panic, ..>` -/
import EcModel.DcSync
import EcModel.Drv.Util

namespace Ec.Drv.C18
open Ec Ec.Drv Ec.DcSync

def parseDev (s : String) : Option Dev :=
  match splitOn s "," with
  | [a, dc, "d"] => some ⟨nat! a, nat! dc != 0, .disabled⟩
  | [a, dc, "s0"] => some ⟨nat! a, nat! dc != 0, .sync0⟩
  | [a, dc, "s1", n] => some ⟨nat! a, nat! dc != 0, .sync01 (nat! n)⟩
  | _ => none

def parseDevs (s : String) : List Dev :=
  if s = "-" then [] else (splitOn s ";").filterMap parseDev

def showWrite (w : Write) : String := s!"{w.addr}:{w.reg}:{hexBytes w.data}"

def showCycle (m : Mode) (h : HasDc) (t : Nat) : String :=
  match cycleInfo m h t with
  | .ok (off, wait) => s!"{t}:{off}:{wait}:{h.reference}"
  | .err _ => "err"
  | .panic _ => "panic"

def handle (args : List String) : String :=
  match args with
  | [mode, ref, sys, delay, period, shift, devs, times] =>
    let m := if mode = "wrap" then Mode.wrapping else Mode.checked
    let r := configureDcSync m (nat! ref) (nat! sys) (nat! delay) (nat! period) (nat! shift) (parseDevs devs)
    let ws := if r.1.isEmpty then "-" else joinWith "," (r.1.map showWrite)
    match r.2 with
    | .ok h =>
      let ts := if times = "-" then [] else (splitOn times ",").map nat!
      let cs := if ts.isEmpty then "-" else joinWith "," (ts.map (showCycle m h))
      "ok|" ++ ws ++ "|" ++ cs
    | .err .noReference => "err:NoReference|" ++ ws ++ "|-"
    | .err .intConv => "err:IntegerTypeConversion|" ++ ws ++ "|-"
    | .panic _ => "panic|" ++ ws ++ "|-"
  | _ => "bad-case"

end Ec.Drv.C18
