/-
  C02 — a frame buffer never has two parties inside it at once; every status change follows the
  documented lifecycle. Theorems over ALL event sequences (any number of parties, any interleaving)
  of the slot status protocol (`Lifecycle.lean`), plus the obligations tying the protocol's events to
  the transition sites regenerated from /repo and to the micro-step model's status accesses.
-/
import EcModel.Lifecycle
import EcModel.Micro
import EcModel.Lemmas.SlotsLemmas

namespace Ec.C02
open Ec Ec.Lifecycle

/-- **T1 obligation.** The protocol's events are exactly the status-access sites found in
    `src/pdu_loop/**` now (function, compare-exchange vs plain store, from/to state), `reset` aside.
    Weakening a compare-exchange to a store, adding or removing a site, or changing its states
    changes `Gen.transitionSitesN` and this no longer checks. -/
theorem events_match_sites :
    (∀ s ∈ Ev.all.filterMap Ev.site, s ∈ Gen.transitionSitesN) ∧
    (∀ s ∈ Gen.transitionSitesN, s = (12, 1, 255, 0) ∨ s ∈ Ev.all.filterMap Ev.site) ∧
    Gen.transitionSitesN.length = (Ev.all.filterMap Ev.site).length + 1 := by
  decide

/-- The state discriminants the models use are the ones in the source. -/
theorem states_match_source :
    Gen.frameStates.map (·.2) = St.all.map St.toNat ∧ Gen.frameStates.length = 8 := by decide

/-- **Ownership invariant**: preserved by every enabled event of every party, except abandonment
    while the TX or RX side is inside the buffer (quantified separately in C06). -/
theorem inv_step (x x' : LSlot) (e : Ev) (h : SlotInv x) (hne : ¬ AbandonInside x e)
    (hs : step x e = some x') : SlotInv x' := by
  obtain ⟨st, tok⟩ := x
  cases st <;> simp only [SlotInv] at h <;> (first | subst h | (rcases h with h | h <;> subst h)) <;>
    cases e <;> simp [step, cas, AbandonInside] at hs hne ⊢ <;> (try subst hs) <;> simp [SlotInv]

/-- No event of the sequence abandons the request while TX or RX is inside the buffer. -/
def Safe : LSlot → List Ev → Prop
  | _, [] => True
  | x, e :: rest => ¬ AbandonInside x e ∧ Safe ((step x e).getD x) rest

/-- The invariant holds in every state reachable by any sequence of events (any number of parties, any
    interleaving) that never abandons inside the window. -/
theorem inv_reach (evs : List Ev) (x : LSlot) (h : SlotInv x) (hsafe : Safe x evs) :
    SlotInv (run x evs) := by
  induction evs generalizing x with
  | nil => simpa [run]
  | cons e rest ih =>
    obtain ⟨hne, hrest⟩ := hsafe
    have hx' : SlotInv ((step x e).getD x) := by
      cases hs : step x e with
      | none => simpa using h
      | some x' => simpa using inv_step _ _ _ h hne hs
    simpa [run] using ih _ hx' hrest

/-- **Mutual exclusion**: under the invariant at most one party has the right to touch the buffer. -/
theorem mutual_exclusion (x : LSlot) (h : SlotInv x) : inside x.tok ≤ 1 := by
  obtain ⟨st, tok⟩ := x
  cases st <;> simp only [SlotInv] at h <;> (first | subst h | (rcases h with h | h <;> subst h)) <;> simp [inside]

/-- A buffer is given to a new request only when nobody holds it: the claim succeeds only from
    `None`, where no handle of any kind exists. -/
theorem no_realloc_while_held (x x' : LSlot) (h : SlotInv x) (hs : step x .claimCreated = some x')
    (hc : x'.tok.creator = x.tok.creator + 1) : x.st = .none ∧ x.tok = ⟨0, 0, 0, 0, 0⟩ := by
  obtain ⟨st, tok⟩ := x
  cases st <;> simp only [SlotInv] at h <;> (first | subst h | (rcases h with h | h <;> subst h)) <;>
    simp [step, cas] at hs <;> subst hs <;> simp at hc ⊢

/-- **Lifecycle order**: every status change of every enabled event is an edge of the documented
    lifecycle (free, being built, ready to send, sending, sent, receiving, received, being read, free;
    plus the failure edges Sending→Sendable, Sent→Sendable, Created→None and the owner's release). -/
theorem lifecycle_order (x x' : LSlot) (e : Ev) (h : SlotInv x) (hne : ¬ AbandonInside x e)
    (hs : step x e = some x') : x'.st = x.st ∨ edge x.st x'.st = true := by
  obtain ⟨st, tok⟩ := x
  cases st <;> simp only [SlotInv] at h <;> (first | subst h | (rcases h with h | h <;> subst h)) <;>
    cases e <;> simp [step, cas, AbandonInside] at hs hne ⊢ <;> (try subst hs) <;> simp [edge]

/-- Abandoning inside the window DOES break the invariant (this is what C06 quantifies): the future
    is dropped while TX holds the frame; the slot is free although TX is still inside, and the next
    claim puts a second party into the buffer. -/
theorem abandon_inside_counterexample :
    let x := run init [.claimCreated, .markSendable, .txClaim, .abandon, .claimCreated]
    ¬ SlotInv x ∧ inside x.tok = 2 := by decide

/-! ### Tie to the micro-step model: every status access of `Micro.stepThread` is one of the sites -/

/-- Status changes a micro-step may perform, as (from, to) pairs: compare-exchange sites contribute
    their single edge, plain stores an edge from every state. -/
def siteEdge (a b : St) : Bool :=
  Gen.transitionSitesN.any (fun s => (s.2.2.1 = 255 ∨ s.2.2.1 = a.toNat) ∧ s.2.2.2 = b.toNat)

theorem slot_setSlot (s : Sys) (i k : Nat) (x : Slot) :
    (s.setSlot i x).slot k = if k = i ∧ i < s.n then x else s.slot k := by
  by_cases hk : k = i
  · subst hk
    by_cases hi : k < s.n
    · simp [hi, slot_setSlot_eq _ _ _ hi]
    · have hi' : s.slots.length ≤ k := by simpa [Sys.n] using hi
      have hs : (s.slots.set k x)[k]? = none := List.getElem?_eq_none (by simpa using hi')
      simp [hi, Sys.slot, Sys.setSlot, List.getD_eq_getElem?_getD, List.getElem?_eq_none hi', hs]
  · simp [hk, slot_setSlot_ne _ _ _ _ hk]

theorem setSlot_ok (s : Sys) (i : Nat) (x' : Slot)
    (h : x'.st = (s.slot i).st ∨ siteEdge (s.slot i).st x'.st = true) (k : Nat) :
    ((s.setSlot i x').slot k).st = (s.slot k).st ∨
      siteEdge (s.slot k).st ((s.setSlot i x').slot k).st = true := by
  rw [slot_setSlot]
  split
  · next hk => obtain ⟨hk, _⟩ := hk; subst hk; exact h
  · left; rfl

theorem store_edge_sendable (a : St) : siteEdge a .sendable = true := by cases a <;> decide
theorem store_edge_none (a : St) : siteEdge a .none = true := by cases a <;> decide

theorem begin_sys (s : Sys) (t : Micro.Thread) : (Micro.begin s t).1 = s := by
  unfold Micro.begin
  repeat' (first | rfl | split | dsimp only)

/-- **Every micro-step changes the status of at most the slots it names, and only along a site's
    edge**: the micro-step model performs no status access that is not a transition site of the
    code. (One case per program counter; the threads' locals are arbitrary.) -/
theorem micro_status_steps_are_sites (s : Sys) (t : Micro.Thread) (k : Nat) :
    ((Micro.stepThread s t).1.slot k).st = (s.slot k).st ∨
      siteEdge (s.slot k).st ((Micro.stepThread s t).1.slot k).st = true := by
  cases hpc : t.pc <;> simp only [Micro.stepThread, hpc]
  case idle => rw [begin_sys]; left; rfl
  all_goals (repeat' (first | split | dsimp only))
  all_goals first
    | (left; rfl)
    | (left; trivial)
    | (apply setSlot_ok
       first
         | (left; rfl)
         | (right; simp only [*]; decide)
         | (right; exact store_edge_sendable _)
         | (right; exact store_edge_none _))
    | skip

end Ec.C02
