/- Line protocol for C13: the shared EEPROM machine (see Drv/Eeprom.lean). -/
import EcModel.Drv.Eeprom

namespace Ec.Drv.C13
def handle : List String → String := Ec.Drv.Eeprom.handle
end Ec.Drv.C13
