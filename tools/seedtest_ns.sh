#!/bin/bash
# usage: tools/seedtest_ns.sh <patch.diff> <tag> <check-id> [<check-id>...]
# Runs the given checks (quick) against a PRIVATE copy of /repo with the patch applied, without touching
# /repo or /verif: a clone of /repo and a copy of /verif are bind-mounted over /repo and /verif inside a
# private mount namespace (unshare -m), so the checks run unmodified and see the patched tree as "/repo".
# Logs are copied to /verif/out/seed_<tag>_<check>.log; the scratch copies are removed afterwards.
set -u
patch=$(readlink -f "$1"); tag=$2; shift 2
ST=/tmp/st_$tag
rm -rf "$ST"; mkdir -p "$ST"
git clone -q /repo "$ST/repo" || exit 2
git -C /repo diff --quiet || { echo "note: /repo has uncommitted changes; the clone is of HEAD"; }
if ! git -C "$ST/repo" apply --check "$patch" 2>/dev/null; then echo "PATCH DOES NOT APPLY: $patch"; rm -rf "$ST"; exit 2; fi
git -C "$ST/repo" apply "$patch"
rsync -a --exclude /out --exclude /.git /verif/ "$ST/verif/"
mkdir -p "$ST/verif/out"
checks="$*"
unshare -m bash -c "
  mount --bind $ST/repo /repo && mount --bind $ST/verif /verif || exit 3
  cd /verif
  for c in $checks; do
    ./check \$c > /verif/out/seed_${tag}_\$c.log 2>&1
    echo \"$tag \$c exit=\$? :: \$(grep -E '^(VIOLATION|OK)' /verif/out/seed_${tag}_\$c.log | head -3 | tr '\n' ' ')\"
    grep '^DETAIL' /verif/out/seed_${tag}_\$c.log | head -4 | cut -c1-240
  done
"
mkdir -p /verif/out
cp "$ST"/verif/out/seed_${tag}_*.log /verif/out/ 2>/dev/null
rm -rf "$ST"
echo "scratch removed; /repo untouched: $(git -C /repo status --porcelain | wc -l) changed files"
