//! One EtherCAT SubDevice controller (ESC): 64 KiB register/process memory plus the behaviour
//! behind the registers the MainDevice touches (ETG1000.4 §6, register numbers as in Table 31 ff.).
use super::coe::CoeServer;
use std::collections::VecDeque;

pub const R_TYPE: u16 = 0x0000;
pub const R_FMMU_COUNT: u16 = 0x0004;
pub const R_SM_COUNT: u16 = 0x0005;
pub const R_FEATURES: u16 = 0x0008;
pub const R_STATION_ADDR: u16 = 0x0010;
pub const R_ALIAS: u16 = 0x0012;
pub const R_DL_CONTROL: u16 = 0x0100;
pub const R_DL_STATUS: u16 = 0x0110;
pub const R_AL_CONTROL: u16 = 0x0120;
pub const R_AL_STATUS: u16 = 0x0130;
pub const R_AL_STATUS_CODE: u16 = 0x0134;
pub const R_SII_CONFIG: u16 = 0x0500;
pub const R_SII_CONTROL: u16 = 0x0502;
pub const R_SII_ADDRESS: u16 = 0x0504;
pub const R_SII_DATA: u16 = 0x0508;
pub const R_FMMU0: u16 = 0x0600;
pub const R_SM0: u16 = 0x0800;
pub const R_DC_PORT0: u16 = 0x0900;
pub const R_DC_SYSTEM_TIME: u16 = 0x0910;
pub const R_DC_RECEIVE_TIME: u16 = 0x0918;
pub const R_DC_OFFSET: u16 = 0x0920;
pub const R_DC_DELAY: u16 = 0x0928;
pub const R_DC_DIFF: u16 = 0x092C;
pub const R_DC_CYCLIC_CTRL: u16 = 0x0980;
pub const R_DC_SYNC_ACTIVE: u16 = 0x0981;
pub const R_DC_START_TIME: u16 = 0x0990;
pub const R_DC_SYNC0_CYCLE: u16 = 0x09A0;
pub const R_DC_SYNC1_CYCLE: u16 = 0x09A4;

pub const AL_INIT: u8 = 1;
pub const AL_PREOP: u8 = 2;
pub const AL_BOOT: u8 = 3;
pub const AL_SAFEOP: u8 = 4;
pub const AL_OP: u8 = 8;

/// Distributed clock capability as shown in the feature bits 0x0008/0x0009.
#[derive(Clone, Copy, Debug, PartialEq, Eq, Default)]
pub struct DcCaps {
    /// 0x0008 bit 2: receive times (and system time) implemented.
    pub supported: bool,
    /// 0x0008 bit 3: 64-bit system time / receive time.
    pub wide64: bool,
    /// 0x0009 bit 0: enhanced DC sync activation (SYNC/LATCH unit usable).
    pub enhanced: bool,
}

impl DcCaps {
    pub const NONE: DcCaps = DcCaps { supported: false, wide64: false, enhanced: false };
    pub const REF_ONLY: DcCaps = DcCaps { supported: true, wide64: false, enhanced: false };
    pub const REF_ONLY64: DcCaps = DcCaps { supported: true, wide64: true, enhanced: false };
    pub const BITS32: DcCaps = DcCaps { supported: true, wide64: false, enhanced: true };
    pub const BITS64: DcCaps = DcCaps { supported: true, wide64: true, enhanced: true };
    pub fn token(&self) -> &'static str {
        match (self.supported, self.enhanced, self.wide64) {
            (false, _, _) => "none",
            (true, false, _) => "refonly",
            (true, true, true) => "bits64",
            (true, true, false) => "bits32",
        }
    }
}

/// What the device does with the next matching AL control request.
#[derive(Clone, Debug, PartialEq, Eq)]
pub enum AlRule {
    /// Status follows the request at once.
    Accept,
    /// Status follows after the status register was read `k` more times.
    AcceptAfterPolls(u32),
    /// State unchanged, error indication set, status code as given.
    Refuse(u16),
    /// Nothing ever happens.
    Stall,
    /// Accept now; after `polls` reads of the status register fall back to `to` with error + code.
    AcceptThenFallBack { polls: u32, to: u8, code: u16 },
}

#[derive(Clone, Debug, Default)]
pub struct AlMachine {
    pub state: u8,
    pub error: bool,
    pub code: u16,
    /// Rules consumed in order; `Some(s)` only matches a request for state `s`. No rule: `Accept`.
    pub script: VecDeque<(Option<u8>, AlRule)>,
    /// A rule applied to every request that no script entry matched (default `Accept`).
    pub default_rule: Option<AlRule>,
    /// Check the ETG1000.6 transition table (PRE-OP -> OP is refused with 0x0011 ...).
    pub check_transitions: bool,
    /// While the error indication is set, ignore requests that do not acknowledge it.
    pub require_ack: bool,
    pending: Option<(u8, u32)>,
    fallback: Option<(u32, u8, u16)>,
    /// (requested byte, state after handling) for every write to AL control.
    pub requests: Vec<(u8, u8)>,
    pub status_polls: u64,
}

impl AlMachine {
    fn valid_transition(from: u8, to: u8) -> bool {
        if to == from {
            return true;
        }
        match (from, to) {
            (_, AL_INIT) => true,
            (AL_INIT, AL_PREOP) | (AL_INIT, AL_BOOT) => true,
            (AL_PREOP, AL_SAFEOP) => true,
            (AL_SAFEOP, AL_OP) => true,
            (AL_SAFEOP, AL_PREOP) | (AL_OP, AL_PREOP) | (AL_OP, AL_SAFEOP) => true,
            _ => false,
        }
    }

    pub fn request(&mut self, byte: u8) {
        let req = byte & 0x0f;
        let ack = byte & 0x10 != 0;
        if self.error {
            if ack {
                self.error = false;
                self.code = 0;
            } else if self.require_ack {
                self.requests.push((byte, self.state));
                return;
            }
        }
        self.pending = None;
        self.fallback = None;
        if !matches!(req, AL_INIT | AL_PREOP | AL_BOOT | AL_SAFEOP | AL_OP) {
            self.error = true;
            self.code = 0x0012;
            self.requests.push((byte, self.state));
            return;
        }
        if self.check_transitions && !Self::valid_transition(self.state, req) {
            self.error = true;
            self.code = 0x0011;
            self.requests.push((byte, self.state));
            return;
        }
        let pos = self.script.iter().position(|(m, _)| m.is_none() || *m == Some(req));
        let rule = match pos {
            Some(p) => self.script.remove(p).unwrap().1,
            None => self.default_rule.clone().unwrap_or(AlRule::Accept),
        };
        match rule {
            AlRule::Accept => self.state = req,
            AlRule::AcceptAfterPolls(0) => self.state = req,
            AlRule::AcceptAfterPolls(k) => self.pending = Some((req, k)),
            AlRule::Refuse(code) => {
                self.error = true;
                self.code = code;
            }
            AlRule::Stall => {}
            AlRule::AcceptThenFallBack { polls, to, code } => {
                self.state = req;
                self.fallback = Some((polls, to, code));
            }
        }
        self.requests.push((byte, self.state));
    }

    /// Called once per read of the AL status register, after the value was sampled.
    fn polled(&mut self) {
        self.status_polls += 1;
        if let Some((to, k)) = self.pending {
            if k <= 1 {
                self.state = to;
                self.pending = None;
            } else {
                self.pending = Some((to, k - 1));
            }
        }
        if let Some((k, to, code)) = self.fallback {
            if k <= 1 {
                self.state = to;
                self.error = true;
                self.code = code;
                self.fallback = None;
            } else {
                self.fallback = Some((k - 1, to, code));
            }
        }
    }
}

#[derive(Clone, Debug, PartialEq, Eq)]
pub enum SiiFault {
    /// The next command is refused with the command (acknowledge) error bit.
    CommandError,
    /// The next command keeps the interface busy for `k` status reads.
    Busy(u32),
    /// The next command never completes (busy for ever).
    BusyForever,
    /// The next read command returns these bytes instead of the EEPROM content.
    Garbage(Vec<u8>),
}

#[derive(Clone, Debug, PartialEq, Eq)]
pub enum SiiOp {
    Read(u32),
    Write(u32, [u8; 2]),
    Reload,
    Refused(u8),
}

#[derive(Clone, Debug)]
pub struct Sii {
    /// 4 or 8 octets per read.
    pub chunk: usize,
    /// Busy status reads after every command.
    pub busy_polls: u32,
    pub faults: VecDeque<SiiFault>,
    /// Byte returned for addresses beyond the EEPROM array.
    pub oob_fill: u8,
    pub checksum_error: bool,
    pub cmd_error: bool,
    pub write_error: bool,
    busy_left: u32,
    busy_forever: bool,
    pub ops: Vec<SiiOp>,
}

impl Default for Sii {
    fn default() -> Self {
        Sii {
            chunk: 4,
            busy_polls: 0,
            faults: VecDeque::new(),
            oob_fill: 0xff,
            checksum_error: false,
            cmd_error: false,
            write_error: false,
            busy_left: 0,
            busy_forever: false,
            ops: Vec::new(),
        }
    }
}

#[derive(Clone, Debug)]
pub struct Dc {
    pub caps: DcCaps,
    /// Local clock = global simulation time (ns) + this offset (wrapping u64).
    pub local_offset_ns: u64,
    /// Delay port 0 -> processing unit -> next port.
    pub proc_delay_ns: u32,
    /// Delay of a frame returning on port k before it leaves on the next open port.
    pub fwd_delay_ns: u32,
    /// If set, a FRMW/ARMW write to the system time moves the local system time half of the
    /// measured difference towards the received value (crude control loop).
    pub servo: bool,
    servo_adjust: i64,
    /// Number of times the port receive times were latched.
    pub latches: u64,
    /// Values written to 0x0910 by FRMW/ARMW (received system times).
    pub sync_writes: u64,
}

impl Default for Dc {
    fn default() -> Self {
        Dc {
            caps: DcCaps::NONE,
            local_offset_ns: 0,
            proc_delay_ns: 300,
            fwd_delay_ns: 300,
            servo: false,
            servo_adjust: 0,
            latches: 0,
            sync_writes: 0,
        }
    }
}

/// Per-datagram context handed to the device by the segment.
#[derive(Clone, Copy, Debug, Default)]
pub struct Ctx {
    pub cmd: u8,
    /// Global time (ns) at which the frame's first bit reached this device's port 0.
    pub arrival_ns: u64,
    /// Global time (ns) at which the frame reached each port (0..3) of this device, if open.
    pub port_ns: [Option<u64>; 4],
}

#[derive(Clone, Debug, Default)]
pub struct MailboxState {
    /// master -> device mailbox holds an unprocessed request
    pub in_full: bool,
    /// device -> master mailbox holds an unread message
    pub out_full: bool,
    /// messages waiting for the out mailbox to become empty
    pub out_queue: VecDeque<Vec<u8>>,
    /// datagrams this device still executes before the application looks at the request
    pub app_delay_left: u32,
    /// what the master wrote / read: complete mailbox images
    pub written: Vec<Vec<u8>>,
    pub read: Vec<Vec<u8>>,
    /// writes refused because the mailbox was still full, reads refused because it was empty
    pub refused_writes: u64,
    pub refused_reads: u64,
}

pub struct Esc {
    pub mem: Vec<u8>,
    pub eeprom: Vec<u8>,
    pub al: AlMachine,
    pub sii: Sii,
    pub dc: Dc,
    /// Ports 0..3 with link (set by the segment from the topology unless `ports_fixed`).
    pub ports_open: [bool; 4],
    pub ports_fixed: bool,
    pub fmmu_count: u8,
    pub sm_count: u8,
    pub coe: Option<CoeServer>,
    pub mbx: MailboxState,
    /// Delay (in datagrams executed by this device) before a mailbox request is answered.
    pub mbx_response_delay: u32,
    /// Refuse PRE-OP / SAFE-OP when the sync managers were not set up as the description says
    /// (AL status codes 0x0016, 0x001D, 0x001E).
    pub strict_sm_check: bool,
    /// Expected (sm index, start, length) pairs for `strict_sm_check`: mailbox SMs checked on
    /// PRE-OP, process data SMs on SAFE-OP.
    pub expected_mbx_sms: Vec<(u8, u16, u16)>,
    pub expected_pd_sms: Vec<(u8, u16, u16)>,
    /// Free-form label (device name) for logs.
    pub label: String,
    /// Count of executed reads / writes (datagram level).
    pub reads: u64,
    pub writes: u64,
    /// History of values stored to the station address register.
    pub station_addr_writes: Vec<u16>,
}

fn rd16(m: &[u8], a: usize) -> u16 {
    u16::from_le_bytes([m[a], m[a + 1]])
}
fn rd32(m: &[u8], a: usize) -> u32 {
    u32::from_le_bytes([m[a], m[a + 1], m[a + 2], m[a + 3]])
}
fn rd64(m: &[u8], a: usize) -> u64 {
    let mut b = [0u8; 8];
    b.copy_from_slice(&m[a..a + 8]);
    u64::from_le_bytes(b)
}

fn overlaps(ado: usize, len: usize, reg: u16, rlen: usize) -> bool {
    let r = reg as usize;
    ado < r + rlen && r < ado + len
}

/// One sync manager channel as currently programmed.
#[derive(Clone, Copy, Debug, PartialEq, Eq)]
pub struct SmView {
    pub index: u8,
    pub start: u16,
    pub len: u16,
    pub control: u8,
    pub active: bool,
}

impl SmView {
    pub fn is_mailbox(&self) -> bool {
        self.control & 0x03 == 0x02
    }
    /// true: the master writes this SM
    pub fn master_writes(&self) -> bool {
        (self.control >> 2) & 0x03 == 0x01
    }
}

/// One FMMU as currently programmed.
#[derive(Clone, Copy, Debug, PartialEq, Eq)]
pub struct FmmuView {
    pub index: u8,
    pub logical_start: u32,
    pub len: u16,
    pub start_bit: u8,
    pub end_bit: u8,
    pub phys_start: u16,
    pub phys_bit: u8,
    pub read: bool,
    pub write: bool,
    pub enable: bool,
}

impl Esc {
    pub fn blank() -> Esc {
        let mut e = Esc {
            mem: vec![0u8; 65536],
            eeprom: vec![0u8; 128],
            al: AlMachine { state: AL_INIT, require_ack: true, check_transitions: true, ..Default::default() },
            sii: Sii::default(),
            dc: Dc::default(),
            ports_open: [true, false, false, false],
            ports_fixed: false,
            fmmu_count: 8,
            sm_count: 8,
            coe: None,
            mbx: MailboxState::default(),
            mbx_response_delay: 0,
            strict_sm_check: false,
            expected_mbx_sms: Vec::new(),
            expected_pd_sms: Vec::new(),
            label: String::new(),
            reads: 0,
            writes: 0,
            station_addr_writes: Vec::new(),
        };
        e.power_on();
        e
    }

    /// (Re)load the information registers from the configuration, as a power cycle would.
    pub fn power_on(&mut self) {
        self.mem[0] = 0x11;
        self.mem[1] = 0x00;
        self.mem[2] = 0x02;
        self.mem[R_FMMU_COUNT as usize] = self.fmmu_count;
        self.mem[R_SM_COUNT as usize] = self.sm_count;
        self.mem[6] = 8;
        self.mem[7] = 0x0f;
        let c = self.dc.caps;
        self.mem[R_FEATURES as usize] = 0x01 | ((c.supported as u8) << 2) | ((c.wide64 as u8) << 3);
        self.mem[R_FEATURES as usize + 1] = c.enhanced as u8;
        self.load_alias_from_eeprom();
        self.sync_status_regs();
    }

    pub fn load_alias_from_eeprom(&mut self) {
        if self.eeprom.len() >= 10 {
            self.mem[R_ALIAS as usize] = self.eeprom[8];
            self.mem[R_ALIAS as usize + 1] = self.eeprom[9];
        }
    }

    pub fn station_address(&self) -> u16 {
        rd16(&self.mem, R_STATION_ADDR as usize)
    }
    pub fn set_station_address(&mut self, a: u16) {
        self.mem[R_STATION_ADDR as usize..R_STATION_ADDR as usize + 2].copy_from_slice(&a.to_le_bytes());
    }
    pub fn alias(&self) -> u16 {
        rd16(&self.mem, R_ALIAS as usize)
    }
    pub fn alias_enabled(&self) -> bool {
        self.mem[R_DL_CONTROL as usize + 3] & 0x01 != 0
    }
    pub fn al_state(&self) -> u8 {
        self.al.state
    }
    pub fn reg16(&self, a: u16) -> u16 {
        rd16(&self.mem, a as usize)
    }
    pub fn reg32(&self, a: u16) -> u32 {
        rd32(&self.mem, a as usize)
    }
    pub fn reg64(&self, a: u16) -> u64 {
        rd64(&self.mem, a as usize)
    }

    pub fn dl_status_word(&self) -> u16 {
        let mut w: u16 = 0x0001 | 0x0002;
        for p in 0..4 {
            if self.ports_open[p] {
                w |= 1 << (4 + p);
                w |= 1 << (9 + 2 * p);
            } else {
                w |= 1 << (8 + 2 * p);
            }
        }
        w
    }

    /// Mirror the behavioural state into the read-only registers.
    pub fn sync_status_regs(&mut self) {
        if !self.ports_fixed {
            let w = self.dl_status_word();
            self.mem[R_DL_STATUS as usize..R_DL_STATUS as usize + 2].copy_from_slice(&w.to_le_bytes());
        }
        self.mem[R_AL_STATUS as usize] = (self.al.state & 0x0f) | ((self.al.error as u8) << 4);
        self.mem[R_AL_STATUS as usize + 1] = 0;
        self.mem[R_AL_STATUS_CODE as usize..R_AL_STATUS_CODE as usize + 2].copy_from_slice(&self.al.code.to_le_bytes());
    }

    pub fn sm(&self, i: u8) -> SmView {
        let b = R_SM0 as usize + 8 * i as usize;
        SmView {
            index: i,
            start: rd16(&self.mem, b),
            len: rd16(&self.mem, b + 2),
            control: self.mem[b + 4],
            active: self.mem[b + 6] & 0x01 != 0,
        }
    }

    pub fn fmmu(&self, i: u8) -> FmmuView {
        let b = R_FMMU0 as usize + 16 * i as usize;
        FmmuView {
            index: i,
            logical_start: rd32(&self.mem, b),
            len: rd16(&self.mem, b + 4),
            start_bit: self.mem[b + 6] & 7,
            end_bit: self.mem[b + 7] & 7,
            phys_start: rd16(&self.mem, b + 8),
            phys_bit: self.mem[b + 10] & 7,
            read: self.mem[b + 11] & 1 != 0,
            write: self.mem[b + 11] & 2 != 0,
            enable: self.mem[b + 12] & 1 != 0,
        }
    }

    fn mailbox_sms(&self) -> (Option<SmView>, Option<SmView>) {
        let mut w = None;
        let mut r = None;
        for i in 0..self.sm_count.min(16) {
            let s = self.sm(i);
            if s.active && s.is_mailbox() && s.len > 0 {
                if s.master_writes() {
                    w.get_or_insert(s);
                } else {
                    r.get_or_insert(s);
                }
            }
        }
        (w, r)
    }

    pub fn local_time(&self, global_ns: u64) -> u64 {
        global_ns.wrapping_add(self.dc.local_offset_ns)
    }

    pub fn system_time(&self, global_ns: u64) -> u64 {
        let off = rd64(&self.mem, R_DC_OFFSET as usize);
        let t = self.local_time(global_ns).wrapping_add(off).wrapping_add(self.dc.servo_adjust as u64);
        if self.dc.caps.wide64 { t } else { t & 0xffff_ffff }
    }

    fn dc_implemented(&self, ado: usize, len: usize) -> bool {
        // the DC register block is absent on devices without DC
        !(overlaps(ado, len, 0x0900, 0x100) && !self.dc.caps.supported)
    }

    /// The device's application gets a turn once per datagram it executes.
    fn app_tick(&mut self) {
        if self.mbx.in_full {
            if self.mbx.app_delay_left > 0 {
                self.mbx.app_delay_left -= 1;
            } else {
                self.process_mailbox_request();
            }
        }
        self.refill_out_mailbox();
    }

    fn process_mailbox_request(&mut self) {
        let (w, r) = self.mailbox_sms();
        let Some(w) = w else { return };
        let req = self.mem[w.start as usize..w.start as usize + w.len as usize].to_vec();
        self.mbx.in_full = false;
        let cap = r.map(|r| r.len as usize).unwrap_or(0);
        if let Some(coe) = self.coe.as_mut() {
            for m in coe.handle(&req, cap) {
                self.mbx.out_queue.push_back(m);
            }
        }
    }

    /// Queue a mailbox message (e.g. an emergency) for the master, independent of any request.
    pub fn push_mailbox_message(&mut self, bytes: Vec<u8>) {
        self.mbx.out_queue.push_back(bytes);
    }

    fn refill_out_mailbox(&mut self) {
        if self.mbx.out_full {
            return;
        }
        let (_, r) = self.mailbox_sms();
        let Some(r) = r else { return };
        if let Some(m) = self.mbx.out_queue.pop_front() {
            let s = r.start as usize;
            let n = r.len as usize;
            for b in &mut self.mem[s..s + n] {
                *b = 0;
            }
            let k = m.len().min(n);
            self.mem[s..s + k].copy_from_slice(&m[..k]);
            self.mbx.out_full = true;
        }
    }

    fn refresh_sm_status(&mut self) {
        for i in 0..self.sm_count.min(16) {
            let s = self.sm(i);
            let b = R_SM0 as usize + 8 * i as usize + 5;
            if s.active && s.is_mailbox() {
                let full = if s.master_writes() { self.mbx.in_full } else { self.mbx.out_full };
                self.mem[b] = (self.mem[b] & !0x08) | ((full as u8) << 3);
            } else {
                self.mem[b] &= !0x08;
            }
        }
    }

    fn sii_status_bytes(&self) -> [u8; 2] {
        let lo = (self.mem[R_SII_CONTROL as usize] & 0x01) | (((self.sii.chunk == 8) as u8) << 6);
        let busy = self.sii.busy_left > 0 || self.sii.busy_forever;
        let hi = ((self.sii.checksum_error as u8) << 3)
            | ((self.sii.cmd_error as u8) << 5)
            | ((self.sii.write_error as u8) << 6)
            | ((busy as u8) << 7);
        [lo, hi]
    }

    fn sii_command(&mut self, lo: u8, hi: u8) {
        let cmd = hi & 0x07;
        if cmd == 0 {
            // acknowledge errors
            self.sii.cmd_error = false;
            self.sii.write_error = false;
            return;
        }
        if self.sii.busy_left > 0 || self.sii.busy_forever || self.mem[R_SII_CONFIG as usize] & 0x01 != 0 {
            self.sii.cmd_error = true;
            self.sii.ops.push(SiiOp::Refused(cmd));
            return;
        }
        self.sii.cmd_error = false;
        self.sii.write_error = false;
        let addr = rd32(&self.mem, R_SII_ADDRESS as usize);
        let mut garbage = None;
        match self.sii.faults.pop_front() {
            Some(SiiFault::CommandError) => {
                self.sii.cmd_error = true;
                self.sii.ops.push(SiiOp::Refused(cmd));
                return;
            }
            Some(SiiFault::Busy(k)) => self.sii.busy_left = k,
            Some(SiiFault::BusyForever) => {
                self.sii.busy_forever = true;
                return;
            }
            Some(SiiFault::Garbage(g)) => {
                garbage = Some(g);
                self.sii.busy_left = self.sii.busy_polls;
            }
            None => self.sii.busy_left = self.sii.busy_polls,
        }
        let byte_addr = (addr as usize).wrapping_mul(2);
        if cmd & 0x01 != 0 {
            self.sii.ops.push(SiiOp::Read(addr));
            for k in 0..8 {
                let v = if k < self.sii.chunk {
                    match &garbage {
                        Some(g) => g.get(k).copied().unwrap_or(0),
                        None => self.eeprom.get(byte_addr.wrapping_add(k)).copied().unwrap_or(self.sii.oob_fill),
                    }
                } else {
                    0
                };
                self.mem[R_SII_DATA as usize + k] = v;
            }
        } else if cmd & 0x02 != 0 {
            let d = [self.mem[R_SII_DATA as usize], self.mem[R_SII_DATA as usize + 1]];
            if lo & 0x01 == 0 || byte_addr + 2 > self.eeprom.len() {
                self.sii.cmd_error = true;
                self.sii.ops.push(SiiOp::Refused(cmd));
                return;
            }
            self.eeprom[byte_addr] = d[0];
            self.eeprom[byte_addr + 1] = d[1];
            self.sii.ops.push(SiiOp::Write(addr, d));
        } else {
            self.sii.ops.push(SiiOp::Reload);
            self.load_alias_from_eeprom();
            self.sii.checksum_error = !super::sii::header_checksum_ok(&self.eeprom);
        }
        // write enable is self-clearing
        self.mem[R_SII_CONTROL as usize] &= !0x01;
    }

    fn latch_port_times(&mut self, ctx: &Ctx) {
        self.dc.latches += 1;
        for p in 0..4 {
            if let Some(t) = ctx.port_ns[p] {
                let local = self.local_time(t) as u32;
                let a = R_DC_PORT0 as usize + 4 * p;
                self.mem[a..a + 4].copy_from_slice(&local.to_le_bytes());
            }
        }
        let t0 = self.local_time(ctx.port_ns[0].unwrap_or(ctx.arrival_ns));
        let t0 = if self.dc.caps.wide64 { t0 } else { t0 & 0xffff_ffff };
        self.mem[R_DC_RECEIVE_TIME as usize..R_DC_RECEIVE_TIME as usize + 8].copy_from_slice(&t0.to_le_bytes());
    }

    fn is_read_only(a: usize) -> bool {
        matches!(a,
            0x0000..=0x000f | 0x0012..=0x0013 | 0x0110..=0x0111 | 0x0130..=0x0135 |
            0x0900..=0x090f | 0x0918..=0x091f | 0x092c..=0x092f)
            || (0x0800..0x0880).contains(&a) && a % 8 == 5
    }

    /// Physical read of `buf.len()` bytes at `ado`. Returns whether the working counter moves.
    pub fn read(&mut self, ado: u16, buf: &mut [u8], ctx: &Ctx) -> bool {
        self.app_tick();
        let a = ado as usize;
        let n = buf.len();
        if a + n > 65536 || !self.dc_implemented(a, n) {
            return false;
        }
        // mailbox windows
        let (w, r) = self.mailbox_sms();
        if let Some(w) = w {
            if overlaps(a, n, w.start, w.len as usize) {
                self.mbx.refused_reads += 1;
                return false;
            }
        }
        let mut completes_mbx_read = false;
        if let Some(r) = r {
            if overlaps(a, n, r.start, r.len as usize) {
                if !self.mbx.out_full {
                    self.mbx.refused_reads += 1;
                    return false;
                }
                let last = r.start as usize + r.len as usize - 1;
                completes_mbx_read = a <= last && last < a + n;
            }
        }
        // dynamic registers
        self.sync_status_regs();
        self.refresh_sm_status();
        if overlaps(a, n, R_SII_CONTROL, 2) {
            let s = self.sii_status_bytes();
            self.mem[R_SII_CONTROL as usize] = s[0];
            self.mem[R_SII_CONTROL as usize + 1] = s[1];
        }
        let mut saved_offset = None;
        if self.dc.caps.supported && overlaps(a, n, R_DC_SYSTEM_TIME, 8) {
            let t = self.system_time(ctx.arrival_ns);
            self.mem[R_DC_SYSTEM_TIME as usize..R_DC_SYSTEM_TIME as usize + 8].copy_from_slice(&t.to_le_bytes());
        }
        if self.dc.caps.supported && !self.dc.caps.wide64 {
            // upper halves of the 64-bit registers do not exist on 32-bit devices
            if overlaps(a, n, R_DC_OFFSET + 4, 4) {
                saved_offset = Some(rd32(&self.mem, R_DC_OFFSET as usize + 4));
                self.mem[R_DC_OFFSET as usize + 4..R_DC_OFFSET as usize + 8].fill(0);
            }
        }
        buf.copy_from_slice(&self.mem[a..a + n]);
        if let Some(v) = saved_offset {
            self.mem[R_DC_OFFSET as usize + 4..R_DC_OFFSET as usize + 8].copy_from_slice(&v.to_le_bytes());
        }
        // side effects
        if overlaps(a, n, R_SII_CONTROL, 2) && self.sii.busy_left > 0 {
            self.sii.busy_left -= 1;
        }
        if overlaps(a, n, R_AL_STATUS, 2) {
            self.al.polled();
        }
        if completes_mbx_read {
            if let Some(r) = r {
                let s = r.start as usize;
                self.mbx.read.push(self.mem[s..s + r.len as usize].to_vec());
            }
            self.mbx.out_full = false;
            self.refill_out_mailbox();
        }
        self.reads += 1;
        true
    }

    /// Physical write of `data` at `ado`. Returns whether the working counter moves.
    pub fn write(&mut self, ado: u16, data: &[u8], ctx: &Ctx) -> bool {
        self.app_tick();
        let a = ado as usize;
        let n = data.len();
        if a + n > 65536 || !self.dc_implemented(a, n) {
            return false;
        }
        let (w, r) = self.mailbox_sms();
        if let Some(r) = r {
            if overlaps(a, n, r.start, r.len as usize) {
                self.mbx.refused_writes += 1;
                return false;
            }
        }
        let mut completes_mbx_write = false;
        if let Some(w) = w {
            if overlaps(a, n, w.start, w.len as usize) {
                if self.mbx.in_full {
                    self.mbx.refused_writes += 1;
                    return false;
                }
                let last = w.start as usize + w.len as usize - 1;
                completes_mbx_write = a <= last && last < a + n;
            }
        }
        for (k, &v) in data.iter().enumerate() {
            if !Self::is_read_only(a + k) {
                self.mem[a + k] = v;
            }
        }
        // side effects by register
        if overlaps(a, n, R_STATION_ADDR, 2) {
            let v = self.station_address();
            self.station_addr_writes.push(v);
        }
        if overlaps(a, n, R_AL_CONTROL, 1) {
            let byte = self.mem[R_AL_CONTROL as usize];
            let before = self.al.state;
            let target = byte & 0x0f;
            let mut refused = false;
            if self.strict_sm_check && !self.al.error {
                if target == AL_PREOP && before == AL_INIT && !self.sms_match(&self.expected_mbx_sms.clone()) {
                    self.al.error = true;
                    self.al.code = 0x0016;
                    self.al.requests.push((byte, self.al.state));
                    refused = true;
                } else if target == AL_SAFEOP && before == AL_PREOP && !self.sms_match(&self.expected_pd_sms.clone()) {
                    self.al.error = true;
                    self.al.code = 0x001e;
                    self.al.requests.push((byte, self.al.state));
                    refused = true;
                }
            }
            if !refused {
                self.al.request(byte);
            }
            if self.al.state == AL_INIT && before != AL_INIT {
                // mailbox communication stops in INIT
                self.mbx.in_full = false;
                self.mbx.out_full = false;
                self.mbx.out_queue.clear();
            }
        }
        if overlaps(a, n, R_SII_CONTROL + 1, 1) {
            let lo = if a <= R_SII_CONTROL as usize { data[R_SII_CONTROL as usize - a] } else { self.mem[R_SII_CONTROL as usize] };
            let hi = data[R_SII_CONTROL as usize + 1 - a];
            // the status half of the register is not storage
            self.sii_command(lo, hi);
        }
        if self.dc.caps.supported && overlaps(a, n, R_DC_PORT0, 1) {
            self.latch_port_times(ctx);
        }
        if self.dc.caps.supported && overlaps(a, n, R_DC_SYSTEM_TIME, 4) && matches!(ctx.cmd, 0x0d | 0x0e) {
            self.dc.sync_writes += 1;
            let received = if self.dc.caps.wide64 && a + n >= R_DC_SYSTEM_TIME as usize + 8 {
                rd64(&self.mem, R_DC_SYSTEM_TIME as usize)
            } else {
                rd32(&self.mem, R_DC_SYSTEM_TIME as usize) as u64
            };
            let delay = rd32(&self.mem, R_DC_DELAY as usize) as u64;
            let local = self.system_time(ctx.arrival_ns).wrapping_sub(delay);
            let diff = if self.dc.caps.wide64 {
                local.wrapping_sub(received) as i64
            } else {
                (local as u32).wrapping_sub(received as u32) as i32 as i64
            };
            let mag = diff.unsigned_abs().min(0x7fff_ffff) as u32;
            let v = mag | if diff < 0 { 0x8000_0000 } else { 0 };
            self.mem[R_DC_DIFF as usize..R_DC_DIFF as usize + 4].copy_from_slice(&v.to_le_bytes());
            if self.dc.servo {
                self.dc.servo_adjust = self.dc.servo_adjust.wrapping_sub(diff / 2 + diff % 2);
            }
        }
        if completes_mbx_write {
            if let Some(w) = w {
                let s = w.start as usize;
                self.mbx.written.push(self.mem[s..s + w.len as usize].to_vec());
            }
            self.mbx.in_full = true;
            self.mbx.app_delay_left = self.mbx_response_delay;
            if self.mbx_response_delay == 0 {
                self.process_mailbox_request();
                self.refill_out_mailbox();
            }
        }
        self.sync_status_regs();
        self.writes += 1;
        true
    }

    fn sms_match(&self, expected: &[(u8, u16, u16)]) -> bool {
        expected.iter().all(|&(i, start, len)| {
            let s = self.sm(i);
            if len == 0 { !s.active || s.len == 0 } else { s.active && s.start == start && s.len == len }
        })
    }

    /// Logical access through the FMMUs. `data` is the datagram payload starting at logical
    /// address `logical`. Returns (read happened, write happened).
    pub fn logical(&mut self, logical: u32, data: &mut [u8], do_read: bool, do_write: bool) -> (bool, bool) {
        self.app_tick();
        let incoming = data.to_vec();
        let mut did_r = false;
        let mut did_w = false;
        let lo = logical as u64 * 8;
        let hi = lo + data.len() as u64 * 8;
        let mut write_bits: Vec<(usize, bool)> = Vec::new();
        for i in 0..self.fmmu_count.min(16) {
            let f = self.fmmu(i);
            if !f.enable || f.len == 0 {
                continue;
            }
            let fs = f.logical_start as u64 * 8 + f.start_bit as u64;
            let fe = (f.logical_start as u64 + f.len as u64 - 1) * 8 + f.end_bit as u64 + 1;
            if fe <= fs {
                continue;
            }
            let s = fs.max(lo);
            let e = fe.min(hi);
            if s >= e {
                continue;
            }
            let pbase = f.phys_start as u64 * 8 + f.phys_bit as u64;
            let byte_aligned = f.start_bit == 0 && f.end_bit == 7 && f.phys_bit == 0;
            if f.read && do_read {
                did_r = true;
                if byte_aligned {
                    for lb in (s / 8)..(e / 8) {
                        let pa = (pbase / 8 + (lb - fs / 8)) as usize;
                        if pa < 65536 {
                            data[(lb - lo / 8) as usize] = self.mem[pa];
                        }
                    }
                } else {
                    for bit in s..e {
                        let pb = pbase + (bit - fs);
                        let pa = (pb / 8) as usize;
                        if pa >= 65536 {
                            continue;
                        }
                        let v = (self.mem[pa] >> (pb % 8)) & 1;
                        let di = ((bit - lo) / 8) as usize;
                        let db = (bit - lo) % 8;
                        data[di] = (data[di] & !(1 << db)) | (v << db);
                    }
                }
            }
            if f.write && do_write {
                did_w = true;
                for bit in s..e {
                    let pb = pbase + (bit - fs);
                    let di = ((bit - lo) / 8) as usize;
                    let db = (bit - lo) % 8;
                    write_bits.push((pb as usize, (incoming[di] >> db) & 1 != 0));
                }
            }
        }
        for (pb, v) in write_bits {
            let pa = pb / 8;
            if pa < 65536 {
                let m = 1u8 << (pb % 8);
                if v {
                    self.mem[pa] |= m;
                } else {
                    self.mem[pa] &= !m;
                }
            }
        }
        if did_r {
            self.reads += 1;
        }
        if did_w {
            self.writes += 1;
        }
        (did_r, did_w)
    }
}
