/-
  EcModel.Wkc — the working-counter check of the command builders and every composite path that
  is built on them (property C11). Hand translation of:
    src/pdu_loop/frame_element/received_frame.rs  ReceivedPdu::{wkc, maybe_wkc}
    src/command/reads.rs    WrappedRead::{new, ignore_wkc, with_wkc, receive, receive_slice, receive_wkc}
    src/command/writes.rs   WrappedWrite::{new, ignore_wkc, with_wkc, send, send_receive, send_receive_slice}
    src/subdevice/mod.rs    SubDeviceRef::{register_read, register_write, state, status,
                            wait_for_state, request_subdevice_state_nowait, set_eeprom_mode}
    src/eeprom/device_provider.rs  DeviceEeprom::{wait_while_busy, read_chunk, write_word, clear_errors}
    src/mailbox/coe/mod.rs  Coe::{wait_for_mailboxes, wait_for_mailbox_response} and the exchange part of
                            mailbox_write_read (up to the raw response; parsing it is C15/C16)
    src/maindevice.rs       MainDevice::wait_for_state
    src/timer_factory.rs    TimeoutFuture (deadline first, then the inner future)

  The network is an explicit environment: a list of events, one per datagram the code sends, in
  the order it sends them. `resp p` = the datagram came back carrying payload `p.data` and working
  counter `p.wkc` (any values: absent device, hostile wire); `lost` = nothing came back before the
  PDU timeout; `deadline` / `lostDeadline` = the timer of the enclosing `.timeout(..)` wrapper fired
  before this datagram was sent / while it was unanswered. Every function returns its result and the events it did not consume.
  An `await` on the network is one `exch`.
-/
import EcModel.Basic
import EcModel.Generated.WkcSites

namespace Ec.Wkc

/-- `error::TimeoutError`. -/
inductive TimeoutKind where
  | stateTransition | pdu | eeprom | mailboxEcho | mailboxResponse
  deriving Repr, DecidableEq

/-- The part of `error::Error` these paths can produce. `badTrace` is not an implementation
    outcome: the environment script does not fit the code path (too short / a deadline outside any
    timeout wrapper). `panic` is an unwind (debug assertion). -/
inductive Err where
  | workingCounter (expected received : Nat)
  | timeout (k : TimeoutKind)
  | wire
  | subDevice (code : Nat)
  | stateTransition
  | eepromClearErrors
  | panic (why : String)
  | badTrace
  deriving Repr, DecidableEq

/-- `ReceivedPdu`: payload view and the working counter that followed it on the wire. -/
structure Pdu where
  data : List Nat
  wkc : Nat
  deriving Repr, DecidableEq

inductive Res (α : Type) where
  | ok (a : α)
  | error (e : Err)
  deriving Repr, DecidableEq

/-- `ReceivedPdu::wkc(expected)`. -/
def Pdu.checkWkc (p : Pdu) (expected : Nat) : Res Pdu :=
  if p.wkc = expected then .ok p else .error (.workingCounter expected p.wkc)

/-- `ReceivedPdu::maybe_wkc(expected)`. -/
def Pdu.maybeWkc (p : Pdu) : Option Nat → Res Pdu
  | some expected => p.checkWkc expected
  | none => .ok p

/-- Result of `MainDevice::single_pdu`: a transport error or the received datagram. -/
abbrev Exchange := Res Pdu

/-! ### Builders -/

/-- `WrappedRead` (the command itself plays no part in the check). -/
structure WrappedRead where
  wkc : Option Nat
  deriving Repr, DecidableEq

/-- `WrappedRead::new`: `wkc: Some(1)` (the literal is re-read from reads.rs on every run). -/
def WrappedRead.new : WrappedRead := ⟨some Gen.Wkc.DEFAULT_READ_WKC⟩
/-- `ignore_wkc`: `Self { wkc: None, ..self }`. -/
def WrappedRead.ignoreWkc (_r : WrappedRead) : WrappedRead := ⟨none⟩
/-- `with_wkc(k)`: `Self { wkc: Some(k), ..self }`. -/
def WrappedRead.withWkc (_r : WrappedRead) (k : Nat) : WrappedRead := ⟨some k⟩

/-- `WrappedRead::receive::<T>`: `common().await?.maybe_wkc(self.wkc).and_then(unpack)`. -/
def WrappedRead.receive {α : Type} (r : WrappedRead) (ex : Exchange) (unpack : List Nat → Res α) : Res α :=
  match ex with
  | .error e => .error e
  | .ok p =>
    match p.maybeWkc r.wkc with
    | .error e => .error e
    | .ok d => unpack d.data

/-- `WrappedRead::receive_slice`. -/
def WrappedRead.receiveSlice (r : WrappedRead) (ex : Exchange) : Res Pdu :=
  match ex with
  | .error e => .error e
  | .ok p => p.maybeWkc r.wkc

/-- `WrappedRead::receive_wkc` (crate-private): hands the counter itself to the caller, whatever
    `self.wkc` says. -/
def WrappedRead.receiveWkc (_r : WrappedRead) (ex : Exchange) : Res Nat :=
  match ex with
  | .error e => .error e
  | .ok p => .ok p.wkc

/-- `WrappedWrite` (`len_override` plays no part in the check). -/
structure WrappedWrite where
  wkc : Option Nat
  deriving Repr, DecidableEq

/-- `WrappedWrite::new`: `wkc: Some(1)` (literal re-read from writes.rs). -/
def WrappedWrite.new : WrappedWrite := ⟨some Gen.Wkc.DEFAULT_WRITE_WKC⟩
def WrappedWrite.ignoreWkc (_w : WrappedWrite) : WrappedWrite := ⟨none⟩
def WrappedWrite.withWkc (_w : WrappedWrite) (k : Nat) : WrappedWrite := ⟨some k⟩

/-- `WrappedWrite::send`: `self.common(..).await?; Ok(())` — the response is dropped unseen. -/
def WrappedWrite.send (_w : WrappedWrite) (ex : Exchange) : Res Unit :=
  match ex with
  | .error e => .error e
  | .ok _ => .ok ()

/-- `WrappedWrite::send_receive::<T>`. -/
def WrappedWrite.sendReceive {α : Type} (w : WrappedWrite) (ex : Exchange) (unpack : List Nat → Res α) : Res α :=
  match ex with
  | .error e => .error e
  | .ok p =>
    match p.maybeWkc w.wkc with
    | .error e => .error e
    | .ok d => unpack d.data

/-- `WrappedWrite::send_receive_slice`. -/
def WrappedWrite.sendReceiveSlice (w : WrappedWrite) (ex : Exchange) : Res Pdu :=
  match ex with
  | .error e => .error e
  | .ok p => p.maybeWkc w.wkc

/-! ### Decoders of the register images the composite paths branch on -/

/-- `u16::unpack_from_slice` (and any other fixed-size primitive: short buffer = `Error::Wire`). -/
def unpackBytes (n : Nat) (d : List Nat) : Res (List Nat) :=
  if d.length < n then .error .wire else .ok (d.take n)

/-- `AlControl` (2 bytes): state = low nibble, error = bit 4. -/
structure AlControl where
  state : Nat
  error : Bool
  deriving Repr, DecidableEq

def unpackAlControl (d : List Nat) : Res AlControl :=
  if d.length < 2 then .error .wire
  else .ok ⟨d.getD 0 0 % 16, d.getD 0 0 / 16 % 2 == 1⟩

/-- `AlStatusCode` (u16 with catch-all): never fails on two bytes. -/
def unpackCode (d : List Nat) : Res Nat :=
  if d.length < 2 then .error .wire else .ok (rd16 d)

/-- `SiiControl` (2 bytes), the bits the provider looks at. -/
structure SiiControl where
  readSize8 : Bool      -- byte 0 bit 6
  checksumError : Bool  -- byte 1 bit 3
  deviceInfoError : Bool -- byte 1 bit 4
  commandError : Bool   -- byte 1 bit 5
  writeError : Bool     -- byte 1 bit 6
  busy : Bool           -- byte 1 bit 7
  deriving Repr, DecidableEq

def unpackSii (d : List Nat) : Res SiiControl :=
  if d.length < 2 then .error .wire
  else
    let lo := d.getD 0 0
    let hi := d.getD 1 0
    .ok ⟨lo / 64 % 2 == 1, hi / 8 % 2 == 1, hi / 16 % 2 == 1, hi / 32 % 2 == 1, hi / 64 % 2 == 1, hi / 128 % 2 == 1⟩

/-- `SiiControl::has_error`. -/
def SiiControl.hasError (s : SiiControl) : Bool := s.checksumError || s.deviceInfoError || s.writeError

/-- `sync_manager_channel::Status` (1 byte): `mailbox_full` = bit 3. All bit patterns decode. -/
def unpackSmFull (d : List Nat) : Res Bool :=
  if d.length < 1 then .error .wire else .ok (d.getD 0 0 / 8 % 2 == 1)

/-! ### Environment -/

inductive Ev where
  | resp (p : Pdu)
  | lost
  /-- the wrapper's timer fired before this datagram was sent (during a `loop_tick`) -/
  | deadline
  /-- the datagram was sent, nothing came back, and the wrapper's timer fired before the PDU timeout -/
  | lostDeadline
  deriving Repr, DecidableEq

/-- One `single_pdu(..).await` inside (`some k`) or outside (`none`) a `.timeout(k)` wrapper. -/
def exch (region : Option TimeoutKind) : Ev → Exchange
  | .resp p => .ok p
  | .lost => .error (.timeout .pdu)
  | .deadline | .lostDeadline =>
    match region with
    | some k => .error (.timeout k)
    | none => .error .badTrace

/-! ### SubDeviceRef register helpers -/

/-- `SubDeviceRef::register_read::<T>` = `self.read(reg).receive(md)`; `n` = `T::PACKED_LEN`. -/
def registerRead (n : Nat) : List Ev → Res (List Nat) × List Ev
  | [] => (.error .badTrace, [])
  | e :: t => (WrappedRead.new.receive (exch none e) (unpackBytes n), t)

/-- `SubDeviceRef::register_write::<T>` = `self.write(reg).send_receive(md, value)`. -/
def registerWrite (n : Nat) : List Ev → Res (List Nat) × List Ev
  | [] => (.error .badTrace, [])
  | e :: t => (WrappedWrite.new.sendReceive (exch none e) (unpackBytes n), t)

/-- `SubDeviceRef::state` (crate-private; used by `status`). The status-code read of the error
    branch is `unwrap_or(Unknown(0))`: its failure is swallowed, the call still fails. -/
def state : List Ev → Res Nat × List Ev
  | [] => (.error .badTrace, [])
  | e :: t =>
    match WrappedRead.new.receive (exch none e) unpackAlControl with
    | .error er => (.error er, t)
    | .ok ctl =>
      if ctl.error then
        match t with
        | [] => (.error .badTrace, [])
        | e2 :: t2 =>
          match WrappedRead.new.receive (exch none e2) unpackCode with
          | .ok code => (.error (.subDevice code), t2)
          | .error _ => (.error (.subDevice 0), t2)
      else (.ok ctl.state, t)

/-- The second read of `state()` (status code, failure swallowed) as the third datagram of `status`. -/
def statusThird : List Ev → Res (Nat × Nat) × List Ev
  | [] => (.error .badTrace, [])
  | e3 :: t3 =>
    match WrappedRead.new.receive (exch none e3) unpackCode with
    | .ok code => (.error (.subDevice code), t3)
    | .error _ => (.error (.subDevice 0), t3)

/-- `SubDeviceRef::status` = `try_zip(self.state(), code_read)`. Both first datagrams are sent by
    the first poll (events `e1` = AL status, `e2` = AL status code); `futures_lite::TryZip::poll`
    then looks at `state()` first and at the code read second, returning the first `Err` it sees.
    If `state()` needs its second read (error bit), that datagram is the third event. A lost frame
    is only noticed when its PDU timer fires, i.e. after every response that did come back:
    with `e1` lost the code read is seen first; with `e2` lost (and the error bit set) `state()`
    finishes first. Timers of frames sent at the same instant fire together, `state()` is polled
    first. -/
def status : List Ev → Res (Nat × Nat) × List Ev
  | e1 :: e2 :: t =>
    if e1 = .lost then
      match WrappedRead.new.receive (exch none e2) unpackCode with
      | .error er => (.error er, t)
      | .ok _ => (.error (.timeout .pdu), t)
    else
    match WrappedRead.new.receive (exch none e1) unpackAlControl with
    | .error er => (.error er, t)
    | .ok ctl =>
      if ctl.error then
        -- state() has sent its second read and is pending; the zip polls the code read
        if e2 = .lost then statusThird t
        else
          match WrappedRead.new.receive (exch none e2) unpackCode with
          | .error er => (.error er, t.drop 1)
          | .ok _ => statusThird t
      else
        match WrappedRead.new.receive (exch none e2) unpackCode with
        | .error er => (.error er, t)
        | .ok code => (.ok (ctl.state, code), t)
  | _ => (.error .badTrace, [])

/-- `SubDeviceRef::request_subdevice_state_nowait(desired)`: checked write-and-read-back of AL
    control; error bit in the read-back ⇒ checked read of the status code, then
    `Err(StateTransition)`. -/
def requestNowait : List Ev → Res Unit × List Ev
  | [] => (.error .badTrace, [])
  | e :: t =>
    match WrappedWrite.new.sendReceive (exch none e) unpackAlControl with
    | .error er => (.error er, t)
    | .ok response =>
      if response.error then
        match t with
        | [] => (.error .badTrace, [])
        | e2 :: t2 =>
          match WrappedRead.new.receive (exch none e2) unpackCode with
          | .error er => (.error er, t2)
          | .ok _ => (.error .stateTransition, t2)
      else (.ok (), t)

/-- `SubDeviceRef::wait_for_state(desired)` (crate-private, used by `request_subdevice_state`):
    polls AL status with `.ignore_wkc()` until the state matches, under the transition timeout. -/
def sdWaitForState (desired : Nat) : List Ev → Res Unit × List Ev
  | [] => (.error .badTrace, [])
  | e :: t =>
    match WrappedRead.new.ignoreWkc.receive (exch (some .stateTransition) e) unpackAlControl with
    | .error er => (.error er, t)
    | .ok st => if st.state = desired then (.ok (), t) else sdWaitForState desired t

/-! ### EEPROM device provider -/

/-- `DeviceEeprom::wait_while_busy`: checked reads of the SII control register until not busy,
    under the EEPROM timeout. -/
def waitWhileBusy : List Ev → Res SiiControl × List Ev
  | [] => (.error .badTrace, [])
  | e :: t =>
    match WrappedRead.new.receive (exch (some .eeprom) e) unpackSii with
    | .error er => (.error er, t)
    | .ok c => if c.busy then waitWhileBusy t else (.ok c, t)

theorem waitWhileBusy_rest_le (tr : List Ev) : (waitWhileBusy tr).2.length ≤ tr.length := by
  induction tr with
  | nil => simp [waitWhileBusy]
  | cons e t ih =>
    unfold waitWhileBusy
    split
    · simp
    · split
      · simp; omega
      · simp

/-- `DeviceEeprom::read_chunk(start_word)`: fire-and-forget write of the read command, wait while
    busy, checked read of the data register. -/
def readChunk : List Ev → Res (List Nat) × List Ev
  | [] => (.error .badTrace, [])
  | e0 :: t =>
    match WrappedWrite.new.send (exch none e0) with
    | .error er => (.error er, t)
    | .ok () =>
      match waitWhileBusy t with
      | (.error er, t1) => (.error er, t1)
      | (.ok _status, t1) =>
        match t1 with
        | [] => (.error .badTrace, [])
        | e2 :: t2 =>
          match WrappedRead.new.receiveSlice (exch none e2) with
          | .error er => (.error er, t2)
          | .ok p => (.ok p.data, t2)

/-- The retry loop of `write_word`; `retries` = `retry_count` so far (limit 20). -/
def writeLoop (retries : Nat) (tr : List Ev) : Res Unit × List Ev :=
  match tr with
  | e1 :: e2 :: t =>
    match WrappedWrite.new.send (exch none e1) with
    | .error er => (.error er, e2 :: t)
    | .ok () =>
      match WrappedWrite.new.send (exch none e2) with
      | .error er => (.error er, t)
      | .ok () =>
        match h : waitWhileBusy t with
        | (.error er, t1) => (.error er, t1)
        | (.ok st, t1) =>
          if st.commandError && retries < 20 then
            have : t1.length < (e1 :: e2 :: t).length := by
              have := waitWhileBusy_rest_le t
              rw [h] at this; simp at this ⊢; omega
            writeLoop (retries + 1) t1
          else (.ok (), t1)
  | [e1] =>
    match WrappedWrite.new.send (exch none e1) with
    | .error er => (.error er, [])
    | .ok () => (.error .badTrace, [])
  | [] => (.error .badTrace, [])
termination_by tr.length

/-- `DeviceEeprom::write_word`: wait while busy, then (data write, command write, wait) with up to
    20 retries on the command-error bit. Both writes are fire-and-forget. -/
def writeWord (tr : List Ev) : Res Unit × List Ev :=
  match waitWhileBusy tr with
  | (.error er, t) => (.error er, t)
  | (.ok _, t) => writeLoop 0 t

/-- `DeviceEeprom::clear_errors`. -/
def clearErrors : List Ev → Res Unit × List Ev
  | [] => (.error .badTrace, [])
  | e :: t =>
    match WrappedRead.new.receive (exch none e) unpackSii with
    | .error er => (.error er, t)
    | .ok st =>
      if st.hasError then
        match t with
        | [] => (.error .badTrace, [])
        | e2 :: t2 =>
          match WrappedWrite.new.sendReceive (exch none e2) unpackSii with
          | .error er => (.error er, t2)
          | .ok st2 => if st2.hasError then (.error .eepromClearErrors, t2) else (.ok (), t2)
      else (.ok (), t)

/-! ### CoE mailbox exchange -/

/-- First loop of `wait_for_mailboxes`: up to `n` (= 10) rounds of a checked read of the read
    mailbox' SM status; while it says full, the mailbox is read with `.ignore_wkc()` to clear it. -/
def clearLoop : Nat → List Ev → Res Unit × List Ev
  | 0, tr => (.ok (), tr)
  | _ + 1, [] => (.error .badTrace, [])
  | n + 1, e :: t =>
    match WrappedRead.new.receive (exch none e) unpackSmFull with
    | .error er => (.error er, t)
    | .ok full =>
      if full then
        match t with
        | [] => (.error .badTrace, [])
        | e2 :: t2 =>
          match WrappedRead.new.ignoreWkc.receiveSlice (exch none e2) with
          | .error er => (.error er, t2)
          | .ok _ => clearLoop n t2
      else (.ok (), t)

/-- A poll loop on an SM status register under timeout `k`: checked reads until `mailbox_full`
    equals `want`. (`want = false`: second loop of `wait_for_mailboxes`, `k = MailboxEcho`;
    `want = true`: `wait_for_mailbox_response`, `k = MailboxResponse`.) -/
def waitSm (k : TimeoutKind) (want : Bool) : List Ev → Res Unit × List Ev
  | [] => (.error .badTrace, [])
  | e :: t =>
    match WrappedRead.new.receive (exch (some k) e) unpackSmFull with
    | .error er => (.error er, t)
    | .ok full => if full = want then (.ok (), t) else waitSm k want t

/-- The exchange part of `Coe::mailbox_write_read` (and of `send_sdo_info_service`'s first round):
    wait for the mailboxes, fire-and-forget write of the request, wait for the response mailbox
    to fill, checked read of the response. Returns the raw response bytes. -/
def mailboxWriteRead (tr : List Ev) : Res (List Nat) × List Ev :=
  match clearLoop 10 tr with
  | (.error er, t) => (.error er, t)
  | (.ok (), t) =>
    match waitSm .mailboxEcho false t with
    | (.error er, t1) => (.error er, t1)
    | (.ok (), t1) =>
      match t1 with
      | [] => (.error .badTrace, [])
      | e :: t2 =>
        match WrappedWrite.new.send (exch none e) with
        | .error er => (.error er, t2)
        | .ok () =>
          match waitSm .mailboxResponse true t2 with
          | (.error er, t3) => (.error er, t3)
          | (.ok (), t3) =>
            match t3 with
            | [] => (.error .badTrace, [])
            | e4 :: t4 =>
              match WrappedRead.new.receiveSlice (exch none e4) with
              | .error er => (.error er, t4)
              | .ok p => (.ok p.data, t4)

/-- `rt` consecutive mailbox round trips (an SDO transfer of `rt` requests), stopping at the first
    error; the value is the last raw response. -/
def mailboxRounds : Nat → List Ev → Res (List Nat) × List Ev
  | 0, tr => (.ok [], tr)
  | 1, tr => mailboxWriteRead tr
  | n + 2, tr =>
    match mailboxWriteRead tr with
    | (.error er, t) => (.error er, t)
    | (.ok _, t) => mailboxRounds (n + 1) t

/-! ### MainDevice::wait_for_state -/

/-- The status-code sweep of the error branch: one `.ignore_wkc()` read per SubDevice, every
    failure swallowed (`unwrap_or(UnspecifiedError)`), then `Err(StateTransition)`. Only the
    deadline of the enclosing wrapper can pre-empt it. -/
def codeSweep : Nat → List Ev → Res Unit × List Ev
  | 0, tr => (.error .stateTransition, tr)
  | _ + 1, [] => (.error .badTrace, [])
  | _ + 1, .deadline :: t => (.error (.timeout .stateTransition), t)
  | _ + 1, .lostDeadline :: t => (.error (.timeout .stateTransition), t)
  | n + 1, _ :: t => codeSweep n t

/-- `MainDevice::wait_for_state(desired)`: BRD of AL status expecting `num` responders. -/
def mdWaitForState (num desired : Nat) : List Ev → Res Unit × List Ev
  | [] => (.error .badTrace, [])
  | e :: t =>
    match (WrappedRead.new.withWkc num).receive (exch (some .stateTransition) e) unpackAlControl with
    | .error er => (.error er, t)
    | .ok st =>
      if st.error then codeSweep num t
      else if st.state = desired then (.ok (), t)
      else mdWaitForState num desired t

end Ec.Wkc
