/-
  CRC-8 lemmas (C14): the shift-register definition `Ec.Eeprom.crc8` computes the remainder of the polynomial
  division of `msg · x^8 + init · x^(8n)` by `x^8 + x^2 + x + 1` over GF(2).
-/
import EcModel.Eeprom
import EcModel.EepromSpec
import Mathlib.Data.List.Induction

namespace Ec.Eeprom
open Ec Ec.EepromSpec

/-! ### carry-less multiplication -/

theorem clmulF_zero (g : Nat) : ∀ f, clmulF f 0 g = 0 := by
  intro f; induction f with
  | zero => rfl
  | succ f ih => simp [clmulF, ih]

theorem clmulF_stable (g : Nat) : ∀ f f' q, q ≤ f → q ≤ f' → clmulF f q g = clmulF f' q g := by
  intro f
  induction f with
  | zero => intro f' q h _; have : q = 0 := by omega
            subst this; rw [clmulF_zero, clmulF_zero]
  | succ f ih =>
    intro f' q h h'
    cases f' with
    | zero => have : q = 0 := by omega
              subst this; rw [clmulF_zero, clmulF_zero]
    | succ f' =>
      simp only [clmulF]
      rw [ih f' (q / 2) (by omega) (by omega)]

theorem clmul_rec (q g : Nat) : clmul q g = (if q % 2 = 1 then g else 0) ^^^ 2 * clmul (q / 2) g := by
  unfold clmul
  cases q with
  | zero => simp [clmulF]
  | succ n =>
    simp only [clmulF]
    rw [clmulF_stable g n ((n + 1) / 2) ((n + 1) / 2) (by omega) (by omega)]

theorem clmul_zero (g : Nat) : clmul 0 g = 0 := by simp [clmul, clmulF]

theorem two_mul_xor (x y : Nat) : 2 * (x ^^^ y) = 2 * x ^^^ 2 * y := by
  have := @Nat.shiftLeft_xor_distrib 1 x y
  simp only [Nat.shiftLeft_eq, Nat.pow_one] at this
  rw [Nat.mul_comm 2 (x ^^^ y), Nat.mul_comm 2 x, Nat.mul_comm 2 y]
  exact this

theorem xor_mul256 (x y : Nat) : (x ^^^ y) * 256 = x * 256 ^^^ y * 256 := by
  have := @Nat.shiftLeft_xor_distrib 8 x y
  simpa [Nat.shiftLeft_eq] using this

theorem xor_mod2 (a b : Nat) : ((a ^^^ b) % 2 = 1) = ((a % 2 = 1) ≠ (b % 2 = 1)) := by
  have h := @Nat.xor_mod_two_pow a b 1
  simp only [Nat.pow_one] at h
  rw [h]
  rcases Nat.mod_two_eq_zero_or_one a with ha | ha <;> rcases Nat.mod_two_eq_zero_or_one b with hb | hb <;>
    simp [ha, hb]

theorem clmul_xor (g : Nat) : ∀ n a b, a + b ≤ n → clmul (a ^^^ b) g = clmul a g ^^^ clmul b g := by
  intro n
  induction n with
  | zero =>
    intro a b h
    have ha : a = 0 := by omega
    have hb : b = 0 := by omega
    subst ha hb; simp [clmul_zero]
  | succ n ih =>
    intro a b h
    by_cases h0 : a + b = 0
    · have ha : a = 0 := by omega
      have hb : b = 0 := by omega
      subst ha hb; simp [clmul_zero]
    · rw [clmul_rec (a ^^^ b), clmul_rec a, clmul_rec b, Nat.xor_div_two,
        ih (a / 2) (b / 2) (by omega), two_mul_xor]
      rcases Nat.mod_two_eq_zero_or_one a with ha | ha <;> rcases Nat.mod_two_eq_zero_or_one b with hb | hb
      · have : ¬ (a ^^^ b) % 2 = 1 := by rw [xor_mod2]; simp [ha, hb]
        simp [ha, hb, this]
      · have : (a ^^^ b) % 2 = 1 := by rw [xor_mod2]; simp [ha, hb]
        simp only [ha, hb, this, if_true]
        simp
        ac_rfl
      · have : (a ^^^ b) % 2 = 1 := by rw [xor_mod2]; simp [ha, hb]
        simp only [ha, hb, this, if_true]
        simp
        ac_rfl
      · have : ¬ (a ^^^ b) % 2 = 1 := by rw [xor_mod2]; simp [ha, hb]
        simp only [ha, hb, this, if_true, if_false]
        simp
        rw [show g ^^^ 2 * clmul (a / 2) g ^^^ (g ^^^ 2 * clmul (b / 2) g)
            = (g ^^^ g) ^^^ (2 * clmul (a / 2) g ^^^ 2 * clmul (b / 2) g) by ac_rfl]
        simp

theorem clmul_add (g a b : Nat) : clmul (a ^^^ b) g = clmul a g ^^^ clmul b g :=
  clmul_xor g (a + b) a b (Nat.le_refl _)

theorem clmul_double (q g : Nat) : clmul (2 * q) g = 2 * clmul q g := by
  rw [clmul_rec (2 * q)]
  have h1 : (2 * q) % 2 = 0 := by omega
  have h2 : 2 * q / 2 = q := by omega
  simp [h1, h2]

theorem clmul_mul256 (q g : Nat) : clmul (q * 256) g = clmul q g * 256 := by
  have e : q * 256 = 2 * (2 * (2 * (2 * (2 * (2 * (2 * (2 * q))))))) := by omega
  rw [e]; repeat rw [clmul_double]
  omega

/-! ### the shift register -/

theorem crcShift_lt (c : Nat) : crcShift c < 256 := by
  unfold crcShift
  split
  · exact @Nat.xor_lt_two_pow _ _ 8 (Nat.mod_lt _ (by omega)) (by decide)
  · exact Nat.mod_lt _ (by omega)

theorem crcByte_lt (c b : Nat) : crcByte c b < 256 := by
  unfold crcByte; exact crcShift_lt _

theorem crc8_lt (bytes : List Nat) : crc8 bytes < 256 := by
  unfold crc8
  have : ∀ (l : List Nat) (c : Nat), c < 256 → l.foldl crcByte c < 256 := by
    intro l; induction l with
    | nil => intro c h; simpa using h
    | cons b l ih => intro c _; simp only [List.foldl_cons]; exact ih _ (crcByte_lt c b)
  exact this bytes _ (by decide)

theorem crcByte_xor (c b : Nat) : crcByte c b = crcByte 0 (c ^^^ b) := by
  unfold crcByte; rw [Nat.zero_xor]

/-- Quotient bits produced while the register shifts one byte out (one bit per shift, MSB first). -/
def quot8 (v : Nat) : Nat :=
  let s1 := crcShift v
  let s2 := crcShift s1
  let s3 := crcShift s2
  let s4 := crcShift s3
  let s5 := crcShift s4
  let s6 := crcShift s5
  let s7 := crcShift s6
  128 * (v / 128 % 2) + 64 * (s1 / 128 % 2) + 32 * (s2 / 128 % 2) + 16 * (s3 / 128 % 2)
    + 8 * (s4 / 128 % 2) + 4 * (s5 / 128 % 2) + 2 * (s6 / 128 % 2) + (s7 / 128 % 2)

set_option maxRecDepth 100000 in
/-- One byte through the register is one step of long division: `v · x^8 = quot8 v ⊗ G + register`.
    All 256 register contents are checked by evaluation. -/
theorem byte_division : ∀ v, v < 256 → v * 256 = clmul (quot8 v) crcG ^^^ crcByte 0 v := by
  decide

theorem mul256_add_byte (a b : Nat) (h : b < 256) : a * 256 + b = a * 256 ^^^ b := by
  apply Nat.eq_of_testBit_eq
  intro i
  rw [Nat.testBit_xor, show a * 256 + b = 2 ^ 8 * a + b by omega, Nat.testBit_two_pow_mul_add _ h,
    show a * 256 = 2 ^ 8 * a by omega, Nat.testBit_two_pow_mul]
  by_cases hi : i < 8
  · have : ¬ i ≥ 8 := by omega
    simp [hi, this]
  · have hb : b < 2 ^ i := by
      have : 2 ^ 8 ≤ 2 ^ i := Nat.pow_le_pow_right (by omega) (by omega)
      omega
    have : i ≥ 8 := by omega
    simp [hi, this, Nat.testBit_lt_two_pow hb]

theorem msgPoly_snoc (l : List Nat) (b : Nat) : msgPoly (l ++ [b]) = msgPoly l * 256 + b := by
  simp [msgPoly, List.foldl_append]

theorem crc8_snoc (l : List Nat) (b : Nat) : crc8 (l ++ [b]) = crcByte (crc8 l) b := by
  simp [crc8, List.foldl_append]

/-- `crc8` is the remainder of `msg · x^8 + init · x^(8n)` modulo the generator: there is a quotient `q` with
    `msg · x^8 ⊕ init · x^(8n) = q ⊗ G ⊕ crc8 msg`, and `crc8 msg` has degree below 8. -/
theorem crc8_division (bytes : List Nat) (hb : AllBytes bytes) :
    ∃ q, msgPoly bytes * 256 ^^^ Gen.Eeprom.CRC_INIT * 256 ^ bytes.length = clmul q crcG ^^^ crc8 bytes := by
  induction bytes using List.reverseRecOn with
  | nil => exact ⟨0, by decide⟩
  | append_singleton l b ih =>
    have hbl : AllBytes l := fun x hx => hb x (by simp [hx])
    have hbb : b < 256 := hb b (by simp)
    obtain ⟨q, hq⟩ := ih hbl
    have hc : crc8 l ^^^ b < 256 := @Nat.xor_lt_two_pow _ _ 8 (crc8_lt l) hbb
    refine ⟨q * 256 ^^^ quot8 (crc8 l ^^^ b), ?_⟩
    rw [msgPoly_snoc, crc8_snoc, List.length_append, List.length_singleton, Nat.pow_succ,
      mul256_add_byte _ _ hbb, xor_mul256, ← Nat.mul_assoc]
    -- (M·256·256 ⊕ b·256) ⊕ (init·256^k)·256 = (M·256 ⊕ init·256^k)·256 ⊕ b·256
    rw [show msgPoly l * 256 * 256 ^^^ b * 256 ^^^ Gen.Eeprom.CRC_INIT * 256 ^ l.length * 256
        = (msgPoly l * 256 * 256 ^^^ Gen.Eeprom.CRC_INIT * 256 ^ l.length * 256) ^^^ b * 256 by ac_rfl,
      ← xor_mul256, hq, xor_mul256, Nat.xor_assoc, ← xor_mul256, byte_division _ hc, ← clmul_mul256,
      clmul_add, ← crcByte_xor]
    ac_rfl

/-! ### the remainder is unique -/

theorem xor_cancel_right (a b : Nat) : (a ^^^ b) ^^^ b = a := by
  rw [Nat.xor_assoc, Nat.xor_self, Nat.xor_zero]

theorem eq_of_xor_eq_zero {a b : Nat} (h : a ^^^ b = 0) : a = b := by
  have := xor_cancel_right a b
  rw [h, Nat.zero_xor] at this
  exact this.symm

/-- A non-zero multiple of the generator has degree at least 8. -/
theorem clmul_crcG_ge : ∀ n q, q ≤ n → q ≠ 0 → 256 ≤ clmul q crcG := by
  intro n
  induction n with
  | zero => intro q h h0; omega
  | succ n ih =>
    intro q hq h0
    rw [clmul_rec]
    by_cases h1 : q / 2 = 0
    · have hq1 : q = 1 := by omega
      subst hq1
      simp [clmul_zero, crcG, Gen.Eeprom.CRC_WIDTH, Gen.Eeprom.CRC_POLY]
    · have hrec := ih (q / 2) (by omega) h1
      have hdiv : ((if q % 2 = 1 then crcG else 0) ^^^ 2 * clmul (q / 2) crcG) / 2 ^ 9
          = (if q % 2 = 1 then crcG else 0) / 2 ^ 9 ^^^ (2 * clmul (q / 2) crcG) / 2 ^ 9 := Nat.xor_div_two_pow
      have hb : (if q % 2 = 1 then crcG else 0) / 2 ^ 9 = 0 := by
        split <;> simp [crcG, Gen.Eeprom.CRC_WIDTH, Gen.Eeprom.CRC_POLY]
      rw [hb, Nat.zero_xor] at hdiv
      have : 1 ≤ (2 * clmul (q / 2) crcG) / 2 ^ 9 := by
        apply (Nat.le_div_iff_mul_le (by decide)).2; omega
      have h512 : 1 ≤ ((if q % 2 = 1 then crcG else 0) ^^^ 2 * clmul (q / 2) crcG) / 2 ^ 9 := by omega
      have := (Nat.le_div_iff_mul_le (by decide : 0 < 2 ^ 9)).1 h512
      omega

/-- Two decompositions `q ⊗ G + r` of the same polynomial with `deg r < 8` have the same remainder: the value
    `crc8` computes is THE remainder of the division. -/
theorem crc_remainder_unique (A q1 r1 q2 r2 : Nat) (h1 : A = clmul q1 crcG ^^^ r1) (h2 : A = clmul q2 crcG ^^^ r2)
    (hr1 : r1 < 256) (hr2 : r2 < 256) : r1 = r2 := by
  have hx : clmul (q1 ^^^ q2) crcG = r1 ^^^ r2 := by
    rw [clmul_add]
    have e : clmul q1 crcG ^^^ r1 = clmul q2 crcG ^^^ r2 := h1.symm.trans h2
    have : clmul q1 crcG ^^^ r1 ^^^ r1 ^^^ clmul q2 crcG = clmul q2 crcG ^^^ r2 ^^^ r1 ^^^ clmul q2 crcG := by
      rw [e]
    rw [xor_cancel_right] at this
    rw [this]
    rw [show clmul q2 crcG ^^^ r2 ^^^ r1 ^^^ clmul q2 crcG = (r2 ^^^ r1) ^^^ (clmul q2 crcG ^^^ clmul q2 crcG) by ac_rfl,
      Nat.xor_self, Nat.xor_zero, Nat.xor_comm]
  have hlt : r1 ^^^ r2 < 256 := @Nat.xor_lt_two_pow _ _ 8 hr1 hr2
  have hq : q1 ^^^ q2 = 0 := by
    by_cases h0 : q1 ^^^ q2 = 0
    · exact h0
    · have := clmul_crcG_ge _ _ (Nat.le_refl _) h0
      omega
  rw [hq, clmul_zero] at hx
  exact eq_of_xor_eq_zero hx.symm

end Ec.Eeprom
